(* RefDefs.v — the statement every operation-level theorem has: on every
   well-formed state, in a world without an armed fault, [exec o] does what
   [spec_step] says on the abstract contents: same result (positions erased),
   same contents afterwards, same user-visible events, same fresh identities;
   and it panics, leaving everything unchanged, exactly when the
   specification says the call must panic. *)

From CB Require Import Spec.
From CBP Require Import MonadLemmas Arith AbsLemmas ListLemmas AbsOps Core Step.

Definition bound_ok (b : bound) : Prop :=
  match b with BIncl x | BExcl x => in_usize x | BUnb => True end.

(* Scripts on views: a script step that writes through a mutable iterator
   cannot follow a clone of the iterator. No Rust program can do that (Iter
   has no writes, IterMut is not Clone); the model, which exhausts a clone when
   the script is over, and the specification, which lists the window as it was
   when the clone was taken, only agree on such scripts (proofs/Iters.v,
   [iter_clone_then_write_differs] shows a script on which they differ). *)
Fixpoint no_writes (script : list sstep) : bool :=
  match script with
  | [] => true
  | (SNextSet _ | SNextBackSet _) :: _ => false
  | _ :: rest => no_writes rest
  end.

Fixpoint no_clone (script : list sstep) : bool :=
  match script with
  | [] => true
  | SClone :: _ => false
  | _ :: rest => no_clone rest
  end.

Fixpoint clone_safe (script : list sstep) : bool :=
  match script with
  | [] => true
  | SClone :: rest => no_writes rest && clone_safe rest
  | _ :: rest => clone_safe rest
  end.

(* arguments are machine values: indices are usize, slices and iterators have
   fewer than 2^64 elements, other buffers are well formed *)
Definition op_ok (s : cbuf) (o : op) : Prop :=
  match o with
  | ORemove i | OSwapRemoveBack i | OSwapRemoveFront i
  | OTruncateBack i | OTruncateFront i
  | OGet i | ONthFront i | ONthBack i | OIndex i
  | OGetMutSet i _ | ONthFrontMutSet i _ | ONthBackMutSet i _ | OIndexMutSet i _ => in_usize i
  | OSwap i j => in_usize i /\ in_usize j
  | OExtend xs | OExtendRef xs | OExtendFromSlice xs | OFromArray xs | OFromIter xs
  | OEqSlice _ xs | OWrite _ xs | ORead _ xs => zlen xs < W
  | ODrain sb eb _ _ | ODrainDebug sb eb _ => bound_ok sb /\ bound_ok eb
  | ORange sb eb script | ORangeMut sb eb script
  | OIterDebug sb eb script | OIterMutDebug sb eb script =>
    (bound_ok sb /\ bound_ok eb) /\ clone_safe script = true
  | OIter script | OIterMut script
  | OIterDefault script | OIterMutDefault script | ORefIntoIter script =>
    clone_safe script = true
  | OCloneFrom other | OCmp other => WF other /\ cap other = cap s
  | OEq other | OPartialCmp other => WF other
  | OConsume _ k => in_usize k
  | _ => True
  end.

Definition refines_at (o : op) (s : cbuf) (w : world) : Prop :=
  match spec_step (cap s) (abs s) o (next_id w) with
  | SRet r =>
    exists v s',
      exec o s w = (Ok v, s', wev w (sr_evs r) (sr_nid r)) /\
      out_ok o (sr_out r) v /\ abs s' = sr_list r /\ WF s' /\ cap s' = cap s
  | SPanic =>
    exists k, exec o s w = (Panic k, s, w) /\ documented_kind k
  end.

Definition refines_op (o : op) : Prop :=
  forall s w, WF s -> fault w = None -> op_ok s o -> refines_at o s w.

(* an operation whose function-level result is a [pure_step] *)
Lemma refines_pure (o : op) s w (A : Type) (m : M A) (f : A -> out) v l' (r : out) :
  exec o s w = bind m (fun a => ret (f a)) s w ->
  spec_step (cap s) (abs s) o (next_id w) = SRet (mkSR r l' [] (next_id w)) ->
  pure_step m s w v l' -> out_ok o r (f v) ->
  refines_at o s w.
Proof.
  intros He Hs (s' & Hm & Ha & HW & Hc) Ho. unfold refines_at. rewrite Hs.
  exists (f v), s'. rewrite He. erewrite bind_ok by exact Hm. cbn [sr_evs sr_nid sr_out sr_list].
  rewrite wev_nil. unfold ret. auto.
Qed.
