(* RefPushPop.v — operation-level refinement for push / try_push / pop. *)

From CB Require Import Spec.
From CBP Require Import MonadLemmas Arith AbsLemmas ListLemmas AbsOps Core Step PushPop RefDefs.
From Coq Require Import ZifyBool.
Ltac Zify.zify_post_hook ::= Z.div_mod_to_equations.

Theorem push_back_op x : refines_op (OPushBack x).
Proof.
  intros s w HW Hf _.
  eapply refines_pure with (m := push_back x) (f := OutOpt)
    (v := fst (spec_push_back (cap s) (abs s) x)) (l' := snd (spec_push_back (cap s) (abs s) x))
    (r := OutOpt (fst (spec_push_back (cap s) (abs s) x))).
  - reflexivity.
  - cbn [spec_step]. destruct (spec_push_back (cap s) (abs s) x) as [ev l']. reflexivity.
  - apply push_back_refines. exact HW.
  - reflexivity.
Qed.

Theorem push_front_op x : refines_op (OPushFront x).
Proof.
  intros s w HW Hf _.
  eapply refines_pure with (m := push_front x) (f := OutOpt)
    (v := fst (spec_push_front (cap s) (abs s) x)) (l' := snd (spec_push_front (cap s) (abs s) x))
    (r := OutOpt (fst (spec_push_front (cap s) (abs s) x))).
  - reflexivity.
  - cbn [spec_step]. destruct (spec_push_front (cap s) (abs s) x) as [ev l']. reflexivity.
  - apply push_front_refines. exact HW.
  - reflexivity.
Qed.

Theorem try_push_back_op x : refines_op (OTryPushBack x).
Proof.
  intros s w HW Hf _. pose proof HW as HW'. wf HW'.
  pose proof (try_push_back_refines s w x HW) as H.
  unfold refines_at. cbn [spec_step]. rewrite abs_zlen by lia.
  destruct (size s <? cap s) eqn:E;
    destruct H as (s' & Hm & Ha & HW2 & Hc);
    eexists _, s'; cbn [exec]; erewrite bind_ok by exact Hm;
    cbn [sr_evs sr_nid sr_out sr_list]; rewrite wev_nil; unfold ret;
    (split; [reflexivity|]); split; [reflexivity|auto| reflexivity|auto].
Qed.

Theorem try_push_front_op x : refines_op (OTryPushFront x).
Proof.
  intros s w HW Hf _. pose proof HW as HW'. wf HW'.
  pose proof (try_push_front_refines s w x HW) as H.
  unfold refines_at. cbn [spec_step]. rewrite abs_zlen by lia.
  destruct (size s <? cap s) eqn:E;
    destruct H as (s' & Hm & Ha & HW2 & Hc);
    eexists _, s'; cbn [exec]; erewrite bind_ok by exact Hm;
    cbn [sr_evs sr_nid sr_out sr_list]; rewrite wev_nil; unfold ret;
    (split; [reflexivity|]); split; [reflexivity|auto| reflexivity|auto].
Qed.

Theorem pop_back_op : refines_op OPopBack.
Proof.
  intros s w HW Hf _.
  eapply refines_pure with (m := pop_back) (f := OutOpt);
    [reflexivity|reflexivity|apply pop_back_refines; exact HW|reflexivity].
Qed.

Theorem pop_front_op : refines_op OPopFront.
Proof.
  intros s w HW Hf _.
  eapply refines_pure with (m := pop_front) (f := OutOpt);
    [reflexivity|reflexivity|apply pop_front_refines; exact HW|reflexivity].
Qed.
