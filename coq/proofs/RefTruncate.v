(* RefTruncate.v — operation-level refinement for truncate_back,
   truncate_front, clear and for replacing the buffer by a new one. *)

From CB Require Import Spec.
From CBP Require Import MonadLemmas Arith AbsLemmas ListLemmas AbsOps Core Step Slices
     Truncate RefDefs.
From Coq Require Import ZifyBool.
Ltac Zify.zify_post_hook ::= Z.div_mod_to_equations.

(* an operation whose function-level result is an [ev_step] *)
Lemma refines_ev (o : op) s w (A : Type) (m : M A) (f : A -> out) v l' evs nid (r : out) :
  exec o s w = bind m (fun a => ret (f a)) s w ->
  spec_step (cap s) (abs s) o (next_id w) = SRet (mkSR r l' evs nid) ->
  ev_step m s w v l' evs nid -> out_ok o r (f v) ->
  refines_at o s w.
Proof.
  intros He Hs (s' & Hm & Ha & HW & Hc) Ho. unfold refines_at. rewrite Hs.
  exists (f v), s'. rewrite He. erewrite bind_ok by exact Hm. cbn [sr_evs sr_nid sr_out sr_list].
  unfold ret. auto.
Qed.

Theorem truncate_back_op k : refines_op (OTruncateBack k).
Proof.
  intros s w HW Hf Hk. cbn in Hk. unfold in_usize in Hk. pose proof HW as HW'. wf HW'.
  eapply refines_ev with (m := truncate_back k) (f := fun _ => OutUnit) (v := tt).
  - reflexivity.
  - cbn [spec_step]. rewrite abs_zlen by lia. reflexivity.
  - apply truncate_back_ok; [exact HW|exact Hf|lia].
  - reflexivity.
Qed.

Theorem truncate_front_op k : refines_op (OTruncateFront k).
Proof.
  intros s w HW Hf Hk. cbn in Hk. unfold in_usize in Hk. pose proof HW as HW'. wf HW'.
  eapply refines_ev with (m := truncate_front k) (f := fun _ => OutUnit) (v := tt).
  - reflexivity.
  - cbn [spec_step]. rewrite abs_zlen by lia. reflexivity.
  - apply truncate_front_ok; [exact HW|exact Hf|lia].
  - reflexivity.
Qed.

Theorem clear_op : refines_op OClear.
Proof.
  intros s w HW Hf _.
  eapply refines_ev with (m := clear) (f := fun _ => OutUnit) (v := tt).
  - reflexivity.
  - reflexivity.
  - apply clear_ok; assumption.
  - reflexivity.
Qed.

Lemma with_buf_ok {A} (b : cbuf) (m : M A) s w a b' w' :
  m b w = (Ok a, b', w') -> with_buf b m s w = (Ok (a, b'), s, w').
Proof. intros H. unfold with_buf. rewrite H. reflexivity. Qed.

(* let old = mem::replace(&mut buf, nb); drop(old) *)
Lemma replace_buf_ok nb s w :
  WF s -> fault w = None ->
  replace_buf nb s w = (Ok tt, nb, wev w (drops (abs s)) (next_id w)).
Proof.
  intros HW Hf. unfold replace_buf. mcbn.
  destruct (drop_buf_ok s w HW Hf) as (s' & Hd & _).
  erewrite bind_ok by (apply with_buf_ok; exact Hd). reflexivity.
Qed.

Lemma WF_new n junk : 0 <= n < W -> WF (new_buf n junk).
Proof. intros. unfold new_buf. apply WF_mk; lia. Qed.

Theorem new_op : refines_op ONew.
Proof.
  intros s w HW Hf _. pose proof HW as HW'. wf HW'.
  unfold refines_at. cbn [spec_step exec].
  exists OutUnit, (new_buf (cap s) junk0). mcbn.
  erewrite bind_ok by (apply replace_buf_ok; assumption).
  cbn [sr_evs sr_nid sr_out sr_list]. unfold ret.
  split; [reflexivity|]. split; [reflexivity|].
  split; [apply abs_empty; reflexivity|]. split; [apply WF_new; lia|reflexivity].
Qed.
