(* RemoveSwap.v — remove / swap / swap_remove_back / swap_remove_front refine
   the specification's list operations on every well-formed state. *)

From CB Require Import Spec.
From CBP Require Import MonadLemmas Arith AbsLemmas ListLemmas AbsOps Core Step PushPop RefDefs.
From Coq Require Import ZifyBool.
Ltac Zify.zify_post_hook ::= Z.div_mod_to_equations.

Ltac blem_user ::=
  first [ apply add_mod_ok; mcbn; lia | apply sub_mod_ok; mcbn; lia
        | apply inc_start_ok; mcbn; lia | apply dec_start_ok; mcbn; lia
        | apply inc_size_ok; mcbn; lia | apply dec_size_ok; mcbn; lia
        | apply front_maybe_uninit_ok; mcbn; lia
        | apply front_maybe_uninit_mut_ok; mcbn; lia
        | apply back_maybe_uninit_ok; mcbn; lia
        | apply get_maybe_uninit_ok; mcbn; lia ].

(* ---- the monad: associativity of bind ---------------------------------------- *)

Lemma bind_assoc {A B C} (m : M A) (f : A -> M B) (k : B -> M C) s w :
  bind (bind m f) k s w = bind m (fun a => bind (f a) k) s w.
Proof. unfold bind. destruct (m s w) as [[[a|p] s'] w']; reflexivity. Qed.

(* [bsteps] that also looks inside a nested first computation *)
Ltac bsteps' :=
  repeat first [ progress mcbn | ifb | bstep | rewrite bind_assoc ];
  try solve [ reflexivity | blem ].

(* ---- set_nth / swap_nth, read pointwise ---------------------------------------- *)

Lemma length_set_nth {A} i (v : A) l : length (set_nth i v l) = length l.
Proof.
  unfold set_nth. destruct (Nat.ltb i (length l)) eqn:E; [|reflexivity].
  rewrite app_length, firstn_length. cbn [length]. rewrite skipn_length. lia.
Qed.

Lemma zn_set_nth i v l k :
  (i < length l)%nat -> 0 <= k ->
  zn (set_nth i v l) k = if k =? Z.of_nat i then v else zn l k.
Proof.
  intros Hi Hk. unfold set_nth. replace (Nat.ltb i (length l)) with true by lia.
  assert (Hl : zlen (firstn i l) = Z.of_nat i) by (rewrite zlen_firstn; unfold zlen; lia).
  destruct (Z.compare_spec k (Z.of_nat i)) as [->|Hlt|Hgt].
  - rewrite Z.eqb_refl. rewrite zn_app2 by lia. rewrite Hl, Z.sub_diag. reflexivity.
  - replace (k =? Z.of_nat i) with false by lia. rewrite zn_app1 by lia.
    apply zn_firstn. lia.
  - replace (k =? Z.of_nat i) with false by lia. rewrite zn_app2 by lia. rewrite Hl.
    rewrite zn_consS by lia. rewrite zn_skipn by lia. f_equal. lia.
Qed.

Lemma swap_nth_eq i j (l : list elem) :
  (i < length l)%nat -> (j < length l)%nat ->
  swap_nth i j l = set_nth j (zn l (Z.of_nat i)) (set_nth i (zn l (Z.of_nat j)) l).
Proof.
  intros Hi Hj. unfold swap_nth.
  rewrite (nth_error_nth' l dflt Hi), (nth_error_nth' l dflt Hj).
  unfold zn. rewrite !Nat2Z.id. reflexivity.
Qed.

Lemma length_swap_nth {A} i j (l : list A) : length (swap_nth i j l) = length l.
Proof.
  unfold swap_nth. destruct (nth_error l i), (nth_error l j);
    rewrite ?length_set_nth; reflexivity.
Qed.

Lemma zn_swap_nth i j l k :
  (i < length l)%nat -> (j < length l)%nat -> 0 <= k ->
  zn (swap_nth i j l) k =
    if k =? Z.of_nat j then zn l (Z.of_nat i)
    else if k =? Z.of_nat i then zn l (Z.of_nat j) else zn l k.
Proof.
  intros Hi Hj Hk. rewrite swap_nth_eq by assumption.
  rewrite zn_set_nth by (rewrite ?length_set_nth; lia).
  rewrite zn_set_nth by lia. reflexivity.
Qed.

Lemma swap_nth_nonempty i j (l : list elem) : l <> [] -> swap_nth i j l <> [].
Proof.
  intros H E. apply (f_equal (@length elem)) in E. rewrite length_swap_nth in E.
  destruct l; [congruence|discriminate E].
Qed.

Lemma last_error_swap_nth i (l : list elem) :
  (i < length l)%nat -> last_error (swap_nth i (length l - 1) l) = nth_error l i.
Proof.
  intros Hi. rewrite zn_last by (apply swap_nth_nonempty; destruct l; [cbn in Hi; lia|congruence]).
  unfold zlen. rewrite length_swap_nth. rewrite zn_swap_nth by lia.
  replace (Z.of_nat (length l) - 1 =? Z.of_nat (length l - 1)) with true by lia.
  rewrite (nth_error_nth' l dflt Hi). unfold zn. rewrite Nat2Z.id. reflexivity.
Qed.

Lemma hd_error_swap_nth i (l : list elem) :
  (i < length l)%nat -> hd_error (swap_nth i 0 l) = nth_error l i.
Proof.
  intros Hi. rewrite hd_error_zn by (apply swap_nth_nonempty; destruct l; [cbn in Hi; lia|congruence]).
  rewrite zn_swap_nth by lia. change (0 =? Z.of_nat 0) with true. cbv iota.
  rewrite (nth_error_nth' l dflt Hi). unfold zn. rewrite Nat2Z.id. reflexivity.
Qed.

(* ---- the store operations on the abstract list ------------------------------------ *)

Lemma s_copy_in f src dst n k : dst <= k < dst + n -> s_copy f src dst n k = f (k - dst + src).
Proof. intros H. unfold s_copy. replace ((dst <=? k) && (k <? dst + n)) with true by lia. reflexivity. Qed.

Lemma s_copy_out f src dst n k : k < dst \/ dst + n <= k -> s_copy f src dst n k = f k.
Proof. intros H. unfold s_copy. replace ((dst <=? k) && (k <? dst + n)) with false by lia. reflexivity. Qed.

(* swapping two occupied slots *)
Lemma abs_swap s i j :
  0 < cap s -> 0 <= start s < cap s -> 0 <= size s <= cap s ->
  0 <= i < size s -> 0 <= j < size s ->
  abs (b_items s (s_swap (items s) (phys s i) (phys s j)))
  = swap_nth (Z.to_nat i) (Z.to_nat j) (abs s).
Proof.
  intros Hc Hs Hz Hi Hj. apply zn_ext.
  - unfold zlen. rewrite length_swap_nth, !abs_length. reflexivity.
  - intros k Hk. rewrite abs_zlen in Hk by slia. cbn [size b_items] in Hk.
    rewrite zn_abs by slia. rewrite phys_b_items. cbn [items b_items].
    rewrite zn_swap_nth by (rewrite ?abs_length; lia). rewrite !Z2Nat.id by lia.
    rewrite !zn_abs by lia. unfold s_swap.
    destruct (Z.eq_dec k j) as [->|Hkj].
    + rewrite (Z.eqb_refl j). destruct (Z.eq_dec j i) as [->|Hji].
      * rewrite Z.eqb_refl. reflexivity.
      * rewrite (phys_neq s j i) by lia. rewrite Z.eqb_refl. reflexivity.
    + replace (k =? j) with false by lia. destruct (Z.eq_dec k i) as [->|Hki].
      * rewrite !Z.eqb_refl. reflexivity.
      * replace (k =? i) with false by lia.
        rewrite (phys_neq s k i), (phys_neq s k j) by lia. reflexivity.
Qed.

(* a store that agrees with the old one before position i and with the old
   one shifted by one from position i on *)
Lemma abs_remove_gen s f' i :
  0 <= i < size s ->
  (forall j, 0 <= j < i -> f' (phys s j) = items s (phys s j)) ->
  (forall j, i <= j < size s - 1 -> f' (phys s j) = items s (phys s (j + 1))) ->
  abs (mkB (cap s) (size s - 1) (start s) f') = remove_nth (Z.to_nat i) (abs s).
Proof.
  intros Hi H1 H2. unfold remove_nth. apply zn_ext.
  - rewrite zlen_app, zlen_firstn, zlen_skipn, !abs_zlen by slia. slia.
  - intros j Hj. rewrite abs_zlen in Hj by slia. cbn [size] in Hj.
    rewrite zn_abs by slia. rewrite phys_mkB. fold (phys s j). cbn [items].
    destruct (Z_lt_ge_dec j i).
    + rewrite zn_app1 by (rewrite zlen_firstn, abs_zlen; lia).
      rewrite zn_firstn by lia. rewrite zn_abs by lia. apply H1; lia.
    + rewrite zn_app2 by (rewrite zlen_firstn, abs_zlen; lia).
      rewrite zlen_firstn, abs_zlen by lia.
      rewrite zn_skipn by lia. rewrite zn_abs by lia. rewrite H2 by lia.
      f_equal. f_equal. lia.
Qed.

Ltac phys_cases s k :=
  let H := fresh "Hp" in let E := fresh "Ep" in
  destruct (phys_spec s k) as [[H E]|[H E]]; try lia.

Ltac copy_step := first [ rewrite s_copy_in by lia | rewrite s_copy_out by lia ].

(* remove, the removed position and the back in the same run of the array:
   one ptr::copy *)
Lemma abs_remove_nowrap s i :
  0 < cap s -> 0 <= start s < cap s -> 0 <= size s <= cap s -> 0 <= i < size s ->
  phys s i <= phys s (size s - 1) ->
  abs (mkB (cap s) (size s - 1) (start s)
           (s_copy (items s) (phys s i + 1) (phys s i) (phys s (size s - 1) - phys s i)))
  = remove_nth (Z.to_nat i) (abs s).
Proof.
  intros Hc Hs Hz Hi Hle. apply abs_remove_gen; [lia| |]; intros j Hj.
  - phys_cases s i; phys_cases s (size s - 1); phys_cases s j;
      copy_step; reflexivity.
  - phys_cases s i; phys_cases s (size s - 1); phys_cases s j; phys_cases s (j + 1);
      copy_step; f_equal; lia.
Qed.

(* remove, the back has wrapped around and the removed position has not:
   three copies *)
Lemma abs_remove_wrap s i :
  0 < cap s -> 0 <= start s < cap s -> 0 <= size s <= cap s -> 0 <= i < size s ->
  phys s (size s - 1) < phys s i ->
  abs (mkB (cap s) (size s - 1) (start s)
           (s_copy
              (s_copy
                 (s_copy (items s) (phys s i + 1) (phys s i) (cap s - phys s i - 1))
                 0 (cap s - 1) 1)
              1 0 (phys s (size s - 1))))
  = remove_nth (Z.to_nat i) (abs s).
Proof.
  intros Hc Hs Hz Hi Hle. apply abs_remove_gen; [lia| |]; intros j Hj.
  - phys_cases s i; phys_cases s (size s - 1); phys_cases s j;
      do 3 copy_step; reflexivity.
  - phys_cases s i; phys_cases s (size s - 1); phys_cases s j; phys_cases s (j + 1);
      do 3 copy_step; f_equal; lia.
Qed.

(* ---- swap --------------------------------------------------------------------------- *)

Theorem swap_refines s w i j :
  WF s -> 0 <= i < size s -> 0 <= j < size s ->
  pure_step (swap i j) s w tt (swap_nth (Z.to_nat i) (Z.to_nat j) (abs s)).
Proof.
  intros HW Hi Hj. pose proof HW as HW'. wf HW'. specialize (Hst ltac:(lia)).
  unfold pure_step, swap.
  destruct (Z.eq_dec i j) as [->|Hne].
  - (* same position: nothing happens *)
    exists s. bsteps. split; [reflexivity|]. split; [|auto].
    rewrite <- abs_swap by lia. apply abs_ext; [reflexivity|].
    intros k Hk. rewrite phys_b_items. cbn [items b_items]. unfold s_swap.
    destruct (phys s k =? phys s j) eqn:E; [|reflexivity].
    apply Z.eqb_eq in E. rewrite E. reflexivity.
  - eexists. bsteps. split; [reflexivity|].
    split; [|split].
    + rewrite <- abs_swap by lia. reflexivity.
    + apply WF_mk; cbn; lia.
    + reflexivity.
Qed.

Lemma swap_panics s w i j :
  WF s -> 0 <= i -> 0 <= j -> (size s <= i \/ size s <= j) ->
  swap i j s w = (Panic PAssert, s, w).
Proof.
  intros HW Hi Hj Hor. unfold swap. mcbn.
  destruct (Z_lt_ge_dec i (size s)) as [Hlt|Hge].
  - bstep. erewrite bind_panic by (apply assert_fail; lia). reflexivity.
  - erewrite bind_panic by (apply assert_fail; lia). reflexivity.
Qed.

(* ---- remove ------------------------------------------------------------------------- *)

Theorem remove_refines s w i :
  WF s -> 0 <= i < W ->
  pure_step (remove i) s w
    (if i <? size s then nth_error (abs s) (Z.to_nat i) else None)
    (if i <? size s then remove_nth (Z.to_nat i) (abs s) else abs s).
Proof.
  intros HW Hi. pose proof HW as HW'. wf HW'.
  unfold pure_step, remove.
  destruct (Z_lt_ge_dec i (size s)) as [Hlt|Hge].
  2:{ exists s. replace (i <? size s) with false by lia. bsteps. auto. }
  replace (i <? size s) with true by lia.
  specialize (Hst ltac:(lia)).
  rewrite zn_nth_error by (rewrite abs_zlen; lia). rewrite zn_abs by lia.
  destruct (Z_le_gt_dec (phys s i) (phys s (size s - 1))) as [Hle|Hgt].
  - (* one run *)
    pose proof (abs_remove_nowrap s i ltac:(lia) Hst ltac:(lia) ltac:(lia) Hle) as Ha.
    unfold phys in *.
    eexists. bsteps'. split; [reflexivity|].
    split; [|split].
    + rewrite <- Ha. reflexivity.
    + apply WF_mk; cbn; lia.
    + reflexivity.
  - (* the back has wrapped *)
    pose proof (abs_remove_wrap s i ltac:(lia) Hst ltac:(lia) ltac:(lia) ltac:(lia)) as Ha.
    unfold phys in *.
    eexists. bsteps'. split; [reflexivity|].
    split; [|split].
    + rewrite <- Ha. reflexivity.
    + apply WF_mk; cbn; lia.
    + reflexivity.
Qed.

(* ---- swap_remove_back / swap_remove_front --------------------------------------------- *)

Theorem swap_remove_back_refines s w i :
  WF s -> 0 <= i ->
  pure_step (swap_remove_back i) s w
    (if i <? size s then nth_error (abs s) (Z.to_nat i) else None)
    (if i <? size s
     then removelast (swap_nth (Z.to_nat i) (length (abs s) - 1)%nat (abs s))
     else abs s).
Proof.
  intros HW Hi. pose proof HW as HW'. wf HW'.
  unfold pure_step, swap_remove_back.
  destruct (Z_lt_ge_dec i (size s)) as [Hlt|Hge].
  2:{ exists s. replace (i <? size s) with false by lia. bsteps. auto. }
  replace (i <? size s) with true by lia.
  destruct (swap_refines s w i (size s - 1) HW ltac:(lia) ltac:(lia))
    as (s1 & Hm1 & Ha1 & HW1 & Hc1).
  destruct (pop_back_refines s1 w HW1) as (s2 & Hm2 & Ha2 & HW2 & Hc2).
  replace (Z.to_nat (size s - 1)) with (length (abs s) - 1)%nat in Ha1
    by (rewrite abs_length; lia).
  exists s2. mcbn. ifb. bstep. erewrite bind_ok by exact Hm1. rewrite Hm2.
  rewrite Ha1 in *.
  rewrite last_error_swap_nth by (rewrite abs_length; lia).
  split; [reflexivity|]. split; [exact Ha2|]. split; [exact HW2|]. congruence.
Qed.

Theorem swap_remove_front_refines s w i :
  WF s -> 0 <= i ->
  pure_step (swap_remove_front i) s w
    (if i <? size s then nth_error (abs s) (Z.to_nat i) else None)
    (if i <? size s then tl (swap_nth (Z.to_nat i) 0 (abs s)) else abs s).
Proof.
  intros HW Hi. pose proof HW as HW'. wf HW'.
  unfold pure_step, swap_remove_front.
  destruct (Z_lt_ge_dec i (size s)) as [Hlt|Hge].
  2:{ exists s. replace (i <? size s) with false by lia. bsteps. auto. }
  replace (i <? size s) with true by lia.
  destruct (swap_refines s w i 0 HW ltac:(lia) ltac:(lia))
    as (s1 & Hm1 & Ha1 & HW1 & Hc1).
  destruct (pop_front_refines s1 w HW1) as (s2 & Hm2 & Ha2 & HW2 & Hc2).
  change (Z.to_nat 0) with 0%nat in Ha1.
  exists s2. mcbn. ifb. erewrite bind_ok by exact Hm1. rewrite Hm2.
  rewrite Ha1 in *.
  rewrite hd_error_swap_nth by (rewrite abs_length; lia).
  split; [reflexivity|]. split; [exact Ha2|]. split; [exact HW2|]. congruence.
Qed.

(* ---- operation level -------------------------------------------------------------------- *)

(* an operation returning an Option whose function-level result is a
   [pure_step], with the specification in the matching form *)
Lemma refines_opt (o : op) s w (m : M (option elem)) v l' :
  exec o s w = bind m (fun a => ret (OutOpt a)) s w ->
  spec_step (cap s) (abs s) o (next_id w) = SRet (mkSR (OutOpt v) l' [] (next_id w)) ->
  (match o with OFillBuf _ => False | _ => True end) ->
  pure_step m s w v l' ->
  refines_at o s w.
Proof.
  intros He Hs Ho Hp.
  eapply refines_pure with (m := m) (f := OutOpt) (v := v) (l' := l') (r := OutOpt v);
    [exact He|exact Hs|exact Hp|].
  destruct o; try reflexivity. destruct Ho.
Qed.

Theorem remove_op i : refines_op (ORemove i).
Proof.
  intros s w HW Hf Hok. cbn [op_ok] in Hok. unfold in_usize in Hok.
  pose proof HW as HW'. wf HW'.
  pose proof (remove_refines s w i HW Hok) as H.
  eapply refines_opt; [reflexivity| |exact I|exact H].
  cbn [spec_step]. unfold nat_of. rewrite abs_zlen by lia.
  destruct (i <? size s); reflexivity.
Qed.

Theorem swap_op i j : refines_op (OSwap i j).
Proof.
  intros s w HW Hf Hok. cbn [op_ok] in Hok. unfold in_usize in Hok. destruct Hok as [Hi Hj].
  pose proof HW as HW'. wf HW'.
  unfold refines_at. cbn [spec_step]. unfold nat_of. rewrite abs_zlen by lia.
  destruct ((i <? size s) && (j <? size s)) eqn:E.
  - destruct (swap_refines s w i j HW ltac:(lia) ltac:(lia)) as (s' & Hm & Ha & HW2 & Hc).
    exists OutUnit, s'. cbn [exec]. erewrite bind_ok by exact Hm.
    cbn [sr_evs sr_nid sr_out sr_list]. rewrite wev_nil. unfold ret.
    split; [reflexivity|]. split; [reflexivity|]. auto.
  - exists PAssert. split; [|left; reflexivity].
    cbn [exec]. erewrite bind_panic by (apply swap_panics; [exact HW|lia|lia|lia]).
    reflexivity.
Qed.

Theorem swap_remove_back_op i : refines_op (OSwapRemoveBack i).
Proof.
  intros s w HW Hf Hok. cbn [op_ok] in Hok. unfold in_usize in Hok.
  pose proof HW as HW'. wf HW'.
  pose proof (swap_remove_back_refines s w i HW ltac:(lia)) as H.
  eapply refines_opt; [reflexivity| |exact I|exact H].
  cbn [spec_step]. unfold nat_of. rewrite abs_zlen by lia.
  destruct (i <? size s); reflexivity.
Qed.

Theorem swap_remove_front_op i : refines_op (OSwapRemoveFront i).
Proof.
  intros s w HW Hf Hok. cbn [op_ok] in Hok. unfold in_usize in Hok.
  pose proof HW as HW'. wf HW'.
  pose proof (swap_remove_front_refines s w i HW ltac:(lia)) as H.
  eapply refines_opt; [reflexivity| |exact I|exact H].
  cbn [spec_step]. unfold nat_of. rewrite abs_zlen by lia.
  destruct (i <? size s); reflexivity.
Qed.
