(* Slices.v — as_slices / as_mut_slices return two in-bounds views whose
   elements, first view then second, are exactly the abstract contents. *)

From CB Require Import Spec.
From CBP Require Import MonadLemmas Arith AbsLemmas ListLemmas AbsOps Core Step.
From Coq Require Import ZifyBool.
Ltac Zify.zify_post_hook ::= Z.div_mod_to_equations.

Ltac blem_user ::=
  first [ apply add_mod_ok; mcbn; lia | apply sub_mod_ok; mcbn; lia ].

(* ---- elements of a view -------------------------------------------------- *)

Lemma sl_elems_zlen f sl : 0 <= slen sl -> zlen (sl_elems f sl) = slen sl.
Proof. intros. unfold sl_elems, zlen. rewrite map_length, zseq_length. lia. Qed.

Lemma sl_elems_length f sl : length (sl_elems f sl) = Z.to_nat (slen sl).
Proof. unfold sl_elems. rewrite map_length, zseq_length. reflexivity. Qed.

Lemma zn_sl_elems f sl i : 0 <= i < slen sl -> zn (sl_elems f sl) i = f (soff sl + i).
Proof.
  intros H. unfold zn, sl_elems.
  rewrite nth_map_lt with (d0 := 0) by (rewrite zseq_length; lia).
  rewrite zseq_nth by lia. f_equal. lia.
Qed.

Lemma sl_elems_empty f sl : slen sl <= 0 -> sl_elems f sl = [].
Proof.
  intros H. unfold sl_elems. replace (Z.to_nat (slen sl)) with 0%nat by lia. reflexivity.
Qed.

(* a view is inside the array *)
Definition sl_ok (s : cbuf) (sl : slice) : Prop :=
  0 <= soff sl /\ 0 <= slen sl /\ soff sl + slen sl <= cap s.

(* ---- what as_slices returns ------------------------------------------------ *)

Definition as_slices_val (s : cbuf) : slice * slice :=
  if (cap s =? 0) || (size s =? 0) then (empty_slice, empty_slice)
  else if start s + size s <? cap s then (mkS (start s) (size s), empty_slice)
  else (mkS (start s) (cap s - start s), mkS 0 (start s + size s - cap s)).

Theorem as_slices_ok s w : WF s -> as_slices s w = (Ok (as_slices_val s), s, w).
Proof.
  intros HW. wf HW. unfold as_slices, as_slices_val. mcbn.
  destruct ((cap s =? 0) || (size s =? 0)) eqn:E0; [reflexivity|].
  specialize (Hst ltac:(lia)).
  bstep. bstep. bstep. cbv beta.
  destruct (start s + size s <? cap s) eqn:E1.
  - rewrite Z.mod_small by lia.
    replace (start s <? start s + size s) with true by lia.
    bsteps. unfold ret. rewrite ?Z.add_0_l. replace (start s + size s - start s) with (size s) by lia. reflexivity.
  - assert (E : (start s + size s) mod cap s = start s + size s - cap s).
    { symmetry. apply Z.mod_unique with (q := 1); lia. }
    rewrite E.
    replace (start s <? start s + size s - cap s) with false by lia.
    bsteps. unfold ret. rewrite ?Z.add_0_l, ?Z.sub_0_r. reflexivity.
Qed.

Theorem as_mut_slices_ok s w : WF s -> as_mut_slices s w = (Ok (as_slices_val s), s, w).
Proof. apply as_slices_ok. Qed.

Theorem as_slices_val_ok s :
  WF s ->
  let '(a, b) := as_slices_val s in
  sl_ok s a /\ sl_ok s b /\ slen a + slen b = size s /\ (slen a = 0 -> slen b = 0).
Proof.
  intros HW. wf HW. unfold as_slices_val, sl_ok.
  destruct ((cap s =? 0) || (size s =? 0)) eqn:E0; [cbn; lia|].
  specialize (Hst ltac:(lia)).
  destruct (start s + size s <? cap s) eqn:E1; cbn; lia.
Qed.

Theorem as_slices_val_abs s :
  WF s ->
  sl_elems (items s) (fst (as_slices_val s)) ++ sl_elems (items s) (snd (as_slices_val s))
  = abs s.
Proof.
  intros HW. wf HW. unfold as_slices_val.
  destruct ((cap s =? 0) || (size s =? 0)) eqn:E0.
  - cbn. symmetry. apply abs_empty. lia.
  - specialize (Hst ltac:(lia)).
    destruct (start s + size s <? cap s) eqn:E1; cbn [fst snd].
    + rewrite (sl_elems_empty _ empty_slice) by (cbn; lia). rewrite app_nil_r.
      apply zn_ext.
      * rewrite sl_elems_zlen, abs_zlen by (cbn; lia). reflexivity.
      * intros i Hi. rewrite sl_elems_zlen in Hi by (cbn; lia). cbn in Hi.
        rewrite zn_sl_elems by (cbn; lia). rewrite zn_abs by lia. cbn [soff].
        unfold phys. rewrite Z.mod_small by lia. reflexivity.
    + apply zn_ext.
      * rewrite zlen_app, !sl_elems_zlen, abs_zlen by (cbn; lia). cbn. lia.
      * intros i Hi. rewrite zlen_app, !sl_elems_zlen in Hi by (cbn; lia). cbn in Hi.
        rewrite zn_abs by lia.
        destruct (Z_lt_ge_dec i (cap s - start s)) as [Hlt|Hge].
        -- rewrite zn_app1 by (rewrite sl_elems_zlen; cbn; lia).
           rewrite zn_sl_elems by (cbn; lia). cbn [soff].
           unfold phys. rewrite Z.mod_small by lia. reflexivity.
        -- rewrite zn_app2 by (rewrite sl_elems_zlen; cbn; lia).
           rewrite sl_elems_zlen by (cbn; lia). cbn [slen].
           rewrite zn_sl_elems by (cbn; lia). cbn [soff].
           unfold phys. f_equal. apply Z.mod_unique with (q := 1); lia.
Qed.
