(* SpecCorollaries.v — what the specification [spec_step] itself guarantees,
   stated on plain lists so that the properties can be read off without
   studying [spec_script]:
   (A) no operation allocates except to_vec;
   (B) the double-ended, exact-size iteration protocol of iter / range /
       into_iter / drain;
   (C) all read-only views present the same sequence.
   Together with [exec_refines] (AllOps.v) each statement transfers to the
   model of the Rust code; [exec_meets_spec] below is the bridge. *)

From CB Require Import Spec.
From CBP Require Import MonadLemmas Arith AbsLemmas ListLemmas AbsOps Core Step RefDefs AllOps.
From Coq Require Import ZifyBool.
Ltac Zify.zify_post_hook ::= Z.div_mod_to_equations.

(* ---- the bridge: what a normal return of the model means -------------------- *)

Theorem exec_meets_spec o s w v s' w' :
  WF s -> fault w = None -> op_ok s o ->
  exec o s w = (Ok v, s', w') ->
  exists r, spec_step (cap s) (abs s) o (next_id w) = SRet r /\
            out_ok o (sr_out r) v /\ abs s' = sr_list r /\
            log w' = log w ++ sr_evs r /\ next_id w' = sr_nid r /\
            WF s' /\ cap s' = cap s.
Proof.
  intros HW Hf Hok He.
  destruct (step_cases o s w HW Hf Hok)
    as [(r & v0 & s0 & Hs & He0 & Hout & Ha & HW' & Hc)|(k & _ & He0 & _)];
    rewrite He in He0; [|discriminate].
  inversion He0; subst. exists r. cbn [log next_id wev]. tauto.
Qed.

(* ====================================================================== *)
(* (A) allocation                                                          *)
(* ====================================================================== *)

Definition elem_eq_dec (a b : elem) : {a = b} + {a <> b}.
Proof. decide equality; apply Z.eq_dec. Defined.

Definition event_eq_dec (a b : event) : {a = b} + {a <> b}.
Proof. decide equality; try apply elem_eq_dec; apply Z.eq_dec. Defined.

(* "no allocation among these events" *)
Definition NA (evs : list event) : Prop := ~ In EvAlloc evs.

Lemma NA_nil : NA [].
Proof. intros []. Qed.

Lemma NA_app a b : NA a -> NA b -> NA (a ++ b).
Proof. unfold NA. intros Ha Hb H. apply in_app_or in H. tauto. Qed.

Lemma NA_cons e a : e <> EvAlloc -> NA a -> NA (e :: a).
Proof. unfold NA. intros He Ha [H|H]; [congruence|tauto]. Qed.

Lemma NA_map (f : elem -> event) l : (forall x, f x <> EvAlloc) -> NA (map f l).
Proof.
  intros Hf H. apply in_map_iff in H. destruct H as (x & Hx & _). exact (Hf x Hx).
Qed.

Lemma NA_drops l : NA (drops l).
Proof. apply NA_map. discriminate. Qed.

Lemma NA_opt_drop o : NA (opt_drop o).
Proof. destruct o; [apply NA_cons; [discriminate|apply NA_nil]|apply NA_nil]. Qed.

Lemma NA_clone_evs l : forall nid, NA (clone_evs nid l).
Proof.
  induction l as [|x l IH]; intros nid; [apply NA_nil|].
  cbn [clone_evs]. apply NA_cons; [discriminate|apply IH].
Qed.

Lemma NA_spec_extend N xs : forall l, NA (snd (spec_extend N l xs)).
Proof.
  induction xs as [|x xs IH]; intros l; cbn [spec_extend].
  - apply NA_cons; [discriminate|apply NA_nil].
  - destruct (spec_push_back N l x) as [ev l1].
    specialize (IH l1). destruct (spec_extend N l1 xs) as [l2 evs]. cbn [snd] in *.
    apply NA_cons; [discriminate|]. apply NA_app; [apply NA_opt_drop|exact IH].
Qed.

Lemma NA_spec_extend_from_slice N l xs nid :
  NA (snd (fst (spec_extend_from_slice N l xs nid))).
Proof.
  unfold spec_extend_from_slice. destruct (N =? 0); cbn [fst snd]; [apply NA_nil|].
  apply NA_app; [apply NA_drops|apply NA_clone_evs].
Qed.

Lemma NA_spec_list_eq f xs : forall ys, NA (snd (spec_list_eq f xs ys)).
Proof.
  induction xs as [|x xs IH]; intros [|y ys]; cbn [spec_list_eq snd]; try apply NA_nil.
  destruct (f x y).
  - specialize (IH ys). destruct (spec_list_eq f xs ys) as [b evs]. cbn [snd] in *.
    apply NA_cons; [discriminate|exact IH].
  - cbn [snd]. apply NA_cons; [discriminate|apply NA_nil].
Qed.

Lemma NA_spec_eq f xs ys : NA (snd (spec_eq f xs ys)).
Proof.
  unfold spec_eq. destruct (zlen xs =? zlen ys); [apply NA_spec_list_eq|apply NA_nil].
Qed.

Lemma NA_spec_cmp f xs : forall ys, NA (snd (spec_cmp f xs ys)).
Proof.
  induction xs as [|x xs IH]; intros [|y ys]; cbn [spec_cmp snd]; try apply NA_nil.
  destruct (f x y) as [[| |]|]; cbn [snd];
    try (apply NA_cons; [discriminate|apply NA_nil]).
  specialize (IH ys). destruct (spec_cmp f xs ys) as [r evs]. cbn [snd] in *.
  apply NA_cons; [discriminate|exact IH].
Qed.

Local Ltac na :=
  repeat first
    [ apply NA_nil | apply NA_drops | apply NA_clone_evs | apply NA_opt_drop
    | apply NA_app | apply NA_cons; [discriminate|]
    | apply NA_map; discriminate ].

(* every operation other than to_vec and boxed: no allocation event *)
Lemma spec_no_alloc N l o nid r :
  spec_step N l o nid = SRet r -> o <> OToVec -> o <> OBoxed -> NA (sr_evs r).
Proof.
  intros H Hne Hnb. destruct o; try congruence; clear Hne Hnb; cbn [spec_step] in H.
  all: try (inversion H; subst; cbn [sr_evs]; na; fail).
  all: try (match type of H with
            | context [spec_push_back ?a ?b ?c] => destruct (spec_push_back a b c)
            | context [spec_push_front ?a ?b ?c] => destruct (spec_push_front a b c)
            end; inversion H; subst; cbn [sr_evs]; na; fail).
  all: try (match type of H with
            | context [if ?c then _ else _] => destruct c
            end; inversion H; subst; cbn [sr_evs]; na; fail).
  - (* extend *)
    pose proof (NA_spec_extend N xs l) as HN. destruct (spec_extend N l xs).
    inversion H; subst. exact HN.
  - (* extend_from_slice *)
    pose proof (NA_spec_extend_from_slice N l xs nid) as HN.
    destruct (spec_extend_from_slice N l xs nid) as [[? ?] ?]. inversion H; subst. exact HN.
  - (* drain *)
    destruct (spec_bounds (zlen l) sb eb) as [[a b]|]; [|discriminate].
    destruct (spec_script l (nat_of a) (nat_of b) (map plain_step script)) as [[rs l0] [lo hi]].
    destruct forget; inversion H; subst; cbn [sr_evs]; na.
  - (* iter *)
    destruct (spec_script l 0 (length l) script) as [[rs l0] ?]. inversion H; subst. na.
  - (* range *)
    destruct (spec_bounds (zlen l) sb eb) as [[a b]|]; [|discriminate].
    destruct (spec_script l (nat_of a) (nat_of b) script) as [[rs l0] ?]. inversion H; subst. na.
  - (* iter_mut *)
    destruct (spec_script l 0 (length l) script) as [[rs l0] ?]. inversion H; subst. na.
  - (* range_mut *)
    destruct (spec_bounds (zlen l) sb eb) as [[a b]|]; [|discriminate].
    destruct (spec_script l (nat_of a) (nat_of b) script) as [[rs l0] ?]. inversion H; subst. na.
  - (* into_iter *)
    destruct (spec_script l 0 (length l) (map plain_step script)) as [[rs l0] [lo hi]].
    inversion H; subst. na.
  - (* from_iter *)
    pose proof (NA_spec_extend N xs []) as HN. destruct (spec_extend N [] xs).
    inversion H; subst. cbn [sr_evs]. apply NA_app; [exact HN|na].
  - (* eq *)
    pose proof (NA_spec_eq val_eqb l (abs other)) as HN. destruct (spec_eq val_eqb l (abs other)).
    inversion H; subst. exact HN.
  - (* eq_slice *)
    pose proof (NA_spec_eq val_eqb l xs) as HN. destruct (spec_eq val_eqb l xs).
    inversion H; subst. exact HN.
  - (* partial_cmp *)
    pose proof (NA_spec_cmp val_cmp l (abs other)) as HN. destruct (spec_cmp val_cmp l (abs other)).
    inversion H; subst. exact HN.
  - (* cmp *)
    pose proof (NA_spec_cmp val_ord l (abs other)) as HN. destruct (spec_cmp val_ord l (abs other)).
    inversion H; subst. exact HN.
  - (* write *)
    pose proof (NA_spec_extend_from_slice N l src nid) as HN.
    destruct (spec_extend_from_slice N l src nid) as [[? ?] ?]. inversion H; subst. exact HN.
  - (* iter_default *)
    destruct (spec_script l 0 0 script) as [[rs l0] ?]. inversion H; subst. na.
  - (* iter_mut_default *)
    destruct (spec_script l 0 0 script) as [[rs l0] ?]. inversion H; subst. na.
  - (* ref_into_iter *)
    destruct (spec_script l 0 (length l) script) as [[rs l0] ?]. inversion H; subst. na.
  - (* iter_debug *)
    destruct (spec_bounds (zlen l) sb eb) as [[a b]|]; [|discriminate].
    destruct (spec_script l (nat_of a) (nat_of b) pre) as [[rs l0] [lo hi]].
    inversion H; subst. cbn [sr_evs]. na.
  - (* iter_mut_debug *)
    destruct (spec_bounds (zlen l) sb eb) as [[a b]|]; [|discriminate].
    destruct (spec_script l (nat_of a) (nat_of b) pre) as [[rs l0] [lo hi]].
    inversion H; subst. cbn [sr_evs]. na.
  - (* drain_debug *)
    destruct (spec_bounds (zlen l) sb eb) as [[a b]|]; [|discriminate].
    destruct (spec_script l (nat_of a) (nat_of b) (map plain_step pre)) as [[rs l0] [lo hi]].
    inversion H; subst; cbn [sr_evs]; na.
  - (* into_iter_debug *)
    destruct (spec_script l 0 (length l) (map plain_step pre)) as [[rs l0] [lo hi]].
    inversion H; subst. cbn [sr_evs]. na.
Qed.

Lemma spec_alloc_only_to_vec N l o nid r :
  spec_step N l o nid = SRet r -> In EvAlloc (sr_evs r) -> o = OToVec \/ o = OBoxed.
Proof.
  intros H Hin. destruct o; try (left; reflexivity); try (right; reflexivity); exfalso;
    (eapply spec_no_alloc; [exact H|discriminate|discriminate|exact Hin]).
Qed.

Lemma count_alloc_NA evs : NA evs -> count_occ event_eq_dec evs EvAlloc = 0%nat.
Proof. intros H. apply count_occ_not_In. exact H. Qed.

(* to_vec allocates exactly once, and not at all for an empty buffer *)
Lemma spec_to_vec_allocs N l nid r :
  spec_step N l OToVec nid = SRet r ->
  count_occ event_eq_dec (sr_evs r) EvAlloc = (if 0 <? zlen l then 1%nat else 0%nat).
Proof.
  intros H. cbn [spec_step] in H. inversion H; subst; clear H. cbn [sr_evs].
  rewrite count_occ_app, (count_alloc_NA (clone_evs nid l)) by apply NA_clone_evs.
  destruct (0 <? zlen l); [|reflexivity].
  cbn [count_occ app]. destruct (event_eq_dec EvAlloc EvAlloc); [reflexivity|congruence].
Qed.

(* boxed allocates exactly once, whatever the buffer holds, before the old
   contents are destroyed *)
Lemma spec_boxed_allocs N l nid r :
  spec_step N l OBoxed nid = SRet r ->
  sr_evs r = EvAlloc :: drops l /\ count_occ event_eq_dec (sr_evs r) EvAlloc = 1%nat.
Proof.
  intros H. cbn [spec_step] in H. inversion H; subst; clear H. cbn [sr_evs].
  split; [reflexivity|]. cbn [count_occ].
  destruct (event_eq_dec EvAlloc EvAlloc); [|congruence].
  rewrite (count_alloc_NA (drops l)) by apply NA_drops. reflexivity.
Qed.

(* ... and the allocation, if any, comes first, before any clone *)
Lemma spec_to_vec_evs N l nid r :
  spec_step N l OToVec nid = SRet r ->
  sr_evs r = (if 0 <? zlen l then [EvAlloc] else []) ++ clone_evs nid l.
Proof. intros H. cbn [spec_step] in H. inversion H; reflexivity. Qed.

(* the model: a call that returns appends events to the log; none of them is
   an allocation unless the call is to_vec or boxed; the capacity never changes *)
Theorem exec_allocs o s w v s' w' :
  WF s -> fault w = None -> op_ok s o ->
  exec o s w = (Ok v, s', w') ->
  exists evs, log w' = log w ++ evs /\
    (o <> OToVec -> o <> OBoxed -> ~ In EvAlloc evs) /\ cap s' = cap s.
Proof.
  intros HW Hf Hok He.
  destruct (exec_meets_spec o s w v s' w' HW Hf Hok He)
    as (r & Hs & _ & _ & Hl & _ & _ & Hc).
  exists (sr_evs r). split; [exact Hl|]. split; [|exact Hc].
  intros Hne Hnb. exact (spec_no_alloc _ _ _ _ _ Hs Hne Hnb).
Qed.

Theorem exec_boxed_allocs s w v s' w' :
  WF s -> fault w = None ->
  exec OBoxed s w = (Ok v, s', w') ->
  exists evs, log w' = log w ++ evs /\
    evs = EvAlloc :: drops (abs s) /\ count_occ event_eq_dec evs EvAlloc = 1%nat.
Proof.
  intros HW Hf He.
  destruct (exec_meets_spec OBoxed s w v s' w' HW Hf I He)
    as (r & Hs & _ & _ & Hl & _ & _ & Hc).
  exists (sr_evs r). split; [exact Hl|]. exact (spec_boxed_allocs _ _ _ _ Hs).
Qed.

Theorem exec_to_vec_allocs s w v s' w' :
  WF s -> fault w = None ->
  exec OToVec s w = (Ok v, s', w') ->
  exists evs, log w' = log w ++ evs /\
    count_occ event_eq_dec evs EvAlloc = (if 0 <? size s then 1%nat else 0%nat).
Proof.
  intros HW Hf He.
  destruct (exec_meets_spec OToVec s w v s' w' HW Hf I He)
    as (r & Hs & _ & _ & Hl & _ & _ & Hc).
  exists (sr_evs r). split; [exact Hl|].
  rewrite (spec_to_vec_allocs _ _ _ _ Hs). rewrite abs_zlen; [reflexivity|].
  destruct HW as (_ & H & _). lia.
Qed.

Example alloc_example :
  let l := [mkE 1 10; mkE 2 20] in
  (exists r, spec_step 4 l OToVec 7 = SRet r /\
             sr_evs r = [EvAlloc; EvClone (mkE 1 10) (mkE 7 10); EvClone (mkE 2 20) (mkE 8 20)] /\
             count_occ event_eq_dec (sr_evs r) EvAlloc = 1%nat) /\
  (exists r, spec_step 4 [] OToVec 7 = SRet r /\ sr_evs r = []) /\
  (exists r, spec_step 4 l OClear 7 = SRet r /\ sr_evs r = [EvDrop (mkE 1 10); EvDrop (mkE 2 20)]).
Proof.
  cbv zeta. split; [|split]; eexists; (split; [reflexivity|]); try split; reflexivity.
Qed.

(* ====================================================================== *)
(* list helpers                                                            *)
(* ====================================================================== *)

Lemma sc_skipn_nth {A} (l : list A) : forall n x,
  nth_error l n = Some x -> skipn n l = x :: skipn (S n) l.
Proof.
  induction l as [|a l IH]; intros [|n] x H; cbn in H; try discriminate.
  - inversion H. reflexivity.
  - apply IH in H. exact H.
Qed.

Lemma sc_nth_some {A} (l : list A) n : (n < length l)%nat -> exists x, nth_error l n = Some x.
Proof.
  intros H. destruct (nth_error l n) eqn:E; [eauto|].
  apply nth_error_None in E. lia.
Qed.

Lemma sc_nth_skipn {A} (l : list A) : forall n k, nth_error (skipn n l) k = nth_error l (n + k).
Proof.
  induction l as [|a l IH]; intros [|n] k; cbn [skipn Nat.add]; try reflexivity.
  - destruct k; reflexivity.
  - cbn [nth_error]. apply IH.
Qed.

Lemma sc_firstn_snoc {A} (l : list A) : forall k y,
  nth_error l k = Some y -> firstn (S k) l = firstn k l ++ [y].
Proof.
  induction l as [|a l IH]; intros [|k] y H; cbn in H; try discriminate.
  - inversion H. reflexivity.
  - cbn [firstn app]. f_equal. apply IH. exact H.
Qed.

Lemma sc_len_sublist {A} (l : list A) lo hi :
  (lo <= hi <= length l)%nat -> length (sublist lo hi l) = (hi - lo)%nat.
Proof. intros H. unfold sublist. rewrite firstn_length, skipn_length. lia. Qed.

Lemma sc_sublist_nil {A} (l : list A) lo hi : (hi <= lo)%nat -> sublist lo hi l = [].
Proof. intros H. unfold sublist. replace (hi - lo)%nat with 0%nat by lia. reflexivity. Qed.

Lemma sc_sublist_cons {A} (l : list A) lo hi :
  (lo < hi <= length l)%nat ->
  exists x, nth_error l lo = Some x /\ sublist lo hi l = x :: sublist (S lo) hi l.
Proof.
  intros H. destruct (sc_nth_some l lo ltac:(lia)) as (x & Hx). exists x. split; [exact Hx|].
  unfold sublist. rewrite (sc_skipn_nth l lo x Hx).
  replace (hi - lo)%nat with (S (hi - S lo)) by lia. reflexivity.
Qed.

Lemma sc_sublist_snoc {A} (l : list A) lo hi :
  (lo < hi <= length l)%nat ->
  exists y, nth_error l (hi - 1) = Some y /\ sublist lo hi l = sublist lo (hi - 1) l ++ [y].
Proof.
  intros H. destruct (sc_nth_some l (hi - 1) ltac:(lia)) as (y & Hy). exists y. split; [exact Hy|].
  unfold sublist. replace (hi - lo)%nat with (S (hi - 1 - lo)) by lia.
  apply sc_firstn_snoc. rewrite sc_nth_skipn.
  replace (lo + (hi - 1 - lo))%nat with (hi - 1)%nat by lia. exact Hy.
Qed.

Lemma sc_skipn_skipn {A} (l : list A) : forall b a, skipn a (skipn b l) = skipn (b + a) l.
Proof.
  induction l as [|x l IH]; intros [|b] a; cbn [skipn Nat.add]; try reflexivity.
  - destruct a; reflexivity.
  - apply IH.
Qed.

Lemma sc_sublist_all {A} (l : list A) : sublist 0 (length l) l = l.
Proof. unfold sublist. rewrite Nat.sub_0_r. cbn [skipn]. apply firstn_all. Qed.

(* ====================================================================== *)
(* (C) all views present the same sequence                                 *)
(* ====================================================================== *)

(* positions at or beyond the end are all alike: the clipping in [spec_step]
   is invisible *)
Lemma ix_nth_error {A} (l : list A) i :
  0 <= i -> nth_error l (nat_of (Z.min i (zlen l))) = nth_error l (Z.to_nat i).
Proof.
  intros Hi. unfold nat_of, zlen. destruct (Z.lt_ge_cases i (Z.of_nat (length l))) as [H|H].
  - rewrite Z.min_l by lia. reflexivity.
  - rewrite Z.min_r by lia.
    transitivity (@None A); [|symmetry]; apply nth_error_None; lia.
Qed.

(* a script of n next() calls on the window [lo, length l) *)
Lemma spec_script_all_next l : forall k lo,
  (lo + k = length l)%nat ->
  spec_script l lo (length l) (repeat SNext k) =
  (map (fun e => RItem (Some (epe e))) (skipn lo l), l, (length l, length l)).
Proof.
  induction k as [|k IH]; intros lo H; cbn [repeat spec_script].
  - replace lo with (length l) by lia. rewrite skipn_all. reflexivity.
  - replace (lo <? length l)%nat with true by (symmetry; apply Nat.ltb_lt; lia).
    rewrite (IH (S lo)) by lia.
    destruct (sc_nth_some l lo ltac:(lia)) as (x & Hx).
    rewrite (sc_skipn_nth l lo x Hx), Hx. reflexivity.
Qed.

Lemma clones_vals l : forall nid, map eval (clones nid l) = map eval l.
Proof. induction l as [|x l IH]; intros nid; cbn [clones map eval]; [|rewrite IH]; reflexivity. Qed.

Lemma clones_ids l : forall nid, map eid (clones nid l) = zseq nid (length l).
Proof.
  induction l as [|x l IH]; intros nid; [reflexivity|].
  cbn [clones map eid length]. rewrite IH. rewrite !zseq_map_seq. cbn [seq map].
  rewrite <- seq_shift, map_map. f_equal; [lia|]. apply map_ext. intros. lia.
Qed.

Lemma clones_length l : forall nid, length (clones nid l) = length l.
Proof. induction l as [|x l IH]; intros nid; cbn [clones length]; [|rewrite IH]; reflexivity. Qed.

(* what each read-only view returns, in terms of the one list [l] *)
Theorem spec_views_agree N l nid :
  let same (r : out) := SRet (mkSR r l [] nid) in
  (forall i, 0 <= i -> spec_step N l (OGet i) nid = same (sref (nth_error l (Z.to_nat i)))) /\
  (forall i, 0 <= i -> spec_step N l (ONthFront i) nid = same (sref (nth_error l (Z.to_nat i)))) /\
  (forall i, 0 <= i -> spec_step N l (ONthBack i) nid = same (sref (nth_error (rev l) (Z.to_nat i)))) /\
  (forall i, 0 <= i < zlen l ->
             spec_step N l (OIndex i) nid = same (sref (nth_error l (Z.to_nat i)))) /\
  (forall i, zlen l <= i -> spec_step N l (OIndex i) nid = SPanic) /\
  spec_step N l OFront nid = same (sref (hd_error l)) /\
  spec_step N l OBack nid = same (sref (last_error l)) /\
  spec_step N l OAsSlices nid = same (OutSlices (map epe l) []) /\
  spec_step N l (OIter (repeat SNext (length l))) nid =
    same (OutScript (map (fun e => RItem (Some (epe e))) l)) /\
  spec_step N l (ORange BUnb BUnb (repeat SNext (length l))) nid =
    same (OutScript (map (fun e => RItem (Some (epe e))) l)) /\
  spec_step N l ODebug nid = SRet (mkSR OutUnit l (map EvFmt l) nid) /\
  (exists cs, spec_step N l OToVec nid =
                SRet (mkSR (OutList cs) l
                           ((if 0 <? zlen l then [EvAlloc] else []) ++ clone_evs nid l)
                           (nid + zlen l)) /\
              map eval cs = map eval l /\ map eid cs = zseq nid (length l)).
Proof.
  cbv zeta. repeat match goal with |- _ /\ _ => split end.
  - intros i Hi. cbn [spec_step]. rewrite ix_nth_error by exact Hi. reflexivity.
  - intros i Hi. cbn [spec_step]. rewrite ix_nth_error by exact Hi. reflexivity.
  - intros i Hi. cbn [spec_step].
    replace (zlen l) with (zlen (rev l)) by (unfold zlen; rewrite rev_length; reflexivity).
    rewrite ix_nth_error by exact Hi. reflexivity.
  - intros i Hi. cbn [spec_step]. replace (i <? zlen l) with true by lia. reflexivity.
  - intros i Hi. cbn [spec_step]. replace (i <? zlen l) with false by lia. reflexivity.
  - reflexivity.
  - reflexivity.
  - reflexivity.
  - cbn [spec_step]. rewrite (spec_script_all_next l (length l) 0) by lia. reflexivity.
  - cbn [spec_step spec_bounds].
    replace ((zlen l <=? zlen l) && (0 <=? zlen l)) with true by (unfold zlen; lia).
    replace (nat_of 0) with 0%nat by reflexivity.
    replace (nat_of (zlen l)) with (length l) by (unfold nat_of, zlen; lia).
    rewrite (spec_script_all_next l (length l) 0) by lia. reflexivity.
  - reflexivity.
  - exists (clones nid l). split; [reflexivity|]. split; [apply clones_vals|apply clones_ids].
Qed.

(* ... and how the positional views relate to each other *)
Lemma views_consistent {A} (l : list A) :
  hd_error l = nth_error l 0 /\
  last_error l = nth_error (rev l) 0 /\
  (forall i, (i < length l)%nat -> nth_error (rev l) i = nth_error l (length l - 1 - i)).
Proof.
  split; [destruct l; reflexivity|]. split.
  - unfold last_error. destruct (rev l); reflexivity.
  - intros i Hi. destruct (sc_nth_some l (length l - 1 - i) ltac:(lia)) as (x & Hx).
    rewrite Hx. rewrite (nth_error_nth' (rev l) x) by (rewrite rev_length; lia).
    rewrite rev_nth by lia. f_equal.
    replace (length l - S i)%nat with (length l - 1 - i)%nat by lia.
    apply nth_error_nth. exact Hx.
Qed.

(* the model's two slices, concatenated, are the contents *)
Lemma as_slices_out_ok l a b :
  out_ok OAsSlices (OutSlices (map epe l) []) (OutSlices a b) -> map snd (a ++ b) = l.
Proof.
  cbn [out_ok erase_out]. intros H. injection H as H.
  apply (f_equal (map snd)) in H. rewrite !map_map in H. cbn [erase_pe epe snd] in H.
  rewrite map_id in H. exact H.
Qed.

Definition sr_out_of (r : sresult) : option out :=
  match r with SRet x => Some (sr_out x) | SPanic => None end.

Example views_example :
  let l := [mkE 1 10; mkE 2 20; mkE 3 30] in
  sr_out_of (spec_step 3 l (OGet 1) 7) = Some (sref (Some (mkE 2 20))) /\
  sr_out_of (spec_step 3 l (ONthBack 0) 7) = Some (sref (Some (mkE 3 30))) /\
  sr_out_of (spec_step 3 l OBack 7) = Some (sref (Some (mkE 3 30))) /\
  sr_out_of (spec_step 3 l (OGet 3) 7) = Some (sref None) /\
  sr_out_of (spec_step 3 l (OIter [SNext; SNext; SNext]) 7) =
    Some (OutScript [RItem (Some (epe (mkE 1 10))); RItem (Some (epe (mkE 2 20)));
                     RItem (Some (epe (mkE 3 30)))]) /\
  sr_out_of (spec_step 3 l OToVec 7) = Some (OutList [mkE 7 10; mkE 8 20; mkE 9 30]).
Proof. cbv zeta. repeat split. Qed.

(* ====================================================================== *)
(* (B) the double-ended, exact-size protocol                               *)
(* ====================================================================== *)

(* scripts made of next(), next_back() and len() only *)
Definition plain_st (st : sstep) : bool :=
  match st with SNext | SNextBack | SLen => true | _ => false end.

Definition plain_script (sc : list sstep) : bool := forallb plain_st sc.

Lemma plain_cons st sc :
  plain_script (st :: sc) = true -> plain_st st = true /\ plain_script sc = true.
Proof. intros H. apply andb_prop in H. exact H. Qed.

(* Drain and IntoIter scripts are read through [plain_step]: always plain *)
Lemma plain_map_plain_step sc : plain_script (map plain_step sc) = true.
Proof.
  induction sc as [|st sc IH]; [reflexivity|].
  cbn [map]. unfold plain_script in *. cbn [forallb]. rewrite IH.
  destruct st; reflexivity.
Qed.

(* the elements handed out by the next() calls, in script order *)
Fixpoint front_items (sc : list sstep) (rs : list sres) : list elem :=
  match sc, rs with
  | st :: sc', r :: rs' =>
    match st, r with
    | SNext, RItem (Some p) => snd p :: front_items sc' rs'
    | _, _ => front_items sc' rs'
    end
  | _, _ => []
  end.

(* the elements handed out by the next_back() calls, in script order *)
Fixpoint back_items (sc : list sstep) (rs : list sres) : list elem :=
  match sc, rs with
  | st :: sc', r :: rs' =>
    match st, r with
    | SNextBack, RItem (Some p) => snd p :: back_items sc' rs'
    | _, _ => back_items sc' rs'
    end
  | _, _ => []
  end.

Definition is_next (st : sstep) : bool := match st with SNext => true | _ => false end.
Definition is_next_back (st : sstep) : bool := match st with SNextBack => true | _ => false end.

(* how many next() / next_back() calls the script makes *)
Definition calls_front (sc : list sstep) : nat := length (filter is_next sc).
Definition calls_back (sc : list sstep) : nat := length (filter is_next_back sc).

(* how many elements the first k steps have produced *)
Definition produced (sc : list sstep) (rs : list sres) (k : nat) : nat :=
  (length (front_items (firstn k sc) (firstn k rs)) +
   length (back_items (firstn k sc) (firstn k rs)))%nat.

(* the part of the window no call has produced *)
Definition unyielded (win : list elem) (sc : list sstep) (rs : list sres) : list elem :=
  sublist (length (front_items sc rs)) (length win - length (back_items sc rs)) win.

Example items_example :
  let sc := [SNext; SLen; SNextBack; SNext; SNext; SNextBack] in
  let rs := [RItem (Some (epe (mkE 1 10))); RLen 2; RItem (Some (epe (mkE 3 30)));
             RItem (Some (epe (mkE 2 20))); RItem None; RItem None] in
  front_items sc rs = [mkE 1 10; mkE 2 20] /\ back_items sc rs = [mkE 3 30] /\
  calls_front sc = 3%nat /\ calls_back sc = 2%nat /\
  produced sc rs 0 = 0%nat /\ produced sc rs 3 = 2%nat /\ produced sc rs 6 = 3%nat /\
  unyielded [mkE 1 10; mkE 2 20; mkE 3 30] sc rs = [] /\
  unyielded [mkE 1 10; mkE 2 20; mkE 3 30] [SNextBack] [RItem (Some (epe (mkE 3 30)))]
    = [mkE 1 10; mkE 2 20].
Proof. cbv zeta. repeat split. Qed.

Lemma front_items_le sc : forall rs, (length (front_items sc rs) <= calls_front sc)%nat.
Proof.
  unfold calls_front. induction sc as [|st sc IH]; intros [|r rs]; cbn [front_items length]; try lia.
  specialize (IH rs).
  destruct st; cbn [filter is_next length]; try lia.
  destruct r as [[p|]| |]; cbn [length]; lia.
Qed.

Lemma back_items_le sc : forall rs, (length (back_items sc rs) <= calls_back sc)%nat.
Proof.
  unfold calls_back. induction sc as [|st sc IH]; intros [|r rs]; cbn [back_items length]; try lia.
  specialize (IH rs).
  destruct st; cbn [filter is_next_back length]; try lia.
  destruct r as [[p|]| |]; cbn [length]; lia.
Qed.

(* ---- the invariant of a plain script ----------------------------------------- *)

Local Ltac conj := repeat match goal with |- _ /\ _ => split end.

Lemma script_inv : forall sc l lo hi rs l' lo' hi',
  plain_script sc = true -> (lo <= hi <= length l)%nat ->
  spec_script l lo hi sc = (rs, l', (lo', hi')) ->
  l' = l /\ length rs = length sc /\
  lo' = (lo + length (front_items sc rs))%nat /\
  hi = (hi' + length (back_items sc rs))%nat /\ (lo' <= hi')%nat /\
  sublist lo hi l = front_items sc rs ++ sublist lo' hi' l ++ rev (back_items sc rs) /\
  (length (front_items sc rs) + length (back_items sc rs) =
   Nat.min (calls_front sc + calls_back sc) (hi - lo))%nat.
Proof.
  unfold calls_front, calls_back.
  induction sc as [|st sc IH]; intros l lo hi rs l' lo' hi' Hp Hb H.
  - cbn in H. inversion H; subst.
    cbn [front_items back_items length rev app filter]. rewrite app_nil_r. conj; try reflexivity; lia.
  - apply plain_cons in Hp. destruct Hp as [Hst Hp].
    destruct st; try discriminate Hst; cbn [spec_script] in H.
    + (* next *)
      destruct (Nat.ltb_spec lo hi) as [Hlt|Hge].
      * destruct (spec_script l (S lo) hi sc) as [[rs0 l0] [lo0 hi0]] eqn:E.
        destruct (sc_sublist_cons l lo hi ltac:(lia)) as (x & Hx & Hsub).
        rewrite Hx in H. inversion H; subst; clear H.
        apply IH in E; [|exact Hp|lia]. destruct E as (E1 & E2 & E3 & E4 & E5 & E6 & E7).
        cbn [option_map front_items back_items epe snd length filter is_next is_next_back app].
        rewrite Hsub, E6. conj; try assumption; try reflexivity; try lia.
      * destruct (spec_script l lo hi sc) as [[rs0 l0] [lo0 hi0]] eqn:E.
        inversion H; subst; clear H.
        apply IH in E; [|exact Hp|lia]. destruct E as (E1 & E2 & E3 & E4 & E5 & E6 & E7).
        cbn [front_items back_items length filter is_next is_next_back].
        conj; try assumption; try lia.
    + (* next_back *)
      destruct (Nat.ltb_spec lo hi) as [Hlt|Hge].
      * destruct (spec_script l lo (hi - 1) sc) as [[rs0 l0] [lo0 hi0]] eqn:E.
        destruct (sc_sublist_snoc l lo hi ltac:(lia)) as (y & Hy & Hsub).
        rewrite Hy in H. inversion H; subst; clear H.
        apply IH in E; [|exact Hp|lia]. destruct E as (E1 & E2 & E3 & E4 & E5 & E6 & E7).
        cbn [option_map front_items back_items epe snd length filter is_next is_next_back rev].
        rewrite Hsub, E6. rewrite <- !app_assoc. conj; try assumption; try reflexivity; try lia.
      * destruct (spec_script l lo hi sc) as [[rs0 l0] [lo0 hi0]] eqn:E.
        inversion H; subst; clear H.
        apply IH in E; [|exact Hp|lia]. destruct E as (E1 & E2 & E3 & E4 & E5 & E6 & E7).
        cbn [front_items back_items length filter is_next is_next_back].
        conj; try assumption; try lia.
    + (* len *)
      destruct (spec_script l lo hi sc) as [[rs0 l0] [lo0 hi0]] eqn:E.
      inversion H; subst; clear H.
      apply IH in E; [|exact Hp|lia]. destruct E as (E1 & E2 & E3 & E4 & E5 & E6 & E7).
      cbn [front_items back_items length filter is_next is_next_back].
      conj; try assumption; try lia.
Qed.

(* ---- what a step returns, given what was produced before it ------------------- *)

Lemma script_at : forall sc l lo hi rs l' w' k,
  plain_script sc = true -> (lo <= hi <= length l)%nat ->
  spec_script l lo hi sc = (rs, l', w') ->
  (nth_error sc k = Some SLen ->
   nth_error rs k = Some (RLen (Z.of_nat (hi - lo - produced sc rs k)))) /\
  (nth_error sc k = Some SNext \/ nth_error sc k = Some SNextBack ->
   exists o, nth_error rs k = Some (RItem o) /\
             (o = None <-> (hi - lo <= produced sc rs k)%nat)).
Proof.
  induction sc as [|st sc IH]; intros l lo hi rs l' w' k Hp Hb H.
  - destruct k; cbn [nth_error]; (split; [discriminate|intros [?|?]; discriminate]).
  - apply plain_cons in Hp. destruct Hp as [Hst Hp].
    destruct st; try discriminate Hst; cbn [spec_script] in H.
    + destruct (Nat.ltb_spec lo hi) as [Hlt|Hge].
      * destruct (spec_script l (S lo) hi sc) as [[rs0 l0] w0] eqn:E.
        destruct (sc_sublist_cons l lo hi ltac:(lia)) as (x & Hx & _).
        rewrite Hx in H. inversion H; subst; clear H.
        destruct k as [|k]; cbn [nth_error].
        -- unfold produced. cbn [firstn front_items back_items length].
           split; [discriminate|]. intros _. eexists. split; [reflexivity|].
           split; [discriminate|intros ?; exfalso; lia].
        -- destruct (fun Hb' => IH _ _ _ _ _ _ k Hp Hb' E) as [IHa IHb]; [lia|].
           unfold produced in *.
           cbn [firstn front_items back_items length epe snd option_map].
           split; intros Hn.
           ++ rewrite (IHa Hn). f_equal; f_equal; f_equal; lia.
           ++ destruct (IHb Hn) as (o & Ho & Hiff). exists o. split; [exact Ho|].
              rewrite Hiff. lia.
      * destruct (spec_script l lo hi sc) as [[rs0 l0] w0] eqn:E.
        inversion H; subst; clear H.
        destruct k as [|k]; cbn [nth_error].
        -- unfold produced. cbn [firstn front_items back_items length].
           split; [discriminate|]. intros _. eexists. split; [reflexivity|].
           split; [intros _; lia|intros _; reflexivity].
        -- destruct (fun Hb' => IH _ _ _ _ _ _ k Hp Hb' E) as [IHa IHb]; [lia|].
           unfold produced in *.
           cbn [firstn front_items back_items length epe snd option_map].
           split; [exact IHa|exact IHb].
    + destruct (Nat.ltb_spec lo hi) as [Hlt|Hge].
      * destruct (spec_script l lo (hi - 1) sc) as [[rs0 l0] w0] eqn:E.
        destruct (sc_sublist_snoc l lo hi ltac:(lia)) as (y & Hy & _).
        rewrite Hy in H. inversion H; subst; clear H.
        destruct k as [|k]; cbn [nth_error].
        -- unfold produced. cbn [firstn front_items back_items length].
           split; [discriminate|]. intros _. eexists. split; [reflexivity|].
           split; [discriminate|intros ?; exfalso; lia].
        -- destruct (fun Hb' => IH _ _ _ _ _ _ k Hp Hb' E) as [IHa IHb]; [lia|].
           unfold produced in *.
           cbn [firstn front_items back_items length epe snd option_map].
           split; intros Hn.
           ++ rewrite (IHa Hn). f_equal; f_equal; f_equal; lia.
           ++ destruct (IHb Hn) as (o & Ho & Hiff). exists o. split; [exact Ho|].
              rewrite Hiff. lia.
      * destruct (spec_script l lo hi sc) as [[rs0 l0] w0] eqn:E.
        inversion H; subst; clear H.
        destruct k as [|k]; cbn [nth_error].
        -- unfold produced. cbn [firstn front_items back_items length].
           split; [discriminate|]. intros _. eexists. split; [reflexivity|].
           split; [intros _; lia|intros _; reflexivity].
        -- destruct (fun Hb' => IH _ _ _ _ _ _ k Hp Hb' E) as [IHa IHb]; [lia|].
           unfold produced in *.
           cbn [firstn front_items back_items length epe snd option_map].
           split; [exact IHa|exact IHb].
    + destruct (spec_script l lo hi sc) as [[rs0 l0] w0] eqn:E.
      inversion H; subst; clear H.
      destruct k as [|k]; cbn [nth_error].
      -- unfold produced. cbn [firstn front_items back_items length].
         split; [|intros [?|?]; discriminate]. intros _. rewrite Nat.sub_0_r. reflexivity.
      -- destruct (fun Hb' => IH _ _ _ _ _ _ k Hp Hb' E) as [IHa IHb]; [lia|].
         unfold produced in *.
         cbn [firstn front_items back_items length epe snd option_map].
         split; [exact IHa|exact IHb].
Qed.

(* ---- None forever -------------------------------------------------------------- *)

Definition exhausted_res (r : sres) : Prop := r = RItem None \/ r = RLen 0.

Lemma script_empty : forall sc l lo hi rs l' w',
  plain_script sc = true -> (hi <= lo)%nat ->
  spec_script l lo hi sc = (rs, l', w') -> Forall exhausted_res rs.
Proof.
  induction sc as [|st sc IH]; intros l lo hi rs l' w' Hp Hb H.
  - cbn in H. inversion H. constructor.
  - apply plain_cons in Hp. destruct Hp as [Hst Hp].
    destruct st; try discriminate Hst; cbn [spec_script] in H;
      try replace (lo <? hi)%nat with false in H by (symmetry; apply Nat.ltb_ge; lia);
      destruct (spec_script l lo hi sc) as [[rs0 l0] w0] eqn:E;
      inversion H; subst; clear H; (constructor; [|eapply IH; eauto]).
    + left; reflexivity.
    + left; reflexivity.
    + right. replace (hi - lo)%nat with 0%nat by lia. reflexivity.
Qed.

Lemma script_none_forever : forall sc l lo hi rs l' w' i j r,
  plain_script sc = true -> (lo <= hi <= length l)%nat ->
  spec_script l lo hi sc = (rs, l', w') ->
  nth_error rs i = Some (RItem None) -> (i <= j)%nat ->
  nth_error rs j = Some r -> exhausted_res r.
Proof.
  induction sc as [|st sc IH]; intros l lo hi rs l' w' i j r Hp Hb H Hi Hij Hj.
  - cbn in H. inversion H; subst. destruct i; discriminate.
  - pose proof Hp as Hp0. apply plain_cons in Hp. destruct Hp as [Hst Hp].
    destruct i as [|i].
    + (* the step that returned None saw an empty window *)
      assert (Hge : (hi <= lo)%nat).
      { destruct (Nat.ltb_spec lo hi) as [Hlt|Hge]; [exfalso|exact Hge].
        destruct st; try discriminate Hst; cbn [spec_script] in H.
        - replace (lo <? hi)%nat with true in H by (symmetry; apply Nat.ltb_lt; lia).
          destruct (spec_script l (S lo) hi sc) as [[rs0 l0] w0].
          destruct (sc_sublist_cons l lo hi ltac:(lia)) as (x & Hx & _).
          rewrite Hx in H. inversion H; subst. discriminate.
        - replace (lo <? hi)%nat with true in H by (symmetry; apply Nat.ltb_lt; lia).
          destruct (spec_script l lo (hi - 1) sc) as [[rs0 l0] w0].
          destruct (sc_sublist_snoc l lo hi ltac:(lia)) as (y & Hy & _).
          rewrite Hy in H. inversion H; subst. discriminate.
        - destruct (spec_script l lo hi sc) as [[rs0 l0] w0].
          inversion H; subst. discriminate. }
      pose proof (script_empty _ _ _ _ _ _ _ Hp0 Hge H) as HF.
      rewrite Forall_forall in HF. apply HF. eapply nth_error_In. exact Hj.
    + destruct j as [|j]; [lia|].
      destruct st; try discriminate Hst; cbn [spec_script] in H.
      * destruct (lo <? hi)%nat eqn:Hlt.
        -- apply Nat.ltb_lt in Hlt.
           destruct (spec_script l (S lo) hi sc) as [[rs0 l0] w0] eqn:E.
           inversion H; subst; clear H. cbn [nth_error] in Hi, Hj.
           eapply (IH _ _ _ _ _ _ i j r); [exact Hp| |exact E|exact Hi| |exact Hj]; lia.
        -- apply Nat.ltb_ge in Hlt.
           destruct (spec_script l lo hi sc) as [[rs0 l0] w0] eqn:E.
           inversion H; subst; clear H. cbn [nth_error] in Hi, Hj.
           eapply (IH _ _ _ _ _ _ i j r); [exact Hp| |exact E|exact Hi| |exact Hj]; lia.
      * destruct (lo <? hi)%nat eqn:Hlt.
        -- apply Nat.ltb_lt in Hlt.
           destruct (spec_script l lo (hi - 1) sc) as [[rs0 l0] w0] eqn:E.
           inversion H; subst; clear H. cbn [nth_error] in Hi, Hj.
           eapply (IH _ _ _ _ _ _ i j r); [exact Hp| |exact E|exact Hi| |exact Hj]; lia.
        -- apply Nat.ltb_ge in Hlt.
           destruct (spec_script l lo hi sc) as [[rs0 l0] w0] eqn:E.
           inversion H; subst; clear H. cbn [nth_error] in Hi, Hj.
           eapply (IH _ _ _ _ _ _ i j r); [exact Hp| |exact E|exact Hi| |exact Hj]; lia.
      * destruct (spec_script l lo hi sc) as [[rs0 l0] w0] eqn:E.
        inversion H; subst; clear H. cbn [nth_error] in Hi, Hj.
        eapply (IH _ _ _ _ _ _ i j r); [exact Hp| |exact E|exact Hi| |exact Hj]; lia.
Qed.

(* ---- the protocol, as one statement about a window ---------------------------- *)

Lemma sc_firstn_app_exact {A} (a b : list A) n : n = length a -> firstn n (a ++ b) = a.
Proof.
  intros ->. rewrite firstn_app, Nat.sub_diag, firstn_all. cbn [firstn]. apply app_nil_r.
Qed.

Lemma sc_skipn_app_exact {A} (a b : list A) n : n = length a -> skipn n (a ++ b) = b.
Proof.
  intros ->. rewrite skipn_app, Nat.sub_diag, skipn_all. reflexivity.
Qed.

(* [rs] answers the plain script [sc] run on a double-ended iterator over [win] *)
Record de_protocol (win : list elem) (sc : list sstep) (rs : list sres) : Prop := {
  (* one result per step *)
  dp_length : length rs = length sc;
  (* the front items, the elements never produced and the back items (read
     backwards) make up the window: nothing twice, nothing out of order *)
  dp_partition :
    win = front_items sc rs ++ unyielded win sc rs ++ rev (back_items sc rs);
  (* next() walks the window forwards ... *)
  dp_front : front_items sc rs = firstn (length (front_items sc rs)) win;
  (* ... next_back() walks it backwards *)
  dp_back : back_items sc rs = rev (lastn (length (back_items sc rs)) win);
  (* every call produces an element until the window is used up *)
  dp_count :
    (length (front_items sc rs) + length (back_items sc rs) =
     Nat.min (calls_front sc + calls_back sc) (length win))%nat;
  (* len() is the number of elements not yet produced at that moment *)
  dp_len : forall k, nth_error sc k = Some SLen ->
    nth_error rs k = Some (RLen (Z.of_nat (length win - produced sc rs k)));
  (* next()/next_back() return None iff nothing is left at that moment *)
  dp_item : forall k, nth_error sc k = Some SNext \/ nth_error sc k = Some SNextBack ->
    exists o, nth_error rs k = Some (RItem o) /\
              (o = None <-> (length win <= produced sc rs k)%nat);
  (* None forever: after a None, every next()/next_back() gives None and every
     len() gives 0 *)
  dp_none_forever : forall i j r,
    nth_error rs i = Some (RItem None) -> (i <= j)%nat -> nth_error rs j = Some r ->
    r = RItem None \/ r = RLen 0
}.

(* THE theorem of this part: a plain script on the window [lo, hi) of l *)
Theorem script_protocol l lo hi sc rs l' lo' hi' :
  (lo <= hi <= length l)%nat -> plain_script sc = true ->
  spec_script l lo hi sc = (rs, l', (lo', hi')) ->
  l' = l /\
  de_protocol (sublist lo hi l) sc rs /\
  lo' = (lo + length (front_items sc rs))%nat /\
  hi' = (hi - length (back_items sc rs))%nat /\
  (lo' <= hi')%nat /\
  sublist lo' hi' l = unyielded (sublist lo hi l) sc rs.
Proof.
  intros Hb Hp H.
  destruct (script_inv sc l lo hi rs l' lo' hi' Hp Hb H) as (E1 & E2 & E3 & E4 & E5 & E6 & E7).
  pose proof (sc_len_sublist l lo hi Hb) as Hlen.
  assert (Hlm : length (sublist lo' hi' l) = (hi' - lo')%nat) by (apply sc_len_sublist; lia).
  assert (Hun : sublist lo' hi' l = unyielded (sublist lo hi l) sc rs).
  { unfold unyielded. rewrite Hlen. rewrite E6 at 1. unfold sublist at 2.
    rewrite sc_skipn_app_exact by reflexivity.
    symmetry. apply sc_firstn_app_exact. rewrite Hlm. lia. }
  split; [exact E1|]. split; [|split; [exact E3|split; [lia|split; [exact E5|exact Hun]]]].
  constructor.
  - exact E2.
  - rewrite <- Hun. exact E6.
  - rewrite E6 at 1. symmetry. apply sc_firstn_app_exact. reflexivity.
  - unfold lastn. rewrite Hlen. rewrite E6 at 1. rewrite app_assoc.
    rewrite sc_skipn_app_exact; [symmetry; apply rev_involutive|].
    rewrite app_length, Hlm. lia.
  - rewrite Hlen. exact E7.
  - intros k Hk. rewrite Hlen.
    exact (proj1 (script_at sc l lo hi rs l' (lo', hi') k Hp Hb H) Hk).
  - intros k Hk. rewrite Hlen.
    exact (proj2 (script_at sc l lo hi rs l' (lo', hi') k Hp Hb H) Hk).
  - intros i j r Hi Hij Hj.
    exact (script_none_forever sc l lo hi rs l' (lo', hi') i j r Hp Hb H Hi Hij Hj).
Qed.

(* ---- consequences that only need [de_protocol] ---------------------------------- *)

(* each selected element is produced at most once *)
Lemma dp_at_most_once win sc rs :
  de_protocol win sc rs ->
  (length (front_items sc rs) + length (back_items sc rs) <= length win)%nat.
Proof. intros H. rewrite (dp_count _ _ _ H). lia. Qed.

(* what is left: exactly the elements strictly between the two cursors *)
Lemma dp_unyielded_length win sc rs :
  de_protocol win sc rs ->
  length (unyielded win sc rs) =
  (length win - (length (front_items sc rs) + length (back_items sc rs)))%nat.
Proof.
  intros H. pose proof (dp_partition _ _ _ H) as P.
  apply (f_equal (@length elem)) in P. rewrite !app_length, rev_length in P. lia.
Qed.

(* a forward traversal with enough next() calls returns the window *)
Theorem dp_full_front win sc rs :
  de_protocol win sc rs -> calls_back sc = 0%nat -> (length win <= calls_front sc)%nat ->
  front_items sc rs = win.
Proof.
  intros H Hb Hf. pose proof (dp_count _ _ _ H) as C. pose proof (back_items_le sc rs) as B.
  rewrite (dp_front _ _ _ H).
  replace (length (front_items sc rs)) with (length win) by lia. apply firstn_all.
Qed.

(* a backward traversal with enough next_back() calls returns it reversed *)
Theorem dp_full_back win sc rs :
  de_protocol win sc rs -> calls_front sc = 0%nat -> (length win <= calls_back sc)%nat ->
  back_items sc rs = rev win.
Proof.
  intros H Hf Hb. pose proof (dp_count _ _ _ H) as C. pose proof (front_items_le sc rs) as F.
  rewrite (dp_back _ _ _ H).
  replace (length (back_items sc rs)) with (length win) by lia.
  unfold lastn. rewrite Nat.sub_diag. reflexivity.
Qed.

(* enough calls from both ends together also use up the window: front items
   then reversed back items are the window *)
Theorem dp_full_both win sc rs :
  de_protocol win sc rs -> (length win <= calls_front sc + calls_back sc)%nat ->
  front_items sc rs ++ rev (back_items sc rs) = win.
Proof.
  intros H Hc. pose proof (dp_count _ _ _ H) as C. pose proof (dp_unyielded_length _ _ _ H) as U.
  pose proof (dp_partition _ _ _ H) as P.
  destruct (unyielded win sc rs) as [|x m]; [|cbn [length] in U; lia].
  symmetry. exact P.
Qed.

(* ---- instances for the operations ----------------------------------------------- *)

Lemma spec_bounds_range n sb eb a b :
  spec_bounds n sb eb = Some (a, b) -> a <= b <= n.
Proof.
  unfold spec_bounds. intros H.
  destruct (match sb with BIncl x => Some x | BExcl x => checked_add x 1 | BUnb => Some 0 end)
    as [a0|]; [|discriminate].
  destruct (match eb with BIncl x => checked_add x 1 | BExcl x => Some x | BUnb => Some n end)
    as [b0|]; [|discriminate].
  destruct ((b0 <=? n) && (a0 <=? b0)) eqn:E; [|discriminate].
  inversion H; subst. lia.
Qed.

Lemma nat_bounds (l : list elem) a b :
  a <= b <= zlen l -> (nat_of a <= nat_of b <= length l)%nat.
Proof. unfold nat_of, zlen. lia. Qed.

(* iter(): the window is the whole buffer *)
Theorem spec_iter_protocol N l sc nid r :
  plain_script sc = true ->
  spec_step N l (OIter sc) nid = SRet r \/ spec_step N l (OIterMut sc) nid = SRet r ->
  exists rs, r = mkSR (OutScript rs) l [] nid /\ de_protocol l sc rs.
Proof.
  intros Hp H.
  assert (H' : (let '(rs, l', _) := spec_script l 0 (length l) sc in
                SRet (mkSR (OutScript rs) l' [] nid)) = SRet r) by (destruct H as [H|H]; exact H).
  clear H. destruct (spec_script l 0 (length l) sc) as [[rs l'] [lo' hi']] eqn:E.
  assert (Hb : (0 <= length l <= length l)%nat) by lia.
  destruct (script_protocol l 0 (length l) sc rs l' lo' hi' Hb Hp E) as (-> & HP & _).
  rewrite sc_sublist_all in HP. exists rs. split; [congruence|exact HP].
Qed.

(* range(sb..eb): the window is [a, b) *)
Theorem spec_range_protocol N l sb eb sc nid r :
  plain_script sc = true ->
  spec_step N l (ORange sb eb sc) nid = SRet r \/
  spec_step N l (ORangeMut sb eb sc) nid = SRet r ->
  exists a b rs,
    spec_bounds (zlen l) sb eb = Some (a, b) /\ a <= b <= zlen l /\
    r = mkSR (OutScript rs) l [] nid /\
    de_protocol (sublist (nat_of a) (nat_of b) l) sc rs.
Proof.
  intros Hp H.
  assert (H' : match spec_bounds (zlen l) sb eb with
               | None => SPanic
               | Some (a, b) =>
                 let '(rs, l', _) := spec_script l (nat_of a) (nat_of b) sc in
                 SRet (mkSR (OutScript rs) l' [] nid)
               end = SRet r) by (destruct H as [H|H]; exact H).
  clear H. destruct (spec_bounds (zlen l) sb eb) as [[a b]|] eqn:Eb; [|discriminate].
  pose proof (spec_bounds_range _ _ _ _ _ Eb) as Hab.
  destruct (spec_script l (nat_of a) (nat_of b) sc) as [[rs l'] [lo' hi']] eqn:E.
  destruct (script_protocol l _ _ sc rs l' lo' hi' (nat_bounds l a b Hab) Hp E) as (-> & HP & _).
  exists a, b, rs. split; [reflexivity|]. split; [exact Hab|]. split; [congruence|exact HP].
Qed.

(* into_iter(): the window is the whole buffer, the buffer is consumed, the
   elements never produced are destroyed, front to back *)
Theorem spec_into_iter_protocol N l sc nid r :
  spec_step N l (OIntoIter sc) nid = SRet r ->
  let sc' := map plain_step sc in
  exists rs, r = mkSR (OutScript rs) [] (drops (unyielded l sc' rs)) nid /\
             de_protocol l sc' rs.
Proof.
  intros H sc'. cbn [spec_step] in H. fold sc' in H.
  destruct (spec_script l 0 (length l) sc') as [[rs l'] [lo' hi']] eqn:E.
  assert (Hb : (0 <= length l <= length l)%nat) by lia.
  destruct (script_protocol l 0 (length l) sc' rs l' lo' hi' Hb
              (plain_map_plain_step sc) E) as (-> & HP & _ & _ & _ & HU).
  rewrite sc_sublist_all in HP, HU. exists rs. split; [|exact HP].
  rewrite <- HU. congruence.
Qed.

(* drain(sb..eb): the window [a, b) leaves the buffer whatever the script does;
   unless the Drain is forgotten, the elements never produced are destroyed,
   front to back, and the rest of the buffer closes up *)
Theorem spec_drain_protocol N l sb eb sc forget nid r :
  spec_step N l (ODrain sb eb sc forget) nid = SRet r ->
  let sc' := map plain_step sc in
  exists a b rs,
    spec_bounds (zlen l) sb eb = Some (a, b) /\ a <= b <= zlen l /\
    let win := sublist (nat_of a) (nat_of b) l in
    de_protocol win sc' rs /\
    r = if forget then mkSR (OutScript rs) [] [] nid
        else mkSR (OutScript rs) (firstn (nat_of a) l ++ skipn (nat_of b) l)
                  (drops (unyielded win sc' rs)) nid.
Proof.
  intros H sc'. cbn [spec_step] in H. fold sc' in H.
  destruct (spec_bounds (zlen l) sb eb) as [[a b]|] eqn:Eb; [|discriminate].
  pose proof (spec_bounds_range _ _ _ _ _ Eb) as Hab.
  destruct (spec_script l (nat_of a) (nat_of b) sc') as [[rs l'] [lo' hi']] eqn:E.
  destruct (script_protocol l _ _ sc' rs l' lo' hi' (nat_bounds l a b Hab)
              (plain_map_plain_step sc) E) as (-> & HP & _ & _ & _ & HU).
  exists a, b, rs. split; [reflexivity|]. split; [exact Hab|]. cbv zeta. split; [exact HP|].
  rewrite <- HU. destruct forget; congruence.
Qed.

(* nothing is lost and nothing is duplicated by a drain that is dropped: the
   window is what the caller received plus what was destroyed *)
Corollary spec_drain_conservation N l sb eb sc nid r :
  spec_step N l (ODrain sb eb sc false) nid = SRet r ->
  exists a b rs dropped,
    spec_bounds (zlen l) sb eb = Some (a, b) /\
    sr_out r = OutScript rs /\ sr_evs r = drops dropped /\
    sublist (nat_of a) (nat_of b) l =
      front_items (map plain_step sc) rs ++ dropped ++ rev (back_items (map plain_step sc) rs) /\
    l = firstn (nat_of a) l ++ sublist (nat_of a) (nat_of b) l ++ skipn (nat_of b) l /\
    sr_list r = firstn (nat_of a) l ++ skipn (nat_of b) l.
Proof.
  intros H. destruct (spec_drain_protocol _ _ _ _ _ _ _ _ H) as (a & b & rs & Eb & Hab & HP & ->).
  exists a, b, rs, (unyielded (sublist (nat_of a) (nat_of b) l) (map plain_step sc) rs).
  split; [exact Eb|]. split; [reflexivity|]. split; [reflexivity|].
  split; [exact (dp_partition _ _ _ HP)|]. split; [|reflexivity].
  pose proof (nat_bounds l a b Hab) as Hn. unfold sublist.
  rewrite <- (firstn_skipn (nat_of a) l) at 1. f_equal.
  rewrite <- (firstn_skipn (nat_of b - nat_of a) (skipn (nat_of a) l)) at 1. f_equal.
  rewrite sc_skipn_skipn. f_equal. lia.
Qed.

(* ---- examples --------------------------------------------------------------------- *)

Example protocol_example :
  let l := [mkE 1 10; mkE 2 20; mkE 3 30; mkE 4 40; mkE 5 50] in
  let sc := [SLen; SNext; SNextBack; SLen; SNext; SNextBack; SNext; SLen; SNextBack] in
  (* the window [1, 4) = 20 30 40 *)
  exists rs l' w',
    spec_script l 1 4 sc = (rs, l', w') /\ plain_script sc = true /\
    rs = [RLen 3; RItem (Some (epe (mkE 2 20))); RItem (Some (epe (mkE 4 40))); RLen 1;
          RItem (Some (epe (mkE 3 30))); RItem None; RItem None; RLen 0; RItem None] /\
    l' = l /\ w' = (3%nat, 3%nat) /\
    front_items sc rs = [mkE 2 20; mkE 3 30] /\ back_items sc rs = [mkE 4 40] /\
    unyielded (sublist 1 4 l) sc rs = [].
Proof. cbv zeta. do 3 eexists. split; [reflexivity|]. repeat split. Qed.

Example drain_example :
  let l := [mkE 1 10; mkE 2 20; mkE 3 30; mkE 4 40; mkE 5 50] in
  spec_step 8 l (ODrain (BIncl 1) (BExcl 5) [SNext; SNextBackSet (mkE 9 9); SClone] false) 7 =
  SRet (mkSR (OutScript [RItem (Some (epe (mkE 2 20))); RItem (Some (epe (mkE 5 50))); RLen 2])
             [mkE 1 10] [EvDrop (mkE 3 30); EvDrop (mkE 4 40)] 7).
Proof. vm_compute. reflexivity. Qed.

(* ====================================================================== *)
(* the same for the model of the Rust code, through [exec_refines]         *)
(* ====================================================================== *)

Lemma erase_ref v e :
  erase_out v = sref e -> exists p, v = OutRef p /\ option_map snd p = e.
Proof.
  destruct v; cbn [erase_out]; unfold sref; intros H; try discriminate.
  injection H as H. exists o. split; [reflexivity|].
  destruct o as [[z x]|], e as [y|]; cbn in H |- *; try discriminate; [|reflexivity].
  inversion H. reflexivity.
Qed.

Lemma erase_script v rs0 :
  erase_out v = OutScript rs0 -> exists rs, v = OutScript rs /\ map erase_sres rs = rs0.
Proof.
  destruct v; cbn [erase_out]; intros H; try discriminate.
  injection H as H. eauto.
Qed.

Lemma plain_clone_safe sc : plain_script sc = true -> clone_safe sc = true.
Proof.
  induction sc as [|st sc IH]; [reflexivity|]. intros H. apply plain_cons in H.
  destruct H as [Hst Hp]. destruct st; try discriminate Hst; cbn [clone_safe]; auto.
Qed.

Lemma clone_safe_repeat_next n : clone_safe (repeat SNext n) = true.
Proof. induction n; [reflexivity|exact IHn]. Qed.

(* the single-element views of a list *)
Inductive ref_view (l : list elem) : op -> option elem -> Prop :=
| RV_get i : 0 <= i < W -> ref_view l (OGet i) (nth_error l (Z.to_nat i))
| RV_nth_front i : 0 <= i < W -> ref_view l (ONthFront i) (nth_error l (Z.to_nat i))
| RV_nth_back i : 0 <= i < W -> ref_view l (ONthBack i) (nth_error (rev l) (Z.to_nat i))
| RV_index i : 0 <= i < W -> i < zlen l -> ref_view l (OIndex i) (nth_error l (Z.to_nat i))
| RV_front : ref_view l OFront (hd_error l)
| RV_back : ref_view l OBack (last_error l).

(* the model returns a reference to exactly that element, changes nothing and
   emits nothing *)
Theorem exec_ref_views s w o e :
  WF s -> fault w = None -> ref_view (abs s) o e ->
  exists p s', exec o s w = (Ok (OutRef p), s', w) /\ option_map snd p = e /\
               abs s' = abs s /\ WF s' /\ cap s' = cap s.
Proof.
  intros HW Hf Hv.
  destruct (spec_views_agree (cap s) (abs s) (next_id w))
    as (V1 & V2 & V3 & V4 & _ & V5 & V6 & _).
  assert (Hs : spec_step (cap s) (abs s) o (next_id w) =
               SRet (mkSR (sref e) (abs s) [] (next_id w)) /\ op_ok s o /\
               (forall v, out_ok o (sref e) v -> erase_out v = sref e)).
  { destruct Hv; (split; [|split; [cbn [op_ok]; unfold in_usize; auto|intros v Hv; exact Hv]]);
      auto; try (apply V1 || apply V2 || apply V3 || apply V4); lia. }
  destruct Hs as (Hs & Hok & Hout).
  destruct (step_cases o s w HW Hf Hok)
    as [(r & v & s' & Hs' & He & Ho & Ha & HW' & Hc)|(k & Hs' & _)];
    rewrite Hs in Hs'; [|discriminate].
  inversion Hs'; subst r; clear Hs'. cbn [sr_out sr_evs sr_nid sr_list] in *.
  rewrite wev_nil in He. destruct (erase_ref v e (Hout v Ho)) as (p & -> & Hp).
  exists p, s'. auto.
Qed.

(* the whole-sequence views *)
Theorem exec_seq_views s w :
  WF s -> fault w = None ->
  let l := abs s in
  (exists a b s', exec OAsSlices s w = (Ok (OutSlices a b), s', w) /\
                  map snd (a ++ b) = l /\ abs s' = l) /\
  (exists cs s' w', exec OToVec s w = (Ok (OutList cs), s', w') /\
                    map eval cs = map eval l /\ abs s' = l) /\
  (exists s' w', exec ODebug s w = (Ok OutUnit, s', w') /\
                 log w' = log w ++ map EvFmt l /\ abs s' = l) /\
  (exists rs s', exec (OIter (repeat SNext (length l))) s w = (Ok (OutScript rs), s', w) /\
                 map erase_sres rs = map (fun e => RItem (Some (epe e))) l /\ abs s' = l).
Proof.
  intros HW Hf l.
  destruct (spec_views_agree (cap s) (abs s) (next_id w))
    as (_ & _ & _ & _ & _ & _ & _ & V1 & V2 & _ & V3 & (cs & V4 & V4v & _)).
  fold l in V1, V2, V3, V4, V4v.
  split; [|split; [|split]].
  - destruct (step_cases OAsSlices s w HW Hf I)
      as [(r & v & s' & Hs' & He & Ho & Ha & _)|(k & Hs' & _)]; fold l in Hs';
      rewrite V1 in Hs'; [|discriminate].
    inversion Hs'; subst r; clear Hs'. cbn [sr_out sr_evs sr_nid sr_list] in *.
    rewrite wev_nil in He.
    assert (exists a b, v = OutSlices a b) as (a & b & ->).
    { cbn [out_ok] in Ho. destruct v; cbn [erase_out] in Ho; try discriminate. eauto. }
    exists a, b, s'. split; [exact He|]. split; [|exact Ha].
    apply as_slices_out_ok. exact Ho.
  - destruct (step_cases OToVec s w HW Hf I)
      as [(r & v & s' & Hs' & He & Ho & Ha & _)|(k & Hs' & _)]; fold l in Hs';
      rewrite V4 in Hs'; [|discriminate].
    inversion Hs'; subst r; clear Hs'. cbn [sr_out sr_evs sr_nid sr_list] in *.
    cbn [out_ok] in Ho. destruct v; cbn [erase_out] in Ho; try discriminate.
    injection Ho as ->. eauto 8.
  - destruct (step_cases ODebug s w HW Hf I)
      as [(r & v & s' & Hs' & He & Ho & Ha & _)|(k & Hs' & _)]; fold l in Hs';
      rewrite V3 in Hs'; [|discriminate].
    inversion Hs'; subst r; clear Hs'. cbn [sr_out sr_evs sr_nid sr_list] in *.
    cbn [out_ok] in Ho. destruct v; cbn [erase_out] in Ho; try discriminate.
    eexists s', _. split; [exact He|]. split; [reflexivity|exact Ha].
  - assert (Hok : op_ok s (OIter (repeat SNext (length l)))).
    { cbn [op_ok]. apply clone_safe_repeat_next. }
    destruct (step_cases _ s w HW Hf Hok)
      as [(r & v & s' & Hs' & He & Ho & Ha & _)|(k & Hs' & _)]; fold l in Hs';
      rewrite V2 in Hs'; [|discriminate].
    inversion Hs'; subst r; clear Hs'. cbn [sr_out sr_evs sr_nid sr_list] in *.
    rewrite wev_nil in He. cbn [out_ok] in Ho.
    destruct (erase_script _ _ Ho) as (rs & -> & Hrs). eauto 8.
Qed.

(* the iteration protocol for the model: iter() with a plain script *)
Theorem exec_iter_protocol s w sc v s' w' :
  WF s -> fault w = None -> plain_script sc = true ->
  exec (OIter sc) s w = (Ok v, s', w') ->
  exists rs, v = OutScript rs /\ de_protocol (abs s) sc (map erase_sres rs) /\
             abs s' = abs s /\ log w' = log w.
Proof.
  intros HW Hf Hp He.
  destruct (exec_meets_spec (OIter sc) s w v s' w' HW Hf (plain_clone_safe sc Hp) He)
    as (r & Hs & Ho & Ha & Hl & _).
  destruct (spec_iter_protocol _ _ _ _ _ Hp (or_introl Hs)) as (rs0 & -> & HP).
  cbn [sr_out sr_evs sr_list out_ok] in *.
  destruct (erase_script _ _ Ho) as (rs & -> & <-).
  exists rs. rewrite app_nil_r in Hl. auto.
Qed.

(* ... and drain(), whatever the script: nothing lost, nothing duplicated *)
Theorem exec_drain_protocol s w sb eb sc v s' w' :
  WF s -> fault w = None -> bound_ok sb -> bound_ok eb ->
  exec (ODrain sb eb sc false) s w = (Ok v, s', w') ->
  exists a b rs,
    spec_bounds (size s) sb eb = Some (a, b) /\ v = OutScript rs /\
    let win := sublist (nat_of a) (nat_of b) (abs s) in
    let sc' := map plain_step sc in
    let rs' := map erase_sres rs in
    de_protocol win sc' rs' /\
    abs s' = firstn (nat_of a) (abs s) ++ skipn (nat_of b) (abs s) /\
    log w' = log w ++ drops (unyielded win sc' rs').
Proof.
  intros HW Hf Hsb Heb He.
  destruct (exec_meets_spec (ODrain sb eb sc false) s w v s' w' HW Hf (conj Hsb Heb) He)
    as (r & Hs & Ho & Ha & Hl & _).
  destruct (spec_drain_protocol _ _ _ _ _ _ _ _ Hs) as (a & b & rs0 & Eb & Hab & HP & ->).
  cbn [sr_out sr_evs sr_list out_ok] in *.
  destruct (erase_script _ _ Ho) as (rs & -> & <-).
  rewrite abs_zlen in Eb by (destruct HW as (_ & H & _); lia).
  exists a, b, rs. cbv zeta. auto 6.
Qed.

Example exec_example :
  let s := mkB 3 2 2 (fun p => mkE (100 + p) p) in   (* contents: slot 2, then slot 0 *)
  let w := mkW false 7 [] None in
  abs s = [mkE 102 2; mkE 100 0] /\
  fst (fst (exec (OGet 1) s w)) = Ok (OutRef (Some (0, mkE 100 0))) /\
  fst (fst (exec OBack s w)) = Ok (OutRef (Some (0, mkE 100 0))) /\
  fst (fst (exec (OIter [SNext; SNext; SNext]) s w)) =
    Ok (OutScript [RItem (Some (2, mkE 102 2)); RItem (Some (0, mkE 100 0)); RItem None]).
Proof. cbv zeta. repeat split. Qed.
