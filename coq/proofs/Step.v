(* Step.v — the shapes in which every function-level result is stated, and
   the behaviour of user code (drop, clone, closure calls) in a world without
   an armed fault. *)

From CB Require Import Spec.
From CBP Require Import MonadLemmas Arith AbsLemmas ListLemmas AbsOps Core.
From Coq Require Import ZifyBool.
Ltac Zify.zify_post_hook ::= Z.div_mod_to_equations.

(* the world after emitting [evs] and advancing the identity counter to [nid] *)
Definition wev (w : world) (evs : list event) (nid : Z) : world :=
  mkW (dbg w) nid (log w ++ evs) (fault w).

Lemma wev_nil w : wev w [] (next_id w) = w.
Proof. destruct w. unfold wev. cbn. rewrite app_nil_r. reflexivity. Qed.

Lemma wev_wev w e1 n1 e2 n2 : wev (wev w e1 n1) e2 n2 = wev w (e1 ++ e2) n2.
Proof. unfold wev. cbn. rewrite app_assoc. reflexivity. Qed.

Lemma wev_fault w evs nid : fault (wev w evs nid) = fault w.
Proof. reflexivity. Qed.

Lemma wev_dbg w evs nid : dbg (wev w evs nid) = dbg w.
Proof. reflexivity. Qed.

Lemma wev_next w evs nid : next_id (wev w evs nid) = nid.
Proof. reflexivity. Qed.

(* "m returns v, leaves the abstract contents l', keeps the state well formed,
   and does not touch the world" *)
Definition pure_step {A} (m : M A) (s : cbuf) (w : world) (v : A) (l' : list elem) : Prop :=
  exists s', m s w = (Ok v, s', w) /\ abs s' = l' /\ WF s' /\ cap s' = cap s.

(* the same with user-visible events and fresh identities *)
Definition ev_step {A} (m : M A) (s : cbuf) (w : world) (v : A) (l' : list elem)
           (evs : list event) (nid : Z) : Prop :=
  exists s', m s w = (Ok v, s', wev w evs nid) /\ abs s' = l' /\ WF s' /\ cap s' = cap s.

Lemma pure_ev_step {A} (m : M A) s w v l' :
  pure_step m s w v l' -> ev_step m s w v l' [] (next_id w).
Proof. intros (s' & H & ?). exists s'. rewrite wev_nil. auto. Qed.

(* ---- user code without faults ------------------------------------------------ *)

Lemma user_call_nofault k s w : fault w = None -> user_call k s w = (Ok tt, s, w).
Proof. intros H. unfold user_call. rewrite H. reflexivity. Qed.

Lemma emit_eq ev s w : emit ev s w = (Ok tt, s, wev w [ev] (next_id w)).
Proof. reflexivity. Qed.

Lemma drop_elem_nofault e s w :
  fault w = None -> drop_elem e s w = (Ok tt, s, wev w [EvDrop e] (next_id w)).
Proof.
  intros H. unfold drop_elem. erewrite bind_ok by apply emit_eq.
  apply user_call_nofault. exact H.
Qed.

Lemma finally_ok {A} (body : M A) (cleanup : M unit) s w a s1 w1 s2 w2 :
  body s w = (Ok a, s1, w1) -> cleanup s1 w1 = (Ok tt, s2, w2) ->
  finally body cleanup s w = (Ok a, s2, w2).
Proof. intros H1 H2. unfold finally. rewrite H1, H2. reflexivity. Qed.

Lemma on_unwind_ok {A} (body : M A) (cleanup : M unit) s w a s1 w1 :
  body s w = (Ok a, s1, w1) -> on_unwind body cleanup s w = (Ok a, s1, w1).
Proof. intros H1. unfold on_unwind. rewrite H1. reflexivity. Qed.

Lemma drop_list_nofault es s w :
  fault w = None -> drop_list es s w = (Ok tt, s, wev w (drops es) (next_id w)).
Proof.
  revert w. induction es as [|e es IH]; intros w H.
  - cbn. rewrite wev_nil. reflexivity.
  - cbn [drop_list]. erewrite finally_ok.
    + reflexivity.
    + apply drop_elem_nofault. exact H.
    + rewrite IH by exact H. rewrite wev_wev. reflexivity.
Qed.

Lemma drop_opt_nofault o s w :
  fault w = None -> drop_opt o s w = (Ok tt, s, wev w (opt_drop o) (next_id w)).
Proof.
  intros H. destruct o; cbn.
  - apply drop_elem_nofault. exact H.
  - rewrite wev_nil. reflexivity.
Qed.

Lemma drop_slice_nofault sl s w :
  fault w = None ->
  drop_slice sl s w = (Ok tt, s, wev w (drops (sl_elems (items s) sl)) (next_id w)).
Proof. intros H. unfold drop_slice. mcbn. apply drop_list_nofault. exact H. Qed.

Lemma clone_elem_nofault e s w :
  fault w = None ->
  clone_elem e s w =
    (Ok (mkE (next_id w) (eval e)), s,
     wev w [EvClone e (mkE (next_id w) (eval e))] (next_id w + 1)).
Proof.
  intros H. unfold clone_elem.
  erewrite bind_ok by (apply user_call_nofault; exact H).
  reflexivity.
Qed.

Lemma call_closure_nofault s w :
  fault w = None ->
  call_closure s w =
    (Ok (mkE (next_id w) closure_val), s,
     wev w [EvCall (mkE (next_id w) closure_val)] (next_id w + 1)).
Proof.
  intros H. unfold call_closure.
  erewrite bind_ok by (apply user_call_nofault; exact H).
  reflexivity.
Qed.

(* ---- small facts used everywhere ------------------------------------------------ *)

Lemma WF_mk c z st f :
  0 <= c < W -> 0 <= z <= c -> (c = 0 -> st = 0) -> (0 < c -> 0 <= st < c) ->
  WF (mkB c z st f).
Proof. intros. unfold WF. cbn. auto. Qed.

Lemma abs_empty s : size s = 0 -> abs s = [].
Proof. intros H. unfold abs. rewrite H. reflexivity. Qed.

Lemma WF_cap0 s : WF s -> cap s = 0 -> abs s = [].
Proof. intros H Hc. wf H. apply abs_empty. lia. Qed.

Lemma phys_0 s : 0 <= start s < cap s -> phys s 0 = start s.
Proof. intros. unfold phys. rewrite Z.add_0_r. apply Z.mod_small. lia. Qed.

Lemma abs_front s :
  0 < cap s -> 0 <= start s < cap s -> 0 < size s ->
  exists t, abs s = items s (start s) :: t.
Proof.
  intros Hc Hs Hz. destruct (abs s) as [|h t] eqn:El.
  - apply (f_equal (@length elem)) in El. rewrite abs_length in El. cbn in El. lia.
  - exists t. f_equal.
    pose proof (zn_abs s 0 ltac:(lia)) as H0. rewrite El in H0. cbn in H0.
    rewrite H0. rewrite phys_0 by lia. reflexivity.
Qed.

Lemma abs_nonempty s : 0 < size s -> abs s <> [].
Proof.
  intros H E. apply (f_equal (@length elem)) in E. rewrite abs_length in E. cbn in E. lia.
Qed.

Lemma abs_back s :
  0 < size s -> last_error (abs s) = Some (items s (phys s (size s - 1))).
Proof.
  intros H. rewrite zn_last by (apply abs_nonempty; exact H).
  rewrite abs_zlen by lia. rewrite zn_abs by lia. reflexivity.
Qed.
