(* Truncate.v — drop_range, truncate_back, truncate_front, clear, and the
   destructor of the buffer: the dropped elements are exactly the removed part
   of the abstract list, destroyed once each, in order; the rest stays. *)

From CB Require Import Spec.
From CBP Require Import MonadLemmas Arith AbsLemmas ListLemmas AbsOps Core Step Slices.
From Coq Require Import ZifyBool.
Ltac Zify.zify_post_hook ::= Z.div_mod_to_equations.

Ltac blem_user ::=
  first [ apply add_mod_ok; mcbn; lia | apply sub_mod_ok; mcbn; lia ].

(* the physical segments that hold the logical range [a, b) *)
Definition range_slices (s : cbuf) (a b : Z) : slice * slice :=
  let df := phys s a in
  let dt := (start s + b) mod cap s in
  if df <? dt then (mkS df (dt - df), empty_slice)
  else (mkS df (cap s - df), mkS 0 dt).

Lemma zn_sublist l a b i :
  0 <= i < Z.of_nat (b - a) -> zn (sublist a b l) i = zn l (Z.of_nat a + i).
Proof.
  intros H. unfold sublist. rewrite zn_firstn by lia. rewrite zn_skipn by lia.
  f_equal. lia.
Qed.

Lemma zlen_sublist {A} (l : list A) a b :
  (a <= b <= length l)%nat -> zlen (sublist a b l) = Z.of_nat (b - a).
Proof.
  intros H. unfold sublist. rewrite zlen_firstn, zlen_skipn. unfold zlen. lia.
Qed.

Lemma range_slices_elems s a b :
  0 < cap s -> 0 <= start s < cap s -> 0 <= size s <= cap s ->
  0 <= a < b -> b <= size s ->
  let '(r, l) := range_slices s a b in
  sl_elems (items s) r ++ sl_elems (items s) l
  = sublist (Z.to_nat a) (Z.to_nat b) (abs s)
  /\ sl_ok s r /\ sl_ok s l.
Proof.
  intros Hc Hs Hz Hab Hb. unfold range_slices.
  pose proof (phys_range s a Hc) as Hpa.
  assert (Hdt : 0 <= (start s + b) mod cap s < cap s) by (apply Z.mod_pos_bound; lia).
  destruct (phys_spec s a Hc Hs ltac:(lia)) as [[Ha1 Ea]|[Ha1 Ea]];
    destruct (mod_small_or_wrap (start s + b) (cap s) Hc ltac:(lia)) as [[Hb1 Eb]|[Hb1 Eb]];
    rewrite Ea, Eb; try (exfalso; lia).
  - (* neither end wraps *)
    replace (start s + a <? start s + b) with true by lia.
    split; [|unfold sl_ok; cbn; lia].
    rewrite (sl_elems_empty _ empty_slice) by (cbn; lia). rewrite app_nil_r.
    apply zn_ext.
    + rewrite sl_elems_zlen by (cbn; lia). rewrite zlen_sublist by (rewrite abs_length; lia).
      cbn. lia.
    + intros i Hi. rewrite sl_elems_zlen in Hi by (cbn; lia). cbn in Hi.
      rewrite zn_sl_elems by (cbn; lia). rewrite zn_sublist by lia. rewrite zn_abs by lia.
      cbn [soff]. f_equal. unfold phys. rewrite Z.mod_small by lia. lia.
  - (* the range crosses the array end *)
    replace (start s + a <? start s + b - cap s) with false by lia.
    split; [|unfold sl_ok; cbn; lia].
    apply zn_ext.
    + rewrite zlen_app, !sl_elems_zlen by (cbn; lia).
      rewrite zlen_sublist by (rewrite abs_length; lia). cbn. lia.
    + intros i Hi. rewrite zlen_app, !sl_elems_zlen in Hi by (cbn; lia). cbn in Hi.
      rewrite zn_sublist by lia. rewrite zn_abs by lia.
      destruct (Z_lt_ge_dec i (cap s - (start s + a))) as [Hlt|Hge].
      * rewrite zn_app1 by (rewrite sl_elems_zlen; cbn; lia).
        rewrite zn_sl_elems by (cbn; lia). cbn [soff]. f_equal.
        unfold phys. rewrite Z.mod_small by lia. lia.
      * rewrite zn_app2 by (rewrite sl_elems_zlen; cbn; lia).
        rewrite sl_elems_zlen by (cbn; lia). cbn [slen].
        rewrite zn_sl_elems by (cbn; lia). cbn [soff]. f_equal.
        unfold phys. apply Z.mod_unique with (q := 1); lia.
  - (* both ends are past the array end *)
    replace (start s + a - cap s <? start s + b - cap s) with true by lia.
    split; [|unfold sl_ok; cbn; lia].
    rewrite (sl_elems_empty _ empty_slice) by (cbn; lia). rewrite app_nil_r.
    apply zn_ext.
    + rewrite sl_elems_zlen by (cbn; lia). rewrite zlen_sublist by (rewrite abs_length; lia).
      cbn. lia.
    + intros i Hi. rewrite sl_elems_zlen in Hi by (cbn; lia). cbn in Hi.
      rewrite zn_sl_elems by (cbn; lia). rewrite zn_sublist by lia. rewrite zn_abs by lia.
      cbn [soff]. f_equal. unfold phys. apply Z.mod_unique with (q := 1); lia.
Qed.

(* shrinking at the back / at the front *)
Lemma abs_truncate_back s a :
  0 <= a <= size s -> abs (b_size s a) = firstn (Z.to_nat a) (abs s).
Proof.
  intros H. apply zn_ext.
  - rewrite zlen_firstn, !abs_zlen by slia. slia.
  - intros i Hi. rewrite abs_zlen in Hi by slia. cbn [size b_size] in Hi.
    rewrite zn_abs by slia. rewrite phys_b_size. cbn [items b_size].
    rewrite zn_firstn by lia. rewrite zn_abs by lia. reflexivity.
Qed.

Lemma abs_truncate_front s b :
  0 < cap s -> 0 <= start s < cap s -> 0 <= b <= size s -> size s <= cap s ->
  abs (mkB (cap s) (size s - b) ((start s + b) mod cap s) (items s))
  = skipn (Z.to_nat b) (abs s).
Proof.
  intros Hc Hs Hb Hz. apply zn_ext.
  - rewrite zlen_skipn, !abs_zlen by slia. slia.
  - intros i Hi. rewrite abs_zlen in Hi by slia. cbn [size] in Hi.
    rewrite zn_abs by slia. rewrite phys_mkB. cbn [items].
    rewrite zn_skipn by lia. rewrite zn_abs by lia. unfold phys.
    f_equal. rewrite Zplus_mod_idemp_l. f_equal. lia.
Qed.

Lemma drop_two_ok R L s w :
  fault w = None ->
  finally (drop_slice R) (drop_slice L) s w =
    (Ok tt, s, wev w (drops (sl_elems (items s) R ++ sl_elems (items s) L)) (next_id w)).
Proof.
  intros Hf. erewrite finally_ok.
  - reflexivity.
  - apply drop_slice_nofault. exact Hf.
  - rewrite drop_slice_nofault by exact Hf. rewrite wev_wev.
    unfold drops. rewrite map_app. reflexivity.
Qed.

Theorem drop_range_ok s w a b :
  WF s -> fault w = None -> 0 <= a < b -> b <= size s -> (a = 0 \/ b = size s) ->
  exists s',
    drop_range a b s w =
      (Ok tt, s', wev w (drops (sublist (Z.to_nat a) (Z.to_nat b) (abs s))) (next_id w)) /\
    abs s' = (if b =? size s then firstn (Z.to_nat a) (abs s) else skipn (Z.to_nat b) (abs s)) /\
    WF s' /\ cap s' = cap s.
Proof.
  intros HW Hf Hab Hb Hends. pose proof HW as HW'. wf HW'.
  specialize (Hst ltac:(lia)).
  pose proof (range_slices_elems s a b ltac:(lia) Hst ltac:(lia) Hab Hb) as Hrs.
  unfold range_slices in Hrs.
  pose proof (phys_range s a ltac:(lia)) as Hpa.
  assert (Hdt : 0 <= (start s + b) mod cap s < cap s) by (apply Z.mod_pos_bound; lia).
  unfold drop_range. replace (b <=? a) with false by lia.
  mcbn. do 6 bstep. bstep. bstep. fold (phys s a) in *.
  (* the state after shrinking *)
  set (s1 := if b =? size s then b_size s a
             else mkB (cap s) (size s - b) ((start s + b) mod cap s) (items s)).
  assert (Hbody : (if b =? size s then set_size a
                   else set_start ((start s + b) mod cap s);; v <- usub (size s) b;; set_size v)
                    s w = (Ok tt, s1, w)).
  { subst s1. destruct (b =? size s) eqn:Eb; [reflexivity|]. bgo. reflexivity. }
  assert (Hitems : items s1 = items s) by (subst s1; destruct (b =? size s); reflexivity).
  assert (Habs1 : abs s1 = if b =? size s then firstn (Z.to_nat a) (abs s)
                           else skipn (Z.to_nat b) (abs s)).
  { subst s1. destruct (b =? size s) eqn:Eb.
    - apply abs_truncate_back. lia.
    - apply abs_truncate_front; lia. }
  assert (HW1 : WF s1 /\ cap s1 = cap s).
  { subst s1. destruct (b =? size s) eqn:Eb; (split; [apply WF_mk; cbn; lia|reflexivity]). }
  exists s1. split; [|tauto].
  destruct (phys s a <? (start s + b) mod cap s) eqn:Elt; destruct Hrs as (Hel & Hr & Hl).
  - (* one segment *)
    bgo. eapply finally_ok; [exact Hbody|].
    rewrite drop_two_ok by exact Hf. rewrite Hitems.
    rewrite ?Z.add_0_l. rewrite Hel. reflexivity.
  - (* two segments *)
    bgo. eapply finally_ok; [exact Hbody|].
    rewrite drop_two_ok by exact Hf. rewrite Hitems.
    rewrite ?Z.add_0_l, ?Z.sub_0_r. rewrite Hel. reflexivity.
Qed.

(* ---- truncate_back / truncate_front / clear ---------------------------------- *)

Lemma sublist_to_end {A} (l : list A) a :
  sublist a (length l) l = skipn a l.
Proof.
  unfold sublist. apply firstn_all2. rewrite skipn_length. lia.
Qed.

Lemma sublist_from_0 {A} (l : list A) b : sublist 0 b l = firstn b l.
Proof. unfold sublist. rewrite Nat.sub_0_r. reflexivity. Qed.

Theorem truncate_back_ok s w k :
  WF s -> fault w = None -> 0 <= k ->
  let m := Z.to_nat (Z.min k (size s)) in
  ev_step (truncate_back k) s w tt (firstn m (abs s)) (drops (skipn m (abs s))) (next_id w).
Proof.
  intros HW Hf Hk m. pose proof HW as HW'. wf HW'. unfold ev_step, truncate_back. mcbn.
  destruct ((cap s =? 0) || (size s <=? k)) eqn:E.
  - exists s. subst m. replace (Z.min k (size s)) with (size s) by lia.
    rewrite firstn_all2 by (rewrite abs_length; lia).
    rewrite skipn_all2 by (rewrite abs_length; lia).
    cbn [drops map]. rewrite wev_nil. auto.
  - destruct (drop_range_ok s w k (size s) HW Hf ltac:(lia) ltac:(lia) ltac:(lia))
      as (s' & Hd & Ha & HW2 & Hc).
    exists s'. rewrite Hd. subst m. replace (Z.min k (size s)) with k by lia.
    rewrite Z.eqb_refl in Ha.
    replace (Z.to_nat (size s)) with (length (abs s)) by (rewrite abs_length; reflexivity).
    rewrite sublist_to_end. auto.
Qed.

Theorem truncate_front_ok s w k :
  WF s -> fault w = None -> 0 <= k ->
  let m := Z.to_nat (Z.min k (size s)) in
  ev_step (truncate_front k) s w tt (lastn m (abs s))
          (drops (firstn (length (abs s) - m) (abs s))) (next_id w).
Proof.
  intros HW Hf Hk m. pose proof HW as HW'. wf HW'. unfold ev_step, truncate_front. mcbn.
  unfold lastn. rewrite abs_length.
  destruct ((cap s =? 0) || (size s <=? k)) eqn:E.
  - exists s. subst m. replace (Z.min k (size s)) with (size s) by lia.
    rewrite Nat.sub_diag. cbn [skipn firstn drops map]. rewrite wev_nil. auto.
  - bstep.
    destruct (drop_range_ok s w 0 (size s - k) HW Hf ltac:(lia) ltac:(lia) ltac:(lia))
      as (s' & Hd & Ha & HW2 & Hc).
    exists s'. rewrite Hd. subst m. replace (Z.min k (size s)) with k by lia.
    rewrite sublist_from_0.
    replace (Z.to_nat (size s) - Z.to_nat k)%nat with (Z.to_nat (size s - k)) by lia.
    split; [reflexivity|]. split; [|auto].
    rewrite Ha. destruct (size s - k =? size s) eqn:E2; [|reflexivity].
    assert (k = 0) as -> by lia. rewrite Z.sub_0_r.
    rewrite skipn_all2 by (rewrite abs_length; lia). reflexivity.
Qed.

Theorem clear_ok s w :
  WF s -> fault w = None -> ev_step clear s w tt [] (drops (abs s)) (next_id w).
Proof.
  intros HW Hf. pose proof (truncate_back_ok s w 0 HW Hf ltac:(lia)) as H.
  pose proof HW as HW'. wf HW'.
  cbv zeta in H. replace (Z.min 0 (size s)) with 0 in H by lia. exact H.
Qed.

Theorem drop_buf_ok s w :
  WF s -> fault w = None -> ev_step drop_buf s w tt [] (drops (abs s)) (next_id w).
Proof. apply clear_ok. Qed.
