(* UnstableEq.v — C18: the crate built with the `unstable` feature behaves
   exactly like the default build: same results, same final state, same
   panics, same element lifecycle events, for every fault plan and in debug
   and release mode.

   Main theorem:  exec_unstable_eq :
     forall o s w, 0 <= cap s -> exec_unstable o s w = exec o s w.

   The premise [0 <= cap s] (N is a usize) is needed by exactly one function,
   extend_from_slice (and its callers io/eio/aio write): see
   [extend_from_slice_neg_cap_differs] at the end of this file. Every other
   per-function equality holds for all states and all worlds. No functional
   extensionality: all equalities are pointwise in the state and the world. *)

From CB Require Import Spec Unstable.
From Coq Require Import ZifyBool.

Ltac Zify.zify_post_hook ::= Z.div_mod_to_equations.

(* ====================================================================== *)
(* congruence for the monad, pointwise                                      *)

Lemma bind_ext {A B} (m1 m2 : M A) (k1 k2 : A -> M B) s w :
  (forall s w, m1 s w = m2 s w) ->
  (forall a s w, k1 a s w = k2 a s w) ->
  bind m1 k1 s w = bind m2 k2 s w.
Proof.
  intros H1 H2. unfold bind. rewrite H1.
  destruct (m2 s w) as [[[a|p] s1] w1]; auto.
Qed.

Lemma finally_ext {A} (b1 b2 : M A) (c1 c2 : M unit) s w :
  (forall s w, b1 s w = b2 s w) ->
  (forall s w, c1 s w = c2 s w) ->
  finally b1 c1 s w = finally b2 c2 s w.
Proof.
  intros H1 H2. unfold finally. rewrite H1.
  destruct (b2 s w) as [[r s1] w1]. rewrite H2. reflexivity.
Qed.

Lemma on_unwind_ext {A} (b1 b2 : M A) (c1 c2 : M unit) s w :
  (forall s w, b1 s w = b2 s w) ->
  (forall s w, c1 s w = c2 s w) ->
  on_unwind b1 c1 s w = on_unwind b2 c2 s w.
Proof.
  intros H1 H2. unfold on_unwind. rewrite H1.
  destruct (b2 s w) as [[[a|p] s1] w1]; [reflexivity|]. rewrite H2. reflexivity.
Qed.

Lemma with_buf_ext {A} (b : cbuf) (m1 m2 : M A) s w :
  (forall s w, m1 s w = m2 s w) ->
  with_buf b m1 s w = with_buf b m2 s w.
Proof. intros H. unfold with_buf. rewrite H. reflexivity. Qed.

Lemma bind_ret_r {A} (m : M A) s w : bind m (fun a => ret a) s w = m s w.
Proof. unfold bind. destruct (m s w) as [[[a|p] s1] w1]; reflexivity. Qed.

Lemma bind_ret_pair {A B} (m : M (A * B)) s w :
  bind m (fun x => let '(a, b) := x in ret (a, b)) s w = m s w.
Proof. unfold bind. destruct (m s w) as [[[[a b]|p] s1] w1]; reflexivity. Qed.

Lemma bind_assoc' {A B C} (m : M A) (f : A -> M B) (g : B -> M C) s w :
  bind (bind m f) g s w = bind m (fun x => bind (f x) g) s w.
Proof. unfold bind. destruct (m s w) as [[[a|p] s1] w1]; reflexivity. Qed.

Lemma bind_items_slice {B} (k : slice -> M B) s w :
  bind items_slice k s w = k (mkS 0 (cap s)) s w.
Proof. reflexivity. Qed.

(* proven equalities are collected in the hint database [ueq] (monadic, for
   [auto]) and the rewrite database [ueqr] (pure functions) *)
Create HintDb ueq.

(* one structural step on a goal  L s w = R s w  whose two sides have the
   same shape *)
Ltac mstep :=
  cbv beta zeta;
  match goal with
  | |- ?x = ?x => reflexivity
  | |- _ => solve [ auto with ueq nocore ]
  | |- bind _ _ _ _ = bind _ _ _ _ => apply bind_ext; [ intros ? ? | intros ? ? ? ]
  | |- finally _ _ _ _ = finally _ _ _ _ => apply finally_ext; intros ? ?
  | |- on_unwind _ _ _ _ = on_unwind _ _ _ _ => apply on_unwind_ext; intros ? ?
  | |- with_buf _ _ _ _ = with_buf _ _ _ _ => apply with_buf_ext; intros ? ?
  | |- (if ?c then _ else _) _ _ = (if ?c then _ else _) _ _ => destruct c
  | |- (match ?x with _ => _ end) _ _ = (match ?x with _ => _ end) _ _ => destruct x
  | |- (match ?x with _ => _ end) = (match ?x with _ => _ end) => destruct x
  end.

Ltac msteps := repeat mstep.

(* ====================================================================== *)
(* lib.rs                                                                   *)

(* ---- slice_assume_init_ref / _mut: the cast and std's method agree -------- *)

Lemma u_slice_assume_init_ref_eq sl : u_slice_assume_init_ref sl = sl.
Proof. reflexivity. Qed.

Lemma u_slice_assume_init_mut_eq sl : u_slice_assume_init_mut sl = sl.
Proof. reflexivity. Qed.

(* ---- new ------------------------------------------------------------------- *)

Lemma u_new_buf_eq n junk : u_new_buf n junk = new_buf n junk.
Proof. reflexivity. Qed.

(* ---- make_contiguous --------------------------------------------------------- *)

Lemma u_make_contiguous_eq s w : u_make_contiguous s w = make_contiguous s w.
Proof.
  unfold u_make_contiguous, make_contiguous, u_slice_assume_init_mut, sl_assume_init_mut.
  msteps; apply bind_ret_r.
Qed.
#[export] Hint Resolve u_make_contiguous_eq : ueq.

(* ---- as_slices / as_mut_slices -------------------------------------------------- *)

Lemma u_as_slices_eq s w : u_as_slices s w = as_slices s w.
Proof.
  unfold u_as_slices, as_slices, u_slice_assume_init_ref, sl_assume_init_ref.
  msteps; apply bind_ret_pair.
Qed.
#[export] Hint Resolve u_as_slices_eq : ueq.

Lemma u_as_mut_slices_eq s w : u_as_mut_slices s w = as_mut_slices s w.
Proof.
  unfold u_as_mut_slices, as_mut_slices, as_slices, u_slice_assume_init_mut, sl_assume_init_mut.
  msteps; apply bind_ret_pair.
Qed.
#[export] Hint Resolve u_as_mut_slices_eq : ueq.

(* ---- drop_range, truncate, clear, Drop --------------------------------------------- *)

Lemma u_dropper_drop_eq sl s w : u_dropper_drop sl s w = drop_slice sl s w.
Proof. reflexivity. Qed.
#[export] Hint Resolve u_dropper_drop_eq : ueq.

Lemma u_drop_range_eq a b s w : u_drop_range a b s w = drop_range a b s w.
Proof. unfold u_drop_range, drop_range. msteps. Qed.
#[export] Hint Resolve u_drop_range_eq : ueq.

Lemma u_truncate_back_eq n s w : u_truncate_back n s w = truncate_back n s w.
Proof. unfold u_truncate_back, truncate_back. msteps. Qed.
#[export] Hint Resolve u_truncate_back_eq : ueq.

Lemma u_truncate_front_eq n s w : u_truncate_front n s w = truncate_front n s w.
Proof. unfold u_truncate_front, truncate_front. msteps. Qed.
#[export] Hint Resolve u_truncate_front_eq : ueq.

Lemma u_clear_eq s w : u_clear s w = clear s w.
Proof. unfold u_clear, clear. msteps. Qed.
#[export] Hint Resolve u_clear_eq : ueq.

Lemma u_drop_buf_eq s w : u_drop_buf s w = drop_buf s w.
Proof. unfold u_drop_buf, drop_buf. msteps. Qed.
#[export] Hint Resolve u_drop_buf_eq : ueq.

Lemma u_fill_eq v s w : u_fill v s w = fill v s w.
Proof. unfold u_fill, fill. msteps. Qed.
#[export] Hint Resolve u_fill_eq : ueq.

Lemma u_fill_with_eq s w : u_fill_with s w = fill_with s w.
Proof. unfold u_fill_with, fill_with. msteps. Qed.
#[export] Hint Resolve u_fill_with_eq : ueq.

(* ---- write_clone_of_slice vs write_uninit_slice_cloned ---------------------------- *)

Lemma sl_assume_init_drop_eq sl s w : sl_assume_init_drop sl s w = drop_slice sl s w.
Proof.
  unfold sl_assume_init_drop. destruct (slen sl =? 0) eqn:E; cbn [negb]; [|reflexivity].
  apply Z.eqb_eq in E. unfold drop_slice, sl_elems. rewrite E. reflexivity.
Qed.
#[export] Hint Resolve sl_assume_init_drop_eq : ueq.

(* the two cloning loops (std's Guard and the crate's Guard) agree everywhere *)
Lemma wcs_loop_eq n : forall dst src i s w,
  wcs_loop dst src n i s w = wusc_loop dst src n i s w.
Proof.
  induction n as [|n IH]; intros; cbn [wcs_loop wusc_loop]; msteps.
Qed.
#[export] Hint Resolve wcs_loop_eq : ueq.

(* The functions themselves differ when the lengths differ: std has
   assert_eq! (a panic in every build, before anything is cloned) where the
   crate has debug_assert_eq! (nothing in release builds, then `src[i]` is
   bounds-checked element by element). On equal lengths they agree. *)
Lemma u_write_clone_of_slice_eq dst src s w :
  slen dst = zlen src ->
  u_write_clone_of_slice dst src s w =
  bind (write_uninit_slice_cloned dst src) (fun _ => ret dst) s w.
Proof.
  intros H. unfold u_write_clone_of_slice, write_uninit_slice_cloned, list_range_to,
    sl_assume_init_mut.
  rewrite H, Z.eqb_refl, Z.leb_refl. cbn [assert_].
  replace (firstn (Z.to_nat (zlen src)) src) with src
    by (unfold zlen; rewrite Nat2Z.id, firstn_all; reflexivity).
  change (bind (ret tt) ?k) with (fun s w => bind (ret tt) k s w).
  cbn [bind ret].
  rewrite bind_assoc'.
  unfold bind at 2. unfold dassert at 1. cbn [negb]. rewrite andb_false_r.
  msteps.
Qed.

(* on different lengths: std panics in every build, before any clone ... *)
Lemma u_write_clone_of_slice_mismatch dst src s w :
  slen dst <> zlen src -> u_write_clone_of_slice dst src s w = (Panic PAssert, s, w).
Proof.
  intros H. unfold u_write_clone_of_slice. replace (slen dst =? zlen src) with false by lia.
  reflexivity.
Qed.

(* ... the crate's helper, in a release build, does not (here: empty
   destination, longer source). No call site of the crate passes different
   lengths, see [u_extend_from_slice_eq]. *)
Lemma write_uninit_slice_cloned_mismatch_release e s w :
  dbg w = false -> write_uninit_slice_cloned (mkS 0 0) [e] s w = (Ok tt, s, w).
Proof.
  intros H. unfold write_uninit_slice_cloned, bind, dassert. rewrite H. reflexivity.
Qed.

Lemma wcs_bind_ext {B} dst src (k1 : slice -> M B) (k2 : unit -> M B) s w :
  slen dst = zlen src ->
  (forall x y s w, k1 x s w = k2 y s w) ->
  bind (u_write_clone_of_slice dst src) k1 s w =
  bind (write_uninit_slice_cloned dst src) k2 s w.
Proof.
  intros H Hk. unfold bind at 1. rewrite u_write_clone_of_slice_eq by exact H.
  unfold bind. destruct (write_uninit_slice_cloned dst src s w) as [[[[]|p] s1] w1];
    cbn [ret]; auto.
Qed.

(* ---- no function of the crate changes N ------------------------------------------- *)

Definition kc {A} (m : M A) : Prop := forall s w, cap (snd (fst (m s w))) = cap s.

Lemma kc_bind {A B} (m : M A) (k : A -> M B) : kc m -> (forall a, kc (k a)) -> kc (bind m k).
Proof.
  intros H1 H2 s w. unfold bind. specialize (H1 s w).
  destruct (m s w) as [[[a|p] s1] w1]; cbn [fst snd] in *; [rewrite H2|]; auto.
Qed.

Lemma kc_finally {A} (b : M A) (c : M unit) : kc b -> kc c -> kc (finally b c).
Proof.
  intros H1 H2 s w. unfold finally. specialize (H1 s w).
  destruct (b s w) as [[r s1] w1]. specialize (H2 s1 w1).
  destruct (c s1 w1) as [[[[]|p] s2] w2]; [|destruct r]; cbn [fst snd] in *; congruence.
Qed.

Create HintDb kcdb.

Ltac kc_leaf :=
  intros s w; cbv zeta;
  repeat match goal with |- context [if ?c then _ else _] => destruct c end;
  reflexivity.

Lemma kc_ret {A} (a : A) : kc (ret a). Proof. kc_leaf. Qed.
Lemma kc_panic {A} p : kc (@panic A p). Proof. kc_leaf. Qed.
Lemma kc_get : kc get. Proof. kc_leaf. Qed.
Lemma kc_get_cap : kc get_cap. Proof. kc_leaf. Qed.
Lemma kc_get_items : kc get_items. Proof. kc_leaf. Qed.
Lemma kc_set_size z : kc (set_size z). Proof. kc_leaf. Qed.
Lemma kc_set_start z : kc (set_start z). Proof. kc_leaf. Qed.
Lemma kc_dassert c : kc (dassert c). Proof. unfold dassert. kc_leaf. Qed.
Lemma kc_uadd x y : kc (uadd x y). Proof. unfold uadd. kc_leaf. Qed.
Lemma kc_usub x y : kc (usub x y). Proof. unfold usub. kc_leaf. Qed.
Lemma kc_umul x y : kc (umul x y). Proof. unfold umul. kc_leaf. Qed.
Lemma kc_urem x y : kc (urem x y). Proof. unfold urem. destruct (y =? 0); kc_leaf. Qed.
Lemma kc_emit e : kc (emit e). Proof. kc_leaf. Qed.
Lemma kc_user_call k : kc (user_call k).
Proof.
  intros s w. unfold user_call. destruct (fault w) as [[k' n]|]; [|reflexivity].
  destruct (fkind_eqb k k'); [destruct (n =? 0)|]; reflexivity.
Qed.
#[export] Hint Resolve kc_ret kc_panic kc_get kc_get_cap kc_get_items kc_set_size kc_set_start
  kc_dassert kc_uadd kc_usub kc_umul kc_urem kc_emit kc_user_call : kcdb.

Ltac kcs :=
  repeat (cbv beta zeta;
    first
      [ solve [ auto with kcdb nocore ]
      | apply kc_bind; [ | intros ? ]
      | apply kc_finally
      | match goal with
        | |- kc (if ?c then _ else _) => destruct c
        | |- kc (match ?x with _ => _ end) => destruct x
        end ]).

Lemma kc_add_mod x y m : kc (add_mod x y m).
Proof. unfold add_mod. kcs. Qed.
#[export] Hint Resolve kc_add_mod : kcdb.

Lemma kc_items_slice : kc items_slice.
Proof. unfold items_slice. kcs. Qed.
Lemma kc_sl_range sl a b : kc (sl_range sl a b).
Proof. unfold sl_range. kcs. Qed.
Lemma kc_sl_split_at sl k : kc (sl_split_at sl k).
Proof. unfold sl_split_at. kcs. Qed.
#[export] Hint Resolve kc_items_slice kc_sl_range kc_sl_split_at : kcdb.

Lemma kc_drop_list es : kc (drop_list es).
Proof. induction es; cbn [drop_list]; unfold drop_elem; kcs. Qed.
#[export] Hint Resolve kc_drop_list : kcdb.

Lemma kc_drop_slice sl : kc (drop_slice sl).
Proof. unfold drop_slice. kcs. Qed.
#[export] Hint Resolve kc_drop_slice : kcdb.

Lemma kc_drop_range a b : kc (drop_range a b).
Proof. unfold drop_range. kcs. Qed.
#[export] Hint Resolve kc_drop_range : kcdb.

Lemma kc_clear : kc clear.
Proof. unfold clear, truncate_back. kcs. Qed.
#[export] Hint Resolve kc_clear : kcdb.

(* congruence that remembers N *)
Lemma bind_ext_kc {A B} (m1 m2 : M A) (k1 k2 : A -> M B) c s w :
  (forall s w, m1 s w = m2 s w) -> kc m2 -> cap s = c ->
  (forall a s' w', cap s' = c -> k1 a s' w' = k2 a s' w') ->
  bind m1 k1 s w = bind m2 k2 s w.
Proof.
  intros H1 Hk Hc H2. unfold bind. rewrite H1. specialize (Hk s w).
  destruct (m2 s w) as [[[a|p] s1] w1]; cbn [fst snd] in Hk; [apply H2; congruence|reflexivity].
Qed.

Lemma bind_sl_range_ext {B} sl a b (k1 k2 : slice -> M B) s w :
  (a <= b -> b <= slen sl ->
   k1 (mkS (soff sl + a) (b - a)) s w = k2 (mkS (soff sl + a) (b - a)) s w) ->
  bind (sl_range sl a b) k1 s w = bind (sl_range sl a b) k2 s w.
Proof.
  intros H. unfold sl_range. destruct ((a <=? b) && (b <=? slen sl)) eqn:E.
  - cbn [bind ret]. apply H; lia.
  - reflexivity.
Qed.

Lemma bind_usub_ext {B} x y (k1 k2 : Z -> M B) s w :
  (forall v, (y <= x -> v = x - y) -> k1 v s w = k2 v s w) ->
  bind (usub x y) k1 s w = bind (usub x y) k2 s w.
Proof.
  intros H. unfold bind, usub. destruct (y <=? x) eqn:E.
  - apply H. reflexivity.
  - destruct (dbg w); [reflexivity|]. apply H. lia.
Qed.

Ltac bnext := cbv beta zeta; apply bind_ext; [ intros ? ?; solve [ msteps ] | ].

(* ---- extend_from_slice ---------------------------------------------------------------
   The only equality that needs a premise. The first two write_clone_of_slice
   calls get slices of equal length by construction; the third one gets
   `self.items` (length N) and the last N elements of `other`, which have
   length N because 0 <= N <= other.len(). *)
Lemma u_extend_from_slice_eq other s w :
  0 <= cap s ->
  u_extend_from_slice other s w = extend_from_slice other s w.
Proof.
  intros Hcap. unfold u_extend_from_slice, extend_from_slice.
  cbn [bind get]. cbv zeta.
  destruct (cap s =? 0) eqn:E0; [reflexivity|].
  apply bind_ext_kc with (c := cap s); [reflexivity|auto with kcdb|reflexivity|].
  intros [] s1 w1 H1.
  apply bind_ext_kc with (c := cap s); [reflexivity|auto with kcdb|assumption|].
  intros [] s2 w2 H2.
  destruct (zlen other <? cap s) eqn:El.
  - (* other fits: both slices have the length of what is written into them *)
    bnext. intros free_size s3 w3.
    bnext. intros final_size s4 w4.
    bnext. intros [rgt x] s5 w5.
    apply bind_sl_range_ext. intros Ha Hb.
    apply wcs_bind_ext.
    { cbn [slen]. unfold zlen. rewrite firstn_length. unfold zlen in *. lia. }
    intros _ _ s6 w6.
    bnext. intros sz s7 w7.
    bnext. intros v s8 w8.
    bnext. intros [] s9 w9.
    bnext. intros [lft y] s10 w10.
    bnext. intros [] s11 w11.
    apply bind_sl_range_ext. intros Hc Hd.
    apply wcs_bind_ext.
    { cbn [slen]. lia. }
    intros _ _ s12 w12. msteps.
  - (* other overwrites the whole buffer *)
    apply bind_ext_kc with (c := cap s); [apply u_clear_eq|auto with kcdb|assumption|].
    intros [] s3 w3 H3.
    apply bind_ext_kc with (c := cap s); [reflexivity|auto with kcdb|assumption|].
    intros [] s4 w4 H4.
    apply bind_usub_ext. intros k Hk.
    apply bind_ext_kc with (c := cap s); [reflexivity|auto with kcdb|assumption|].
    intros [] s5 w5 H5.
    rewrite !bind_items_slice.
    apply wcs_bind_ext.
    { cbn [slen]. rewrite H5, Hk by lia. unfold zlen. rewrite skipn_length.
      unfold zlen in *. lia. }
    intros _ _ s6 w6. reflexivity.
Qed.

(* ====================================================================== *)
(* iter.rs                                                                  *)

(* ---- slice_take*: equal at the two range forms the crate uses --------------
   The stable slice_take accepts any RangeBounds and is unimplemented!() on
   every form but `..i` and `i..`; the unstable one accepts exactly the
   OneSidedRange types (`..i`, `i..`, `..=i`), so `..=i` works there and panics
   on stable; a two-sided range does not type-check there. The crate only
   ever passes `..i` and `i..`. *)

Lemma u_slice_take_to_eq sl i s w :
  u_slice_take sl (RTo i) s w = slice_take sl BUnb (BExcl i) s w.
Proof.
  unfold u_slice_take, sl_split_off, slice_take. cbn [split_point_of osr_bound_of]. msteps.
Qed.

Lemma u_slice_take_from_eq sl i s w :
  u_slice_take sl (RFrom i) s w = slice_take sl (BIncl i) BUnb s w.
Proof.
  unfold u_slice_take, sl_split_off, slice_take. cbn [split_point_of osr_bound_of]. msteps.
Qed.

Lemma u_slice_take_mut_to_eq sl i s w :
  u_slice_take_mut sl (RTo i) s w = slice_take_mut sl BUnb (BExcl i) s w.
Proof.
  unfold u_slice_take_mut, sl_split_off_mut, slice_take_mut, slice_take.
  cbn [split_point_of osr_bound_of]. msteps.
Qed.

Lemma u_slice_take_mut_from_eq sl i s w :
  u_slice_take_mut sl (RFrom i) s w = slice_take_mut sl (BIncl i) BUnb s w.
Proof.
  unfold u_slice_take_mut, sl_split_off_mut, slice_take_mut, slice_take.
  cbn [split_point_of osr_bound_of]. msteps.
Qed.
#[export] Hint Resolve u_slice_take_to_eq u_slice_take_from_eq
  u_slice_take_mut_to_eq u_slice_take_mut_from_eq : ueq.

(* the form only the unstable build accepts: a genuine difference of the
   helper, unreachable from the crate *)
Lemma slice_take_to_inclusive_differs sl i s w :
  slice_take sl BUnb (BIncl i) s w = (Panic PUnimplemented, s, w) /\
  (i + 1 < W -> i + 1 <= slen sl ->
   u_slice_take sl (RToIncl i) s w =
   (Ok (mkS (soff sl + (i + 1)) (slen sl - (i + 1)), Some (mkS (soff sl) (i + 1))), s, w)).
Proof.
  split; [reflexivity|]. intros H1 H2.
  unfold u_slice_take, sl_split_off, sl_split_at. cbn [split_point_of osr_bound_of].
  unfold checked_add. replace (i + 1 <? W) with true by lia.
  replace (slen sl <? i + 1) with false by lia.
  replace (i + 1 <=? slen sl) with true by lia. reflexivity.
Qed.

Lemma u_slice_take_first_eq sl : u_slice_take_first sl = slice_take_first sl.
Proof.
  unfold u_slice_take_first, sl_split_off_first, sl_split_first, slice_take_first.
  destruct (0 <? slen sl); reflexivity.
Qed.

Lemma u_slice_take_last_eq sl : u_slice_take_last sl = slice_take_last sl.
Proof.
  unfold u_slice_take_last, sl_split_off_last, sl_split_last, slice_take_last.
  destruct (0 <? slen sl); reflexivity.
Qed.

(* the _mut forms leave `&mut []` behind on None: mem::replace(self, &mut []) in
   std's split_off_first_mut / split_off_last_mut, core::mem::take(slice) in the
   crate's own stable versions *)
Lemma u_slice_take_first_mut_eq sl : u_slice_take_first_mut sl = slice_take_first_mut sl.
Proof.
  unfold u_slice_take_first_mut, sl_split_off_first_mut, sl_split_first, slice_take_first_mut.
  destruct (0 <? slen sl); reflexivity.
Qed.

Lemma u_slice_take_last_mut_eq sl : u_slice_take_last_mut sl = slice_take_last_mut sl.
Proof.
  unfold u_slice_take_last_mut, sl_split_off_last_mut, sl_split_last, slice_take_last_mut.
  destruct (0 <? slen sl); reflexivity.
Qed.

(* ---- Iter / IterMut --------------------------------------------------------- *)

Lemma u_iter_new_eq s w : u_iter_new s w = iter_new s w.
Proof. unfold u_iter_new, iter_new. msteps. Qed.
#[export] Hint Resolve u_iter_new_eq : ueq.

Lemma u_iter_mut_new_eq s w : u_iter_mut_new s w = iter_mut_new s w.
Proof. unfold u_iter_mut_new, iter_mut_new. msteps. Qed.
#[export] Hint Resolve u_iter_mut_new_eq : ueq.

Lemma u_advance_front_by_eq it n s w : u_advance_front_by it n s w = advance_front_by it n s w.
Proof. unfold u_advance_front_by, advance_front_by. msteps. Qed.

Lemma u_advance_back_by_eq it n s w : u_advance_back_by it n s w = advance_back_by it n s w.
Proof. unfold u_advance_back_by, advance_back_by. msteps. Qed.

Lemma u_iter_mut_advance_front_by_eq it n s w :
  u_iter_mut_advance_front_by it n s w = advance_front_by it n s w.
Proof.
  unfold u_iter_mut_advance_front_by, advance_front_by.
  change slice_take with slice_take_mut. msteps.
Qed.

Lemma u_iter_mut_advance_back_by_eq it n s w :
  u_iter_mut_advance_back_by it n s w = advance_back_by it n s w.
Proof.
  unfold u_iter_mut_advance_back_by, advance_back_by.
  change slice_take with slice_take_mut. msteps.
Qed.
#[export] Hint Resolve u_advance_front_by_eq u_advance_back_by_eq
  u_iter_mut_advance_front_by_eq u_iter_mut_advance_back_by_eq : ueq.

Lemma u_iter_over_range_eq sb eb s w : u_iter_over_range sb eb s w = iter_over_range sb eb s w.
Proof. unfold u_iter_over_range, iter_over_range. msteps. Qed.

Lemma u_iter_mut_over_range_eq sb eb s w :
  u_iter_mut_over_range sb eb s w = iter_mut_over_range sb eb s w.
Proof. unfold u_iter_mut_over_range, iter_mut_over_range. msteps. Qed.
#[export] Hint Resolve u_iter_over_range_eq u_iter_mut_over_range_eq : ueq.

Lemma u_iter_next_eq it : u_iter_next it = iter_next it.
Proof. unfold u_iter_next, iter_next. rewrite !u_slice_take_first_eq. reflexivity. Qed.

Lemma u_iter_next_back_eq it : u_iter_next_back it = iter_next_back it.
Proof. unfold u_iter_next_back, iter_next_back. rewrite !u_slice_take_last_eq. reflexivity. Qed.

Lemma u_iter_mut_next_eq it : u_iter_mut_next it = iter_mut_next it.
Proof.
  unfold u_iter_mut_next, iter_mut_next. rewrite !u_slice_take_first_mut_eq. reflexivity.
Qed.

Lemma u_iter_mut_next_back_eq it : u_iter_mut_next_back it = iter_mut_next_back it.
Proof.
  unfold u_iter_mut_next_back, iter_mut_next_back. rewrite !u_slice_take_last_mut_eq. reflexivity.
Qed.

#[export] Hint Rewrite u_iter_next_eq u_iter_next_back_eq u_iter_mut_next_eq
  u_iter_mut_next_back_eq : ueqr.

Lemma u_into_iter_drop_eq s w : u_into_iter_drop s w = into_iter_drop s w.
Proof. unfold u_into_iter_drop, into_iter_drop. msteps. Qed.
#[export] Hint Resolve u_into_iter_drop_eq : ueq.

(* ====================================================================== *)
(* drain.rs                                                                 *)

Lemma u_drain_as_slices_eq d s w : u_drain_as_slices d s w = drain_as_slices d s w.
Proof.
  unfold u_drain_as_slices, drain_as_slices, sl_assume_init_ref.
  msteps; apply bind_ret_pair.
Qed.

Lemma u_drain_as_mut_slices_eq d s w : u_drain_as_mut_slices d s w = drain_as_mut_slices d s w.
Proof.
  unfold u_drain_as_mut_slices, drain_as_mut_slices, drain_as_slices, sl_assume_init_mut.
  msteps; apply bind_ret_pair.
Qed.
#[export] Hint Resolve u_drain_as_slices_eq u_drain_as_mut_slices_eq : ueq.

Lemma u_drain_drop_eq d s w : u_drain_drop d s w = drain_drop d s w.
Proof. unfold u_drain_drop, drain_drop. msteps. Qed.
#[export] Hint Resolve u_drain_drop_eq : ueq.

(* ====================================================================== *)
(* lib.rs, trait impls                                                      *)

Ltac usteps := repeat (autorewrite with ueqr; mstep).

Lemma u_to_vec_loop_eq fuel : forall src it acc s w,
  u_to_vec_loop fuel src it acc s w = to_vec_loop fuel src it acc s w.
Proof.
  induction fuel as [|fuel IH]; intros; cbn [u_to_vec_loop to_vec_loop]; usteps.
Qed.
#[export] Hint Resolve u_to_vec_loop_eq : ueq.

Lemma u_to_vec_eq s w : u_to_vec s w = to_vec s w.
Proof. unfold u_to_vec, to_vec. msteps. Qed.
#[export] Hint Resolve u_to_vec_eq : ueq.

Lemma u_from_array_body_eq arr s w : u_from_array_body arr s w = from_array_body arr s w.
Proof. unfold u_from_array_body, from_array_body. msteps. Qed.
#[export] Hint Resolve u_from_array_body_eq : ueq.

Lemma u_from_array_eq n junk arr s w : u_from_array n junk arr s w = from_array n junk arr s w.
Proof.
  unfold u_from_array, from_array.
  change {| cap := n; size := 0; start := 0; items := uninit_array n junk |} with (new_buf n junk).
  msteps.
Qed.
#[export] Hint Resolve u_from_array_eq : ueq.

Lemma u_from_iter_eq n junk xs s w : u_from_iter n junk xs s w = from_iter n junk xs s w.
Proof. unfold u_from_iter, from_iter. rewrite u_new_buf_eq. msteps. Qed.
#[export] Hint Resolve u_from_iter_eq : ueq.

Lemma u_buf_eq_eq eqf other s w : u_buf_eq eqf other s w = buf_eq eqf other s w.
Proof. unfold u_buf_eq, buf_eq. msteps. Qed.

Lemma u_buf_eq_slice_eq eqf other s w : u_buf_eq_slice eqf other s w = buf_eq_slice eqf other s w.
Proof. unfold u_buf_eq_slice, buf_eq_slice. msteps. Qed.
#[export] Hint Resolve u_buf_eq_eq u_buf_eq_slice_eq : ueq.

Lemma u_eq_form_eq form eqf xs s w : u_eq_form form eqf xs s w = eq_form form eqf xs s w.
Proof.
  destruct form; cbn [u_eq_form eq_form];
    unfold u_buf_eq_array, u_buf_eq_slice_ref, u_buf_eq_slice_mut, u_buf_eq_array_ref,
      u_buf_eq_array_mut, buf_eq_array, buf_eq_slice_ref, buf_eq_slice_mut, buf_eq_array_ref,
      buf_eq_array_mut; apply u_buf_eq_slice_eq.
Qed.
#[export] Hint Resolve u_eq_form_eq : ueq.

Lemma u_iter_cmp_loop_eq cmpf fuel : forall a b ia ib s w,
  u_iter_cmp_loop cmpf fuel a b ia ib s w = iter_cmp_loop cmpf fuel a b ia ib s w.
Proof.
  induction fuel as [|fuel IH]; intros; cbn [u_iter_cmp_loop iter_cmp_loop]; usteps.
Qed.
#[export] Hint Resolve u_iter_cmp_loop_eq : ueq.

Lemma u_buf_partial_cmp_eq cmpf other s w :
  u_buf_partial_cmp cmpf other s w = buf_partial_cmp cmpf other s w.
Proof. unfold u_buf_partial_cmp, buf_partial_cmp. msteps. Qed.
#[export] Hint Resolve u_buf_partial_cmp_eq : ueq.

Lemma u_buf_cmp_eq cmpf other s w : u_buf_cmp cmpf other s w = buf_cmp cmpf other s w.
Proof. unfold u_buf_cmp, buf_cmp. msteps. Qed.
#[export] Hint Resolve u_buf_cmp_eq : ueq.

Lemma u_iter_for_each_eq fuel : forall src it body s w,
  u_iter_for_each fuel src it body s w = iter_for_each fuel src it body s w.
Proof.
  induction fuel as [|fuel IH]; intros; cbn [u_iter_for_each iter_for_each]; usteps.
Qed.
#[export] Hint Resolve u_iter_for_each_eq : ueq.

Lemma u_buf_hash_eq s w : u_buf_hash s w = buf_hash s w.
Proof. unfold u_buf_hash, buf_hash. msteps. Qed.

Lemma u_buf_fmt_eq s w : u_buf_fmt s w = buf_fmt s w.
Proof. unfold u_buf_fmt, buf_fmt. msteps. Qed.
#[export] Hint Resolve u_buf_hash_eq u_buf_fmt_eq : ueq.

(* Default, IntoIterator for &CircularBuffer, Debug for the iterators *)
Lemma u_default_buf_eq n junk : u_default_buf n junk = default_buf n junk.
Proof. reflexivity. Qed.

Lemma u_ref_into_iter_eq s w : u_ref_into_iter s w = ref_into_iter s w.
Proof. unfold u_ref_into_iter, ref_into_iter. msteps. Qed.

Lemma u_iter_fmt_eq it s w : u_iter_fmt it s w = iter_fmt it s w.
Proof. unfold u_iter_fmt, iter_fmt. msteps. Qed.
#[export] Hint Resolve u_ref_into_iter_eq u_iter_fmt_eq : ueq.

Lemma u_iter_mut_fmt_eq it s w : u_iter_mut_fmt it s w = iter_mut_fmt it s w.
Proof. unfold u_iter_mut_fmt, iter_mut_fmt. msteps. Qed.

Lemma u_drain_fmt_eq d s w : u_drain_fmt d s w = drain_fmt d s w.
Proof. unfold u_drain_fmt, drain_fmt. msteps. Qed.

Lemma u_into_iter_fmt_eq s w : u_into_iter_fmt s w = into_iter_fmt s w.
Proof. unfold u_into_iter_fmt, into_iter_fmt. msteps. Qed.
#[export] Hint Resolve u_iter_mut_fmt_eq u_drain_fmt_eq u_into_iter_fmt_eq : ueq.

Lemma u_cloned_for_each_eq fuel : forall src it body s w,
  u_cloned_for_each fuel src it body s w = cloned_for_each fuel src it body s w.
Proof.
  induction fuel as [|fuel IH]; intros; cbn [u_cloned_for_each cloned_for_each]; usteps.
Qed.
#[export] Hint Resolve u_cloned_for_each_eq : ueq.

Lemma u_clone_buf_eq junk s w : u_clone_buf junk s w = clone_buf junk s w.
Proof. unfold u_clone_buf, clone_buf. msteps. Qed.

Lemma u_clone_from_eq other s w : u_clone_from other s w = clone_from other s w.
Proof. unfold u_clone_from, clone_from. msteps. Qed.
#[export] Hint Resolve u_clone_buf_eq u_clone_from_eq : ueq.

(* ====================================================================== *)
(* io.rs, embedded_io.rs                                                    *)

Lemma u_io_write_eq src s w : 0 <= cap s -> u_io_write src s w = io_write src s w.
Proof.
  intros H. unfold u_io_write, io_write, bind. rewrite u_extend_from_slice_eq by exact H.
  reflexivity.
Qed.
Lemma u_eio_write_eq src s w : 0 <= cap s -> u_eio_write src s w = eio_write src s w.
Proof.
  intros H. unfold u_eio_write, eio_write, bind. rewrite u_extend_from_slice_eq by exact H.
  reflexivity.
Qed.
Lemma u_aio_write_eq src s w : 0 <= cap s -> u_aio_write src s w = aio_write src s w.
Proof.
  intros H. unfold u_aio_write, aio_write, bind. rewrite u_extend_from_slice_eq by exact H.
  reflexivity.
Qed.

Lemma u_io_read_eq dst s w : u_io_read dst s w = io_read dst s w.
Proof. unfold u_io_read, io_read. msteps. Qed.
Lemma u_eio_read_eq dst s w : u_eio_read dst s w = eio_read dst s w.
Proof. unfold u_eio_read, eio_read. msteps. Qed.
Lemma u_aio_read_eq dst s w : u_aio_read dst s w = aio_read dst s w.
Proof. unfold u_aio_read, aio_read. msteps. Qed.

Lemma u_io_fill_buf_eq s w : u_io_fill_buf s w = io_fill_buf s w.
Proof. unfold u_io_fill_buf, io_fill_buf. msteps. Qed.
Lemma u_eio_fill_buf_eq s w : u_eio_fill_buf s w = eio_fill_buf s w.
Proof. unfold u_eio_fill_buf, eio_fill_buf. msteps. Qed.
Lemma u_aio_fill_buf_eq s w : u_aio_fill_buf s w = aio_fill_buf s w.
Proof. unfold u_aio_fill_buf, aio_fill_buf. msteps. Qed.

Lemma u_io_consume_eq amt s w : u_io_consume amt s w = io_consume amt s w.
Proof. unfold u_io_consume, io_consume. msteps. Qed.
Lemma u_eio_consume_eq amt s w : u_eio_consume amt s w = eio_consume amt s w.
Proof. unfold u_eio_consume, eio_consume. msteps. Qed.
Lemma u_aio_consume_eq amt s w : u_aio_consume amt s w = aio_consume amt s w.
Proof. unfold u_aio_consume, aio_consume. msteps. Qed.

Lemma u_fam_write_eq fam src s w : 0 <= cap s -> u_fam_write fam src s w = fam_write fam src s w.
Proof.
  destruct fam; cbn [u_fam_write fam_write];
    auto using u_io_write_eq, u_eio_write_eq, u_aio_write_eq.
Qed.
Lemma u_fam_read_eq fam dst s w : u_fam_read fam dst s w = fam_read fam dst s w.
Proof.
  destruct fam; cbn [u_fam_read fam_read];
    auto using u_io_read_eq, u_eio_read_eq, u_aio_read_eq.
Qed.
Lemma u_fam_fill_buf_eq fam s w : u_fam_fill_buf fam s w = fam_fill_buf fam s w.
Proof.
  destruct fam; cbn [u_fam_fill_buf fam_fill_buf];
    auto using u_io_fill_buf_eq, u_eio_fill_buf_eq, u_aio_fill_buf_eq.
Qed.
Lemma u_fam_consume_eq fam amt s w : u_fam_consume fam amt s w = fam_consume fam amt s w.
Proof.
  destruct fam; cbn [u_fam_consume fam_consume];
    auto using u_io_consume_eq, u_eio_consume_eq, u_aio_consume_eq.
Qed.
#[export] Hint Resolve u_fam_read_eq u_fam_fill_buf_eq u_fam_consume_eq : ueq.

(* ====================================================================== *)
(* the harness                                                              *)

Lemma u_iter_exhaust_eq fuel : forall f it, u_iter_exhaust fuel f it = iter_exhaust fuel f it.
Proof.
  induction fuel as [|fuel IH]; intros; cbn [u_iter_exhaust iter_exhaust]; [reflexivity|].
  rewrite u_iter_next_eq. destruct (iter_next it) as [it' [p|]]; [rewrite IH|]; reflexivity.
Qed.
#[export] Hint Rewrite u_iter_exhaust_eq : ueqr.

Lemma u_run_iter_script_eq script : forall it s w,
  u_run_iter_script it script s w = run_iter_script it script s w.
Proof.
  induction script as [|st rest IH]; intros; cbn [u_run_iter_script run_iter_script];
    [reflexivity|].
  destruct st; usteps.
Qed.
#[export] Hint Resolve u_run_iter_script_eq : ueq.

Lemma u_iter_after_eq script : forall it, u_iter_after it script = iter_after it script.
Proof.
  induction script as [|st rest IH]; intros; cbn [u_iter_after iter_after]; [reflexivity|].
  destruct st; autorewrite with ueqr; apply IH.
Qed.
#[export] Hint Rewrite u_iter_after_eq : ueqr.

Lemma u_replace_buf_eq nb s w : u_replace_buf nb s w = replace_buf nb s w.
Proof. unfold u_replace_buf, replace_buf. msteps. Qed.
#[export] Hint Resolve u_replace_buf_eq : ueq.

(* ---- C18 --------------------------------------------------------------------- *)

Theorem exec_unstable_eq : forall o s w,
  0 <= cap s -> exec_unstable o s w = exec o s w.
Proof.
  intros o s w Hcap.
  destruct o; cbn [exec_unstable exec]; try solve [ msteps ]; try solve [ usteps ].
  - (* OExtendFromSlice *)
    unfold bind. rewrite u_extend_from_slice_eq by exact Hcap. reflexivity.
  - (* OIntoIter *) msteps. rewrite u_new_buf_eq. reflexivity.
  - (* OWrite *)
    unfold bind. rewrite u_fam_write_eq by exact Hcap. reflexivity.
  - (* OIntoIterDebug *) msteps. rewrite u_new_buf_eq. reflexivity.
Qed.

Corollary exec_unstable_eq_WF : forall o s w, WF s -> exec_unstable o s w = exec o s w.
Proof. intros o s w [[H _] _]. apply exec_unstable_eq. exact H. Qed.

(* every operation that does not go through extend_from_slice: no premise *)
Definition calls_extend_from_slice (o : op) : bool :=
  match o with OExtendFromSlice _ | OWrite _ _ => true | _ => false end.

Theorem exec_unstable_eq_any_state : forall o s w,
  calls_extend_from_slice o = false -> exec_unstable o s w = exec o s w.
Proof.
  intros o s w H.
  destruct o; try discriminate H; cbn [exec_unstable exec]; try solve [ msteps ];
    try solve [ usteps ].
  - msteps. rewrite u_new_buf_eq. reflexivity.
  - msteps. rewrite u_new_buf_eq. reflexivity.
Qed.

(* histories: as long as N >= 0 in every state that is reached *)
Fixpoint caps_ok (ops : list op) (s : cbuf) (w : world) : Prop :=
  match ops with
  | [] => True
  | o :: rest => 0 <= cap s /\ let '(_, s', w') := exec o s w in caps_ok rest s' w'
  end.

Theorem run_history_unstable_eq ops : forall s w,
  caps_ok ops s w -> run_history_unstable ops s w = run_history ops s w.
Proof.
  induction ops as [|o rest IH]; intros s w H; cbn [run_history_unstable run_history];
    [reflexivity|].
  destruct H as [Hc H]. rewrite exec_unstable_eq by exact Hc.
  destruct (exec o s w) as [[r s1] w1]. rewrite IH by exact H. reflexivity.
Qed.

(* ====================================================================== *)
(* examples                                                                 *)

(* what the harness can see of a result *)
Definition observe (r : outcome out * cbuf * world) :=
  let '(o, s, w) := r in
  (o, (cap s, size s, start s), map (items s) (zseq 0 (Z.to_nat (cap s))), log w,
   (next_id w, fault w)).

(* N = 5, two elements at slots 2 and 3; extend_from_slice of three elements:
   the first clone goes to slot 4, the free space wraps, the second clone goes
   to slot 0, the third clone panics. std's Guard destroys the second clone
   (slot 0), the first one is already owned by the buffer (size 3). *)
Definition ex_items : store :=
  fun p => if p =? 2 then mkE 100 10 else if p =? 3 then mkE 101 11 else junk0 p.
Definition ex_s : cbuf := mkB 5 2 2 ex_items.
Definition ex_w : world := mkW true 1000 [] (Some (FClone, 2)).
Definition ex_other := [mkE 200 20; mkE 201 21; mkE 202 22].

Example ex_extend_from_slice_wrapped_clone_fault :
  observe (exec_unstable (OExtendFromSlice ex_other) ex_s ex_w) =
  (Panic PUser, (5, 3, 2),
   [mkE 1001 21; mkE (-2) (-1); mkE 100 10; mkE 101 11; mkE 1000 20],
   [EvClone (mkE 200 20) (mkE 1000 20);
    EvClone (mkE 201 21) (mkE 1001 21);
    EvDrop (mkE 1001 21)],
   (1002, None)).
Proof. vm_compute. reflexivity. Qed.

Example ex_extend_from_slice_wrapped_clone_fault_stable :
  observe (exec (OExtendFromSlice ex_other) ex_s ex_w) =
  observe (exec_unstable (OExtendFromSlice ex_other) ex_s ex_w).
Proof. vm_compute. reflexivity. Qed.

(* range(1..=3) on the same buffer after a successful extend: split_off on
   both slices *)
Example ex_range_after_extend :
  let w0 := mkW true 1000 [] None in
  let '(_, s1, w1) := exec_unstable (OExtendFromSlice ex_other) ex_s w0 in
  fst (fst (exec_unstable (ORange (BIncl 1) (BIncl 3) [SLen; SNext; SNextBack; SNext; SNext]) s1 w1)) =
  Ok (OutScript [RLen 3; RItem (Some (3, mkE 101 11)); RItem (Some (0, mkE 1001 21));
                 RItem (Some (4, mkE 1000 20)); RItem None]).
Proof. vm_compute. reflexivity. Qed.

(* Why [0 <= cap s] is needed: on a state with a negative N (not a usize),
   in a release build, the crate's debug_assert_eq! is skipped and the stable
   loop runs zero times, while std's write_clone_of_slice hits its assert_eq!
   (self.items.len() = -1, other.len() = 0). *)
Example extend_from_slice_neg_cap_differs :
  let s := mkB (-1) 0 0 junk0 in
  let w := mkW false 0 [] None in
  fst (fst (exec_unstable (OExtendFromSlice []) s w)) = Panic PAssert /\
  fst (fst (exec (OExtendFromSlice []) s w)) = Ok OutUnit.
Proof. vm_compute. split; reflexivity. Qed.

(* Print Assumptions exec_unstable_eq.  -->  Closed under the global context *)
