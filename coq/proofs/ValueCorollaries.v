(* ValueCorollaries.v — readable, value-level corollaries stated directly on
   the executable model [exec]:
   (C13) equality, ordering, hashing and Debug depend only on the logical
         contents (and equality / ordering only on the VALUES of the contents);
   (C14) the byte-stream I/O traits (all three families);
   (C07) the slots handed out by mutable views are pairwise distinct;
   (C12) clones share no element with their source.
   Everything is derived from [exec_refines] through the bridge
   [exec_meets_spec] (SpecCorollaries.v), except C07, which speaks of physical
   positions and is proved on the model directly. *)

From CB Require Import Spec.
From CBP Require Import MonadLemmas Arith AbsLemmas ListLemmas AbsOps Core Step Slices RefDefs
     Views Iters CmpHash AllOps SpecCorollaries.
From Coq Require Import ZifyBool.
Ltac Zify.zify_post_hook ::= Z.div_mod_to_equations.

(* the values / identities of a sequence of elements *)
Definition vals (l : list elem) : list Z := map eval l.
Definition ids (l : list elem) : list Z := map eid l.

(* ====================================================================== *)
(* general list facts                                                      *)
(* ====================================================================== *)

Lemma vals_length l : length (vals l) = length l.
Proof. apply map_length. Qed.

Lemma vals_app a b : vals (a ++ b) = vals a ++ vals b.
Proof. apply map_app. Qed.

Lemma vals_skipn k l : vals (skipn k l) = skipn k (vals l).
Proof. unfold vals. revert l. induction k; intros [|x l]; cbn [skipn map]; auto. Qed.

Lemma vals_firstn k l : vals (firstn k l) = firstn k (vals l).
Proof. unfold vals. revert l. induction k; intros [|x l]; cbn [firstn map]; [auto..|f_equal; auto]. Qed.

Lemma vals_clones nid xs : vals (clones nid xs) = vals xs.
Proof. apply clones_vals. Qed.

Lemma vals_lastn k l : vals (lastn k l) = lastn k (vals l).
Proof. unfold lastn. rewrite vals_skipn, vals_length. reflexivity. Qed.

Lemma lastn_length {A} k (l : list A) : length (lastn k l) = Nat.min k (length l).
Proof. unfold lastn. rewrite skipn_length. lia. Qed.

Lemma zlen_eq_length {A B} (a : list A) (b : list B) : zlen a = zlen b <-> length a = length b.
Proof. unfold zlen. lia. Qed.

(* ====================================================================== *)
(* C13 — ==, <, hash, {:?} see the logical contents only                   *)
(* ====================================================================== *)

(* ---- what the specification's comparisons compute ------------------------- *)

(* element equality: equal values, and not the NaN-like value *)
Lemma val_eqb_iff x y : val_eqb x y = true <-> eval x = eval y /\ eval x <> nan_val.
Proof. unfold val_eqb. lia. Qed.

Lemma spec_list_eq_vals xs : forall ys,
  length xs = length ys ->
  (fst (spec_list_eq val_eqb xs ys) = true <->
   vals xs = vals ys /\ ~ In nan_val (vals xs)).
Proof.
  induction xs as [|x xs IH]; intros [|y ys] Hl; cbn [length] in Hl; try discriminate.
  - cbn. tauto.
  - cbn [spec_list_eq vals map In]. pose proof (val_eqb_iff x y) as Hxy.
    destruct (val_eqb x y).
    + destruct Hxy as [Hxy _]. destruct (Hxy eq_refl) as [E En].
      specialize (IH ys ltac:(lia)). destruct (spec_list_eq val_eqb xs ys) as [b evs].
      cbn [fst] in *. rewrite IH. unfold vals. split.
      * intros [H Hn]. split; [rewrite E, H; reflexivity|].
        intros [Hc|Hc]; [exact (En Hc)|exact (Hn Hc)].
      * intros [H Hn]. injection H as _ H. split; [exact H|]. intros Hc. apply Hn. right. exact Hc.
    + cbn [fst]. split; [discriminate|]. intros [H Hn]. injection H as H _.
      destruct Hxy as [_ Hxy]. apply Hxy. split; [exact H|]. intros Hc. apply Hn. left. exact Hc.
Qed.

(* a sequence containing the NaN-like value equals nothing, not even itself *)
Lemma spec_eq_vals xs ys :
  fst (spec_eq val_eqb xs ys) = true <-> vals xs = vals ys /\ ~ In nan_val (vals xs).
Proof.
  unfold spec_eq. destruct (Z.eqb_spec (zlen xs) (zlen ys)) as [E|E].
  - apply spec_list_eq_vals. apply zlen_eq_length. exact E.
  - cbn [fst]. split; [discriminate|]. intros [H _]. exfalso. apply E.
    apply zlen_eq_length. rewrite <- (vals_length xs), <- (vals_length ys), H. reflexivity.
Qed.

(* the lexicographic order on sequences of values: the first difference
   decides; a proper prefix is smaller *)
Fixpoint lex_compare (xs ys : list Z) : comparison :=
  match xs, ys with
  | [], [] => Eq
  | [], _ :: _ => Lt
  | _ :: _, [] => Gt
  | x :: xs', y :: ys' =>
    match x ?= y with
    | Eq => lex_compare xs' ys'
    | c => c
    end
  end.

(* Ord::cmp of the elements is total: plain lexicographic comparison *)
Lemma spec_ord_lex xs : forall ys,
  fst (spec_cmp val_ord xs ys) = Some (lex_compare (vals xs) (vals ys)).
Proof.
  induction xs as [|x xs IH]; intros [|y ys]; try reflexivity.
  cbn [spec_cmp vals map lex_compare]. unfold val_ord at 1.
  destruct (eval x ?= eval y); try reflexivity.
  specialize (IH ys). destruct (spec_cmp val_ord xs ys) as [r evs]. exact IH.
Qed.

(* PartialOrd::partial_cmp of the elements is partial: the lexicographic
   comparison stops, undecided, at the first position it looks at where either
   side holds the NaN-like value *)
Fixpoint lex_partial (xs ys : list Z) : option comparison :=
  match xs, ys with
  | [], [] => Some Eq
  | [], _ :: _ => Some Lt
  | _ :: _, [] => Some Gt
  | x :: xs', y :: ys' =>
    if (x =? nan_val) || (y =? nan_val) then None else
    match x ?= y with
    | Eq => lex_partial xs' ys'
    | c => Some c
    end
  end.

Lemma spec_cmp_partial xs : forall ys,
  fst (spec_cmp val_cmp xs ys) = lex_partial (vals xs) (vals ys).
Proof.
  induction xs as [|x xs IH]; intros [|y ys]; try reflexivity.
  cbn [spec_cmp vals map lex_partial]. unfold val_cmp at 1.
  destruct ((eval x =? nan_val) || (eval y =? nan_val)); [reflexivity|].
  destruct (eval x ?= eval y); try reflexivity.
  specialize (IH ys). destruct (spec_cmp val_cmp xs ys) as [r evs]. exact IH.
Qed.

(* without the NaN-like value it is the lexicographic order *)
Lemma lex_partial_total xs : forall ys,
  ~ In nan_val xs -> ~ In nan_val ys -> lex_partial xs ys = Some (lex_compare xs ys).
Proof.
  induction xs as [|x xs IH]; intros [|y ys] Hx Hy; try reflexivity.
  cbn [lex_partial lex_compare]. cbn [In] in Hx, Hy.
  replace ((x =? nan_val) || (y =? nan_val)) with false by (symmetry; apply orb_false_intro; apply Z.eqb_neq; intros ->; tauto).
  destruct (x ?= y); try reflexivity. apply IH; tauto.
Qed.

(* it is undecided exactly when the sequences share a prefix free of the
   NaN-like value that is followed, on either side, by the NaN-like value *)
Lemma lex_partial_none xs : forall ys,
  lex_partial xs ys = None <->
  exists p x xs' y ys', xs = p ++ x :: xs' /\ ys = p ++ y :: ys' /\
    ~ In nan_val p /\ (x = nan_val \/ y = nan_val).
Proof.
  induction xs as [|x xs IH]; intros [|y ys]; cbn [lex_partial].
  - split; [discriminate|]. intros (p & x & xs' & y & ys' & H & _). destruct p; discriminate.
  - split; [discriminate|]. intros (p & x & xs' & y' & ys' & H & _). destruct p; discriminate.
  - split; [discriminate|]. intros (p & x' & xs' & y & ys' & _ & H & _). destruct p; discriminate.
  - destruct ((x =? nan_val) || (y =? nan_val)) eqn:En.
    + split; [intros _|reflexivity]. exists [], x, xs, y, ys. cbn [app In].
      repeat split; try tauto. lia.
    + destruct (Z.compare_spec x y) as [E|E|E].
      * rewrite IH. split.
        -- intros (p & x' & xs' & y' & ys' & -> & -> & Hp & Hn).
           exists (x :: p), x', xs', y', ys'. cbn [app In]. subst y.
           repeat split; try assumption. intros [Hc|Hc]; [lia|exact (Hp Hc)].
        -- intros ([|q p] & x' & xs' & y' & ys' & Hx & Hy & Hp & Hn); cbn [app] in Hx, Hy.
           ++ injection Hx as -> ->. injection Hy as -> ->. lia.
           ++ injection Hx as -> ->. injection Hy as _ ->.
              exists p, x', xs', y', ys'. repeat split; try assumption.
              intros Hc. apply Hp. right. exact Hc.
      * split; [discriminate|].
        intros ([|q p] & x' & xs' & y' & ys' & Hx & Hy & Hp & Hn); cbn [app] in Hx, Hy.
        -- injection Hx as -> ->. injection Hy as -> ->. lia.
        -- injection Hx as -> ->. injection Hy as -> ->. lia.
      * split; [discriminate|].
        intros ([|q p] & x' & xs' & y' & ys' & Hx & Hy & Hp & Hn); cbn [app] in Hx, Hy.
        -- injection Hx as -> ->. injection Hy as -> ->. lia.
        -- injection Hx as -> ->. injection Hy as -> ->. lia.
Qed.

(* [lex_compare] is what its name says *)
Lemma lex_compare_eq xs : forall ys, lex_compare xs ys = Eq <-> xs = ys.
Proof.
  induction xs as [|x xs IH]; intros [|y ys]; cbn [lex_compare]; try (split; [discriminate|discriminate]).
  - tauto.
  - destruct (Z.compare_spec x y) as [E|E|E].
    + rewrite IH. subst. split; [intros ->; reflexivity|intros H; injection H; auto].
    + split; [discriminate|]. intros H. injection H as H _. lia.
    + split; [discriminate|]. intros H. injection H as H _. lia.
Qed.

Lemma lex_compare_antisym xs : forall ys, lex_compare ys xs = CompOpp (lex_compare xs ys).
Proof.
  induction xs as [|x xs IH]; intros [|y ys]; cbn [lex_compare]; try reflexivity.
  rewrite (Z.compare_antisym x y). destruct (x ?= y); cbn [CompOpp]; auto.
Qed.

(* plain results are not touched by the erasure of positions *)
Lemma erase_out_plain v x :
  erase_out v = x ->
  match x with OutRef _ | OutSlices _ _ | OutScript _ => True | _ => v = x end.
Proof. destruct v; cbn [erase_out]; intros <-; auto. Qed.

(* ---- 1. equality -------------------------------------------------------------- *)

(* [==] on two buffers: the same values, none of them the NaN-like value
   (which is not equal to itself) *)
Theorem exec_eq_iff a b w r a' w' :
  WF a -> WF b -> fault w = None ->
  exec (OEq b) a w = (Ok (OutBool r), a', w') ->
  (r = true <-> vals (abs a) = vals (abs b) /\ ~ In nan_val (vals (abs a))) /\ abs a' = abs a.
Proof.
  intros HWa HWb Hf He.
  destruct (exec_meets_spec (OEq b) a w _ _ _ HWa Hf HWb He) as (sr & Hs & Ho & Ha & _).
  cbn [spec_step] in Hs. pose proof (spec_eq_vals (abs a) (abs b)) as Hv.
  destruct (spec_eq val_eqb (abs a) (abs b)) as [r0 evs]. inversion Hs; subst sr; clear Hs.
  cbn [sr_out sr_list out_ok erase_out fst] in *. injection Ho as ->. split; assumption.
Qed.

(* on contents free of the NaN-like value, [==] is equality of the sequences of values *)
Corollary exec_eq_iff_total a b w r a' w' :
  WF a -> WF b -> fault w = None -> ~ In nan_val (vals (abs a)) ->
  exec (OEq b) a w = (Ok (OutBool r), a', w') ->
  (r = true <-> vals (abs a) = vals (abs b)) /\ abs a' = abs a.
Proof.
  intros HWa HWb Hf Hn He.
  destruct (exec_eq_iff a b w r a' w' HWa HWb Hf He) as [H Ha]. split; [|exact Ha]. tauto.
Qed.

(* all six forms of comparing with a slice / an array *)
Theorem exec_eq_slice_iff form xs a w r a' w' :
  WF a -> zlen xs < W -> fault w = None ->
  exec (OEqSlice form xs) a w = (Ok (OutBool r), a', w') ->
  (r = true <-> vals (abs a) = vals xs /\ ~ In nan_val (vals (abs a))) /\ abs a' = abs a.
Proof.
  intros HWa Hx Hf He.
  destruct (exec_meets_spec (OEqSlice form xs) a w _ _ _ HWa Hf Hx He) as (sr & Hs & Ho & Ha & _).
  cbn [spec_step] in Hs. pose proof (spec_eq_vals (abs a) xs) as Hv.
  destruct (spec_eq val_eqb (abs a) xs) as [r0 evs]. inversion Hs; subst sr; clear Hs.
  cbn [sr_out sr_list out_ok erase_out fst] in *. injection Ho as ->. split; assumption.
Qed.

Corollary exec_eq_slice_iff_total form xs a w r a' w' :
  WF a -> zlen xs < W -> fault w = None -> ~ In nan_val (vals (abs a)) ->
  exec (OEqSlice form xs) a w = (Ok (OutBool r), a', w') ->
  (r = true <-> vals (abs a) = vals xs) /\ abs a' = abs a.
Proof.
  intros HWa Hx Hf Hn He.
  destruct (exec_eq_slice_iff form xs a w r a' w' HWa Hx Hf He) as [H Ha]. split; [|exact Ha]. tauto.
Qed.

(* a buffer that contains the NaN-like value is not equal to itself: the
   behaviour of slices, and what an "identical object => equal" shortcut in
   [PartialEq::eq] would break *)
Theorem eq_self_nan a w :
  WF a -> fault w = None -> In nan_val (vals (abs a)) ->
  exists w', exec (OEq a) a w = (Ok (OutBool false), a, w').
Proof.
  intros HWa Hf Hn. cbn [exec].
  pose proof (CmpHash.buf_eq_ok val_eqb a a w HWa HWa Hf) as H.
  pose proof (spec_eq_vals (abs a) (abs a)) as Hv.
  destruct (spec_eq val_eqb (abs a) (abs a)) as [r0 evs]. cbn [fst snd] in *.
  destruct r0; [exfalso; apply (proj1 Hv eq_refl); exact Hn|].
  eexists. erewrite bind_ok by exact H. reflexivity.
Qed.

(* ---- 2. ordering -------------------------------------------------------------- *)

(* PartialOrd::partial_cmp, in general: [lex_partial] *)
Theorem exec_cmp_partial a b w r a' w' :
  WF a -> WF b -> fault w = None ->
  exec (OPartialCmp b) a w = (Ok (OutOrd r), a', w') ->
  r = lex_partial (vals (abs a)) (vals (abs b)) /\ abs a' = abs a.
Proof.
  intros HWa HWb Hf He.
  destruct (exec_meets_spec (OPartialCmp b) a w _ _ _ HWa Hf HWb He) as (sr & Hs & Ho & Ha & _).
  cbn [spec_step] in Hs. pose proof (spec_cmp_partial (abs a) (abs b)) as Hv.
  destruct (spec_cmp val_cmp (abs a) (abs b)) as [r0 evs]. inversion Hs; subst sr; clear Hs.
  cbn [sr_out sr_list out_ok erase_out fst] in *. injection Ho as ->. split; assumption.
Qed.

(* on contents free of the NaN-like value: the lexicographic order *)
Theorem exec_cmp_lex a b w r a' w' :
  WF a -> WF b -> fault w = None ->
  ~ In nan_val (vals (abs a)) -> ~ In nan_val (vals (abs b)) ->
  exec (OPartialCmp b) a w = (Ok (OutOrd r), a', w') ->
  r = Some (lex_compare (vals (abs a)) (vals (abs b))) /\ abs a' = abs a.
Proof.
  intros HWa HWb Hf Hna Hnb He.
  destruct (exec_cmp_partial a b w r a' w' HWa HWb Hf He) as [-> Ha]. split; [|exact Ha].
  apply lex_partial_total; assumption.
Qed.

(* it is undecided exactly when the contents share a prefix free of the
   NaN-like value that is followed, on either side, by the NaN-like value *)
Corollary exec_cmp_none a b w r a' w' :
  WF a -> WF b -> fault w = None ->
  exec (OPartialCmp b) a w = (Ok (OutOrd r), a', w') ->
  (r = None <->
   exists p x xs' y ys', vals (abs a) = p ++ x :: xs' /\ vals (abs b) = p ++ y :: ys' /\
     ~ In nan_val p /\ (x = nan_val \/ y = nan_val)).
Proof.
  intros HWa HWb Hf He.
  destruct (exec_cmp_partial a b w r a' w' HWa HWb Hf He) as [-> _]. apply lex_partial_none.
Qed.

(* Ord::cmp is only defined between buffers of the same capacity (same type);
   it is total, whatever the values *)
Theorem exec_ord_cmp_lex a b w r a' w' :
  WF a -> WF b -> cap b = cap a -> fault w = None ->
  exec (OCmp b) a w = (Ok (OutOrd r), a', w') ->
  r = Some (lex_compare (vals (abs a)) (vals (abs b))) /\ abs a' = abs a.
Proof.
  intros HWa HWb Hc Hf He.
  destruct (exec_meets_spec (OCmp b) a w _ _ _ HWa Hf (conj HWb Hc) He) as (sr & Hs & Ho & Ha & _).
  cbn [spec_step] in Hs. pose proof (spec_ord_lex (abs a) (abs b)) as Hv.
  destruct (spec_cmp val_ord (abs a) (abs b)) as [r0 evs]. inversion Hs; subst sr; clear Hs.
  cbn [sr_out sr_list out_ok erase_out fst] in *. injection Ho as ->. split; assumption.
Qed.

(* ---- 3. hashing ---------------------------------------------------------------- *)

Theorem exec_hash_contents a w v a' w' :
  WF a -> fault w = None ->
  exec OHash a w = (Ok v, a', w') ->
  log w' = log w ++ EvHashLen (zlen (abs a)) :: map EvHash (abs a) /\ abs a' = abs a.
Proof.
  intros HWa Hf He.
  destruct (exec_meets_spec OHash a w _ _ _ HWa Hf I He) as (sr & Hs & Ho & Ha & Hl & _).
  cbn [spec_step] in Hs. inversion Hs; subst sr; clear Hs.
  cbn [sr_evs sr_list] in *. split; assumption.
Qed.

(* the same contents are hashed alike, whatever the layouts and even the
   capacities of the two buffers *)
Corollary exec_hash_same a b w va a' wa vb b' wb :
  WF a -> WF b -> fault w = None -> abs a = abs b ->
  exec OHash a w = (Ok va, a', wa) -> exec OHash b w = (Ok vb, b', wb) ->
  log wa = log wb.
Proof.
  intros HWa HWb Hf Hab Ha Hb.
  destruct (exec_hash_contents a w _ _ _ HWa Hf Ha) as (-> & _).
  destruct (exec_hash_contents b w _ _ _ HWb Hf Hb) as (-> & _).
  rewrite Hab. reflexivity.
Qed.

(* ---- 4. Debug ------------------------------------------------------------------- *)

Theorem exec_debug_contents a w v a' w' :
  WF a -> fault w = None ->
  exec ODebug a w = (Ok v, a', w') ->
  log w' = log w ++ map EvFmt (abs a) /\ abs a' = abs a.
Proof.
  intros HWa Hf He.
  destruct (exec_meets_spec ODebug a w _ _ _ HWa Hf I He) as (sr & Hs & Ho & Ha & Hl & _).
  cbn [spec_step] in Hs. inversion Hs; subst sr; clear Hs.
  cbn [sr_evs sr_list] in *. split; assumption.
Qed.

(* ---- 5. none of this mentions [start] --------------------------------------------- *)

Definition observer (o : op) : Prop :=
  match o with
  | OEq _ | OEqSlice _ _ | OPartialCmp _ | OCmp _ | OHash | ODebug => True
  | _ => False
  end.

Lemma observer_plain N l o nid r :
  observer o -> spec_step N l o nid = SRet r ->
  forall v, out_ok o (sr_out r) v -> v = sr_out r.
Proof.
  intros Hob Hs v Ho.
  destruct o; try contradiction; cbn [spec_step] in Hs;
    try (destruct (spec_eq _ _ _) as [? ?]); try (destruct (spec_cmp _ _ _) as [? ?]);
    inversion Hs; subst r; cbn [sr_out out_ok] in *;
    exact (erase_out_plain _ _ Ho).
Qed.

(* two layouts of the same contents: the same result and the same world
   (events, identities) *)
Theorem observers_layout_free o a1 a2 w :
  observer o -> WF a1 -> WF a2 -> cap a1 = cap a2 -> abs a1 = abs a2 ->
  fault w = None -> op_ok a1 o ->
  fst (fst (exec o a1 w)) = fst (fst (exec o a2 w)) /\
  snd (exec o a1 w) = snd (exec o a2 w) /\
  exists v, fst (fst (exec o a1 w)) = Ok v.
Proof.
  intros Hob HW1 HW2 Hc Ha Hf Hok1.
  assert (Hok2 : op_ok a2 o) by (eapply op_ok_cap; [|exact Hok1]; auto).
  destruct (step_cases o a1 w HW1 Hf Hok1)
    as [(r1 & v1 & s1 & Hs1 & He1 & Ho1 & _)|(k & Hs1 & _)].
  2:{ apply spec_panics_iff in Hs1. destruct o; contradiction. }
  destruct (step_cases o a2 w HW2 Hf Hok2)
    as [(r2 & v2 & s2 & Hs2 & He2 & Ho2 & _)|(k & Hs2 & _)].
  2:{ apply spec_panics_iff in Hs2. destruct o; contradiction. }
  rewrite <- Hc, <- Ha, Hs1 in Hs2. inversion Hs2; subst r2; clear Hs2.
  rewrite (observer_plain _ _ _ _ _ Hob Hs1 v1 Ho1) in He1.
  rewrite (observer_plain _ _ _ _ _ Hob Hs1 v2 Ho2) in He2.
  rewrite He1, He2. cbn [fst snd]. eauto.
Qed.

(* ====================================================================== *)
(* C14 — byte-stream I/O (std::io, embedded-io, embedded-io-async)         *)
(* ====================================================================== *)

(* keeping the last N of [l ++ xs], when l alone fits *)
Lemma lastn_app_fit {A} (N : nat) (l xs : list A) :
  (length l <= N)%nat ->
  let src := lastn (Nat.min N (length xs)) xs in
  skipn (length l + length src - N) l ++ src = lastn N (l ++ xs).
Proof.
  intros Hl src. unfold src, lastn. rewrite skipn_length, app_length, skipn_app.
  destruct (Nat.le_gt_cases N (length xs)) as [H|H].
  - rewrite Nat.min_l by lia.
    replace (length l + (length xs - (length xs - N)) - N)%nat with (length l) by lia.
    replace (length l + length xs - N - length l)%nat with (length xs - N)%nat by lia.
    rewrite (skipn_all2 l (n := length l)) by lia.
    rewrite (skipn_all2 l (n := (length l + length xs - N)%nat)) by lia. reflexivity.
  - rewrite Nat.min_r by lia.
    replace (length xs - length xs)%nat with 0%nat by lia.
    replace (length l + length xs - N - length l)%nat with 0%nat by lia.
    cbn [skipn]. replace (length l + (length xs - 0) - N)%nat with (length l + length xs - N)%nat by lia.
    reflexivity.
Qed.

Lemma lastn_0 {A} (l : list A) : lastn 0 l = [].
Proof. unfold lastn. rewrite Nat.sub_0_r. apply skipn_all. Qed.

(* the contents after extend_from_slice / write, as a plain list equation *)
Lemma spec_extend_from_slice_vals N l xs nid :
  0 <= N -> zlen l <= N ->
  let '(l', _, nid') := spec_extend_from_slice N l xs nid in
  vals l' = lastn (Z.to_nat N) (vals l ++ vals xs) /\
  zlen l' = Z.min N (zlen l + zlen xs) /\
  (* which elements they are: survivors of l, then fresh clones *)
  (exists d src, l' = skipn d l ++ clones nid src /\
                 src = lastn (Z.to_nat (Z.min N (zlen xs))) xs /\
                 nid' = nid + zlen src).
Proof.
  intros HN Hl. unfold spec_extend_from_slice, nat_of.
  destruct (Z.eqb_spec N 0) as [E|E].
  - subst N. assert (l = []) as ->.
    { destruct l; [reflexivity|]. unfold zlen in Hl. cbn [length] in Hl. lia. }
    change (Z.to_nat 0) with 0%nat. rewrite lastn_0.
    split; [reflexivity|]. split.
    + unfold zlen. cbn [length]. lia.
    + exists 0%nat, []. rewrite Z.min_l by apply zlen_nonneg.
      change (Z.to_nat 0) with 0%nat. rewrite lastn_0. cbn [skipn clones app].
      split; [reflexivity|]. split; [reflexivity|]. unfold zlen. cbn [length]. lia.
  - set (src := lastn (Z.to_nat (Z.min N (zlen xs))) xs).
    assert (Hsrc : length src = Nat.min (Z.to_nat N) (length xs)).
    { unfold src. rewrite lastn_length. unfold zlen. lia. }
    assert (Hd : Z.to_nat (zlen l + zlen src - N) = (length l + length src - Z.to_nat N)%nat).
    { unfold zlen. lia. }
    split; [|split].
    + rewrite vals_app, vals_skipn, vals_clones, Hd.
      pose proof (lastn_app_fit (Z.to_nat N) (vals l) (vals xs)) as H. cbv zeta in H.
      rewrite <- H by (rewrite vals_length; unfold zlen in Hl; lia).
      assert (Hs2 : vals src = lastn (Nat.min (Z.to_nat N) (length (vals xs))) (vals xs)).
      { unfold src. rewrite vals_lastn, vals_length. f_equal. unfold zlen. lia. }
      rewrite <- Hs2, !vals_length. reflexivity.
    + rewrite zlen_app, zlen_skipn, Hd.
      replace (zlen (clones nid src)) with (zlen src)
        by (unfold zlen; rewrite clones_length; reflexivity).
      unfold zlen in *. lia.
    + exists (Z.to_nat (zlen l + zlen src - N)), src. auto.
Qed.

(* ---- 6. write: append, keeping the last [cap] bytes; never short --------------------- *)

Theorem exec_write_vals fam src s w v s' w' :
  WF s -> fault w = None -> zlen src < W ->
  exec (OWrite fam src) s w = (Ok v, s', w') ->
  v = OutZ (zlen src) /\
  vals (abs s') = lastn (Z.to_nat (cap s)) (vals (abs s) ++ vals src) /\
  zlen (abs s') = Z.min (cap s) (zlen (abs s) + zlen src).
Proof.
  intros HW Hf Hx He.
  destruct (exec_meets_spec (OWrite fam src) s w _ _ _ HW Hf Hx He) as (sr & Hs & Ho & Ha & _).
  cbn [spec_step] in Hs.
  pose proof HW as HW'. wf HW'.
  pose proof (spec_extend_from_slice_vals (cap s) (abs s) src (next_id w)) as Hv.
  rewrite abs_zlen in Hv by lia. specialize (Hv ltac:(lia) ltac:(lia)).
  destruct (spec_extend_from_slice (cap s) (abs s) src (next_id w)) as [[l' evs] nid'].
  inversion Hs; subst sr; clear Hs. cbn [sr_out sr_list out_ok] in *.
  apply erase_out_plain in Ho. rewrite Ha. rewrite abs_zlen by lia. tauto.
Qed.

(* the same, saying which elements: the survivors of the old contents followed
   by fresh clones of the retained suffix of the source *)
Theorem exec_write_elems fam src s w v s' w' :
  WF s -> fault w = None -> zlen src < W ->
  exec (OWrite fam src) s w = (Ok v, s', w') ->
  exists d kept,
    kept = lastn (Z.to_nat (Z.min (cap s) (zlen src))) src /\
    abs s' = skipn d (abs s) ++ clones (next_id w) kept /\
    next_id w' = next_id w + zlen kept.
Proof.
  intros HW Hf Hx He.
  destruct (exec_meets_spec (OWrite fam src) s w _ _ _ HW Hf Hx He)
    as (sr & Hs & Ho & Ha & _ & Hn & _).
  cbn [spec_step] in Hs.
  pose proof HW as HW'. wf HW'.
  pose proof (spec_extend_from_slice_vals (cap s) (abs s) src (next_id w)) as Hv.
  rewrite abs_zlen in Hv by lia. specialize (Hv ltac:(lia) ltac:(lia)).
  destruct (spec_extend_from_slice (cap s) (abs s) src (next_id w)) as [[l' evs] nid'].
  inversion Hs; subst sr; clear Hs. cbn [sr_out sr_list sr_nid out_ok] in *.
  destruct Hv as (_ & _ & d & kept & -> & Hk & ->). exists d, kept. auto.
Qed.

(* ---- 7. read: move the first min(|dst|, len) bytes into dst ---------------------------- *)

Theorem exec_read_vals fam dst s w n dst' s' w' :
  WF s -> fault w = None -> zlen dst < W ->
  exec (ORead fam dst) s w = (Ok (OutRead n dst'), s', w') ->
  let k := Nat.min (length dst) (length (abs s)) in
  n = Z.of_nat k /\ dst' = firstn k (abs s) ++ skipn k dst /\ abs s' = skipn k (abs s).
Proof.
  intros HW Hf Hx He k.
  destruct (exec_meets_spec (ORead fam dst) s w _ _ _ HW Hf Hx He) as (sr & Hs & Ho & Ha & _).
  cbn [spec_step] in Hs. inversion Hs; subst sr; clear Hs.
  cbn [sr_out sr_list out_ok erase_out] in *. injection Ho as -> ->. fold k in Ha. auto.
Qed.

(* ---- 8. fill_buf: a prefix of the contents, non-empty unless at end of stream ------------- *)

Theorem exec_fill_buf_prefix fam s w p s' w' :
  WF s -> fault w = None ->
  exec (OFillBuf fam) s w = (Ok (OutList p), s', w') ->
  (exists t, abs s = p ++ t) /\ (abs s <> [] -> p <> []) /\ abs s' = abs s /\ w' = w.
Proof.
  intros HW Hf He.
  destruct (step_cases (OFillBuf fam) s w HW Hf I)
    as [(sr & v0 & s0 & Hs & He0 & Ho & Ha & _)|(k & _ & He0 & _)];
    rewrite He in He0; [|discriminate].
  cbn [spec_step] in Hs. inversion Hs; subst sr; clear Hs.
  cbn [sr_out sr_list sr_evs sr_nid out_ok] in *. rewrite wev_nil in He0.
  inversion He0; subst. destruct Ho as (Hp & Hne). unfold is_prefix in Hp. auto.
Qed.

(* ---- 9. consume: drop min(k, len) bytes from the front -------------------------------------- *)

Theorem exec_consume_vals fam k s w v s' w' :
  WF s -> fault w = None -> 0 <= k < W ->
  exec (OConsume fam k) s w = (Ok v, s', w') ->
  abs s' = skipn (Z.to_nat (Z.min k (zlen (abs s)))) (abs s).
Proof.
  intros HW Hf Hk He.
  destruct (exec_meets_spec (OConsume fam k) s w _ _ _ HW Hf Hk He) as (sr & Hs & Ho & Ha & _).
  cbn [spec_step] in Hs. inversion Hs; subst sr; clear Hs. exact Ha.
Qed.

(* ---- 10. no I/O call ever fails ---------------------------------------------------------------- *)

(* the I/O calls, with machine-value arguments *)
Inductive io_op : op -> Prop :=
| IO_write fam src : zlen src < W -> io_op (OWrite fam src)
| IO_flush fam : io_op (OFlush fam)
| IO_read fam dst : zlen dst < W -> io_op (ORead fam dst)
| IO_fill_buf fam : io_op (OFillBuf fam)
| IO_consume fam k : 0 <= k < W -> io_op (OConsume fam k).

(* they return normally (Ok: no panic of any kind, and the modelled functions
   have no error return), in a well-formed state of the same capacity *)
Theorem io_never_fails o s w :
  io_op o -> WF s -> fault w = None ->
  exists v s' w', exec o s w = (Ok v, s', w') /\ WF s' /\ cap s' = cap s.
Proof.
  intros Hio HW Hf.
  assert (Hok : op_ok s o) by (destruct Hio; cbn [op_ok]; unfold in_usize; auto).
  pose proof (total_or_documented o s w HW Hf Hok) as H.
  destruct (spec_step (cap s) (abs s) o (next_id w)) as [r|] eqn:Hs; [exact H|].
  apply spec_panics_iff in Hs. destruct Hio; contradiction.
Qed.

(* flush does nothing at all *)
Theorem exec_flush_nop fam s w v s' w' :
  WF s -> fault w = None ->
  exec (OFlush fam) s w = (Ok v, s', w') -> v = OutUnit /\ abs s' = abs s /\ w' = w.
Proof.
  intros HW Hf He.
  destruct (step_cases (OFlush fam) s w HW Hf I)
    as [(sr & v0 & s0 & Hs & He0 & Ho & Ha & _)|(k & _ & He0 & _)];
    rewrite He in He0; [|discriminate].
  cbn [spec_step] in Hs. inversion Hs; subst sr; clear Hs.
  cbn [sr_out sr_list sr_evs sr_nid out_ok] in *. rewrite wev_nil in He0.
  inversion He0; subst. apply erase_out_plain in Ho. auto.
Qed.

(* ====================================================================== *)
(* C07 — the slots handed out by mutable views are pairwise distinct       *)
(* ====================================================================== *)

Lemma NoDup_map_inj_in {A B} (f : A -> B) l :
  (forall x y, In x l -> In y l -> f x = f y -> x = y) -> NoDup l -> NoDup (map f l).
Proof.
  induction l as [|a l IH]; intros Hinj Hnd; cbn [map]; [constructor|].
  inversion Hnd as [|? ? Hna Hnd']; subst. constructor.
  - intros Hin. apply in_map_iff in Hin. destruct Hin as (y & Hy & Hyl).
    apply Hna. rewrite (Hinj a y); [exact Hyl|left; reflexivity|right; exact Hyl|auto].
  - apply IH; [|exact Hnd']. intros x y Hx Hy. apply Hinj; right; assumption.
Qed.

Lemma zseq_In a n x : In x (zseq a n) <-> a <= x < a + Z.of_nat n.
Proof.
  rewrite zseq_map_seq. rewrite in_map_iff. split.
  - intros (k & <- & Hk). apply in_seq in Hk. lia.
  - intros H. exists (Z.to_nat (x - a)). split; [lia|]. apply in_seq. lia.
Qed.

Lemma zseq_NoDup a n : NoDup (zseq a n).
Proof.
  rewrite zseq_map_seq. apply NoDup_map_inj_in; [|apply seq_NoDup]. intros x y _ _ H. lia.
Qed.

(* ---- 11. distinct logical positions live in distinct slots -------------------------- *)

Lemma phys_NoDup_range s lo n :
  WF s -> 0 <= lo -> lo + Z.of_nat n <= cap s -> NoDup (map (phys s) (zseq lo n)).
Proof.
  intros HW Hlo Hhi. apply NoDup_map_inj_in; [|apply zseq_NoDup].
  intros x y Hx Hy He. apply zseq_In in Hx. apply zseq_In in Hy.
  wf HW. apply (phys_inj s x y); try lia; exact He.
Qed.

(* (no need for 0 < cap s: with capacity 0 there are no positions at all) *)
Theorem phys_NoDup s :
  WF s -> NoDup (map (phys s) (zseq 0 (Z.to_nat (size s)))).
Proof.
  intros HW. apply phys_NoDup_range; [exact HW|lia|]. wf HW. lia.
Qed.

(* ---- 12a. as_mut_slices --------------------------------------------------------------- *)

(* the two views together are exactly the slots of the logical positions
   0 .. size-1, in order, and no slot occurs twice: the two &mut [T] do not
   overlap and neither aliases itself *)
Theorem as_mut_slices_slots_distinct ws s w a b s' w' :
  WF s ->
  exec (OAsMutSlicesSet ws) s w = (Ok (OutSlices a b), s', w') ->
  map fst (a ++ b) = map (phys s) (zseq 0 (Z.to_nat (size s))) /\
  NoDup (map fst (a ++ b)) /\
  map snd (a ++ b) = abs s.
Proof.
  intros HW He.
  pose proof (as_slices_val_slots s HW) as Hsl.
  pose proof (as_slices_val_abs s HW) as Hab.
  destruct (as_slices_val s) as [sa sb] eqn:Ev. cbn [fst snd] in Hsl, Hab.
  destruct (write_through_all s w ws HW) as (s1 & Hw & _).
  cbn [exec] in He. erewrite bind_ok in He by (apply as_mut_slices_ok; exact HW).
  rewrite Ev in He. unfold get_items at 1 in He. unfold bind at 1 in He.
  rewrite map_app, !sl_pes_fst, Hsl in He.
  erewrite bind_ok in He by exact Hw. unfold ret in He.
  inversion He; subst a b s' w'; clear He.
  assert (Hf : map fst (sl_pes (items s) sa ++ sl_pes (items s) sb)
               = map (phys s) (zseq 0 (Z.to_nat (size s)))).
  { rewrite map_app, !sl_pes_fst. exact Hsl. }
  split; [exact Hf|]. split; [rewrite Hf; apply phys_NoDup; exact HW|].
  rewrite <- Hab. unfold sl_pes, sl_elems. rewrite map_app, !map_map. reflexivity.
Qed.

(* ---- 12b. iter_mut: the references yielded by a script -------------------------------- *)

(* the slots of the items a script yielded, in the order of the calls *)
Fixpoint slots_of (rs : list sres) : list Z :=
  match rs with
  | [] => []
  | RItem (Some (p, _)) :: r => p :: slots_of r
  | _ :: r => slots_of r
  end.

(* any script whatsoever (next, next_back, len, clone, writes through the
   yielded references), on an iterator that stands for the window [lo, hi) *)
Lemma iter_script_slots : forall script s w it lo hi,
  WF s -> inv s it lo hi -> 0 <= lo <= hi -> hi <= size s ->
  exists rs s',
    run_iter_script it script s w = (Ok rs, s', w) /\
    NoDup (slots_of rs) /\
    (forall p, In p (slots_of rs) -> exists i, lo <= i < hi /\ p = phys s i).
Proof.
  induction script as [|st rest IH]; intros s w it lo hi HW Hi Hlh Hhi.
  - exists [], s. split; [reflexivity|]. split; [constructor|]. intros p [].
  - pose proof HW as HW'. wf HW'.
    assert (Hfresh : forall rs x,
              lo <= x < hi ->
              (forall p, In p (slots_of rs) -> exists i, lo <= i < hi /\ i <> x /\ p = phys s i) ->
              ~ In (phys s x) (slots_of rs)).
    { intros rs x Hx Hall Hin. destruct (Hall _ Hin) as (i & Hir & Hne & Hp).
      apply Hne. symmetry. apply (phys_inj s x i); try lia; exact Hp. }
    destruct st; cbn [run_iter_script].
    + (* next *)
      destruct (Z.lt_ge_cases lo hi) as [Hlt|Hge].
      * destruct (iter_next_some s it _ _ Hi Hlt) as (it' & Hn & Hi').
        destruct (IH s w it' (lo + 1) hi HW Hi' ltac:(lia) Hhi) as (rs & s' & Hr & Hnd & Hin).
        rewrite Hn. mcbn. erewrite bind_ok by exact Hr.
        eexists _, s'. split; [reflexivity|]. cbn [slots_of]. split.
        -- constructor; [|exact Hnd]. apply Hfresh; [lia|].
           intros p Hp. destruct (Hin p Hp) as (i & ? & ?). exists i. split; [lia|split; [lia|auto]].
        -- intros p [<-|Hp]; [exists lo; split; [lia|reflexivity]|].
           destruct (Hin p Hp) as (i & ? & ?). exists i. split; [lia|auto].
      * destruct (IH s w it lo hi HW Hi Hlh Hhi) as (rs & s' & Hr & Hnd & Hin).
        rewrite (iter_next_none s it _ _ Hi) by lia. mcbn. erewrite bind_ok by exact Hr.
        eexists _, s'. split; [reflexivity|]. cbn [slots_of]. auto.
    + (* next_back *)
      destruct (Z.lt_ge_cases lo hi) as [Hlt|Hge].
      * destruct (iter_next_back_some s it _ _ Hi Hlt) as (it' & Hn & Hi').
        destruct (IH s w it' lo (hi - 1) HW Hi' ltac:(lia) ltac:(lia)) as (rs & s' & Hr & Hnd & Hin).
        rewrite Hn. mcbn. erewrite bind_ok by exact Hr.
        eexists _, s'. split; [reflexivity|]. cbn [slots_of]. split.
        -- constructor; [|exact Hnd]. apply Hfresh; [lia|].
           intros p Hp. destruct (Hin p Hp) as (i & ? & ?). exists i. split; [lia|split; [lia|auto]].
        -- intros p [<-|Hp]; [exists (hi - 1); split; [lia|reflexivity]|].
           destruct (Hin p Hp) as (i & ? & ?). exists i. split; [lia|auto].
      * destruct (IH s w it lo hi HW Hi Hlh Hhi) as (rs & s' & Hr & Hnd & Hin).
        rewrite (iter_next_back_none s it _ _ Hi) by lia. mcbn. erewrite bind_ok by exact Hr.
        eexists _, s'. split; [reflexivity|]. cbn [slots_of]. auto.
    + (* len *)
      destruct (IH s w it lo hi HW Hi Hlh Hhi) as (rs & s' & Hr & Hnd & Hin).
      erewrite bind_ok by (eapply iter_len_ok; [exact Hi|lia]). cbv beta.
      erewrite bind_ok by exact Hr.
      eexists _, s'. split; [reflexivity|]. cbn [slots_of]. auto.
    + (* clone *)
      destruct (IH s w it lo hi HW Hi Hlh Hhi) as (rs & s' & Hr & Hnd & Hin).
      erewrite bind_ok by exact Hr. mcbn.
      pose proof (inv_clone s it _ _ Hi) as Hic.
      erewrite bind_ok by (eapply iter_len_ok; [exact Hic|lia]). cbv beta.
      eexists _, s'. split; [reflexivity|]. cbn [slots_of]. auto.
    + (* next, then a write through the reference *)
      destruct (Z.lt_ge_cases lo hi) as [Hlt|Hge].
      * destruct (iter_mut_next_some s it _ _ Hi Hlt) as (it' & Hn & Hi').
        set (s1 := b_items s (s_write (items s) (phys s lo) v)).
        assert (HW1 : WF s1) by exact HW.
        assert (Hi1 : inv s1 it' (lo + 1) hi) by exact Hi'.
        destruct (IH s1 w it' (lo + 1) hi HW1 Hi1 ltac:(lia) Hhi) as (rs & s' & Hr & Hnd & Hin).
        change (forall p, In p (slots_of rs) -> exists i, lo + 1 <= i < hi /\ p = phys s i) in Hin.
        rewrite Hn. mcbn. fold s1. erewrite bind_ok by exact Hr.
        eexists _, s'. split; [reflexivity|]. cbn [slots_of]. split.
        -- constructor; [|exact Hnd]. apply Hfresh; [lia|].
           intros p Hp. destruct (Hin p Hp) as (i & ? & ?). exists i. split; [lia|split; [lia|auto]].
        -- intros p [<-|Hp]; [exists lo; split; [lia|reflexivity]|].
           destruct (Hin p Hp) as (i & ? & ?). exists i. split; [lia|auto].
      * destruct (iter_mut_next_none s it _ _ Hi ltac:(lia)) as (Hn & Hi').
        destruct (IH s w iter_empty lo hi HW Hi' Hlh Hhi) as (rs & s' & Hr & Hnd & Hin).
        rewrite Hn. mcbn. erewrite bind_ok by exact Hr.
        eexists _, s'. split; [reflexivity|]. cbn [slots_of]. auto.
    + (* next_back, then a write through the reference *)
      destruct (Z.lt_ge_cases lo hi) as [Hlt|Hge].
      * destruct (iter_mut_next_back_some s it _ _ Hi Hlt) as (it' & Hn & Hi').
        set (s1 := b_items s (s_write (items s) (phys s (hi - 1)) v)).
        assert (HW1 : WF s1) by exact HW.
        assert (Hi1 : inv s1 it' lo (hi - 1)) by exact Hi'.
        destruct (IH s1 w it' lo (hi - 1) HW1 Hi1 ltac:(lia) ltac:(cbn; lia))
          as (rs & s' & Hr & Hnd & Hin).
        change (forall p, In p (slots_of rs) -> exists i, lo <= i < hi - 1 /\ p = phys s i) in Hin.
        rewrite Hn. mcbn. fold s1. erewrite bind_ok by exact Hr.
        eexists _, s'. split; [reflexivity|]. cbn [slots_of]. split.
        -- constructor; [|exact Hnd]. apply Hfresh; [lia|].
           intros p Hp. destruct (Hin p Hp) as (i & ? & ?). exists i. split; [lia|split; [lia|auto]].
        -- intros p [<-|Hp]; [exists (hi - 1); split; [lia|reflexivity]|].
           destruct (Hin p Hp) as (i & ? & ?). exists i. split; [lia|auto].
      * destruct (iter_mut_next_back_none s it _ _ Hi ltac:(lia)) as (Hn & Hi').
        destruct (IH s w iter_empty lo hi HW Hi' Hlh Hhi) as (rs & s' & Hr & Hnd & Hin).
        rewrite Hn. mcbn. erewrite bind_ok by exact Hr.
        eexists _, s'. split; [reflexivity|]. cbn [slots_of]. auto.
Qed.

(* iter_mut(), any script: no slot is handed out twice, and every slot handed
   out is the slot of a logical position of the buffer *)
Theorem iter_mut_slots_distinct script s w rs s' w' :
  WF s ->
  exec (OIterMut script) s w = (Ok (OutScript rs), s', w') ->
  NoDup (slots_of rs) /\
  incl (slots_of rs) (map (phys s) (zseq 0 (Z.to_nat (size s)))).
Proof.
  intros HW He. pose proof HW as HW'. wf HW'.
  destruct (Iters.iter_new_ok s w HW) as (it & Hn & Hi).
  destruct (iter_script_slots script s w it 0 (size s) HW Hi ltac:(lia) ltac:(lia))
    as (rs0 & s0 & Hr & Hnd & Hin).
  cbn [exec] in He. change iter_mut_new with iter_new in He.
  erewrite bind_ok in He by exact Hn. erewrite bind_ok in He by exact Hr.
  unfold ret in He. inversion He; subst rs0 s0 w'; clear He.
  split; [exact Hnd|]. intros p Hp. destruct (Hin p Hp) as (i & Hir & ->).
  apply in_map. apply zseq_In. lia.
Qed.

(* the same for range_mut would need the window of the range; for iter() the
   statement holds as well (shared references may alias, but do not) *)
Theorem iter_slots_distinct script s w rs s' w' :
  WF s ->
  exec (OIter script) s w = (Ok (OutScript rs), s', w') ->
  NoDup (slots_of rs) /\
  incl (slots_of rs) (map (phys s) (zseq 0 (Z.to_nat (size s)))).
Proof. exact (iter_mut_slots_distinct script s w rs s' w'). Qed.

(* ====================================================================== *)
(* C12 — clones share no element with the source                           *)
(* ====================================================================== *)

(* every identity of l was handed out before: below the next fresh one *)
Definition allocated (w : world) (l : list elem) : Prop :=
  forall e, In e l -> eid e < next_id w.

(* no element (identity) in common *)
Definition disjoint_ids (l1 l2 : list elem) : Prop :=
  forall e1 e2, In e1 l1 -> In e2 l2 -> eid e1 <> eid e2.

Lemma clones_fresh nid l e : In e (clones nid l) -> nid <= eid e.
Proof.
  intros H. apply (in_map eid) in H. rewrite clones_ids in H. apply zseq_In in H. lia.
Qed.

Lemma clones_NoDup nid l : NoDup (ids (clones nid l)).
Proof. unfold ids. rewrite clones_ids. apply zseq_NoDup. Qed.

Lemma clones_disjoint w l src :
  allocated w l -> disjoint_ids (clones (next_id w) src) l.
Proof.
  intros Hal e1 e2 H1 H2. apply clones_fresh in H1. apply Hal in H2. lia.
Qed.

(* ---- 13. clone(), to_vec(), clone_from() ---------------------------------------------------- *)

(* buf = buf.clone(): the new contents have the old values, fresh pairwise
   distinct identities, and none of the old identities *)
Theorem clone_disjoint s w v s' w' :
  WF s -> fault w = None -> allocated w (abs s) ->
  exec OCloneKeepClone s w = (Ok v, s', w') ->
  vals (abs s') = vals (abs s) /\ disjoint_ids (abs s') (abs s) /\ NoDup (ids (abs s')).
Proof.
  intros HW Hf Hal He.
  destruct (exec_meets_spec OCloneKeepClone s w _ _ _ HW Hf I He) as (sr & Hs & Ho & Ha & _).
  cbn [spec_step] in Hs. inversion Hs; subst sr; clear Hs. cbn [sr_list] in Ha. rewrite Ha.
  split; [apply vals_clones|]. split; [apply clones_disjoint; exact Hal|apply clones_NoDup].
Qed.

(* the clone made and dropped again: what it contained *)
Theorem clone_drop_disjoint s w cs s' w' :
  WF s -> fault w = None -> allocated w (abs s) ->
  exec OCloneDropClone s w = (Ok (OutList cs), s', w') ->
  vals cs = vals (abs s) /\ disjoint_ids cs (abs s) /\ NoDup (ids cs) /\ abs s' = abs s.
Proof.
  intros HW Hf Hal He.
  destruct (exec_meets_spec OCloneDropClone s w _ _ _ HW Hf I He) as (sr & Hs & Ho & Ha & _).
  cbn [spec_step] in Hs. inversion Hs; subst sr; clear Hs. cbn [sr_list sr_out out_ok] in *.
  apply erase_out_plain in Ho. injection Ho as ->.
  split; [apply vals_clones|]. split; [apply clones_disjoint; exact Hal|].
  split; [apply clones_NoDup|exact Ha].
Qed.

Theorem to_vec_disjoint s w cs s' w' :
  WF s -> fault w = None -> allocated w (abs s) ->
  exec OToVec s w = (Ok (OutList cs), s', w') ->
  vals cs = vals (abs s) /\ disjoint_ids cs (abs s) /\ NoDup (ids cs) /\ abs s' = abs s.
Proof.
  intros HW Hf Hal He.
  destruct (exec_meets_spec OToVec s w _ _ _ HW Hf I He) as (sr & Hs & Ho & Ha & _).
  cbn [spec_step] in Hs. inversion Hs; subst sr; clear Hs. cbn [sr_list sr_out out_ok] in *.
  apply erase_out_plain in Ho. injection Ho as ->.
  split; [apply vals_clones|]. split; [apply clones_disjoint; exact Hal|].
  split; [apply clones_NoDup|exact Ha].
Qed.

(* buf.clone_from(&other): the values of other, sharing nothing with other
   (nor with the old contents of buf, which are destroyed) *)
Theorem clone_from_disjoint other s w v s' w' :
  WF s -> WF other -> cap other = cap s -> fault w = None ->
  allocated w (abs other) -> allocated w (abs s) ->
  exec (OCloneFrom other) s w = (Ok v, s', w') ->
  vals (abs s') = vals (abs other) /\
  disjoint_ids (abs s') (abs other) /\ disjoint_ids (abs s') (abs s) /\
  NoDup (ids (abs s')).
Proof.
  intros HW HWo Hc Hf Hal Hals He.
  destruct (exec_meets_spec (OCloneFrom other) s w _ _ _ HW Hf (conj HWo Hc) He)
    as (sr & Hs & Ho & Ha & _).
  cbn [spec_step] in Hs. inversion Hs; subst sr; clear Hs. cbn [sr_list] in Ha. rewrite Ha.
  split; [apply vals_clones|]. split; [apply clones_disjoint; exact Hal|].
  split; [apply clones_disjoint; exact Hals|apply clones_NoDup].
Qed.

(* ====================================================================== *)
(* instances, by computation                                               *)
(* ====================================================================== *)

(* C13: three layouts (and two capacities) of the contents [2; 0], with
   different identities and different garbage, are all equal; a proper prefix
   is smaller *)
Example eq_layouts_example :
  let a := mkB 3 2 2 (fun p => mkE (100 + p) p) in        (* slot 2, then slot 0 *)
  let b := mkB 5 2 4 (fun p => if p =? 4 then mkE 7 2 else if p =? 0 then mkE 8 0 else mkE 9 9) in
  let c := mkB 3 2 0 (fun p => if p =? 0 then mkE 70 2 else if p =? 1 then mkE 71 0 else mkE 9 9) in
  let w := mkW false 1000 [] None in
  vals (abs a) = [2; 0] /\ vals (abs b) = [2; 0] /\ vals (abs c) = [2; 0] /\
  (start a =? start c) = false /\ (cap a =? cap b) = false /\
  fst (fst (exec (OEq b) a w)) = Ok (OutBool true) /\
  fst (fst (exec (OEq c) a w)) = Ok (OutBool true) /\
  fst (fst (exec (OCmp c) a w)) = Ok (OutOrd (Some Eq)) /\
  fst (fst (exec (OEqSlice EqArrayMut [mkE 1 2; mkE 2 0]) a w)) = Ok (OutBool true) /\
  fst (fst (exec (OEqSlice EqSlice [mkE 1 2; mkE 2 1]) a w)) = Ok (OutBool false) /\
  fst (fst (exec (OPartialCmp b) (mkB 3 1 2 (items a)) w)) = Ok (OutOrd (Some Lt)) /\
  log (snd (exec OHash a w)) = [EvHashLen 2; EvHash (mkE 102 2); EvHash (mkE 100 0)] /\
  log (snd (exec ODebug a w)) = [EvFmt (mkE 102 2); EvFmt (mkE 100 0)].
Proof. vm_compute. repeat split. Qed.

(* C13: the NaN-like value. A wrapped buffer holding [10; 13; 30] is not equal
   to itself, to a copy of itself in another layout, or to a slice of its own
   contents; partial_cmp with itself is undecided, but decided where the first
   difference (or the end of either side) comes before the NaN-like value; cmp stays total; without the
   NaN-like value everything is as before *)
Example nan_example :
  let a := mkB 3 3 1 (fun p => if p =? 1 then mkE 101 10 else if p =? 2 then mkE 102 nan_val else mkE 100 30) in
  let b := mkB 4 3 0 (fun p => if p =? 0 then mkE 7 10 else if p =? 1 then mkE 8 nan_val else mkE 9 30) in
  let c := mkB 3 3 0 (fun p => if p =? 0 then mkE 7 11 else if p =? 1 then mkE 8 nan_val else mkE 9 30) in
  let d := mkB 3 1 1 (items a) in
  let w := mkW false 1000 [] None in
  vals (abs a) = [10; nan_val; 30] /\ vals (abs b) = [10; nan_val; 30] /\
  vals (abs c) = [11; nan_val; 30] /\ vals (abs d) = [10] /\
  fst (fst (exec (OEq a) a w)) = Ok (OutBool false) /\
  fst (fst (exec (OEq b) a w)) = Ok (OutBool false) /\
  fst (fst (exec (OEqSlice EqSlice (abs a)) a w)) = Ok (OutBool false) /\
  log (snd (exec (OEq a) a w)) = [EvEq (mkE 101 10) (mkE 101 10); EvEq (mkE 102 nan_val) (mkE 102 nan_val)] /\
  fst (fst (exec (OPartialCmp a) a w)) = Ok (OutOrd None) /\
  fst (fst (exec (OPartialCmp b) a w)) = Ok (OutOrd None) /\
  fst (fst (exec (OPartialCmp c) a w)) = Ok (OutOrd (Some Lt)) /\
  fst (fst (exec (OPartialCmp d) a w)) = Ok (OutOrd (Some Gt)) /\
  fst (fst (exec (OPartialCmp a) d w)) = Ok (OutOrd (Some Lt)) /\
  fst (fst (exec (OCmp a) a w)) = Ok (OutOrd (Some Eq)) /\
  fst (fst (exec (OCmp c) a w)) = Ok (OutOrd (Some Lt)) /\
  fst (fst (exec (OEq d) d w)) = Ok (OutBool true) /\
  fst (fst (exec (OPartialCmp d) d w)) = Ok (OutOrd (Some Eq)).
Proof. vm_compute. repeat split. Qed.

(* C14: writing 2 bytes into a full, wrapped buffer of capacity 3 evicts the
   two oldest bytes; writing 5 bytes keeps the last 3; read and consume take
   from the front *)
Example write_wrapped_example :
  let s := mkB 3 3 1 (fun p => mkE (100 + p) (10 + p)) in  (* slots 1, 2, 0: values 11 12 10 *)
  let w := mkW false 1000 [] None in
  let r1 := exec (OWrite Std [mkE 1 7; mkE 2 8]) s w in
  let r2 := exec (OWrite Aio [mkE 1 5; mkE 2 6; mkE 3 7; mkE 4 8; mkE 5 9]) s w in
  let r3 := exec (ORead Eio [mkE 1 0; mkE 2 0]) s w in
  let r4 := exec (OConsume Std 2) s w in
  vals (abs s) = [11; 12; 10] /\
  fst (fst r1) = Ok (OutZ 2) /\ vals (abs (snd (fst r1))) = [10; 7; 8] /\
  ids (abs (snd (fst r1))) = [100; 1000; 1001] /\
  fst (fst r2) = Ok (OutZ 5) /\ vals (abs (snd (fst r2))) = [7; 8; 9] /\
  fst (fst r3) = Ok (OutRead 2 [mkE 101 11; mkE 102 12]) /\ vals (abs (snd (fst r3))) = [10] /\
  vals (abs (snd (fst r4))) = [10].
Proof. vm_compute. repeat split. Qed.

(* C07: the slots yielded by iter_mut on a wrapped buffer *)
Example iter_mut_slots_example :
  let s := mkB 3 3 1 (fun p => mkE (100 + p) (10 + p)) in
  let w := mkW false 1000 [] None in
  match fst (fst (exec (OIterMut [SNextSet (mkE 1 1); SNextBack; SNext; SNext]) s w)) with
  | Ok (OutScript rs) => slots_of rs = [1; 0; 2]
  | _ => False
  end.
Proof. vm_compute. reflexivity. Qed.

Print Assumptions exec_eq_iff.
Print Assumptions exec_eq_slice_iff.
Print Assumptions exec_eq_iff_total.
Print Assumptions exec_eq_slice_iff_total.
Print Assumptions eq_self_nan.
Print Assumptions exec_cmp_partial.
Print Assumptions exec_cmp_none.
Print Assumptions exec_cmp_lex.
Print Assumptions exec_ord_cmp_lex.
Print Assumptions exec_hash_contents.
Print Assumptions exec_debug_contents.
Print Assumptions observers_layout_free.
Print Assumptions exec_write_vals.
Print Assumptions exec_read_vals.
Print Assumptions exec_fill_buf_prefix.
Print Assumptions exec_consume_vals.
Print Assumptions io_never_fails.
Print Assumptions phys_NoDup.
Print Assumptions as_mut_slices_slots_distinct.
Print Assumptions iter_mut_slots_distinct.
Print Assumptions clone_disjoint.
Print Assumptions to_vec_disjoint.
Print Assumptions clone_from_disjoint.
