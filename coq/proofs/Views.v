(* Views.v — operation-level refinement for the slice views: as_slices,
   as_mut_slices followed by writes through the views, make_contiguous
   followed by writes through the returned slice. *)

From CB Require Import Spec.
From CBP Require Import MonadLemmas Arith AbsLemmas ListLemmas AbsOps Core Step Slices RefDefs.
From Coq Require Import ZifyBool.
Ltac Zify.zify_post_hook ::= Z.div_mod_to_equations.

Ltac blem_user ::=
  first [ apply add_mod_ok; mcbn; lia | apply sub_mod_ok; mcbn; lia ].

(* ---- views as (position, element) lists ------------------------------------- *)

Lemma sl_pes_erase f sl : map erase_pe (sl_pes f sl) = map epe (sl_elems f sl).
Proof. unfold sl_pes, sl_elems. rewrite !map_map. reflexivity. Qed.

Lemma sl_pes_fst f sl : map fst (sl_pes f sl) = zseq (soff sl) (Z.to_nat (slen sl)).
Proof. unfold sl_pes. rewrite map_map. cbn [fst]. apply map_id. Qed.

(* the slots of the views, first view then second, are the slots of the
   logical positions 0, 1, ..., size - 1 *)
Lemma as_slices_val_items s f : as_slices_val (b_items s f) = as_slices_val s.
Proof. reflexivity. Qed.

Lemma abs_map s :
  abs s = map (items s) (map (phys s) (zseq 0 (Z.to_nat (size s)))).
Proof. unfold abs. rewrite map_map. reflexivity. Qed.

Lemma as_slices_val_slots s :
  WF s ->
  zseq (soff (fst (as_slices_val s))) (Z.to_nat (slen (fst (as_slices_val s)))) ++
  zseq (soff (snd (as_slices_val s))) (Z.to_nat (slen (snd (as_slices_val s))))
  = map (phys s) (zseq 0 (Z.to_nat (size s))).
Proof.
  intros HW.
  pose (f := fun p : Z => mkE p 0).
  assert (HW' : WF (b_items s f)) by exact HW.
  pose proof (as_slices_val_abs (b_items s f) HW') as H.
  rewrite as_slices_val_items in H. rewrite abs_map in H.
  cbn [items b_items size] in H. unfold sl_elems in H.
  apply (f_equal (map eid)) in H. rewrite map_app, !map_map in H.
  cbn [f eid] in H. rewrite !map_id in H.
  rewrite H. apply map_ext. intros a. reflexivity.
Qed.

(* ---- as_slices ------------------------------------------------------------------ *)

Theorem as_slices_op : refines_op OAsSlices.
Proof.
  intros s w HW Hf _.
  unfold refines_at. cbn [spec_step].
  destruct (as_slices_val s) as [a b] eqn:Ev.
  exists (OutSlices (sl_pes (items s) a) (sl_pes (items s) b)), s.
  cbn [sr_evs sr_nid sr_out sr_list]. rewrite wev_nil.
  split; [|split; [|auto]].
  - cbn [exec]. erewrite bind_ok by (apply as_slices_ok; exact HW). rewrite Ev. reflexivity.
  - cbn [out_ok erase_out]. rewrite map_app, !sl_pes_erase, <- map_app.
    pose proof (as_slices_val_abs s HW) as H. rewrite Ev in H. cbn [fst snd] in H.
    rewrite H. reflexivity.
Qed.

(* ---- overwrite -------------------------------------------------------------------- *)

Lemma firstn_app_len {A} (l1 l2 : list A) : firstn (length l1) (l1 ++ l2) = l1.
Proof. induction l1 as [|x l1 IH]; cbn; [reflexivity|]. f_equal. exact IH. Qed.

Lemma skipn_app_len {A} (l1 l2 : list A) : skipn (length l1) (l1 ++ l2) = l2.
Proof. induction l1 as [|x l1 IH]; cbn; [reflexivity|]. exact IH. Qed.

Lemma firstn_S_app_len {A} (l1 : list A) x l2 :
  firstn (S (length l1)) (l1 ++ x :: l2) = l1 ++ [x].
Proof. induction l1 as [|y l1 IH]; cbn; [reflexivity|]. f_equal. exact IH. Qed.

Lemma skipn_S_app_len {A} (l1 : list A) x l2 :
  skipn (S (length l1)) (l1 ++ x :: l2) = l2.
Proof. induction l1 as [|y l1 IH]; cbn; [reflexivity|]. exact IH. Qed.

Lemma overwrite_nil_r {A} (l : list A) : overwrite l [] = l.
Proof. unfold overwrite. rewrite Nat.min_0_r. reflexivity. Qed.

Lemma overwrite_nil_l {A} (ws : list A) : overwrite [] ws = [].
Proof. reflexivity. Qed.

Lemma overwrite_cons {A} (x : A) l v ws : overwrite (x :: l) (v :: ws) = v :: overwrite l ws.
Proof. reflexivity. Qed.

Lemma overwrite_step (l : list elem) k v ws :
  (k < length l)%nat ->
  firstn (S k) (set_nth k v l) ++ overwrite (skipn (S k) (set_nth k v l)) ws
  = firstn k l ++ overwrite (skipn k l) (v :: ws).
Proof.
  intros H. destruct (nth_split l dflt H) as (l1 & l2 & El & Hl).
  set (x := nth k l dflt) in El. clearbody x. subst l k.
  unfold set_nth. rewrite app_length. cbn [length].
  replace (length l1 <? length l1 + S (length l2))%nat with true
    by (symmetry; apply Nat.ltb_lt; lia).
  rewrite !firstn_app_len, !skipn_app_len, skipn_S_app_len.
  rewrite firstn_S_app_len, skipn_S_app_len.
  rewrite overwrite_cons, <- app_assoc. reflexivity.
Qed.

(* ---- writing through the slots of the logical positions k, k+1, ... -------------- *)

Lemma write_through_abs ws : forall s w k,
  0 < cap s -> 0 <= start s < cap s -> 0 <= size s <= cap s -> 0 <= k <= size s ->
  exists s',
    write_through (map (phys s) (zseq k (Z.to_nat (size s - k)))) ws s w = (Ok tt, s', w) /\
    cap s' = cap s /\ size s' = size s /\ start s' = start s /\
    abs s' = firstn (Z.to_nat k) (abs s) ++ overwrite (skipn (Z.to_nat k) (abs s)) ws.
Proof.
  induction ws as [|v ws IH]; intros s w k Hc Hs Hz Hk.
  - exists s. split.
    + destruct (map (phys s) (zseq k (Z.to_nat (size s - k)))); reflexivity.
    + rewrite overwrite_nil_r, firstn_skipn. auto.
  - destruct (Z.eq_dec k (size s)) as [->|Hne].
    + exists s. replace (Z.to_nat (size s - size s)) with 0%nat by lia.
      split; [reflexivity|].
      rewrite skipn_all2 by (rewrite abs_length; lia).
      rewrite overwrite_nil_l, app_nil_r, firstn_all2 by (rewrite abs_length; lia). auto.
    + replace (Z.to_nat (size s - k)) with (S (Z.to_nat (size s - (k + 1)))) by lia.
      rewrite zseq_cons. cbn [map write_through].
      set (s1 := b_items s (s_write (items s) (phys s k) v)).
      destruct (IH s1 w (k + 1)) as (s' & Hw & Hc' & Hz' & Hs' & Ha); try (cbn; lia).
      exists s'. split; [exact Hw|]. split; [exact Hc'|]. split; [exact Hz'|].
      split; [exact Hs'|].
      rewrite Ha. unfold s1. rewrite abs_set by lia.
      replace (Z.to_nat (k + 1)) with (S (Z.to_nat k)) by lia.
      apply overwrite_step. rewrite abs_length. lia.
Qed.

Lemma write_through_all s w ws :
  WF s ->
  exists s',
    write_through (map (phys s) (zseq 0 (Z.to_nat (size s)))) ws s w = (Ok tt, s', w) /\
    abs s' = overwrite (abs s) ws /\ WF s' /\ cap s' = cap s.
Proof.
  intros HW. pose proof HW as HW'. wf HW'.
  destruct (Z.eq_dec (cap s) 0) as [Hc0|Hc0].
  - exists s. replace (Z.to_nat (size s)) with 0%nat by lia.
    split; [reflexivity|]. rewrite abs_empty by lia. auto.
  - specialize (Hst ltac:(lia)).
    destruct (write_through_abs ws s w 0) as (s' & Hw & Hc' & Hz' & Hs' & Ha); try lia.
    rewrite Z.sub_0_r in Hw. cbn [Z.to_nat firstn skipn app] in Ha.
    exists s'. split; [exact Hw|]. split; [exact Ha|]. split; [|exact Hc'].
    unfold WF. rewrite Hc', Hz', Hs'. exact HW.
Qed.

(* the references handed out for those slots, positions erased *)
Lemma slots_erase s :
  map erase_pe (map (fun p => (p, items s p)) (map (phys s) (zseq 0 (Z.to_nat (size s)))))
  = map epe (abs s).
Proof. rewrite abs_map, !map_map. reflexivity. Qed.

(* ---- as_mut_slices, then writes through the two views ------------------------------- *)

Theorem as_mut_slices_set_op ws : refines_op (OAsMutSlicesSet ws).
Proof.
  intros s w HW Hf _.
  unfold refines_at. cbn [spec_step].
  pose proof (as_slices_val_slots s HW) as Hsl.
  destruct (as_slices_val s) as [a b] eqn:Ev. cbn [fst snd] in Hsl.
  destruct (write_through_all s w ws HW) as (s' & Hw & Ha & HW2 & Hc).
  exists (OutSlices (sl_pes (items s) a) (sl_pes (items s) b)), s'.
  cbn [sr_evs sr_nid sr_out sr_list]. rewrite wev_nil.
  split; [|split; [|auto]].
  - cbn [exec]. erewrite bind_ok by (apply as_mut_slices_ok; exact HW). rewrite Ev.
    unfold get_items at 1. unfold bind at 1.
    rewrite map_app, !sl_pes_fst, Hsl.
    erewrite bind_ok by exact Hw. reflexivity.
  - cbn [out_ok erase_out].
    unfold sl_pes. rewrite <- map_app, Hsl, slots_erase. reflexivity.
Qed.

(* ---- make_contiguous ------------------------------------------------------------------ *)

Lemma zseq_phys s off n :
  (forall i, 0 <= i < Z.of_nat n -> phys s i = off + i) ->
  zseq off n = map (phys s) (zseq 0 n).
Proof.
  intros H. rewrite !zseq_map_seq. rewrite map_map. apply map_ext_in. intros a Ha.
  apply in_seq in Ha. rewrite H by lia. lia.
Qed.

(* rotating the whole array left by [start] and restarting at 0 keeps the contents *)
Lemma abs_rotate s :
  0 < cap s -> 0 <= start s < cap s -> 0 <= size s <= cap s ->
  abs (mkB (cap s) (size s) 0 (s_rotate_left (items s) (cap s) (start s))) = abs s.
Proof.
  intros Hc Hs Hz. apply abs_ext; [reflexivity|].
  intros i Hi. cbn [size] in Hi. rewrite phys_mkB. cbn [items]. unfold s_rotate_left.
  rewrite Z.add_0_l, (Z.mod_small i) by lia.
  replace ((0 <=? i) && (i <? cap s)) with true by lia.
  unfold phys. f_equal. f_equal. lia.
Qed.

Lemma make_contiguous_ok s w :
  WF s ->
  exists sl s1,
    make_contiguous s w = (Ok sl, s1, w) /\ WF s1 /\ cap s1 = cap s /\ abs s1 = abs s /\
    zseq (soff sl) (Z.to_nat (slen sl)) = map (phys s1) (zseq 0 (Z.to_nat (size s1))).
Proof.
  intros HW. pose proof HW as HW'. wf HW'. unfold make_contiguous. mcbn.
  destruct ((cap s =? 0) || (size s =? 0)) eqn:E0.
  - exists empty_slice, s. split; [reflexivity|]. split; [exact HW|]. split; [reflexivity|].
    split; [reflexivity|].
    cbn [soff slen empty_slice]. replace (Z.to_nat (size s)) with 0%nat by lia. reflexivity.
  - specialize (Hst ltac:(lia)).
    bstep. bstep. bstep.
    destruct (size s <=? cap s - start s) eqn:E1.
    + eexists _, s. split; [bsteps|].
      split; [exact HW|]. split; [reflexivity|]. split; [reflexivity|].
      cbn [soff slen]. rewrite Z.add_0_l.
      replace (start s + size s - start s) with (size s) by lia.
      apply zseq_phys. intros i Hi. unfold phys. apply Z.mod_small. lia.
    + eexists _, _. split; [bsteps|].
      split; [apply WF_mk; cbn; lia|]. split; [reflexivity|].
      split; [exact (abs_rotate s ltac:(lia) ltac:(lia) ltac:(lia))|].
      cbn [soff slen size]. rewrite Z.add_0_l, Z.sub_0_r.
      apply zseq_phys. intros i Hi. unfold phys. cbn [start cap b_items b_start].
      cbn [size b_items b_start] in Hi. apply Z.mod_small. lia.
Qed.

Theorem make_contiguous_op ws : refines_op (OMakeContiguous ws).
Proof.
  intros s w HW Hf _.
  unfold refines_at. cbn [spec_step].
  destruct (make_contiguous_ok s w HW) as (sl & s1 & Hm & HW1 & Hc1 & Ha1 & Hsl).
  destruct (write_through_all s1 w ws HW1) as (s' & Hw & Ha & HW2 & Hc).
  exists (OutSlices (sl_pes (items s1) sl) []), s'.
  cbn [sr_evs sr_nid sr_out sr_list]. rewrite wev_nil.
  split; [|split; [|split; [|split]]].
  - cbn [exec]. erewrite bind_ok by exact Hm.
    unfold get_items at 1. unfold bind at 1.
    rewrite sl_pes_fst, Hsl.
    erewrite bind_ok by exact Hw. reflexivity.
  - cbn [out_ok erase_out]. rewrite app_nil_r.
    unfold sl_pes. rewrite Hsl, slots_erase, Ha1. reflexivity.
  - rewrite Ha, Ha1. reflexivity.
  - exact HW2.
  - lia.
Qed.
