(* Buf.v — src/lib.rs, inherent methods of CircularBuffer<N, T>, function by
   function. Same control flow, same helper calls, same N == 0 early returns,
   same debug_assert!s (active when [dbg]), same slice expressions (each a
   possible PBounds), same order of effects. A reference into the array is the
   physical index of its slot. No proofs in this file. *)

From CB Require Export Machine.

(* ---- add_mod / sub_mod (lib.rs:239-257) ---------------------------- *)

Definition add_mod (x y m : Z) : M Z :=
  dassert (0 <? m);;
  dassert (x <=? m);;
  dassert (y <=? m);;
  let '(z, overflow) := overflowing_add x y in
  r <- urem usize_max m;;
  c <- uadd r 1;;
  t <- umul (b2z overflow) c;;
  u <- uadd z t;;
  urem u m.

Definition sub_mod (x y m : Z) : M Z :=
  dassert (0 <? m);;
  dassert (x <=? m);;
  dassert (y <=? m);;
  d <- usub m y;;
  add_mod x d m.

(* ---- new / boxed ---------------------------------------------------- *)

(* [junk] is whatever the fresh memory happens to contain *)
Definition new_buf (n : Z) (junk : store) : cbuf := mkB n 0 0 junk.

(* boxed (lib.rs:340), the same text with and without the `unstable` feature:
     let mut uninit: Box<MaybeUninit<Self>> = Box::new_uninit();
     addr_of_mut!(ptr->size).write(0);     [written ( *ptr).size in Rust]
     addr_of_mut!(ptr->start).write(0);
     uninit.assume_init()
   One heap allocation (Self is never zero-sized: it has the two usize
   fields), then the two bookkeeping fields are written; the items stay
   whatever the fresh memory holds. *)
Definition boxed (n : Z) (junk : store) : M cbuf :=
  emit EvAlloc;;
  let uninit := new_buf n junk in
  let b := b_size uninit 0 in
  let b := b_start b 0 in
  ret b.

(* ---- len / capacity / is_empty / is_full ---------------------------- *)

Definition len : M Z := get_size.
Definition capacity : M Z := get_cap.
Definition is_empty : M bool := sz <- get_size;; ret (sz =? 0).
Definition is_full : M bool := sz <- get_size;; n <- get_cap;; ret (sz =? n).

(* ---- make_contiguous (lib.rs:670) ----------------------------------- *)

Definition make_contiguous : M slice :=
  s <- get;;
  if (cap s =? 0) || (size s =? 0) then ret empty_slice else
  dassert (start s <? cap s);;
  dassert (size s <=? cap s);;
  let st := start s in
  d <- usub (cap s) st;;
  if size s <=? d then
    e <- uadd st (size s);;
    it <- items_slice;;
    sl_range it st e
  else
    set_start 0;;
    (* self.items.rotate_left(start) *)
    (if st <=? cap s then f <- get_items;; set_items (s_rotate_left f (cap s) st)
     else panic PBounds);;
    sz <- get_size;;
    it <- items_slice;;
    sl_range it 0 sz.

(* ---- as_slices / as_mut_slices (lib.rs:720, 772) -------------------- *)

Definition as_slices : M (slice * slice) :=
  s <- get;;
  if (cap s =? 0) || (size s =? 0) then ret (empty_slice, empty_slice) else
  dassert (start s <? cap s);;
  dassert (size s <=? cap s);;
  let st := start s in
  en <- add_mod (start s) (size s) (cap s);;
  if st <? en then
    it <- items_slice;;
    f <- sl_range it st en;;
    ret (f, empty_slice)
  else
    it <- items_slice;;
    '(back, front) <- sl_split_at it st;;
    b <- sl_range back 0 en;;
    ret (front, b).

(* textually the same function with &mut *)
Definition as_mut_slices : M (slice * slice) := as_slices.

(* ---- *_maybe_uninit (lib.rs:794-843) -------------------------------- *)

Definition front_maybe_uninit_mut : M Z :=
  s <- get;;
  dassert (0 <? size s);;
  dassert (start s <? cap s);;
  idx (start s).

Definition front_maybe_uninit : M Z :=
  s <- get;;
  dassert (0 <? size s);;
  dassert (size s <=? cap s);;
  dassert (start s <? cap s);;
  idx (start s).

Definition back_maybe_uninit : M Z :=
  s <- get;;
  dassert (0 <? size s);;
  dassert (size s <=? cap s);;
  dassert (start s <? cap s);;
  sm1 <- usub (size s) 1;;
  back <- add_mod (start s) sm1 (cap s);;
  idx back.

Definition back_maybe_uninit_mut : M Z := back_maybe_uninit.

Definition get_maybe_uninit (index : Z) : M Z :=
  s <- get;;
  dassert (0 <? size s);;
  dassert (index <? cap s);;
  dassert (start s <? cap s);;
  i <- add_mod (start s) index (cap s);;
  idx i.

Definition get_maybe_uninit_mut (index : Z) : M Z := get_maybe_uninit index.

(* ---- slices_uninit_mut (lib.rs:846) --------------------------------- *)

Definition slices_uninit_mut : M (slice * slice) :=
  s <- get;;
  if cap s =? 0 then ret (empty_slice, empty_slice) else
  dassert (start s <? cap s);;
  dassert (size s <=? cap s);;
  let st := start s in
  en <- add_mod st (size s) (cap s);;
  if en <? st then
    it <- items_slice;;
    r <- sl_range it en st;;
    ret (r, empty_slice)
  else
    it <- items_slice;;
    '(lft, rgt) <- sl_split_at it en;;
    l <- sl_range lft 0 st;;
    ret (rgt, l).

(* ---- inc/dec start/size (lib.rs:866-888) ---------------------------- *)

Definition inc_start : M unit :=
  s <- get;;
  dassert (start s <? cap s);;
  v <- add_mod (start s) 1 (cap s);;
  set_start v.

Definition dec_start : M unit :=
  s <- get;;
  dassert (start s <? cap s);;
  v <- sub_mod (start s) 1 (cap s);;
  set_start v.

Definition inc_size : M unit :=
  s <- get;;
  dassert (size s <=? cap s);;
  dassert (size s <? cap s);;
  v <- uadd (size s) 1;;
  set_size v.

Definition dec_size : M unit :=
  s <- get;;
  dassert (0 <? size s);;
  v <- usub (size s) 1;;
  set_size v.

(* ---- drop_range (lib.rs:891) ---------------------------------------- *)

(* The two Droppers are armed, then the buffer is shrunk, then the scope ends:
   _right is destroyed first, then _left (reverse declaration order), the
   second one also when the first one unwinds. *)
Definition drop_range (a b : Z) : M unit :=
  if b <=? a then ret tt else       (* range.is_empty() *)
  s <- get;;
  dassert (start s <? cap s);;
  dassert (size s <=? cap s);;
  dassert (a <? size s);;
  dassert (b <=? size s);;
  dassert (a <? b);;
  dassert ((a =? 0) || (b =? size s));;
  drop_from <- add_mod (start s) a (cap s);;
  drop_to <- add_mod (start s) b (cap s);;
  '(rgt, lft) <-
     (if drop_from <? drop_to then
        it <- items_slice;;
        r <- sl_range it drop_from drop_to;;
        ret (r, empty_slice)
      else
        it <- items_slice;;
        '(lft, rgt) <- sl_split_at it drop_from;;
        l <- sl_range lft 0 drop_to;;
        ret (rgt, l));;
  finally
    (if b =? size s then set_size a
     else set_start drop_to;; v <- usub (size s) b;; set_size v)
    (finally (drop_slice rgt) (drop_slice lft)).

(* ---- back / front / get / nth_* (lib.rs:952-1226) ------------------- *)

Definition back : M (option Z) :=
  s <- get;;
  if (cap s =? 0) || (size s =? 0) then ret None else
  p <- back_maybe_uninit;; ret (Some p).

Definition back_mut : M (option Z) :=
  s <- get;;
  if (cap s =? 0) || (size s =? 0) then ret None else
  p <- back_maybe_uninit_mut;; ret (Some p).

Definition front : M (option Z) :=
  s <- get;;
  if (cap s =? 0) || (size s =? 0) then ret None else
  p <- front_maybe_uninit;; ret (Some p).

Definition front_mut : M (option Z) :=
  s <- get;;
  if (cap s =? 0) || (size s =? 0) then ret None else
  p <- front_maybe_uninit_mut;; ret (Some p).

Definition get_ (index : Z) : M (option Z) :=
  s <- get;;
  if (cap s =? 0) || (size s <=? index) then ret None else
  p <- get_maybe_uninit index;; ret (Some p).

Definition get_mut (index : Z) : M (option Z) :=
  s <- get;;
  if (cap s =? 0) || (size s <=? index) then ret None else
  p <- get_maybe_uninit_mut index;; ret (Some p).

Definition nth_front (index : Z) : M (option Z) := get_ index.
Definition nth_front_mut (index : Z) : M (option Z) := get_mut index.

Definition nth_back (index : Z) : M (option Z) :=
  sz <- get_size;;
  match checked_sub sz index with
  | None => ret None
  | Some a =>
    match checked_sub a 1 with
    | None => ret None
    | Some i => get_ i
    end
  end.

Definition nth_back_mut (index : Z) : M (option Z) :=
  sz <- get_size;;
  match checked_sub sz index with
  | None => ret None
  | Some a =>
    match checked_sub a 1 with
    | None => ret None
    | Some i => get_mut i
    end
  end.

(* ---- push / try_push / pop (lib.rs:1262-1486) ----------------------- *)

Definition push_back (item : elem) : M (option elem) :=
  s <- get;;
  if cap s =? 0 then ret (Some item) else
  if cap s <=? size s then
    p <- front_maybe_uninit_mut;;
    replaced <- read_slot p;;
    write_slot p item;;
    inc_start;;
    ret (Some replaced)
  else
    inc_size;;
    p <- back_maybe_uninit_mut;;
    write_slot p item;;
    ret None.

(* Result<(), T>: None = Ok(()), Some e = Err(e) *)
Definition try_push_back (item : elem) : M (option elem) :=
  s <- get;;
  if cap s =? 0 then ret (Some item) else
  if cap s <=? size s then ret (Some item)
  else
    inc_size;;
    p <- back_maybe_uninit_mut;;
    write_slot p item;;
    ret None.

Definition push_front (item : elem) : M (option elem) :=
  s <- get;;
  if cap s =? 0 then ret (Some item) else
  if cap s <=? size s then
    p <- back_maybe_uninit_mut;;
    replaced <- read_slot p;;
    write_slot p item;;
    dec_start;;
    ret (Some replaced)
  else
    inc_size;;
    dec_start;;
    p <- front_maybe_uninit_mut;;
    write_slot p item;;
    ret None.

Definition try_push_front (item : elem) : M (option elem) :=
  s <- get;;
  if cap s =? 0 then ret (Some item) else
  if cap s <=? size s then ret (Some item)
  else
    inc_size;;
    dec_start;;
    p <- front_maybe_uninit_mut;;
    write_slot p item;;
    ret None.

Definition pop_back : M (option elem) :=
  s <- get;;
  if (cap s =? 0) || (size s =? 0) then ret None else
  p <- back_maybe_uninit;;
  e <- read_slot p;;
  dec_size;;
  ret (Some e).

Definition pop_front : M (option elem) :=
  s <- get;;
  if (cap s =? 0) || (size s =? 0) then ret None else
  p <- front_maybe_uninit;;
  e <- read_slot p;;
  dec_size;;
  inc_start;;
  ret (Some e).

(* ---- remove (lib.rs:1504) ------------------------------------------- *)

Definition remove (index : Z) : M (option elem) :=
  s <- get;;
  if (cap s =? 0) || (size s <=? index) then ret None else
  i <- add_mod (start s) index (cap s);;
  sm1 <- usub (size s) 1;;
  back_index <- add_mod (start s) sm1 (cap s);;
  p <- idx i;;
  item <- read_slot p;;
  (if i <=? back_index then
     l <- usub back_index i;;
     raw_copy (i + 1) i l
   else
     l0 <- usub (cap s) i;;
     l1 <- usub l0 1;;
     raw_copy (i + 1) i l1;;
     nm1 <- usub (cap s) 1;;
     raw_copy 0 nm1 1;;
     raw_copy 1 0 back_index);;
  dec_size;;
  ret (Some item).

(* ---- swap / swap_remove_* (lib.rs:1563-1622) ------------------------ *)

Definition swap (i j : Z) : M unit :=
  s <- get;;
  assert_ (i <? size s);;
  assert_ (j <? size s);;
  if negb (i =? j) then
    pi <- add_mod (start s) i (cap s);;
    pj <- add_mod (start s) j (cap s);;
    qi <- idx pi;;
    qj <- idx pj;;
    f <- get_items;;
    set_items (s_swap f qi qj)
  else ret tt.

Definition swap_remove_back (index : Z) : M (option elem) :=
  sz <- get_size;;
  if sz <=? index then ret None else
  sm1 <- usub sz 1;;
  swap index sm1;;
  pop_back.

Definition swap_remove_front (index : Z) : M (option elem) :=
  sz <- get_size;;
  if sz <=? index then ret None else
  swap index 0;;
  pop_front.

(* ---- truncate / clear (lib.rs:1826-1891) ---------------------------- *)

Definition truncate_back (n : Z) : M unit :=
  s <- get;;
  if (cap s =? 0) || (size s <=? n) then ret tt else
  drop_range n (size s).

Definition truncate_front (n : Z) : M unit :=
  s <- get;;
  if (cap s =? 0) || (size s <=? n) then ret tt else
  drop_len <- usub (size s) n;;
  drop_range 0 drop_len.

Definition clear : M unit := truncate_back 0.

(* ---- fill family (lib.rs:1665-1804) --------------------------------- *)

(* while self.size < N - 1 { self.push_back(value.clone()); } *)
Fixpoint fill_spare_loop (fuel : nat) (value : elem) : M unit :=
  s <- get;;
  nm1 <- usub (cap s) 1;;
  if size s <? nm1 then
    match fuel with
    | O => panic PFuel
    | S fuel' =>
      c <- clone_elem value;;
      r <- push_back c;;
      drop_opt r;;
      fill_spare_loop fuel' value
    end
  else ret tt.

(* [value] is owned by the function: it is destroyed on the early return and
   when a clone unwinds, and moved into the buffer by the last push_back *)
Definition fill_spare (value : elem) : M unit :=
  s <- get;;
  if (cap s =? 0) || (size s =? cap s) then drop_elem value else
  on_unwind (fill_spare_loop (Z.to_nat (cap s - size s)) value) (drop_elem value);;
  r <- push_back value;;
  drop_opt r.

Definition fill (value : elem) : M unit :=
  on_unwind clear (drop_elem value);;
  fill_spare value.

(* while self.size < N { self.push_back(f()); } *)
Fixpoint fill_spare_with_loop (fuel : nat) : M unit :=
  s <- get;;
  if size s <? cap s then
    match fuel with
    | O => panic PFuel
    | S fuel' =>
      c <- call_closure;;
      r <- push_back c;;
      drop_opt r;;
      fill_spare_with_loop fuel'
    end
  else ret tt.

Definition fill_spare_with : M unit :=
  s <- get;;
  if cap s =? 0 then ret tt else
  fill_spare_with_loop (Z.to_nat (cap s - size s)).

Definition fill_with : M unit :=
  clear;;
  fill_spare_with.

(* ---- extend_from_slice (lib.rs:1914) -------------------------------- *)

(* for i in 0..len { guard.dst[i].write(src[i].clone()); guard.initialized += 1; }
   The Guard destroys dst[..initialized] when an iteration unwinds. *)
Fixpoint wusc_loop (dst : slice) (src : list elem) (n : nat) (i : Z) : M unit :=
  match n with
  | O => ret tt
  | S n' =>
    on_unwind
      (p <- sl_index dst i;;
       e <- match nth_error src (Z.to_nat i) with
            | Some e => ret e
            | None => panic PBounds
            end;;
       c <- clone_elem e;;
       write_slot p c)
      (g <- sl_range dst 0 i;; drop_slice g);;
    wusc_loop dst src n' (i + 1)
  end.

Definition zlen {A} (l : list A) : Z := Z.of_nat (length l).

Definition write_uninit_slice_cloned (dst : slice) (src : list elem) : M unit :=
  dassert (slen dst =? zlen src);;
  wusc_loop dst src (Z.to_nat (slen dst)) 0.

Definition extend_from_slice (other : list elem) : M unit :=
  s <- get;;
  let olen := zlen other in
  if cap s =? 0 then ret tt else
  dassert (start s <? cap s);;
  dassert (size s <=? cap s);;
  if olen <? cap s then
    free_size <- usub (cap s) (size s);;
    final_size <-
      (if olen <? free_size then uadd (size s) olen
       else k <- usub (cap s) olen;; truncate_front k;; ret (cap s));;
    '(rgt, _) <- slices_uninit_mut;;
    let write_len := Z.min (slen rgt) olen in
    d <- sl_range rgt 0 write_len;;
    write_uninit_slice_cloned d (firstn (Z.to_nat write_len) other);;
    sz <- get_size;;
    v <- uadd sz write_len;;
    set_size v;;
    let other2 := skipn (Z.to_nat write_len) other in
    '(lft, _) <- slices_uninit_mut;;
    dassert (zlen other2 <=? slen lft);;
    let write_len2 := zlen other2 in
    d2 <- sl_range lft 0 write_len2;;
    write_uninit_slice_cloned d2 other2;;
    sz <- get_size;;
    v <- uadd sz write_len2;;
    set_size v;;
    sz <- get_size;;
    dassert (sz =? final_size)
  else
    clear;;
    set_start 0;;
    k <- usub olen (cap s);;
    let other2 := skipn (Z.to_nat k) other in
    dassert (cap s =? zlen other2);;
    it <- items_slice;;
    write_uninit_slice_cloned it other2;;
    set_size (cap s).

(* ---- Drop for CircularBuffer (lib.rs:2306) -------------------------- *)

Definition drop_buf : M unit := clear.
