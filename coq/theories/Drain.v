(* Drain.v — src/drain.rs: Drain (saved length, requested range, remaining
   range) and CircularSlicePtr. The state is the drained buffer, whose size is
   zero while the Drain is alive. No proofs in this file. *)

From CB Require Export Iter.

Record drain := mkD {
  d_buf_size : Z;        (* buf_size *)
  d_rs : Z; d_re : Z;    (* range *)
  d_is : Z; d_ie : Z     (* iter *)
}.

(* ---- Drain::over_range (drain.rs:27) -------------------------------- *)

Definition drain_over_range (sb eb : bound) : M drain :=
  '(st, en) <- translate_range_bounds sb eb;;
  buf_size <- get_size;;
  set_size 0;;
  ret (mkD buf_size st en st en).

(* ---- Drain::read (drain.rs:59) -------------------------------------- *)

Definition drain_read (d : drain) (index : Z) : M elem :=
  s <- get;;
  dassert ((index <? cap s) && (index <? d_buf_size d));;
  dassert ((d_rs d <=? index) && (index <? d_re d));;
  dassert ((index <? d_is d) || (d_ie d <=? index));;
  i <- add_mod (start s) index (cap s);;
  p <- idx i;;
  read_slot p.

(* ---- Drain::as_slices / as_mut_slices (drain.rs:77, 113) ------------ *)

Definition drain_as_slices (d : drain) : M (slice * slice) :=
  s <- get;;
  if (cap s =? 0) || (d_buf_size d =? 0) || (d_ie d <=? d_is d) then
    ret (empty_slice, empty_slice)
  else
  dassert (start s <? cap s);;
  dassert (d_buf_size d <=? cap s);;
  st <- add_mod (start s) (d_is d) (cap s);;
  en <- add_mod (start s) (d_ie d) (cap s);;
  if st <? en then
    it <- items_slice;;
    r <- sl_range it st en;;
    ret (r, empty_slice)
  else
    it <- items_slice;;
    '(lft, rgt) <- sl_split_at it en;;
    k <- usub st en;;
    r <- sl_range rgt k (slen rgt);;
    ret (r, lft).

Definition drain_as_mut_slices := drain_as_slices.

(* ---- Iterator / DoubleEndedIterator / ExactSizeIterator ------------- *)

(* self.iter.next().map(|index| self.read(index)) with Range<usize>::next *)
Definition drain_next (d : drain) : M (drain * option elem) :=
  if d_is d <? d_ie d then
    let i := d_is d in
    let d' := mkD (d_buf_size d) (d_rs d) (d_re d) (i + 1) (d_ie d) in
    e <- drain_read d' i;;
    ret (d', Some e)
  else ret (d, None).

Definition drain_next_back (d : drain) : M (drain * option elem) :=
  if d_is d <? d_ie d then
    let i := d_ie d - 1 in
    let d' := mkD (d_buf_size d) (d_rs d) (d_re d) (d_is d) i in
    e <- drain_read d' i;;
    ret (d', Some e)
  else ret (d, None).

(* Range<usize>::len *)
Definition range_len (a b : Z) : Z := if a <? b then b - a else 0.

Definition drain_len (d : drain) : Z := range_len (d_is d) (d_ie d).

(* ---- CircularSlicePtr (drain.rs:326) -------------------------------- *)

Record csp := mkC { c_len : Z; c_off : Z }.

Definition csp_new (n : Z) : csp := mkC n 0.

Definition csp_as_ptr (c : csp) : M Z :=
  dassert (c_off c <? c_len c);;
  ret (c_off c).

Definition csp_available_len (c : csp) : M Z :=
  dassert (c_off c <? c_len c);;
  usub (c_len c) (c_off c).

Definition csp_add (c : csp) (increment : Z) : M csp :=
  dassert (c_off c <? c_len c);;
  dassert (increment <=? c_len c);;
  o <- add_mod (c_off c) increment (c_len c);;
  ret (mkC (c_len c) o).

(* ---- Drop for Drain (drain.rs:210) ---------------------------------- *)

Fixpoint drain_fill_loop (fuel : nat) (hole backfill : csp) (remaining : Z) : M unit :=
  if 0 <? remaining then
    match fuel with
    | O => panic PFuel
    | S fuel' =>
      ha <- csp_available_len hole;;
      ba <- csp_available_len backfill;;
      let copy_len := Z.min (Z.min ha ba) remaining in
      src <- csp_as_ptr backfill;;
      dst <- csp_as_ptr hole;;
      raw_copy src dst copy_len;;
      hole' <- csp_add hole copy_len;;
      backfill' <- csp_add backfill copy_len;;
      remaining' <- usub remaining copy_len;;
      drain_fill_loop fuel' hole' backfill' remaining'
    end
  else ret tt.

Definition drain_drop (d : drain) : M unit :=
  '(rgt, lft) <- drain_as_mut_slices d;;
  (* drop(right); drop(left): left is still a live local if right unwinds *)
  finally (drop_slice rgt) (drop_slice lft);;
  s <- get;;
  if cap s =? 0 then ret tt else
  remaining <- usub (d_buf_size d) (d_re d);;
  items0 <- csp_add (csp_new (cap s)) (start s);;
  hole <- csp_add items0 (d_rs d);;
  backfill <- csp_add items0 (d_re d);;
  drain_fill_loop (Z.to_nat remaining) hole backfill remaining;;
  v <- usub (d_buf_size d) (range_len (d_rs d) (d_re d));;
  set_size v.
