(* Io.v — src/io.rs (std::io) and src/embedded_io.rs (embedded-io,
   embedded-io-async): Write, Read, BufRead for CircularBuffer<N, u8>. Each
   trait family is its own set of definitions, mirroring the separate source
   text. No proofs in this file. *)

From CB Require Export Traits.

(* <&[u8] as Read>::read (std, embedded-io and embedded-io-async all copy
   min(len) bytes and advance): remaining source, new destination, count *)
Definition slice_read (src dst : list elem) : list elem * list elem * Z :=
  let amt := Nat.min (length src) (length dst) in
  (skipn amt src, firstn amt src ++ skipn amt dst, Z.of_nat amt).

(* ---- std::io (io.rs) -------------------------------------------------- *)

Definition io_write (src : list elem) : M Z :=
  extend_from_slice src;;
  ret (zlen src).

Definition io_flush : M unit := ret tt.

Definition io_read (dst : list elem) : M (Z * list elem) :=
  '(front_s, back_s) <- as_slices;;
  f <- get_items;;
  let '(_, dst1, c1) := slice_read (sl_elems f front_s) dst in
  (* &mut dst[count..] *)
  (if c1 <=? zlen dst1 then ret tt else panic PBounds);;
  let '(_, tail2, c2) := slice_read (sl_elems f back_s) (skipn (Z.to_nat c1) dst1) in
  count <- uadd c1 c2;;
  l <- len;;
  k <- usub l count;;
  truncate_front k;;
  ret (count, firstn (Z.to_nat c1) dst1 ++ tail2).

Definition io_fill_buf : M (list elem) :=
  '(front_s, back_s) <- as_slices;;
  f <- get_items;;
  if negb (slen front_s =? 0) then ret (sl_elems f front_s) else ret (sl_elems f back_s).

Definition io_consume (amt : Z) : M unit :=
  l <- len;;
  let amt := Z.min amt l in
  d <- drain_over_range BUnb (BExcl amt);;
  drain_drop d.

(* ---- embedded_io (embedded_io.rs:18-60) -------------------------------- *)

Definition eio_write (src : list elem) : M Z :=
  extend_from_slice src;;
  ret (zlen src).

Definition eio_flush : M unit := ret tt.

Definition eio_read (dst : list elem) : M (Z * list elem) :=
  '(front_s, back_s) <- as_slices;;
  f <- get_items;;
  let '(_, dst1, c1) := slice_read (sl_elems f front_s) dst in
  (if c1 <=? zlen dst1 then ret tt else panic PBounds);;
  let '(_, tail2, c2) := slice_read (sl_elems f back_s) (skipn (Z.to_nat c1) dst1) in
  count <- uadd c1 c2;;
  l <- len;;
  k <- usub l count;;
  truncate_front k;;
  ret (count, firstn (Z.to_nat c1) dst1 ++ tail2).

Definition eio_fill_buf : M (list elem) :=
  '(front_s, back_s) <- as_slices;;
  f <- get_items;;
  if negb (slen front_s =? 0) then ret (sl_elems f front_s) else ret (sl_elems f back_s).

Definition eio_consume (amt : Z) : M unit :=
  l <- len;;
  let amt := Z.min amt l in
  d <- drain_over_range BUnb (BExcl amt);;
  drain_drop d.

(* ---- embedded_io_async (embedded_io.rs:62-97) --------------------------
   An async fn is modelled as the sequence of its await points; the only
   awaited futures are <&[u8] as embedded_io_async::Read>::read, which are
   immediately ready. Executor behaviour is not modelled. *)

Definition aio_write (src : list elem) : M Z :=
  extend_from_slice src;;
  ret (zlen src).

Definition aio_flush : M unit := ret tt.

Definition aio_read (dst : list elem) : M (Z * list elem) :=
  '(front_s, back_s) <- as_slices;;
  f <- get_items;;
  let '(_, dst1, c1) := slice_read (sl_elems f front_s) dst in
  (if c1 <=? zlen dst1 then ret tt else panic PBounds);;
  let '(_, tail2, c2) := slice_read (sl_elems f back_s) (skipn (Z.to_nat c1) dst1) in
  count <- uadd c1 c2;;
  l <- len;;
  k <- usub l count;;
  truncate_front k;;
  ret (count, firstn (Z.to_nat c1) dst1 ++ tail2).

Definition aio_fill_buf : M (list elem) :=
  '(front_s, back_s) <- as_slices;;
  f <- get_items;;
  if negb (slen front_s =? 0) then ret (sl_elems f front_s) else ret (sl_elems f back_s).

Definition aio_consume (amt : Z) : M unit :=
  l <- len;;
  let amt := Z.min amt l in
  d <- drain_over_range BUnb (BExcl amt);;
  drain_drop d.
