(* Iter.v — src/iter.rs: translate_range_bounds, slice_take*, Iter / IterMut
   (a pair of slices), IntoIter (a wrapped buffer). An &T / &mut T yielded by
   an iterator is the physical index of its slot. No proofs in this file. *)

From CB Require Export Buf.

Inductive bound := BIncl (x : Z) | BExcl (x : Z) | BUnb.

(* ---- translate_range_bounds (iter.rs:60) ---------------------------- *)

Definition translate_range_bounds (sb eb : bound) : M (Z * Z) :=
  st <- match sb with
        | BIncl x => ret x
        | BExcl x => match checked_add x 1 with Some v => ret v | None => panic PExpect end
        | BUnb => ret 0
        end;;
  en <- match eb with
        | BIncl x => match checked_add x 1 with Some v => ret v | None => panic PExpect end
        | BExcl x => ret x
        | BUnb => len
        end;;
  l <- len;;
  assert_ (en <=? l);;
  assert_ (st <=? en);;
  ret (st, en).

(* ---- slice_take (iter.rs:107; stable version) ----------------------- *)

(* returns the updated slice and what was taken *)
Definition slice_take (sl : slice) (sb eb : bound) : M (slice * option slice) :=
  match sb, eb with
  | BUnb, BExcl index =>
    if slen sl <? index then ret (sl, None) else
    '(lft, rgt) <- sl_split_at sl index;;
    ret (rgt, Some lft)
  | BIncl index, BUnb =>
    if slen sl <? index then ret (sl, None) else
    '(lft, rgt) <- sl_split_at sl index;;
    ret (lft, Some rgt)
  | _, _ => panic PUnimplemented
  end.

Definition slice_take_mut := slice_take.

Definition slice_take_first (sl : slice) : slice * option Z :=
  if 0 <? slen sl then (mkS (soff sl + 1) (slen sl - 1), Some (soff sl)) else (sl, None).

Definition slice_take_last (sl : slice) : slice * option Z :=
  if 0 <? slen sl then (mkS (soff sl) (slen sl - 1), Some (soff sl + slen sl - 1))
  else (sl, None).

(* slice_take_first_mut / slice_take_last_mut (iter.rs:189, 215; stable version):
     let (item, rest) = core::mem::take(slice).split_first_mut()?;
     *slice = rest;
     Some(item)
   core::mem::take leaves `&mut []` (Default for &mut [T]) in *slice before the
   split is attempted, so when the slice is empty (`?` returns None) the place is
   left holding empty_slice, not the old (empty) slice with its old offset *)
Definition slice_take_first_mut (sl : slice) : slice * option Z :=
  if 0 <? slen sl then (mkS (soff sl + 1) (slen sl - 1), Some (soff sl))
  else (empty_slice, None).

Definition slice_take_last_mut (sl : slice) : slice * option Z :=
  if 0 <? slen sl then (mkS (soff sl) (slen sl - 1), Some (soff sl + slen sl - 1))
  else (empty_slice, None).

(* ---- Iter (iter.rs:218) --------------------------------------------- *)

Record iter := mkI { it_right : slice; it_left : slice }.

Definition iter_empty : iter := mkI empty_slice empty_slice.

Definition iter_new : M iter :=
  '(r, l) <- as_slices;; ret (mkI r l).

Definition advance_front_by (it : iter) (count : Z) : M iter :=
  if count <? slen (it_right it) then
    '(r, _) <- slice_take (it_right it) BUnb (BExcl count);;
    ret (mkI r (it_left it))
  else
    take_left <- usub count (slen (it_right it));;
    dassert (take_left <=? slen (it_left it));;
    '(l, _) <- slice_take (it_left it) BUnb (BExcl take_left);;
    ret (mkI empty_slice l).

Definition advance_back_by (it : iter) (count : Z) : M iter :=
  if count <? slen (it_left it) then
    take_left <- usub (slen (it_left it)) count;;
    '(l, _) <- slice_take (it_left it) (BIncl take_left) BUnb;;
    ret (mkI (it_right it) l)
  else
    d <- usub count (slen (it_left it));;
    take_right <- usub (slen (it_right it)) d;;
    dassert (take_right <=? slen (it_right it));;
    '(r, _) <- slice_take (it_right it) (BIncl take_right) BUnb;;
    ret (mkI r empty_slice).

Definition iter_over_range (sb eb : bound) : M iter :=
  '(st, en) <- translate_range_bounds sb eb;;
  if en <=? st then ret iter_empty else
  l <- len;;
  it <- iter_new;;
  it <- advance_front_by it st;;
  d <- usub l en;;
  advance_back_by it d.

Definition iter_next (it : iter) : iter * option Z :=
  match slice_take_first (it_right it) with
  | (r, Some p) => (mkI r (it_left it), Some p)
  | (_, None) =>
    match slice_take_first (it_left it) with
    | (l, Some p) => (mkI (it_right it) l, Some p)
    | (_, None) => (it, None)
    end
  end.

Definition iter_next_back (it : iter) : iter * option Z :=
  match slice_take_last (it_left it) with
  | (l, Some p) => (mkI (it_right it) l, Some p)
  | (_, None) =>
    match slice_take_last (it_right it) with
    | (r, Some p) => (mkI r (it_left it), Some p)
    | (_, None) => (it, None)
    end
  end.

Definition iter_len (it : iter) : M Z := uadd (slen (it_right it)) (slen (it_left it)).

Definition iter_clone (it : iter) : iter := mkI (it_right it) (it_left it).

(* impl Default for Iter (iter.rs:289): Self::empty() *)
Definition iter_default : iter := iter_empty.

(* ---- IterMut (iter.rs:359) ------------------------------------------- *)

Definition iter_mut_new : M iter :=
  '(r, l) <- as_mut_slices;; ret (mkI r l).

Definition iter_mut_over_range (sb eb : bound) : M iter :=
  '(st, en) <- translate_range_bounds sb eb;;
  if en <=? st then ret iter_empty else
  l <- len;;
  it <- iter_mut_new;;
  it <- advance_front_by it st;;
  d <- usub l en;;
  advance_back_by it d.

(* IterMut::empty (iter.rs:365) and impl Default for IterMut (iter.rs:423) *)
Definition iter_mut_empty : iter := mkI empty_slice empty_slice.
Definition iter_mut_default : iter := iter_mut_empty.

(* <IterMut as Iterator>::next (iter.rs:433) and
   <IterMut as DoubleEndedIterator>::next_back (iter.rs:460): the text of Iter's, with
   slice_take_first_mut / slice_take_last_mut, which work on the fields in place: a
   field whose slice was found empty has been replaced by `&mut []` *)
Definition iter_mut_next (it : iter) : iter * option Z :=
  match slice_take_first_mut (it_right it) with
  | (r, Some p) => (mkI r (it_left it), Some p)
  | (r, None) =>
    match slice_take_first_mut (it_left it) with
    | (l, Some p) => (mkI r l, Some p)
    | (l, None) => (mkI r l, None)
    end
  end.

Definition iter_mut_next_back (it : iter) : iter * option Z :=
  match slice_take_last_mut (it_left it) with
  | (l, Some p) => (mkI (it_right it) l, Some p)
  | (l, None) =>
    match slice_take_last_mut (it_right it) with
    | (r, Some p) => (mkI r l, Some p)
    | (r, None) => (mkI r l, None)
    end
  end.
Definition iter_mut_len := iter_len.

(* ---- IntoIter (iter.rs:11): the state is the wrapped buffer ---------- *)

Definition into_iter_next : M (option elem) := pop_front.
Definition into_iter_next_back : M (option elem) := pop_back.
Definition into_iter_len : M Z := len.
Definition into_iter_drop : M unit := drop_buf.
