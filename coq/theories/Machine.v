(* Machine.v — the machine layer of the model: 64-bit usize arithmetic with
   overflow / division / bounds checks, outcomes that may be panics, the
   element store (raw memory), the event log, the one-shot fault plan and the
   state-and-unwinding monad in which every function of the crate is modelled.

   Nothing here is specific to the circular buffer. No proofs in this file. *)

From Coq Require Export ZArith List Bool Lia.
Export ListNotations.
Open Scope Z_scope.

(* ------------------------------------------------------------------ *)
(* usize                                                               *)

Definition W : Z := 18446744073709551616.       (* 2^64 *)
Definition usize_max : Z := W - 1.

(* ------------------------------------------------------------------ *)
(* outcomes                                                            *)

Inductive pkind :=
| PAssert          (* assert! of the crate *)
| PDebugAssert     (* debug_assert! of the crate (debug builds only) *)
| POverflow        (* arithmetic overflow (debug builds only) *)
| PDivZero         (* remainder by zero (all builds) *)
| PBounds          (* slice / array index, range or split_at out of bounds *)
| PExpect          (* Option::expect on None *)
| PUnimplemented   (* unimplemented!() *)
| PUser            (* injected panic in user code (Drop, Clone, closure, ...) *)
| PFuel            (* a modelled loop ran out of fuel: non-termination *)
| PMemFault        (* raw pointer access outside the array: UB, made visible *)
| PAbort.          (* second panic while unwinding *)

Inductive outcome (A : Type) :=
| Ok (a : A)
| Panic (k : pkind).
Arguments Ok {A} a.
Arguments Panic {A} k.

(* ------------------------------------------------------------------ *)
(* elements, raw memory                                                *)

(* An element is an identity and a value. The identity makes "the same
   element" expressible; the value is what Clone, PartialEq, Ord, Hash and
   Debug see. A memory slot is just bits: whether it is live is decided by
   the buffer's start/size, never by a tag, so stale or garbage bits in an
   unoccupied slot are ordinary [elem]s with ids that belong to nobody. *)
Record elem := mkE { eid : Z; eval : Z }.

Definition store := Z -> elem.

Definition s_write (f : store) (p : Z) (e : elem) : store :=
  fun i => if i =? p then e else f i.

(* ptr::copy = memmove: all reads happen before all writes *)
Definition s_copy (f : store) (src dst len : Z) : store :=
  fun i => if (dst <=? i) && (i <? dst + len) then f (i - dst + src) else f i.

Definition s_swap (f : store) (p q : Z) : store :=
  fun i => if i =? p then f q else if i =? q then f p else f i.

(* <[T]>::rotate_left(k) on the n slots starting at 0 *)
Definition s_rotate_left (f : store) (n k : Z) : store :=
  fun i => if (0 <=? i) && (i <? n) then f ((i + k) mod n) else f i.

(* ------------------------------------------------------------------ *)
(* events and faults                                                   *)

Inductive fkind := FDrop | FClone | FCall | FNext | FEq | FCmp | FHash | FFmt.

Definition fkind_eqb (a b : fkind) : bool :=
  match a, b with
  | FDrop, FDrop | FClone, FClone | FCall, FCall | FNext, FNext
  | FEq, FEq | FCmp, FCmp | FHash, FHash | FFmt, FFmt => true
  | _, _ => false
  end.

Inductive event :=
| EvDrop (e : elem)              (* T::drop ran on these bits *)
| EvClone (src new : elem)       (* T::clone read src and produced new *)
| EvCall (new : elem)            (* a user closure produced new *)
| EvNext                         (* a user iterator was stepped *)
| EvEq (a b : elem)              (* PartialEq::eq on elements *)
| EvCmp (a b : elem)             (* PartialOrd / Ord on elements *)
| EvHashLen (n : Z)              (* usize::hash of the length *)
| EvHash (e : elem)              (* T::hash *)
| EvFmt (e : elem)               (* T::fmt (Debug) *)
| EvAlloc.                       (* a heap allocation *)

Record world := mkW {
  dbg : bool;                       (* debug build: debug_assert + overflow checks *)
  next_id : Z;                      (* next fresh identity *)
  log : list event;                 (* oldest first *)
  fault : option (fkind * Z)        (* Some (k, n): the call of kind k after n more
                                       successful ones panics; one-shot *)
}.

Definition w_log (w : world) (l : list event) : world :=
  mkW (dbg w) (next_id w) l (fault w).
Definition w_fault (w : world) (f : option (fkind * Z)) : world :=
  mkW (dbg w) (next_id w) (log w) f.
Definition w_next (w : world) (n : Z) : world :=
  mkW (dbg w) n (log w) (fault w).

(* ------------------------------------------------------------------ *)
(* the buffer state: CircularBuffer<N, T> { size, start, items }        *)

Record cbuf := mkB { cap : Z; size : Z; start : Z; items : store }.

Definition b_size (s : cbuf) (z : Z) : cbuf := mkB (cap s) z (start s) (items s).
Definition b_start (s : cbuf) (z : Z) : cbuf := mkB (cap s) (size s) z (items s).
Definition b_items (s : cbuf) (f : store) : cbuf := mkB (cap s) (size s) (start s) f.

(* ------------------------------------------------------------------ *)
(* the monad: state + world, both returned also on a panic, because a
   &mut self method that unwinds leaves its partial mutations behind     *)

Definition M (A : Type) := cbuf -> world -> outcome A * cbuf * world.

Definition ret {A} (a : A) : M A := fun s w => (Ok a, s, w).
Definition panic {A} (k : pkind) : M A := fun s w => (Panic k, s, w).
Definition bind {A B} (m : M A) (k : A -> M B) : M B :=
  fun s w =>
    match m s w with
    | (Ok a, s', w') => k a s' w'
    | (Panic p, s', w') => (Panic p, s', w')
    end.

Notation "x <- m ;; k" := (bind m (fun x => k))
  (at level 61, m at next level, right associativity).
Notation "' pat <- m ;; k" := (bind m (fun x => match x with pat => k end))
  (at level 61, pat pattern, m at next level, right associativity).
Notation "m ;; k" := (bind m (fun _ => k))
  (at level 61, right associativity).

(* A live local with a destructor (guard, Dropper, by-value argument that is
   dropped at scope end): [cleanup] runs on both paths; a panic of [body] is
   re-raised afterwards; a second panic while unwinding aborts. *)
Definition finally {A} (body : M A) (cleanup : M unit) : M A :=
  fun s w =>
    match body s w with
    | (r, s1, w1) =>
      match cleanup s1 w1 with
      | (Ok _, s2, w2) => (r, s2, w2)
      | (Panic p, s2, w2) =>
        match r with
        | Ok _ => (Panic p, s2, w2)
        | Panic _ => (Panic PAbort, s2, w2)
        end
      end
    end.

(* A local whose destructor only matters on the unwinding path (it is moved
   out or forgotten on the normal path). *)
Definition on_unwind {A} (body : M A) (cleanup : M unit) : M A :=
  fun s w =>
    match body s w with
    | (Ok a, s1, w1) => (Ok a, s1, w1)
    | (Panic p, s1, w1) =>
      match cleanup s1 w1 with
      | (Ok _, s2, w2) => (Panic p, s2, w2)
      | (Panic _, s2, w2) => (Panic PAbort, s2, w2)
      end
    end.

(* Run a computation on another buffer (a local, an argument) and come back. *)
Definition with_buf {A} (b : cbuf) (m : M A) : M (A * cbuf) :=
  fun s w =>
    match m b w with
    | (Ok a, b', w') => (Ok (a, b'), s, w')
    | (Panic p, _, w') => (Panic p, s, w')
    end.

Definition get : M cbuf := fun s w => (Ok s, s, w).
Definition put (s' : cbuf) : M unit := fun _ w => (Ok tt, s', w).
Definition get_cap : M Z := fun s w => (Ok (cap s), s, w).
Definition get_size : M Z := fun s w => (Ok (size s), s, w).
Definition get_start : M Z := fun s w => (Ok (start s), s, w).
Definition set_size (z : Z) : M unit := fun s w => (Ok tt, b_size s z, w).
Definition set_start (z : Z) : M unit := fun s w => (Ok tt, b_start s z, w).
Definition set_items (f : store) : M unit := fun s w => (Ok tt, b_items s f, w).
Definition get_items : M store := fun s w => (Ok (items s), s, w).

(* debug_assert!: active in debug builds only *)
Definition dassert (c : bool) : M unit :=
  fun s w => if dbg w && negb c then (Panic PDebugAssert, s, w) else (Ok tt, s, w).
(* assert! *)
Definition assert_ (c : bool) : M unit :=
  if c then ret tt else panic PAssert.

Definition emit (ev : event) : M unit :=
  fun s w => (Ok tt, s, w_log w (log w ++ [ev])).

Definition fresh_id : M Z :=
  fun s w => (Ok (next_id w), s, w_next w (next_id w + 1)).

(* A call into user code of kind [k]: panics if the fault plan says so. *)
Definition user_call (k : fkind) : M unit :=
  fun s w =>
    match fault w with
    | Some (k', n) =>
      if fkind_eqb k k' then
        if n =? 0 then (Panic PUser, s, w_fault w None)
        else (Ok tt, s, w_fault w (Some (k', n - 1)))
      else (Ok tt, s, w)
    | None => (Ok tt, s, w)
    end.

(* ------------------------------------------------------------------ *)
(* checked usize arithmetic, as rustc compiles it                       *)

Definition uadd (x y : Z) : M Z :=
  fun s w =>
    let z := x + y in
    if z <? W then (Ok z, s, w)
    else if dbg w then (Panic POverflow, s, w) else (Ok (z - W), s, w).

Definition usub (x y : Z) : M Z :=
  fun s w =>
    if y <=? x then (Ok (x - y), s, w)
    else if dbg w then (Panic POverflow, s, w) else (Ok (x - y + W), s, w).

Definition umul (x y : Z) : M Z :=
  fun s w =>
    let z := x * y in
    if z <? W then (Ok z, s, w)
    else if dbg w then (Panic POverflow, s, w) else (Ok (z mod W), s, w).

Definition urem (x m : Z) : M Z :=
  if m =? 0 then panic PDivZero else ret (x mod m).

Definition overflowing_add (x y : Z) : Z * bool :=
  let z := x + y in if z <? W then (z, false) else (z - W, true).

Definition checked_add (x y : Z) : option Z :=
  if x + y <? W then Some (x + y) else None.

Definition checked_sub (x y : Z) : option Z :=
  if y <=? x then Some (x - y) else None.

Definition b2z (b : bool) : Z := if b then 1 else 0.

(* ------------------------------------------------------------------ *)
(* slices: views into the items array (offset, length)                  *)

Record slice := mkS { soff : Z; slen : Z }.
Definition empty_slice : slice := mkS 0 0.

(* &items[..] *)
Definition items_slice : M slice := n <- get_cap;; ret (mkS 0 n).

(* &sl[a..b] *)
Definition sl_range (sl : slice) (a b : Z) : M slice :=
  if (a <=? b) && (b <=? slen sl) then ret (mkS (soff sl + a) (b - a)) else panic PBounds.

(* sl.split_at(k) *)
Definition sl_split_at (sl : slice) (k : Z) : M (slice * slice) :=
  if k <=? slen sl then ret (mkS (soff sl) k, mkS (soff sl + k) (slen sl - k))
  else panic PBounds.

(* &sl[i]: the physical index *)
Definition sl_index (sl : slice) (i : Z) : M Z :=
  if (0 <=? i) && (i <? slen sl) then ret (soff sl + i) else panic PBounds.

(* &items[p] *)
Definition idx (p : Z) : M Z := it <- items_slice;; sl_index it p.

Definition read_slot (p : Z) : M elem := fun s w => (Ok (items s p), s, w).
Definition write_slot (p : Z) (e : elem) : M unit :=
  fun s w => (Ok tt, b_items s (s_write (items s) p e), w).

(* a, a+1, ..., a+n-1 (linear time when run; [zseq_map_seq] in proofs/AbsLemmas.v is the closed form) *)
Fixpoint zseq (a : Z) (n : nat) : list Z :=
  match n with
  | O => []
  | S n' => a :: zseq (a + 1) n'
  end.

Definition sl_elems (f : store) (sl : slice) : list elem :=
  map f (zseq (soff sl) (Z.to_nat (slen sl))).

(* raw ptr::copy within the items array: out-of-array access is a memory fault *)
Definition raw_copy (src dst len : Z) : M unit :=
  n <- get_cap;;
  if (0 <=? src) && (src + len <=? n) && (0 <=? dst) && (dst + len <=? n) && (0 <=? len) then
    f <- get_items;; set_items (s_copy f src dst len)
  else panic PMemFault.

(* ------------------------------------------------------------------ *)
(* user code on elements                                               *)

(* T::drop on the bits [e] *)
Definition drop_elem (e : elem) : M unit := emit (EvDrop e);; user_call FDrop.

(* drop glue of a slice / array / Vec: in order; after a panicking element
   the remaining ones are still destroyed, then the panic continues *)
Fixpoint drop_list (es : list elem) : M unit :=
  match es with
  | [] => ret tt
  | e :: rest => finally (drop_elem e) (drop_list rest)
  end.

Definition drop_opt (o : option elem) : M unit :=
  match o with Some e => drop_elem e | None => ret tt end.

(* ptr::drop_in_place(slice) on a view of the items array *)
Definition drop_slice (sl : slice) : M unit :=
  f <- get_items;; drop_list (sl_elems f sl).

(* T::clone: may panic before anything is created *)
Definition clone_elem (e : elem) : M elem :=
  user_call FClone;;
  i <- fresh_id;;
  let c := mkE i (eval e) in
  emit (EvClone e c);;
  ret c.

(* the value every modelled user closure produces *)
Definition closure_val : Z := 9.

(* f() for the closure of fill_with / fill_spare_with *)
Definition call_closure : M elem :=
  user_call FCall;;
  i <- fresh_id;;
  let c := mkE i closure_val in
  emit (EvCall c);;
  ret c.
