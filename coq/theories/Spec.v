(* Spec.v — the abstraction function and the specification: the documented
   bounded deque over plain lists, short enough to read in minutes. The
   theorems in proofs/ and Properties/ say that the model of the Rust code
   (Buf.v .. System.v) refines it. No proofs in this file. *)

From CB Require Export System.

(* ---- abstraction: the logical contents, front first --------------------- *)

Definition phys (s : cbuf) (i : Z) : Z := (start s + i) mod cap s.

Definition abs (s : cbuf) : list elem :=
  map (fun i => items s (phys s i)) (zseq 0 (Z.to_nat (size s))).

(* well-formed bookkeeping *)
Definition WF (s : cbuf) : Prop :=
  0 <= cap s < W /\ 0 <= size s <= cap s /\
  (cap s = 0 -> start s = 0) /\ (0 < cap s -> 0 <= start s < cap s).

(* ---- list helpers --------------------------------------------------------- *)

Definition lastn {A} (n : nat) (l : list A) : list A := skipn (length l - n) l.

Definition sublist {A} (a b : nat) (l : list A) : list A := firstn (b - a) (skipn a l).

Definition remove_nth {A} (i : nat) (l : list A) : list A := firstn i l ++ skipn (S i) l.

Definition set_nth {A} (i : nat) (v : A) (l : list A) : list A :=
  if Nat.ltb i (length l) then firstn i l ++ v :: skipn (S i) l else l.

Definition last_error {A} (l : list A) : option A :=
  match rev l with x :: _ => Some x | [] => None end.

Definition swap_nth {A} (i j : nat) (l : list A) : list A :=
  match nth_error l i, nth_error l j with
  | Some x, Some y => set_nth j x (set_nth i y l)
  | _, _ => l
  end.

(* write ws, in order, over the first positions of l *)
Definition overwrite {A} (l ws : list A) : list A :=
  let k := Nat.min (length l) (length ws) in firstn k ws ++ skipn k l.

Definition nat_of (z : Z) : nat := Z.to_nat z.

Definition in_usize (z : Z) : Prop := 0 <= z < W.

(* fresh clones of xs, identities nid, nid+1, ... *)
Fixpoint clones (nid : Z) (xs : list elem) : list elem :=
  match xs with
  | [] => []
  | x :: r => mkE nid (eval x) :: clones (nid + 1) r
  end.

Fixpoint clone_evs (nid : Z) (xs : list elem) : list event :=
  match xs with
  | [] => []
  | x :: r => EvClone x (mkE nid (eval x)) :: clone_evs (nid + 1) r
  end.

(* n results of the user closure *)
Fixpoint calls (nid : Z) (n : nat) : list elem :=
  match n with
  | O => []
  | S n' => mkE nid closure_val :: calls (nid + 1) n'
  end.

Definition drops (l : list elem) : list event := map EvDrop l.

Definition opt_drop (o : option elem) : list event :=
  match o with Some e => [EvDrop e] | None => [] end.

(* ---- the deque ------------------------------------------------------------ *)

(* appending at the back of a full buffer discards from the front *)
Definition spec_push_back (N : Z) (l : list elem) (x : elem) : option elem * list elem :=
  let l' := l ++ [x] in
  if zlen l' <=? N then (None, l') else (hd_error l', tl l').

Definition spec_push_front (N : Z) (l : list elem) (x : elem) : option elem * list elem :=
  let l' := x :: l in
  if zlen l' <=? N then (None, l') else (last_error l', removelast l').

(* extend with a user iterator: one EvNext per step, evicted elements destroyed *)
Fixpoint spec_extend (N : Z) (l xs : list elem) : list elem * list event :=
  match xs with
  | [] => (l, [EvNext])
  | x :: r =>
    let '(ev, l1) := spec_push_back N l x in
    let '(l2, evs) := spec_extend N l1 r in
    (l2, EvNext :: opt_drop ev ++ evs)
  end.

Fixpoint spec_extend_ref (N : Z) (l xs : list elem) : list elem :=
  match xs with
  | [] => l
  | x :: r => spec_extend_ref N (snd (spec_push_back N l x)) r
  end.

(* extend_from_slice: only the retained source elements are cloned *)
Definition spec_extend_from_slice (N : Z) (l xs : list elem) (nid : Z)
  : list elem * list event * Z :=
  if N =? 0 then (l, [], nid) else
  let src := lastn (nat_of (Z.min N (zlen xs))) xs in
  let d := nat_of (zlen l + zlen src - N) in
  (skipn d l ++ clones nid src,
   drops (firstn d l) ++ clone_evs nid src,
   nid + zlen src).

(* ---- ranges ----------------------------------------------------------------- *)

(* Some (a, b) with a <= b <= n, or None when the call must panic *)
Definition spec_bounds (n : Z) (sb eb : bound) : option (Z * Z) :=
  let st := match sb with BIncl x => Some x | BExcl x => checked_add x 1 | BUnb => Some 0 end in
  let en := match eb with BIncl x => checked_add x 1 | BExcl x => Some x | BUnb => Some n end in
  match st, en with
  | Some a, Some b => if (b <=? n) && (a <=? b) then Some (a, b) else None
  | _, _ => None
  end.

Definition epe (e : elem) : pe := (-1, e).

(* a script on the window [lo, hi) of l, consumed from both ends; writes
   through a mutable iterator change l in place *)
Fixpoint spec_script (l : list elem) (lo hi : nat) (script : list sstep)
  : list sres * list elem * (nat * nat) :=
  match script with
  | [] => ([], l, (lo, hi))
  | st :: rest =>
    match st with
    | SNext =>
      if Nat.ltb lo hi then
        let '(rs, l', w) := spec_script l (S lo) hi rest in
        (RItem (option_map epe (nth_error l lo)) :: rs, l', w)
      else
        let '(rs, l', w) := spec_script l lo hi rest in (RItem None :: rs, l', w)
    | SNextBack =>
      if Nat.ltb lo hi then
        let '(rs, l', w) := spec_script l lo (hi - 1) rest in
        (RItem (option_map epe (nth_error l (hi - 1))) :: rs, l', w)
      else
        let '(rs, l', w) := spec_script l lo hi rest in (RItem None :: rs, l', w)
    | SLen =>
      let '(rs, l', w) := spec_script l lo hi rest in
      (RLen (Z.of_nat (hi - lo)) :: rs, l', w)
    | SClone =>
      let '(rs, l', w) := spec_script l lo hi rest in
      (RList (map epe (sublist lo hi l)) :: rs, l', w)
    | SNextSet v =>
      if Nat.ltb lo hi then
        let '(rs, l', w) := spec_script (set_nth lo v l) (S lo) hi rest in
        (RItem (option_map epe (nth_error l lo)) :: rs, l', w)
      else
        let '(rs, l', w) := spec_script l lo hi rest in (RItem None :: rs, l', w)
    | SNextBackSet v =>
      if Nat.ltb lo hi then
        let '(rs, l', w) := spec_script (set_nth (hi - 1) v l) lo (hi - 1) rest in
        (RItem (option_map epe (nth_error l (hi - 1))) :: rs, l', w)
      else
        let '(rs, l', w) := spec_script l lo hi rest in (RItem None :: rs, l', w)
    end
  end.

(* scripts on a Drain / IntoIter treat every step as its read-only form *)
Definition plain_step (st : sstep) : sstep :=
  match st with
  | SNextSet _ => SNext
  | SNextBackSet _ => SNextBack
  | SClone => SLen
  | s => s
  end.

(* ---- comparisons --------------------------------------------------------------- *)

(* element-wise equality of equally long sequences, left to right, stopping
   at the first difference; with the comparisons performed *)
Fixpoint spec_list_eq (eqf : elem -> elem -> bool) (xs ys : list elem) : bool * list event :=
  match xs, ys with
  | x :: xs', y :: ys' =>
    if eqf x y then
      let '(b, evs) := spec_list_eq eqf xs' ys' in (b, EvEq x y :: evs)
    else (false, [EvEq x y])
  | _, _ => (true, [])
  end.

Definition spec_eq (eqf : elem -> elem -> bool) (xs ys : list elem) : bool * list event :=
  if zlen xs =? zlen ys then spec_list_eq eqf xs ys else (false, []).

(* lexicographic comparison *)
Fixpoint spec_cmp (cmpf : elem -> elem -> option comparison) (xs ys : list elem)
  : option comparison * list event :=
  match xs, ys with
  | [], [] => (Some Eq, [])
  | [], _ :: _ => (Some Lt, [])
  | _ :: _, [] => (Some Gt, [])
  | x :: xs', y :: ys' =>
    match cmpf x y with
    | Some Eq => let '(r, evs) := spec_cmp cmpf xs' ys' in (r, EvCmp x y :: evs)
    | r => (r, [EvCmp x y])
    end
  end.

(* ---- the specification of every operation ---------------------------------------- *)

Record sret := mkSR {
  sr_out : out;            (* result, references erased to (-1, element) *)
  sr_list : list elem;     (* contents afterwards *)
  sr_evs : list event;     (* user-visible events, in order *)
  sr_nid : Z               (* next fresh identity afterwards *)
}.

Inductive sresult := SRet (r : sret) | SPanic.

Definition sref (o : option elem) : out := OutRef (option_map epe o).

Definition spec_step (N : Z) (l : list elem) (o : op) (nid : Z) : sresult :=
  let n := zlen l in
  (* positions beyond the end are all alike; clip them so that an index like
     usize::MAX never becomes a unary number *)
  let ix (z : Z) := nat_of (Z.min z n) in
  let same (r : out) := SRet (mkSR r l [] nid) in
  let upd (r : out) (l' : list elem) := SRet (mkSR r l' [] nid) in
  match o with
  | OLen => same (OutZ n)
  | OIsEmpty => same (OutBool (n =? 0))
  | OIsFull => same (OutBool (n =? N))
  | OCapacity => same (OutZ N)
  | OPushBack x => let '(ev, l') := spec_push_back N l x in upd (OutOpt ev) l'
  | OPushFront x => let '(ev, l') := spec_push_front N l x in upd (OutOpt ev) l'
  | OTryPushBack x => if n <? N then upd (OutOpt None) (l ++ [x]) else same (OutOpt (Some x))
  | OTryPushFront x => if n <? N then upd (OutOpt None) (x :: l) else same (OutOpt (Some x))
  | OPopBack => upd (OutOpt (last_error l)) (removelast l)
  | OPopFront => upd (OutOpt (hd_error l)) (tl l)
  | ORemove i =>
    if i <? n then upd (OutOpt (nth_error l (nat_of i))) (remove_nth (nat_of i) l)
    else same (OutOpt None)
  | OSwap i j =>
    if (i <? n) && (j <? n) then upd OutUnit (swap_nth (nat_of i) (nat_of j) l) else SPanic
  | OSwapRemoveBack i =>
    if i <? n then
      upd (OutOpt (nth_error l (nat_of i)))
          (removelast (swap_nth (nat_of i) (length l - 1) l))
    else same (OutOpt None)
  | OSwapRemoveFront i =>
    if i <? n then
      upd (OutOpt (nth_error l (nat_of i))) (tl (swap_nth (nat_of i) 0 l))
    else same (OutOpt None)
  | OTruncateBack k =>
    SRet (mkSR OutUnit (firstn (ix k) l) (drops (skipn (ix k) l)) nid)
  | OTruncateFront k =>
    SRet (mkSR OutUnit (lastn (ix k) l) (drops (firstn (length l - ix k) l)) nid)
  | OClear => SRet (mkSR OutUnit [] (drops l) nid)
  | OExtend xs => let '(l', evs) := spec_extend N l xs in SRet (mkSR OutUnit l' evs nid)
  | OExtendRef xs => upd OutUnit (spec_extend_ref N l xs)
  | OExtendFromSlice xs =>
    let '(l', evs, nid') := spec_extend_from_slice N l xs nid in
    SRet (mkSR OutUnit l' evs nid')
  | OFill v =>
    if N =? 0 then SRet (mkSR OutUnit [] [EvDrop v] nid) else
    let cs := repeat v (nat_of (N - 1)) in
    SRet (mkSR OutUnit (clones nid cs ++ [v]) (drops l ++ clone_evs nid cs) (nid + (N - 1)))
  | OFillWith =>
    if N =? 0 then same OutUnit else
    let cs := calls nid (nat_of N) in
    SRet (mkSR OutUnit cs (drops l ++ map EvCall cs) (nid + N))
  | OFillSpare v =>
    if (N =? 0) || (n =? N) then SRet (mkSR OutUnit l [EvDrop v] nid) else
    let cs := repeat v (nat_of (N - n - 1)) in
    SRet (mkSR OutUnit (l ++ clones nid cs ++ [v]) (clone_evs nid cs) (nid + (N - n - 1)))
  | OFillSpareWith =>
    if N =? 0 then same OutUnit else
    let cs := calls nid (nat_of (N - n)) in
    SRet (mkSR OutUnit (l ++ cs) (map EvCall cs) (nid + (N - n)))
  | ODrain sb eb script forget =>
    match spec_bounds n sb eb with
    | None => SPanic
    | Some (a, b) =>
      let '(rs, _, (lo, hi)) := spec_script l (nat_of a) (nat_of b) (map plain_step script) in
      if forget then
        (* every valid sub-multiset of the un-yielded elements would be
           acceptable; the code forgets everything *)
        SRet (mkSR (OutScript rs) [] [] nid)
      else
        SRet (mkSR (OutScript rs) (firstn (nat_of a) l ++ skipn (nat_of b) l)
                   (drops (sublist lo hi l)) nid)
    end
  | OMakeContiguous ws =>
    upd (OutSlices (map epe l) []) (overwrite l ws)
  | OGet i | ONthFront i => same (sref (nth_error l (ix i)))
  | ONthBack i => same (sref (nth_error (rev l) (ix i)))
  | OFront => same (sref (hd_error l))
  | OBack => same (sref (last_error l))
  | OIndex i => if i <? n then same (sref (nth_error l (nat_of i))) else SPanic
  | OGetMutSet i v | ONthFrontMutSet i v =>
    upd (sref (nth_error l (ix i))) (set_nth (ix i) v l)
  | ONthBackMutSet i v =>
    if i <? n then
      upd (sref (nth_error (rev l) (nat_of i))) (set_nth (length l - 1 - nat_of i) v l)
    else same (sref None)
  | OFrontMutSet v => upd (sref (hd_error l)) (set_nth 0 v l)
  | OBackMutSet v => upd (sref (last_error l)) (set_nth (length l - 1) v l)
  | OIndexMutSet i v =>
    if i <? n then upd (sref (nth_error l (nat_of i))) (set_nth (nat_of i) v l) else SPanic
  | OAsSlices => same (OutSlices (map epe l) [])
  | OAsMutSlicesSet ws => upd (OutSlices (map epe l) []) (overwrite l ws)
  | OIter script | OIterMut script | ORefIntoIter script =>
    let '(rs, l', _) := spec_script l 0 (length l) script in upd (OutScript rs) l'
  | OIterDefault script | OIterMutDefault script =>
    (* an iterator over nothing: the window is empty, writes never hit *)
    let '(rs, l', _) := spec_script l 0 0 script in upd (OutScript rs) l'
  | ORange sb eb script | ORangeMut sb eb script =>
    match spec_bounds n sb eb with
    | None => SPanic
    | Some (a, b) =>
      let '(rs, l', _) := spec_script l (nat_of a) (nat_of b) script in upd (OutScript rs) l'
    end
  | OIntoIter script =>
    let '(rs, _, (lo, hi)) := spec_script l 0 (length l) (map plain_step script) in
    SRet (mkSR (OutScript rs) [] (drops (sublist lo hi l)) nid)
  | OToVec =>
    SRet (mkSR (OutList (clones nid l)) l
               ((if 0 <? n then [EvAlloc] else []) ++ clone_evs nid l) (nid + n))
  | ODebug => SRet (mkSR OutUnit l (map EvFmt l) nid)
  (* {:?} of an iterator formats what it would still yield, front to back *)
  | OIterDebug sb eb pre | OIterMutDebug sb eb pre =>
    match spec_bounds n sb eb with
    | None => SPanic
    | Some (a, b) =>
      let '(rs, l', (lo, hi)) := spec_script l (nat_of a) (nat_of b) pre in
      SRet (mkSR (OutScript rs) l' (map EvFmt (sublist lo hi l')) nid)
    end
  | ODrainDebug sb eb pre =>
    match spec_bounds n sb eb with
    | None => SPanic
    | Some (a, b) =>
      let '(rs, _, (lo, hi)) := spec_script l (nat_of a) (nat_of b) (map plain_step pre) in
      SRet (mkSR (OutScript rs) (firstn (nat_of a) l ++ skipn (nat_of b) l)
                 (map EvFmt (sublist lo hi l) ++ drops (sublist lo hi l)) nid)
    end
  | OIntoIterDebug pre =>
    let '(rs, _, (lo, hi)) := spec_script l 0 (length l) (map plain_step pre) in
    SRet (mkSR (OutScript rs) []
               (map EvFmt (sublist lo hi l) ++ drops (sublist lo hi l)) nid)
  | ONew | ODefault => SRet (mkSR OutUnit [] (drops l) nid)
  | OBoxed => SRet (mkSR OutUnit [] (EvAlloc :: drops l) nid)
  | OFromArray xs =>
    let kept := lastn (nat_of (Z.min N (zlen xs))) xs in
    SRet (mkSR OutUnit kept (drops (firstn (length xs - length kept) xs) ++ drops l) nid)
  | OFromIter xs =>
    let '(l', evs) := spec_extend N [] xs in
    SRet (mkSR OutUnit l' (evs ++ drops l) nid)
  | OCloneDropClone =>
    let cs := clones nid l in
    SRet (mkSR (OutList cs) l (clone_evs nid l ++ drops cs) (nid + n))
  | OCloneKeepClone =>
    let cs := clones nid l in
    SRet (mkSR OutUnit cs (clone_evs nid l ++ drops l) (nid + n))
  | OCloneFrom other =>
    let src := abs other in
    SRet (mkSR OutUnit (clones nid src) (drops l ++ clone_evs nid src) (nid + zlen src))
  | OEq other =>
    let '(b, evs) := spec_eq val_eqb l (abs other) in SRet (mkSR (OutBool b) l evs nid)
  | OEqSlice _ xs =>
    let '(b, evs) := spec_eq val_eqb l xs in SRet (mkSR (OutBool b) l evs nid)
  | OPartialCmp other =>
    let '(r, evs) := spec_cmp val_cmp l (abs other) in SRet (mkSR (OutOrd r) l evs nid)
  | OCmp other =>
    let '(r, evs) := spec_cmp val_ord l (abs other) in SRet (mkSR (OutOrd r) l evs nid)
  | OHash => SRet (mkSR OutUnit l (EvHashLen n :: map EvHash l) nid)
  | OWrite _ src =>
    let '(l', evs, nid') := spec_extend_from_slice N l src nid in
    SRet (mkSR (OutZ (zlen src)) l' evs nid')
  | OFlush _ => same OutUnit
  | ORead _ dst =>
    let k := Nat.min (length dst) (length l) in
    SRet (mkSR (OutRead (Z.of_nat k) (firstn k l ++ skipn k dst)) (skipn k l)
               (drops (firstn k l)) nid)
  | OFillBuf _ =>
    (* any non-empty prefix is acceptable (see [out_ok]); the whole contents
       stand for it here *)
    same (OutList l)
  | OConsume _ k =>
    let m := nat_of (Z.min k n) in
    SRet (mkSR OutUnit (skipn m l) (drops (firstn m l)) nid)
  end.

(* ---- relating a result of the model to a result of the specification ------------- *)

Definition erase_pe (x : pe) : pe := (-1, snd x).

Definition erase_sres (r : sres) : sres :=
  match r with
  | RItem o => RItem (option_map erase_pe o)
  | RLen n => RLen n
  | RList l => RList (map erase_pe l)
  end.

(* forget physical positions; where as_slices splits is left to the layout *)
Definition erase_out (r : out) : out :=
  match r with
  | OutRef o => OutRef (option_map erase_pe o)
  | OutSlices a b => OutSlices (map erase_pe (a ++ b)) []
  | OutScript l => OutScript (map erase_sres l)
  | r => r
  end.

Definition is_prefix (p l : list elem) : Prop := exists t, l = p ++ t.

Definition out_ok (o : op) (spec model : out) : Prop :=
  match o, spec, model with
  | OFillBuf _, OutList l, OutList p => is_prefix p l /\ (l <> [] -> p <> [])
  | OFillBuf _, _, _ => False
  | _, _, _ => erase_out model = spec
  end.

(* the only panics a caller may ever see without injected faults *)
Definition documented_kind (k : pkind) : Prop := k = PAssert \/ k = PExpect.
