(* System.v — the public API as one operation type, and [exec], which runs an
   operation the way the test harness drives the real crate (create a view or
   iterator, run a script on it, drop or forget it). Borrow-checker facts are
   built in: nothing else runs on the buffer while a view of it is alive.
   No proofs in this file. *)

From CB Require Export Io.

(* a reference or a moved-out element, as the caller sees it: the physical
   index of the slot (-1 for an element returned by value) and the element *)
Definition pe := (Z * elem)%type.

Inductive sstep :=
| SNext | SNextBack | SLen
| SClone                         (* Iter only: clone now, exhaust the clone at the end *)
| SNextSet (v : elem)            (* IterMut only: next(), then mem::replace through it *)
| SNextBackSet (v : elem).

Inductive sres :=
| RItem (o : option pe)
| RLen (n : Z)
| RList (l : list pe).

Inductive iofam := Std | Eio | Aio.
Inductive eqform := EqSlice | EqArray | EqSliceRef | EqSliceMut | EqArrayRef | EqArrayMut.

Inductive op :=
(* observers of the bookkeeping *)
| OLen | OIsEmpty | OIsFull | OCapacity
(* single-element mutators *)
| OPushBack (e : elem) | OPushFront (e : elem)
| OTryPushBack (e : elem) | OTryPushFront (e : elem)
| OPopBack | OPopFront
| ORemove (i : Z) | OSwap (i j : Z) | OSwapRemoveBack (i : Z) | OSwapRemoveFront (i : Z)
(* bulk mutators *)
| OTruncateBack (n : Z) | OTruncateFront (n : Z) | OClear
| OExtend (xs : list elem) | OExtendRef (xs : list elem) | OExtendFromSlice (xs : list elem)
| OFill (v : elem) | OFillWith | OFillSpare (v : elem) | OFillSpareWith
| ODrain (sb eb : bound) (script : list sstep) (forget : bool)
| OMakeContiguous (ws : list elem)
(* element access *)
| OGet (i : Z) | ONthFront (i : Z) | ONthBack (i : Z) | OFront | OBack | OIndex (i : Z)
| OGetMutSet (i : Z) (v : elem) | ONthFrontMutSet (i : Z) (v : elem)
| ONthBackMutSet (i : Z) (v : elem) | OFrontMutSet (v : elem) | OBackMutSet (v : elem)
| OIndexMutSet (i : Z) (v : elem)
(* views and iterators *)
| OAsSlices | OAsMutSlicesSet (ws : list elem)
| OIter (script : list sstep) | ORange (sb eb : bound) (script : list sstep)
| OIterMut (script : list sstep) | ORangeMut (sb eb : bound) (script : list sstep)
| OIntoIter (script : list sstep)
| OToVec | ODebug
(* constructors and conversions: the harness replaces its buffer by the result
   and then destroys the old one *)
| ONew | OFromArray (xs : list elem) | OFromIter (xs : list elem)
| OCloneDropClone | OCloneKeepClone | OCloneFrom (other : cbuf)
(* comparisons *)
| OEq (other : cbuf) | OEqSlice (form : eqform) (xs : list elem)
| OPartialCmp (other : cbuf) | OCmp (other : cbuf) | OHash
(* byte I/O *)
| OWrite (fam : iofam) (src : list elem) | OFlush (fam : iofam)
| ORead (fam : iofam) (dst : list elem) | OFillBuf (fam : iofam)
| OConsume (fam : iofam) (amt : Z)
(* further constructors, iterator constructors and the Debug impls of the
   iterators *)
| OBoxed                                  (* CircularBuffer::boxed(), moved into place *)
| ODefault                                (* <CircularBuffer as Default>::default() *)
| OIterDefault (script : list sstep)      (* Iter::default(), then a script on it *)
| OIterMutDefault (script : list sstep)   (* IterMut::default(), then a script on it *)
| ORefIntoIter (script : list sstep)      (* (&buf).into_iter(), then a script *)
| OIterDebug (sb eb : bound) (pre : list sstep)     (* range, script, then {:?} of the Iter *)
| OIterMutDebug (sb eb : bound) (pre : list sstep)  (* range_mut, script, {:?} of the IterMut *)
| ODrainDebug (sb eb : bound) (pre : list sstep)    (* drain, script, {:?} of the Drain, drop *)
| OIntoIterDebug (pre : list sstep).                (* into_iter, script, {:?}, drop *)

Inductive out :=
| OutUnit
| OutBool (b : bool)
| OutZ (z : Z)
| OutOpt (o : option elem)           (* Option<T>; for try_push: None = Ok(()), Some e = Err(e) *)
| OutRef (o : option pe)             (* Option<&T> / the old value behind an Option<&mut T> *)
| OutList (l : list elem)
| OutSlices (a b : list pe)
| OutScript (l : list sres)
| OutOrd (o : option comparison)
| OutRead (n : Z) (dst : list elem).

(* the contents of fresh, never written memory; nobody may look at it *)
Definition junk0 : store := fun p => mkE (- p - 1) (- 1).

(* The element type of the harness has one NaN-like value: an element whose
   value is [nan_val] is not equal to anything (itself included) and is
   unordered against everything under PartialOrd::partial_cmp; Ord::cmp stays
   the total order on values. *)
Definition nan_val : Z := 13.

(* PartialEq::eq of the element type *)
Definition val_eqb (a b : elem) : bool := (eval a =? eval b) && negb (eval a =? nan_val).
(* PartialOrd::partial_cmp of the element type *)
Definition val_cmp (a b : elem) : option comparison :=
  if (eval a =? nan_val) || (eval b =? nan_val) then None else Some (eval a ?= eval b).
(* Ord::cmp of the element type *)
Definition val_ord (a b : elem) : option comparison := Some (eval a ?= eval b).

(* ---- helpers ----------------------------------------------------------- *)

Definition deref (o : option Z) : M out :=
  match o with
  | Some p => e <- read_slot p;; ret (OutRef (Some (p, e)))
  | None => ret (OutRef None)
  end.

(* mem::replace(r, v) through an Option<&mut T> *)
Definition deref_set (o : option Z) (v : elem) : M out :=
  match o with
  | Some p => e <- read_slot p;; write_slot p v;; ret (OutRef (Some (p, e)))
  | None => ret (OutRef None)
  end.

Definition sl_pes (f : store) (sl : slice) : list pe :=
  map (fun p => (p, f p)) (zseq (soff sl) (Z.to_nat (slen sl))).

(* write ws, in order, through the first |ws| of the given slots *)
Fixpoint write_through (ps : list Z) (ws : list elem) : M unit :=
  match ps, ws with
  | p :: ps', v :: ws' => write_slot p v;; write_through ps' ws'
  | _, _ => ret tt
  end.

Fixpoint iter_exhaust (fuel : nat) (f : store) (it : iter) : list pe :=
  match fuel with
  | O => []
  | S fuel' =>
    match iter_next it with
    | (it', Some p) => (p, f p) :: iter_exhaust fuel' f it'
    | (_, None) => []
    end
  end.

(* scripts on Iter / IterMut *)
Fixpoint run_iter_script (it : iter) (script : list sstep) : M (list sres) :=
  match script with
  | [] => ret []
  | st :: rest =>
    match st with
    | SNext =>
      let '(it', o) := iter_next it in
      r <- match o with
           | Some p => e <- read_slot p;; ret (RItem (Some (p, e)))
           | None => ret (RItem None)
           end;;
      rs <- run_iter_script it' rest;; ret (r :: rs)
    | SNextBack =>
      let '(it', o) := iter_next_back it in
      r <- match o with
           | Some p => e <- read_slot p;; ret (RItem (Some (p, e)))
           | None => ret (RItem None)
           end;;
      rs <- run_iter_script it' rest;; ret (r :: rs)
    | SLen =>
      n <- iter_len it;;
      rs <- run_iter_script it rest;; ret (RLen n :: rs)
    | SClone =>
      let c := iter_clone it in
      rs <- run_iter_script it rest;;
      f <- get_items;;
      n <- iter_len c;;
      ret (RList (iter_exhaust (S (Z.to_nat n)) f c) :: rs)
    | SNextSet v =>
      let '(it', o) := iter_mut_next it in
      r <- match o with
           | Some p => e <- read_slot p;; write_slot p v;; ret (RItem (Some (p, e)))
           | None => ret (RItem None)
           end;;
      rs <- run_iter_script it' rest;; ret (r :: rs)
    | SNextBackSet v =>
      let '(it', o) := iter_mut_next_back it in
      r <- match o with
           | Some p => e <- read_slot p;; write_slot p v;; ret (RItem (Some (p, e)))
           | None => ret (RItem None)
           end;;
      rs <- run_iter_script it' rest;; ret (r :: rs)
    end
  end.

(* the iterator the harness holds after the script (the moves of a pair of
   views do not depend on the buffer) *)
Fixpoint iter_after (it : iter) (script : list sstep) : iter :=
  match script with
  | [] => it
  | st :: rest =>
    match st with
    | SNext => iter_after (fst (iter_next it)) rest
    | SNextBack => iter_after (fst (iter_next_back it)) rest
    | SLen | SClone => iter_after it rest
    | SNextSet _ => iter_after (fst (iter_mut_next it)) rest
    | SNextBackSet _ => iter_after (fst (iter_mut_next_back it)) rest
    end
  end.

Definition opt_pe (o : option elem) : option pe :=
  match o with Some e => Some (-1, e) | None => None end.

(* scripts on Drain *)
Fixpoint run_drain_script (d : drain) (script : list sstep) : M (drain * list sres) :=
  match script with
  | [] => ret (d, [])
  | st :: rest =>
    match st with
    | SNextBack | SNextBackSet _ =>
      '(d', o) <- drain_next_back d;;
      '(d'', rs) <- run_drain_script d' rest;; ret (d'', RItem (opt_pe o) :: rs)
    | SLen | SClone =>
      '(d'', rs) <- run_drain_script d rest;; ret (d'', RLen (drain_len d) :: rs)
    | _ =>
      '(d', o) <- drain_next d;;
      '(d'', rs) <- run_drain_script d' rest;; ret (d'', RItem (opt_pe o) :: rs)
    end
  end.

(* scripts on IntoIter *)
Fixpoint run_into_iter_script (script : list sstep) : M (list sres) :=
  match script with
  | [] => ret []
  | st :: rest =>
    match st with
    | SNextBack | SNextBackSet _ =>
      o <- into_iter_next_back;;
      rs <- run_into_iter_script rest;; ret (RItem (opt_pe o) :: rs)
    | SLen | SClone =>
      n <- into_iter_len;;
      rs <- run_into_iter_script rest;; ret (RLen n :: rs)
    | _ =>
      o <- into_iter_next;;
      rs <- run_into_iter_script rest;; ret (RItem (opt_pe o) :: rs)
    end
  end.

(* let old = mem::replace(&mut buf, nb); drop(old) *)
Definition replace_buf (nb : cbuf) : M unit :=
  old <- get;;
  put nb;;
  '(_, _) <- with_buf old drop_buf;;
  ret tt.

Definition fam_write (fam : iofam) := match fam with Std => io_write | Eio => eio_write | Aio => aio_write end.
Definition fam_flush (fam : iofam) := match fam with Std => io_flush | Eio => eio_flush | Aio => aio_flush end.
Definition fam_read (fam : iofam) := match fam with Std => io_read | Eio => eio_read | Aio => aio_read end.
Definition fam_fill_buf (fam : iofam) := match fam with Std => io_fill_buf | Eio => eio_fill_buf | Aio => aio_fill_buf end.
Definition fam_consume (fam : iofam) := match fam with Std => io_consume | Eio => eio_consume | Aio => aio_consume end.

Definition eq_form (form : eqform) :=
  match form with
  | EqSlice => buf_eq_slice | EqArray => buf_eq_array
  | EqSliceRef => buf_eq_slice_ref | EqSliceMut => buf_eq_slice_mut
  | EqArrayRef => buf_eq_array_ref | EqArrayMut => buf_eq_array_mut
  end.

(* ---- exec --------------------------------------------------------------- *)

Definition exec (o : op) : M out :=
  match o with
  | OLen => n <- len;; ret (OutZ n)
  | OIsEmpty => b <- is_empty;; ret (OutBool b)
  | OIsFull => b <- is_full;; ret (OutBool b)
  | OCapacity => n <- capacity;; ret (OutZ n)
  | OPushBack e => r <- push_back e;; ret (OutOpt r)
  | OPushFront e => r <- push_front e;; ret (OutOpt r)
  | OTryPushBack e => r <- try_push_back e;; ret (OutOpt r)
  | OTryPushFront e => r <- try_push_front e;; ret (OutOpt r)
  | OPopBack => r <- pop_back;; ret (OutOpt r)
  | OPopFront => r <- pop_front;; ret (OutOpt r)
  | ORemove i => r <- remove i;; ret (OutOpt r)
  | OSwap i j => swap i j;; ret OutUnit
  | OSwapRemoveBack i => r <- swap_remove_back i;; ret (OutOpt r)
  | OSwapRemoveFront i => r <- swap_remove_front i;; ret (OutOpt r)
  | OTruncateBack n => truncate_back n;; ret OutUnit
  | OTruncateFront n => truncate_front n;; ret OutUnit
  | OClear => clear;; ret OutUnit
  | OExtend xs => extend xs;; ret OutUnit
  | OExtendRef xs => extend_ref xs;; ret OutUnit
  | OExtendFromSlice xs => extend_from_slice xs;; ret OutUnit
  | OFill v => fill v;; ret OutUnit
  | OFillWith => fill_with;; ret OutUnit
  | OFillSpare v => fill_spare v;; ret OutUnit
  | OFillSpareWith => fill_spare_with;; ret OutUnit
  | ODrain sb eb script forget =>
    d <- drain_over_range sb eb;;
    '(d', rs) <- run_drain_script d script;;
    (if forget then ret tt else drain_drop d');;
    ret (OutScript rs)
  | OMakeContiguous ws =>
    sl <- make_contiguous;;
    f <- get_items;;
    let r := sl_pes f sl in
    write_through (map fst r) ws;;
    ret (OutSlices r [])
  | OGet i => o <- get_ i;; deref o
  | ONthFront i => o <- nth_front i;; deref o
  | ONthBack i => o <- nth_back i;; deref o
  | OFront => o <- front;; deref o
  | OBack => o <- back;; deref o
  | OIndex i => p <- index i;; deref (Some p)
  | OGetMutSet i v => o <- get_mut i;; deref_set o v
  | ONthFrontMutSet i v => o <- nth_front_mut i;; deref_set o v
  | ONthBackMutSet i v => o <- nth_back_mut i;; deref_set o v
  | OFrontMutSet v => o <- front_mut;; deref_set o v
  | OBackMutSet v => o <- back_mut;; deref_set o v
  | OIndexMutSet i v => p <- index_mut i;; deref_set (Some p) v
  | OAsSlices =>
    '(a, b) <- as_slices;;
    f <- get_items;;
    ret (OutSlices (sl_pes f a) (sl_pes f b))
  | OAsMutSlicesSet ws =>
    '(a, b) <- as_mut_slices;;
    f <- get_items;;
    let ra := sl_pes f a in
    let rb := sl_pes f b in
    write_through (map fst (ra ++ rb)) ws;;
    ret (OutSlices ra rb)
  | OIter script => it <- iter_new;; rs <- run_iter_script it script;; ret (OutScript rs)
  | ORange sb eb script =>
    it <- iter_over_range sb eb;; rs <- run_iter_script it script;; ret (OutScript rs)
  | OIterMut script => it <- iter_mut_new;; rs <- run_iter_script it script;; ret (OutScript rs)
  | ORangeMut sb eb script =>
    it <- iter_mut_over_range sb eb;; rs <- run_iter_script it script;; ret (OutScript rs)
  | OIntoIter script =>
    s <- get;;
    put (new_buf (cap s) junk0);;
    '(rs, _) <- with_buf s (rs <- run_into_iter_script script;; into_iter_drop;; ret rs);;
    ret (OutScript rs)
  | OToVec => v <- to_vec;; ret (OutList v)
  | ODebug => buf_fmt;; ret OutUnit
  | ONew => s <- get;; replace_buf (new_buf (cap s) junk0);; ret OutUnit
  | OFromArray xs =>
    s <- get;; nb <- from_array (cap s) junk0 xs;; replace_buf nb;; ret OutUnit
  | OFromIter xs =>
    s <- get;; nb <- from_iter (cap s) junk0 xs;; replace_buf nb;; ret OutUnit
  | OCloneDropClone =>
    c <- clone_buf junk0;;
    '(l, _) <- with_buf c (s <- get;; '(a, b) <- as_slices;;
                           ret (sl_elems (items s) a ++ sl_elems (items s) b));;
    '(_, _) <- with_buf c drop_buf;;
    ret (OutList l)
  | OCloneKeepClone =>
    c <- clone_buf junk0;;
    replace_buf c;;
    ret OutUnit
  | OCloneFrom other => clone_from other;; ret OutUnit
  | OEq other => b <- buf_eq val_eqb other;; ret (OutBool b)
  | OEqSlice form xs => b <- eq_form form val_eqb xs;; ret (OutBool b)
  | OPartialCmp other => r <- buf_partial_cmp val_cmp other;; ret (OutOrd r)
  | OCmp other => r <- buf_cmp val_ord other;; ret (OutOrd r)
  | OHash => buf_hash;; ret OutUnit
  | OWrite fam src => n <- fam_write fam src;; ret (OutZ n)
  | OFlush fam => fam_flush fam;; ret OutUnit
  | ORead fam dst => '(n, d) <- fam_read fam dst;; ret (OutRead n d)
  | OFillBuf fam => l <- fam_fill_buf fam;; ret (OutList l)
  | OConsume fam amt => fam_consume fam amt;; ret OutUnit
  | OBoxed => s <- get;; nb <- boxed (cap s) junk0;; replace_buf nb;; ret OutUnit
  | ODefault => s <- get;; replace_buf (default_buf (cap s) junk0);; ret OutUnit
  | OIterDefault script => rs <- run_iter_script iter_default script;; ret (OutScript rs)
  | OIterMutDefault script => rs <- run_iter_script iter_mut_default script;; ret (OutScript rs)
  | ORefIntoIter script =>
    it <- ref_into_iter;; rs <- run_iter_script it script;; ret (OutScript rs)
  | OIterDebug sb eb pre =>
    it <- iter_over_range sb eb;;
    rs <- run_iter_script it pre;;
    iter_fmt (iter_after it pre);;
    ret (OutScript rs)
  | OIterMutDebug sb eb pre =>
    it <- iter_mut_over_range sb eb;;
    rs <- run_iter_script it pre;;
    iter_mut_fmt (iter_after it pre);;
    ret (OutScript rs)
  | ODrainDebug sb eb pre =>
    d <- drain_over_range sb eb;;
    '(d', rs) <- run_drain_script d pre;;
    (* the Drain is a live local while it is formatted *)
    finally (drain_fmt d') (drain_drop d');;
    ret (OutScript rs)
  | OIntoIterDebug pre =>
    s <- get;;
    put (new_buf (cap s) junk0);;
    '(rs, _) <- with_buf s (rs <- run_into_iter_script pre;;
                            finally into_iter_fmt into_iter_drop;;
                            ret rs);;
    ret (OutScript rs)
  end.

(* ---- histories ------------------------------------------------------------ *)

(* what the harness observes of the state after each call: capacity, front
   position, length; the contents follow from [abs] in Abs.v *)
Fixpoint run_history (ops : list op) (s : cbuf) (w : world)
  : list (outcome out) * cbuf * world :=
  match ops with
  | [] => ([], s, w)
  | o :: rest =>
    match exec o s w with
    | (r, s', w') =>
      match run_history rest s' w' with
      | (rs, s'', w'') => (r :: rs, s'', w'')
      end
    end
  end.
