(* Traits.v — src/lib.rs, trait impls: Default, From<[T; M]>, FromIterator,
   Extend, IntoIterator for &CircularBuffer, Index(Mut), PartialEq (all forms),
   PartialOrd, Ord, Hash, Clone, Debug, and to_vec; and the Debug impls of
   Iter, IterMut, IntoIter (src/iter.rs) and Drain (src/drain.rs), which are
   loops over an Iter like Debug for the buffer. No proofs in this file. *)

From CB Require Export Drain.

(* ---- to_vec (lib.rs:2027) ------------------------------------------- *)

(* vec.extend(self.iter().cloned()); the partially built Vec destroys its
   clones when a clone unwinds *)
Fixpoint to_vec_loop (fuel : nat) (src : cbuf) (it : iter) (acc : list elem)
  : M (list elem) :=
  match fuel with
  | O => panic PFuel
  | S fuel' =>
    match iter_next it with
    | (it', Some p) =>
      c <- on_unwind (clone_elem (items src p)) (drop_list acc);;
      to_vec_loop fuel' src it' (acc ++ [c])
    | (_, None) => ret acc
    end
  end.

Definition to_vec : M (list elem) :=
  src <- get;;
  (if 0 <? size src then emit EvAlloc else ret tt);;     (* Vec::with_capacity(size) *)
  it <- iter_new;;
  v <- to_vec_loop (S (Z.to_nat (size src))) src it [];;
  dassert (zlen v =? size src);;
  ret v.

(* ---- Default (lib.rs:2050): Self::new() ------------------------------- *)

Definition default_buf (n : Z) (junk : store) : cbuf := new_buf n junk.

(* ---- From<[T; M]> (lib.rs:2042) ------------------------------------- *)

(* state: the buffer being built, initially [new_buf n junk] *)
Definition from_array_body (arr : list elem) : M unit :=
  n <- get_cap;;
  let m := zlen arr in
  let sz := if m <=? n then m else n in
  k <- usub m sz;;
  f <- get_items;;
  (* ptr::copy_nonoverlapping(arr_ptr.add(M - size), elems_ptr, size) *)
  set_items (fun i => if (0 <=? i) && (i <? sz) then nth (Z.to_nat (i + k)) arr (f i) else f i);;
  set_size sz;;
  set_start 0;;
  (* buf owns the tail now; destroy the discarded prefix; buf is a live local *)
  on_unwind (drop_list (firstn (Z.to_nat k) arr)) drop_buf.

Definition from_array (n : Z) (junk : store) (arr : list elem) : M cbuf :=
  '(_, b) <- with_buf (new_buf n junk) (from_array_body arr);;
  ret b.

(* ---- Extend<T> / FromIterator<T> (lib.rs:2079-2103) ------------------ *)

(* iter.into_iter().for_each(|item| { self.push_back(item); }) with a user
   iterator that owns [xs]: every step is a user call; when anything unwinds
   the iterator is destroyed and destroys the items it still owns *)
Fixpoint extend_loop (xs : list elem) : M unit :=
  on_unwind (emit EvNext;; user_call FNext) (drop_list xs);;
  match xs with
  | [] => ret tt
  | x :: rest =>
    on_unwind (r <- push_back x;; drop_opt r) (drop_list rest);;
    extend_loop rest
  end.

Definition extend (xs : list elem) : M unit := extend_loop xs.

Definition from_iter (n : Z) (junk : store) (xs : list elem) : M cbuf :=
  '(_, b) <- with_buf (new_buf n junk) (on_unwind (extend_loop xs) drop_buf);;
  ret b.

(* ---- Extend<&T>, T: Copy (lib.rs:2105): no user code at all ---------- *)

Fixpoint extend_ref (xs : list elem) : M unit :=
  match xs with
  | [] => ret tt
  | x :: rest => _ <- push_back x;; extend_ref rest
  end.

(* ---- Index / IndexMut (lib.rs:2120-2134) ----------------------------- *)

Definition index (i : Z) : M Z :=
  o <- get_ i;;
  match o with Some p => ret p | None => panic PExpect end.

Definition index_mut (i : Z) : M Z :=
  o <- get_mut i;;
  match o with Some p => ret p | None => panic PExpect end.

(* ---- PartialEq (lib.rs:2156-2260) ------------------------------------ *)

Section Cmp.
(* the element comparisons are arbitrary user functions *)
Variable eqf : elem -> elem -> bool.
Variable cmpf : elem -> elem -> option comparison.

(* <[T] as PartialEq<[U]>>::eq *)
Fixpoint list_eq_loop (xs ys : list elem) : M bool :=
  match xs, ys with
  | x :: xs', y :: ys' =>
    emit (EvEq x y);;
    user_call FEq;;
    if eqf x y then list_eq_loop xs' ys' else ret false
  | _, _ => ret true
  end.

Definition slice_eq (xs ys : list elem) : M bool :=
  if zlen xs =? zlen ys then list_eq_loop xs ys else ret false.

Definition and_then (a b : M bool) : M bool :=
  x <- a;; if x then b else ret false.

Definition sl_to (sl : slice) (x : Z) : M slice := sl_range sl 0 x.
Definition sl_from (sl : slice) (x : Z) : M slice := sl_range sl x (slen sl).

Definition buf_eq (other : cbuf) : M bool :=
  a <- get;;
  if negb (size a =? size other) then ret false else
  '(a_left, a_right) <- as_slices;;
  '((b_left, b_right), _) <- with_buf other as_slices;;
  let ea := sl_elems (items a) in
  let eb := sl_elems (items other) in
  match slen a_left ?= slen b_left with
  | Lt =>
    let x := slen a_left in
    y <- usub (slen b_left) x;;
    and_then (s2 <- sl_to b_left x;; slice_eq (ea a_left) (eb s2))
   (and_then (s1 <- sl_to a_right y;; s2 <- sl_from b_left x;; slice_eq (ea s1) (eb s2))
             (s1 <- sl_from a_right y;; slice_eq (ea s1) (eb b_right)))
  | Gt =>
    let x := slen b_left in
    y <- usub (slen a_left) x;;
    and_then (s1 <- sl_to a_left x;; slice_eq (ea s1) (eb b_left))
   (and_then (s1 <- sl_from a_left x;; s2 <- sl_to b_right y;; slice_eq (ea s1) (eb s2))
             (s2 <- sl_from b_right y;; slice_eq (ea a_right) (eb s2)))
  | Eq =>
    dassert (slen a_left =? slen b_left);;
    dassert (slen a_right =? slen b_right);;
    and_then (slice_eq (ea a_left) (eb b_left)) (slice_eq (ea a_right) (eb b_right))
  end.

(* PartialEq<[U]> *)
Definition buf_eq_slice (other : list elem) : M bool :=
  a <- get;;
  if negb (size a =? zlen other) then ret false else
  '(a_left, a_right) <- as_slices;;
  (* other.split_at(a_left.len()) *)
  (if slen a_left <=? zlen other then ret tt else panic PBounds);;
  let b_left := firstn (Z.to_nat (slen a_left)) other in
  let b_right := skipn (Z.to_nat (slen a_left)) other in
  dassert (slen a_left =? zlen b_left);;
  dassert (slen a_right =? zlen b_right);;
  let ea := sl_elems (items a) in
  and_then (slice_eq (ea a_left) b_left) (slice_eq (ea a_right) b_right).

(* PartialEq<[U; M]>, <&[U]>, <&mut [U]>, <&[U; M]>, <&mut [U; M]>: each
   forwards to the slice form *)
Definition buf_eq_array := buf_eq_slice.
Definition buf_eq_slice_ref := buf_eq_slice.
Definition buf_eq_slice_mut := buf_eq_slice.
Definition buf_eq_array_ref := buf_eq_slice.
Definition buf_eq_array_mut := buf_eq_slice.

(* ---- PartialOrd / Ord (lib.rs:2262-2278) ------------------------------ *)

(* Iterator::partial_cmp on the two Iters *)
Fixpoint iter_cmp_loop (fuel : nat) (a b : cbuf) (ia ib : iter) : M (option comparison) :=
  match fuel with
  | O => panic PFuel
  | S fuel' =>
    match iter_next ia with
    | (_, None) =>
      match iter_next ib with
      | (_, None) => ret (Some Eq)
      | (_, Some _) => ret (Some Lt)
      end
    | (ia', Some p) =>
      match iter_next ib with
      | (_, None) => ret (Some Gt)
      | (ib', Some q) =>
        let x := items a p in
        let y := items b q in
        emit (EvCmp x y);;
        user_call FCmp;;
        match cmpf x y with
        | Some Eq => iter_cmp_loop fuel' a b ia' ib'
        | r => ret r
        end
      end
    end
  end.

Definition buf_partial_cmp (other : cbuf) : M (option comparison) :=
  a <- get;;
  ia <- iter_new;;
  '(ib, _) <- with_buf other iter_new;;
  iter_cmp_loop (S (Z.to_nat (size a))) a other ia ib.

Definition buf_cmp (other : cbuf) : M (option comparison) := buf_partial_cmp other.

End Cmp.

(* ---- Hash (lib.rs:2280) ----------------------------------------------- *)

Fixpoint iter_for_each (fuel : nat) (src : cbuf) (it : iter) (body : elem -> M unit) : M unit :=
  match fuel with
  | O => panic PFuel
  | S fuel' =>
    match iter_next it with
    | (it', Some p) => body (items src p);; iter_for_each fuel' src it' body
    | (_, None) => ret tt
    end
  end.

Definition buf_hash : M unit :=
  a <- get;;
  emit (EvHashLen (size a));;
  it <- iter_new;;
  iter_for_each (S (Z.to_nat (size a))) a it (fun e => emit (EvHash e);; user_call FHash).

(* ---- Debug (lib.rs:2314): f.debug_list().entries(self).finish() ------- *)

Definition buf_fmt : M unit :=
  a <- get;;
  it <- iter_new;;
  iter_for_each (S (Z.to_nat (size a))) a it (fun e => emit (EvFmt e);; user_call FFmt).

(* ---- IntoIterator for &CircularBuffer (lib.rs:2164): Iter::new(self) ---- *)

(* (the crate has no `impl IntoIterator for &mut CircularBuffer`: the only
   two impls are the by-value one, modelled by the into_iter_* functions of
   Iter.v, and this one) *)
Definition ref_into_iter : M iter := iter_new.

(* ---- Debug for Iter (iter.rs:346):
        f.debug_list().entries(self.clone()).finish() --------------------- *)

Definition iter_fmt (it : iter) : M unit :=
  src <- get;;
  let c := iter_clone it in
  iter_for_each (S (Z.to_nat (slen (it_right c) + slen (it_left c)))) src c
                (fun e => emit (EvFmt e);; user_call FFmt).

(* ---- Debug for IterMut (iter.rs:471):
        let it = Iter { right: self.right, left: self.left }; it.fmt(f) ---- *)

Definition iter_mut_fmt (it : iter) : M unit :=
  let it' := mkI (it_right it) (it_left it) in
  iter_fmt it'.

(* ---- Debug for Drain (drain.rs:318):
        let (right, left) = self.as_slices(); Iter { right, left }.fmt(f) --- *)

Definition drain_fmt (d : drain) : M unit :=
  '(rgt, lft) <- drain_as_slices d;;
  let it := mkI rgt lft in
  iter_fmt it.

(* ---- Debug for IntoIter (iter.rs:56): self.inner.fmt(f), on the wrapped
        buffer -------------------------------------------------------------- *)

Definition into_iter_fmt : M unit := buf_fmt.

(* ---- Clone (lib.rs:2290) ----------------------------------------------- *)

(* for_each over src.iter().cloned() *)
Fixpoint cloned_for_each (fuel : nat) (src : cbuf) (it : iter) (body : elem -> M unit)
  : M unit :=
  match fuel with
  | O => panic PFuel
  | S fuel' =>
    match iter_next it with
    | (it', Some p) =>
      c <- clone_elem (items src p);;
      body c;;
      cloned_for_each fuel' src it' body
    | (_, None) => ret tt
    end
  end.

Definition push_back_discard (c : elem) : M unit := r <- push_back c;; drop_opt r.

(* Self::from_iter(self.iter().cloned()) *)
Definition clone_buf (junk : store) : M cbuf :=
  src <- get;;
  it <- iter_new;;
  '(_, b) <- with_buf (new_buf (cap src) junk)
               (on_unwind
                  (cloned_for_each (S (Z.to_nat (size src))) src it push_back_discard)
                  drop_buf);;
  ret b.

(* self.clear(); self.extend(other.iter().cloned()) *)
Definition clone_from (other : cbuf) : M unit :=
  clear;;
  '(it, _) <- with_buf other iter_new;;
  cloned_for_each (S (Z.to_nat (size other))) other it push_back_discard.
