(* Unstable.v — the crate as it is compiled on nightly with the `unstable`
   cargo feature: every `#[cfg(feature = "unstable")]` body of src/lib.rs,
   src/iter.rs and src/drain.rs as its own definition [u_<name>], the std
   functions those bodies call (modelled from the nightly core sources:
   core/src/mem/maybe_uninit.rs, core/src/slice/mod.rs, core/src/ops/range.rs),
   then every function of the crate that (transitively) calls a changed
   function, re-stated with the changed callees, and finally [exec_unstable].
   Functions whose text and whose callees are untouched by the feature
   (add_mod, push_*, pop_*, remove, swap, fill_spare, translate_range_bounds,
   Drain::read/next, CircularSlicePtr, ...) are shared with the stable model.
   No proofs in this file. *)

From CB Require Export System.

(* ====================================================================== *)
(* std, nightly: the functions the unstable bodies call                     *)

(* <[MaybeUninit<T>]>::assume_init_ref / assume_init_mut
   (maybe_uninit.rs:1508, 1527): `&*(self as *const Self as *const [T])`,
   a pointer cast; same offset, same length *)
Definition sl_assume_init_ref (sl : slice) : slice := sl.
Definition sl_assume_init_mut (sl : slice) : slice := sl.

(* <[MaybeUninit<T>]>::assume_init_drop (maybe_uninit.rs:1486):
   if !self.is_empty() { ptr::drop_in_place(self as *mut [T]) } *)
Definition sl_assume_init_drop (sl : slice) : M unit :=
  if negb (slen sl =? 0) then drop_slice sl else ret tt.

(* [const { MaybeUninit::uninit() }; N]: N uninitialised slots; slot i holds
   whatever bits the memory happens to contain *)
Definition uninit_array (n : Z) (junk : store) : store := fun i => junk i.

(* &src[..len] on a borrowed &[T] *)
Definition list_range_to (l : list elem) (n : Z) : M (list elem) :=
  if n <=? zlen l then ret (firstn (Z.to_nat n) l) else panic PBounds.

(* <[MaybeUninit<T>]>::write_clone_of_slice (maybe_uninit.rs:1222):

     assert_eq!(self.len(), src.len(), ...);
     let len = self.len();
     let src = &src[..len];
     let mut guard = Guard { slice: self, initialized: 0 };
     for i in 0..len { guard.slice[i].write(src[i].clone()); guard.initialized += 1; }
     super::forget(guard);
     unsafe { self.assume_init_mut() }

   Guard::drop (maybe_uninit.rs:1628):
     let initialized_part = &mut self.slice[..self.initialized];
     initialized_part.assume_init_drop();                                   *)
Fixpoint wcs_loop (sl : slice) (src : list elem) (n : nat) (i : Z) : M unit :=
  match n with
  | O => ret tt
  | S n' =>
    on_unwind
      (p <- sl_index sl i;;
       e <- match nth_error src (Z.to_nat i) with
            | Some e => ret e
            | None => panic PBounds
            end;;
       c <- clone_elem e;;
       write_slot p c)
      (g <- sl_range sl 0 i;; sl_assume_init_drop g);;
    wcs_loop sl src n' (i + 1)
  end.

Definition u_write_clone_of_slice (dst : slice) (src : list elem) : M slice :=
  assert_ (slen dst =? zlen src);;
  let len := slen dst in
  src' <- list_range_to src len;;
  wcs_loop dst src' (Z.to_nat len) 0;;
  ret (sl_assume_init_mut dst).

(* core::ops::OneSidedRange<usize> (ops/range.rs:1321): implemented by
   RangeTo (..e), RangeFrom (s..) and RangeToInclusive (..=e) only *)
Inductive osr := RTo (e : Z) | RFrom (s : Z) | RToIncl (e : Z).
Inductive osr_bound := StartInclusive | End_ | EndInclusive.

Definition osr_bound_of (r : osr) : osr_bound * Z :=
  match r with
  | RTo e => (End_, e)
  | RFrom s => (StartInclusive, s)
  | RToIncl e => (EndInclusive, e)
  end.

Inductive direction := DFront | DBack.

(* split_point_of (slice/mod.rs:86) *)
Definition split_point_of (r : osr) : option (direction * Z) :=
  match osr_bound_of r with
  | (StartInclusive, i) => Some (DBack, i)
  | (End_, i) => Some (DFront, i)
  | (EndInclusive, i) =>
    match checked_add i 1 with Some v => Some (DFront, v) | None => None end
  end.

(* <[T]>::split_off (slice/mod.rs:4907): the updated slice and what was taken *)
Definition sl_split_off (sl : slice) (r : osr) : M (slice * option slice) :=
  match split_point_of r with
  | None => ret (sl, None)
  | Some (dir, split_index) =>
    if slen sl <? split_index then ret (sl, None) else
    '(front, back) <- sl_split_at sl split_index;;
    match dir with
    | DFront => ret (back, Some front)
    | DBack => ret (front, Some back)
    end
  end.

(* <[T]>::split_off_mut (slice/mod.rs:4973): the same with
   mem::take(self).split_at_mut(split_index) after the length test *)
Definition sl_split_off_mut (sl : slice) (r : osr) : M (slice * option slice) :=
  match split_point_of r with
  | None => ret (sl, None)
  | Some (dir, split_index) =>
    if slen sl <? split_index then ret (sl, None) else
    let taken := sl in
    '(front, back) <- sl_split_at taken split_index;;
    match dir with
    | DFront => ret (back, Some front)
    | DBack => ret (front, Some back)
    end
  end.

(* <[T]>::split_first / split_last (slice/mod.rs:198, 240) *)
Definition sl_split_first (sl : slice) : option (Z * slice) :=
  if 0 <? slen sl then Some (soff sl, mkS (soff sl + 1) (slen sl - 1)) else None.

Definition sl_split_last (sl : slice) : option (Z * slice) :=
  if 0 <? slen sl then Some (soff sl + slen sl - 1, mkS (soff sl) (slen sl - 1)) else None.

(* split_off_first / split_off_last (slice/mod.rs:5011, 5061):
   let Some((first, rem)) = self.split_first() else { return None };
   *self = rem; Some(first) *)
Definition sl_split_off_first (sl : slice) : slice * option Z :=
  match sl_split_first sl with
  | Some (first, rem) => (rem, Some first)
  | None => (sl, None)
  end.

Definition sl_split_off_last (sl : slice) : slice * option Z :=
  match sl_split_last sl with
  | Some (last, rem) => (rem, Some last)
  | None => (sl, None)
  end.

(* split_off_first_mut / split_off_last_mut (slice/mod.rs:5036, 5086):
   let Some((first, rem)) = mem::replace(self, &mut []).split_first_mut()
     else { return None };
   so on None *self is left as `&mut []` *)
Definition sl_split_off_first_mut (sl : slice) : slice * option Z :=
  let taken := sl in
  match sl_split_first taken with
  | Some (first, rem) => (rem, Some first)
  | None => (empty_slice, None)
  end.

Definition sl_split_off_last_mut (sl : slice) : slice * option Z :=
  let taken := sl in
  match sl_split_last taken with
  | Some (last, rem) => (rem, Some last)
  | None => (empty_slice, None)
  end.

(* ====================================================================== *)
(* src/lib.rs                                                               *)

(* ---- slice_assume_init_ref / _mut (lib.rs:264, 276) --------------------- *)

Definition u_slice_assume_init_ref (sl : slice) : slice := sl_assume_init_ref sl.
Definition u_slice_assume_init_mut (sl : slice) : slice := sl_assume_init_mut sl.

(* ---- new (lib.rs:311) ---------------------------------------------------
   Self { size: 0, start: 0, items: [const { MaybeUninit::uninit() }; N] }  *)

Definition u_new_buf (n : Z) (junk : store) : cbuf :=
  {| cap := n; size := 0; start := 0; items := uninit_array n junk |}.

(* ---- make_contiguous (lib.rs:673): calls slice_assume_init_mut ---------- *)

Definition u_make_contiguous : M slice :=
  s <- get;;
  if (cap s =? 0) || (size s =? 0) then ret empty_slice else
  dassert (start s <? cap s);;
  dassert (size s <=? cap s);;
  let st := start s in
  d <- usub (cap s) st;;
  sl <- (if size s <=? d then
           e <- uadd st (size s);;
           it <- items_slice;;
           sl_range it st e
         else
           set_start 0;;
           (if st <=? cap s then f <- get_items;; set_items (s_rotate_left f (cap s) st)
            else panic PBounds);;
           sz <- get_size;;
           it <- items_slice;;
           sl_range it 0 sz);;
  ret (u_slice_assume_init_mut sl).

(* ---- as_slices / as_mut_slices (lib.rs:722, 774) ------------------------ *)

Definition u_as_slices : M (slice * slice) :=
  s <- get;;
  if (cap s =? 0) || (size s =? 0) then ret (empty_slice, empty_slice) else
  dassert (start s <? cap s);;
  dassert (size s <=? cap s);;
  let st := start s in
  en <- add_mod (start s) (size s) (cap s);;
  '(front, back) <-
     (if st <? en then
        it <- items_slice;;
        f <- sl_range it st en;;
        ret (f, empty_slice)
      else
        it <- items_slice;;
        '(back, front) <- sl_split_at it st;;
        b <- sl_range back 0 en;;
        ret (front, b));;
  ret (u_slice_assume_init_ref front, u_slice_assume_init_ref back).

Definition u_as_mut_slices : M (slice * slice) :=
  s <- get;;
  if (cap s =? 0) || (size s =? 0) then ret (empty_slice, empty_slice) else
  dassert (start s <? cap s);;
  dassert (size s <=? cap s);;
  let st := start s in
  en <- add_mod (start s) (size s) (cap s);;
  '(front, back) <-
     (if st <? en then
        it <- items_slice;;
        f <- sl_range it st en;;
        ret (f, empty_slice)
      else
        it <- items_slice;;
        '(back, front) <- sl_split_at it st;;
        b <- sl_range back 0 en;;
        ret (front, b));;
  ret (u_slice_assume_init_mut front, u_slice_assume_init_mut back).

(* ---- drop_range (lib.rs:891): Dropper::drop is
        ptr::drop_in_place(slice_assume_init_mut(self.0)) ------------------ *)

Definition u_dropper_drop (sl : slice) : M unit :=
  drop_slice (u_slice_assume_init_mut sl).

Definition u_drop_range (a b : Z) : M unit :=
  if b <=? a then ret tt else
  s <- get;;
  dassert (start s <? cap s);;
  dassert (size s <=? cap s);;
  dassert (a <? size s);;
  dassert (b <=? size s);;
  dassert (a <? b);;
  dassert ((a =? 0) || (b =? size s));;
  drop_from <- add_mod (start s) a (cap s);;
  drop_to <- add_mod (start s) b (cap s);;
  '(rgt, lft) <-
     (if drop_from <? drop_to then
        it <- items_slice;;
        r <- sl_range it drop_from drop_to;;
        ret (r, empty_slice)
      else
        it <- items_slice;;
        '(lft, rgt) <- sl_split_at it drop_from;;
        l <- sl_range lft 0 drop_to;;
        ret (rgt, l));;
  finally
    (if b =? size s then set_size a
     else set_start drop_to;; v <- usub (size s) b;; set_size v)
    (finally (u_dropper_drop rgt) (u_dropper_drop lft)).

(* ---- truncate / clear / Drop (callers of drop_range) -------------------- *)

Definition u_truncate_back (n : Z) : M unit :=
  s <- get;;
  if (cap s =? 0) || (size s <=? n) then ret tt else
  u_drop_range n (size s).

Definition u_truncate_front (n : Z) : M unit :=
  s <- get;;
  if (cap s =? 0) || (size s <=? n) then ret tt else
  drop_len <- usub (size s) n;;
  u_drop_range 0 drop_len.

Definition u_clear : M unit := u_truncate_back 0.

Definition u_drop_buf : M unit := u_clear.

(* ---- fill / fill_with (callers of clear) -------------------------------- *)

Definition u_fill (value : elem) : M unit :=
  on_unwind u_clear (drop_elem value);;
  fill_spare value.

Definition u_fill_with : M unit :=
  u_clear;;
  fill_spare_with.

(* ---- extend_from_slice (lib.rs:1923; unstable lines 1989, 2003, 2018) ---- *)

Definition u_extend_from_slice (other : list elem) : M unit :=
  s <- get;;
  let olen := zlen other in
  if cap s =? 0 then ret tt else
  dassert (start s <? cap s);;
  dassert (size s <=? cap s);;
  if olen <? cap s then
    free_size <- usub (cap s) (size s);;
    final_size <-
      (if olen <? free_size then uadd (size s) olen
       else k <- usub (cap s) olen;; u_truncate_front k;; ret (cap s));;
    '(rgt, _) <- slices_uninit_mut;;
    let write_len := Z.min (slen rgt) olen in
    d <- sl_range rgt 0 write_len;;
    _ <- u_write_clone_of_slice d (firstn (Z.to_nat write_len) other);;
    sz <- get_size;;
    v <- uadd sz write_len;;
    set_size v;;
    let other2 := skipn (Z.to_nat write_len) other in
    '(lft, _) <- slices_uninit_mut;;
    dassert (zlen other2 <=? slen lft);;
    let write_len2 := zlen other2 in
    d2 <- sl_range lft 0 write_len2;;
    _ <- u_write_clone_of_slice d2 other2;;
    sz <- get_size;;
    v <- uadd sz write_len2;;
    set_size v;;
    sz <- get_size;;
    dassert (sz =? final_size)
  else
    u_clear;;
    set_start 0;;
    k <- usub olen (cap s);;
    let other2 := skipn (Z.to_nat k) other in
    dassert (cap s =? zlen other2);;
    it <- items_slice;;
    _ <- u_write_clone_of_slice it other2;;
    set_size (cap s).

(* ====================================================================== *)
(* src/iter.rs                                                              *)

(* ---- slice_take* (iter.rs:103, 135, 170, 183, 196, 209) ------------------ *)

Definition u_slice_take (sl : slice) (r : osr) : M (slice * option slice) :=
  sl_split_off sl r.

Definition u_slice_take_mut (sl : slice) (r : osr) : M (slice * option slice) :=
  sl_split_off_mut sl r.

Definition u_slice_take_first (sl : slice) : slice * option Z := sl_split_off_first sl.
Definition u_slice_take_first_mut (sl : slice) : slice * option Z := sl_split_off_first_mut sl.
Definition u_slice_take_last (sl : slice) : slice * option Z := sl_split_off_last sl.
Definition u_slice_take_last_mut (sl : slice) : slice * option Z := sl_split_off_last_mut sl.

(* ---- Iter ---------------------------------------------------------------- *)

Definition u_iter_new : M iter :=
  '(r, l) <- u_as_slices;; ret (mkI r l).

(* slice_take(&mut self.right, ..count) etc. *)
Definition u_advance_front_by (it : iter) (count : Z) : M iter :=
  if count <? slen (it_right it) then
    '(r, _) <- u_slice_take (it_right it) (RTo count);;
    ret (mkI r (it_left it))
  else
    take_left <- usub count (slen (it_right it));;
    dassert (take_left <=? slen (it_left it));;
    '(l, _) <- u_slice_take (it_left it) (RTo take_left);;
    ret (mkI empty_slice l).

Definition u_advance_back_by (it : iter) (count : Z) : M iter :=
  if count <? slen (it_left it) then
    take_left <- usub (slen (it_left it)) count;;
    '(l, _) <- u_slice_take (it_left it) (RFrom take_left);;
    ret (mkI (it_right it) l)
  else
    d <- usub count (slen (it_left it));;
    take_right <- usub (slen (it_right it)) d;;
    dassert (take_right <=? slen (it_right it));;
    '(r, _) <- u_slice_take (it_right it) (RFrom take_right);;
    ret (mkI r empty_slice).

Definition u_iter_over_range (sb eb : bound) : M iter :=
  '(st, en) <- translate_range_bounds sb eb;;
  if en <=? st then ret iter_empty else
  l <- len;;
  it <- u_iter_new;;
  it <- u_advance_front_by it st;;
  d <- usub l en;;
  u_advance_back_by it d.

Definition u_iter_next (it : iter) : iter * option Z :=
  match u_slice_take_first (it_right it) with
  | (r, Some p) => (mkI r (it_left it), Some p)
  | (_, None) =>
    match u_slice_take_first (it_left it) with
    | (l, Some p) => (mkI (it_right it) l, Some p)
    | (_, None) => (it, None)
    end
  end.

Definition u_iter_next_back (it : iter) : iter * option Z :=
  match u_slice_take_last (it_left it) with
  | (l, Some p) => (mkI (it_right it) l, Some p)
  | (_, None) =>
    match u_slice_take_last (it_right it) with
    | (r, Some p) => (mkI r (it_left it), Some p)
    | (_, None) => (it, None)
    end
  end.

(* ---- IterMut: the same text with &mut and the _mut helpers ---------------- *)

Definition u_iter_mut_new : M iter :=
  '(r, l) <- u_as_mut_slices;; ret (mkI r l).

Definition u_iter_mut_advance_front_by (it : iter) (count : Z) : M iter :=
  if count <? slen (it_right it) then
    '(r, _) <- u_slice_take_mut (it_right it) (RTo count);;
    ret (mkI r (it_left it))
  else
    take_left <- usub count (slen (it_right it));;
    dassert (take_left <=? slen (it_left it));;
    '(l, _) <- u_slice_take_mut (it_left it) (RTo take_left);;
    ret (mkI empty_slice l).

Definition u_iter_mut_advance_back_by (it : iter) (count : Z) : M iter :=
  if count <? slen (it_left it) then
    take_left <- usub (slen (it_left it)) count;;
    '(l, _) <- u_slice_take_mut (it_left it) (RFrom take_left);;
    ret (mkI (it_right it) l)
  else
    d <- usub count (slen (it_left it));;
    take_right <- usub (slen (it_right it)) d;;
    dassert (take_right <=? slen (it_right it));;
    '(r, _) <- u_slice_take_mut (it_right it) (RFrom take_right);;
    ret (mkI r empty_slice).

Definition u_iter_mut_over_range (sb eb : bound) : M iter :=
  '(st, en) <- translate_range_bounds sb eb;;
  if en <=? st then ret iter_empty else
  l <- len;;
  it <- u_iter_mut_new;;
  it <- u_iter_mut_advance_front_by it st;;
  d <- usub l en;;
  u_iter_mut_advance_back_by it d.

(* slice_take_first_mut(&mut self.right) works on the field in place: when it
   returns None, split_off_first_mut has left `&mut []` in the field *)
Definition u_iter_mut_next (it : iter) : iter * option Z :=
  match u_slice_take_first_mut (it_right it) with
  | (r, Some p) => (mkI r (it_left it), Some p)
  | (r, None) =>
    match u_slice_take_first_mut (it_left it) with
    | (l, Some p) => (mkI r l, Some p)
    | (l, None) => (mkI r l, None)
    end
  end.

Definition u_iter_mut_next_back (it : iter) : iter * option Z :=
  match u_slice_take_last_mut (it_left it) with
  | (l, Some p) => (mkI (it_right it) l, Some p)
  | (l, None) =>
    match u_slice_take_last_mut (it_right it) with
    | (r, Some p) => (mkI r l, Some p)
    | (r, None) => (mkI r l, None)
    end
  end.

(* ---- IntoIter: Drop drops the wrapped buffer ------------------------------ *)

Definition u_into_iter_drop : M unit := u_drop_buf.

(* ====================================================================== *)
(* src/drain.rs                                                             *)

(* ---- Drain::as_slices / as_mut_slices (drain.rs:128, 163) ----------------- *)

Definition u_drain_as_slices (d : drain) : M (slice * slice) :=
  s <- get;;
  if (cap s =? 0) || (d_buf_size d =? 0) || (d_ie d <=? d_is d) then
    ret (empty_slice, empty_slice)
  else
  dassert (start s <? cap s);;
  dassert (d_buf_size d <=? cap s);;
  st <- add_mod (start s) (d_is d) (cap s);;
  en <- add_mod (start s) (d_ie d) (cap s);;
  '(rgt, lft) <-
     (if st <? en then
        it <- items_slice;;
        r <- sl_range it st en;;
        ret (r, empty_slice)
      else
        it <- items_slice;;
        '(lft, rgt) <- sl_split_at it en;;
        k <- usub st en;;
        r <- sl_range rgt k (slen rgt);;
        ret (r, lft));;
  ret (sl_assume_init_ref rgt, sl_assume_init_ref lft).

Definition u_drain_as_mut_slices (d : drain) : M (slice * slice) :=
  s <- get;;
  if (cap s =? 0) || (d_buf_size d =? 0) || (d_ie d <=? d_is d) then
    ret (empty_slice, empty_slice)
  else
  dassert (start s <? cap s);;
  dassert (d_buf_size d <=? cap s);;
  st <- add_mod (start s) (d_is d) (cap s);;
  en <- add_mod (start s) (d_ie d) (cap s);;
  '(rgt, lft) <-
     (if st <? en then
        it <- items_slice;;
        r <- sl_range it st en;;
        ret (r, empty_slice)
      else
        it <- items_slice;;
        '(lft, rgt) <- sl_split_at it en;;
        k <- usub st en;;
        r <- sl_range rgt k (slen rgt);;
        ret (r, lft));;
  ret (sl_assume_init_mut rgt, sl_assume_init_mut lft).

(* ---- Drop for Drain (drain.rs:210): calls as_mut_slices -------------------- *)

Definition u_drain_drop (d : drain) : M unit :=
  '(rgt, lft) <- u_drain_as_mut_slices d;;
  finally (drop_slice rgt) (drop_slice lft);;
  s <- get;;
  if cap s =? 0 then ret tt else
  remaining <- usub (d_buf_size d) (d_re d);;
  items0 <- csp_add (csp_new (cap s)) (start s);;
  hole <- csp_add items0 (d_rs d);;
  backfill <- csp_add items0 (d_re d);;
  drain_fill_loop (Z.to_nat remaining) hole backfill remaining;;
  v <- usub (d_buf_size d) (range_len (d_rs d) (d_re d));;
  set_size v.

(* ====================================================================== *)
(* src/lib.rs, trait impls                                                  *)

(* ---- to_vec --------------------------------------------------------------- *)

Fixpoint u_to_vec_loop (fuel : nat) (src : cbuf) (it : iter) (acc : list elem)
  : M (list elem) :=
  match fuel with
  | O => panic PFuel
  | S fuel' =>
    match u_iter_next it with
    | (it', Some p) =>
      c <- on_unwind (clone_elem (items src p)) (drop_list acc);;
      u_to_vec_loop fuel' src it' (acc ++ [c])
    | (_, None) => ret acc
    end
  end.

Definition u_to_vec : M (list elem) :=
  src <- get;;
  (if 0 <? size src then emit EvAlloc else ret tt);;
  it <- u_iter_new;;
  v <- u_to_vec_loop (S (Z.to_nat (size src))) src it [];;
  dassert (zlen v =? size src);;
  ret v.

(* ---- From<[T; M]> (lib.rs:2062):
        let mut elems = [const { MaybeUninit::uninit() }; N]; ----------------- *)

Definition u_from_array_body (arr : list elem) : M unit :=
  n <- get_cap;;
  let m := zlen arr in
  let sz := if m <=? n then m else n in
  k <- usub m sz;;
  f <- get_items;;
  set_items (fun i => if (0 <=? i) && (i <? sz) then nth (Z.to_nat (i + k)) arr (f i) else f i);;
  set_size sz;;
  set_start 0;;
  on_unwind (drop_list (firstn (Z.to_nat k) arr)) u_drop_buf.

Definition u_from_array (n : Z) (junk : store) (arr : list elem) : M cbuf :=
  '(_, b) <- with_buf {| cap := n; size := 0; start := 0; items := uninit_array n junk |}
                      (u_from_array_body arr);;
  ret b.

(* ---- FromIterator: Self::new(), Drop ---------------------------------------- *)

Definition u_from_iter (n : Z) (junk : store) (xs : list elem) : M cbuf :=
  '(_, b) <- with_buf (u_new_buf n junk) (on_unwind (extend_loop xs) u_drop_buf);;
  ret b.

(* ---- PartialEq ---------------------------------------------------------------- *)

Section UCmp.
Variable eqf : elem -> elem -> bool.
Variable cmpf : elem -> elem -> option comparison.

Definition u_buf_eq (other : cbuf) : M bool :=
  a <- get;;
  if negb (size a =? size other) then ret false else
  '(a_left, a_right) <- u_as_slices;;
  '((b_left, b_right), _) <- with_buf other u_as_slices;;
  let ea := sl_elems (items a) in
  let eb := sl_elems (items other) in
  match slen a_left ?= slen b_left with
  | Lt =>
    let x := slen a_left in
    y <- usub (slen b_left) x;;
    and_then (s2 <- sl_to b_left x;; slice_eq eqf (ea a_left) (eb s2))
   (and_then (s1 <- sl_to a_right y;; s2 <- sl_from b_left x;; slice_eq eqf (ea s1) (eb s2))
             (s1 <- sl_from a_right y;; slice_eq eqf (ea s1) (eb b_right)))
  | Gt =>
    let x := slen b_left in
    y <- usub (slen a_left) x;;
    and_then (s1 <- sl_to a_left x;; slice_eq eqf (ea s1) (eb b_left))
   (and_then (s1 <- sl_from a_left x;; s2 <- sl_to b_right y;; slice_eq eqf (ea s1) (eb s2))
             (s2 <- sl_from b_right y;; slice_eq eqf (ea a_right) (eb s2)))
  | Eq =>
    dassert (slen a_left =? slen b_left);;
    dassert (slen a_right =? slen b_right);;
    and_then (slice_eq eqf (ea a_left) (eb b_left)) (slice_eq eqf (ea a_right) (eb b_right))
  end.

Definition u_buf_eq_slice (other : list elem) : M bool :=
  a <- get;;
  if negb (size a =? zlen other) then ret false else
  '(a_left, a_right) <- u_as_slices;;
  (if slen a_left <=? zlen other then ret tt else panic PBounds);;
  let b_left := firstn (Z.to_nat (slen a_left)) other in
  let b_right := skipn (Z.to_nat (slen a_left)) other in
  dassert (slen a_left =? zlen b_left);;
  dassert (slen a_right =? zlen b_right);;
  let ea := sl_elems (items a) in
  and_then (slice_eq eqf (ea a_left) b_left) (slice_eq eqf (ea a_right) b_right).

Definition u_buf_eq_array := u_buf_eq_slice.
Definition u_buf_eq_slice_ref := u_buf_eq_slice.
Definition u_buf_eq_slice_mut := u_buf_eq_slice.
Definition u_buf_eq_array_ref := u_buf_eq_slice.
Definition u_buf_eq_array_mut := u_buf_eq_slice.

(* ---- PartialOrd / Ord ----------------------------------------------------------- *)

Fixpoint u_iter_cmp_loop (fuel : nat) (a b : cbuf) (ia ib : iter) : M (option comparison) :=
  match fuel with
  | O => panic PFuel
  | S fuel' =>
    match u_iter_next ia with
    | (_, None) =>
      match u_iter_next ib with
      | (_, None) => ret (Some Eq)
      | (_, Some _) => ret (Some Lt)
      end
    | (ia', Some p) =>
      match u_iter_next ib with
      | (_, None) => ret (Some Gt)
      | (ib', Some q) =>
        let x := items a p in
        let y := items b q in
        emit (EvCmp x y);;
        user_call FCmp;;
        match cmpf x y with
        | Some Eq => u_iter_cmp_loop fuel' a b ia' ib'
        | r => ret r
        end
      end
    end
  end.

Definition u_buf_partial_cmp (other : cbuf) : M (option comparison) :=
  a <- get;;
  ia <- u_iter_new;;
  '(ib, _) <- with_buf other u_iter_new;;
  u_iter_cmp_loop (S (Z.to_nat (size a))) a other ia ib.

Definition u_buf_cmp (other : cbuf) : M (option comparison) := u_buf_partial_cmp other.

End UCmp.

(* ---- Hash / Debug ------------------------------------------------------------------ *)

Fixpoint u_iter_for_each (fuel : nat) (src : cbuf) (it : iter) (body : elem -> M unit) : M unit :=
  match fuel with
  | O => panic PFuel
  | S fuel' =>
    match u_iter_next it with
    | (it', Some p) => body (items src p);; u_iter_for_each fuel' src it' body
    | (_, None) => ret tt
    end
  end.

Definition u_buf_hash : M unit :=
  a <- get;;
  emit (EvHashLen (size a));;
  it <- u_iter_new;;
  u_iter_for_each (S (Z.to_nat (size a))) a it (fun e => emit (EvHash e);; user_call FHash).

Definition u_buf_fmt : M unit :=
  a <- get;;
  it <- u_iter_new;;
  u_iter_for_each (S (Z.to_nat (size a))) a it (fun e => emit (EvFmt e);; user_call FFmt).

(* ---- Default, IntoIterator for &CircularBuffer: callers of new / Iter::new;
        Debug for Iter / IterMut / Drain / IntoIter: callers of Iter::next,
        Drain::as_slices, Debug for CircularBuffer ------------------------------------- *)

Definition u_default_buf (n : Z) (junk : store) : cbuf := u_new_buf n junk.

Definition u_ref_into_iter : M iter := u_iter_new.

Definition u_iter_fmt (it : iter) : M unit :=
  src <- get;;
  let c := iter_clone it in
  u_iter_for_each (S (Z.to_nat (slen (it_right c) + slen (it_left c)))) src c
                  (fun e => emit (EvFmt e);; user_call FFmt).

Definition u_iter_mut_fmt (it : iter) : M unit :=
  let it' := mkI (it_right it) (it_left it) in
  u_iter_fmt it'.

Definition u_drain_fmt (d : drain) : M unit :=
  '(rgt, lft) <- u_drain_as_slices d;;
  let it := mkI rgt lft in
  u_iter_fmt it.

Definition u_into_iter_fmt : M unit := u_buf_fmt.

(* ---- Clone ---------------------------------------------------------------------------- *)

Fixpoint u_cloned_for_each (fuel : nat) (src : cbuf) (it : iter) (body : elem -> M unit)
  : M unit :=
  match fuel with
  | O => panic PFuel
  | S fuel' =>
    match u_iter_next it with
    | (it', Some p) =>
      c <- clone_elem (items src p);;
      body c;;
      u_cloned_for_each fuel' src it' body
    | (_, None) => ret tt
    end
  end.

Definition u_clone_buf (junk : store) : M cbuf :=
  src <- get;;
  it <- u_iter_new;;
  '(_, b) <- with_buf (u_new_buf (cap src) junk)
               (on_unwind
                  (u_cloned_for_each (S (Z.to_nat (size src))) src it push_back_discard)
                  u_drop_buf);;
  ret b.

Definition u_clone_from (other : cbuf) : M unit :=
  u_clear;;
  '(it, _) <- with_buf other u_iter_new;;
  u_cloned_for_each (S (Z.to_nat (size other))) other it push_back_discard.

(* ====================================================================== *)
(* src/io.rs, src/embedded_io.rs: callers of extend_from_slice, as_slices,
   truncate_front, Drain                                                    *)

Definition u_io_write (src : list elem) : M Z :=
  u_extend_from_slice src;;
  ret (zlen src).

Definition u_io_read (dst : list elem) : M (Z * list elem) :=
  '(front_s, back_s) <- u_as_slices;;
  f <- get_items;;
  let '(_, dst1, c1) := slice_read (sl_elems f front_s) dst in
  (if c1 <=? zlen dst1 then ret tt else panic PBounds);;
  let '(_, tail2, c2) := slice_read (sl_elems f back_s) (skipn (Z.to_nat c1) dst1) in
  count <- uadd c1 c2;;
  l <- len;;
  k <- usub l count;;
  u_truncate_front k;;
  ret (count, firstn (Z.to_nat c1) dst1 ++ tail2).

Definition u_io_fill_buf : M (list elem) :=
  '(front_s, back_s) <- u_as_slices;;
  f <- get_items;;
  if negb (slen front_s =? 0) then ret (sl_elems f front_s) else ret (sl_elems f back_s).

Definition u_io_consume (amt : Z) : M unit :=
  l <- len;;
  let amt := Z.min amt l in
  d <- drain_over_range BUnb (BExcl amt);;
  u_drain_drop d.

Definition u_eio_write (src : list elem) : M Z :=
  u_extend_from_slice src;;
  ret (zlen src).

Definition u_eio_read (dst : list elem) : M (Z * list elem) :=
  '(front_s, back_s) <- u_as_slices;;
  f <- get_items;;
  let '(_, dst1, c1) := slice_read (sl_elems f front_s) dst in
  (if c1 <=? zlen dst1 then ret tt else panic PBounds);;
  let '(_, tail2, c2) := slice_read (sl_elems f back_s) (skipn (Z.to_nat c1) dst1) in
  count <- uadd c1 c2;;
  l <- len;;
  k <- usub l count;;
  u_truncate_front k;;
  ret (count, firstn (Z.to_nat c1) dst1 ++ tail2).

Definition u_eio_fill_buf : M (list elem) :=
  '(front_s, back_s) <- u_as_slices;;
  f <- get_items;;
  if negb (slen front_s =? 0) then ret (sl_elems f front_s) else ret (sl_elems f back_s).

Definition u_eio_consume (amt : Z) : M unit :=
  l <- len;;
  let amt := Z.min amt l in
  d <- drain_over_range BUnb (BExcl amt);;
  u_drain_drop d.

Definition u_aio_write (src : list elem) : M Z :=
  u_extend_from_slice src;;
  ret (zlen src).

Definition u_aio_read (dst : list elem) : M (Z * list elem) :=
  '(front_s, back_s) <- u_as_slices;;
  f <- get_items;;
  let '(_, dst1, c1) := slice_read (sl_elems f front_s) dst in
  (if c1 <=? zlen dst1 then ret tt else panic PBounds);;
  let '(_, tail2, c2) := slice_read (sl_elems f back_s) (skipn (Z.to_nat c1) dst1) in
  count <- uadd c1 c2;;
  l <- len;;
  k <- usub l count;;
  u_truncate_front k;;
  ret (count, firstn (Z.to_nat c1) dst1 ++ tail2).

Definition u_aio_fill_buf : M (list elem) :=
  '(front_s, back_s) <- u_as_slices;;
  f <- get_items;;
  if negb (slen front_s =? 0) then ret (sl_elems f front_s) else ret (sl_elems f back_s).

Definition u_aio_consume (amt : Z) : M unit :=
  l <- len;;
  let amt := Z.min amt l in
  d <- drain_over_range BUnb (BExcl amt);;
  u_drain_drop d.

(* ====================================================================== *)
(* the harness (System.v) on the unstable build                              *)

Fixpoint u_iter_exhaust (fuel : nat) (f : store) (it : iter) : list pe :=
  match fuel with
  | O => []
  | S fuel' =>
    match u_iter_next it with
    | (it', Some p) => (p, f p) :: u_iter_exhaust fuel' f it'
    | (_, None) => []
    end
  end.

Fixpoint u_run_iter_script (it : iter) (script : list sstep) : M (list sres) :=
  match script with
  | [] => ret []
  | st :: rest =>
    match st with
    | SNext =>
      let '(it', o) := u_iter_next it in
      r <- match o with
           | Some p => e <- read_slot p;; ret (RItem (Some (p, e)))
           | None => ret (RItem None)
           end;;
      rs <- u_run_iter_script it' rest;; ret (r :: rs)
    | SNextBack =>
      let '(it', o) := u_iter_next_back it in
      r <- match o with
           | Some p => e <- read_slot p;; ret (RItem (Some (p, e)))
           | None => ret (RItem None)
           end;;
      rs <- u_run_iter_script it' rest;; ret (r :: rs)
    | SLen =>
      n <- iter_len it;;
      rs <- u_run_iter_script it rest;; ret (RLen n :: rs)
    | SClone =>
      let c := iter_clone it in
      rs <- u_run_iter_script it rest;;
      f <- get_items;;
      n <- iter_len c;;
      ret (RList (u_iter_exhaust (S (Z.to_nat n)) f c) :: rs)
    | SNextSet v =>
      let '(it', o) := u_iter_mut_next it in
      r <- match o with
           | Some p => e <- read_slot p;; write_slot p v;; ret (RItem (Some (p, e)))
           | None => ret (RItem None)
           end;;
      rs <- u_run_iter_script it' rest;; ret (r :: rs)
    | SNextBackSet v =>
      let '(it', o) := u_iter_mut_next_back it in
      r <- match o with
           | Some p => e <- read_slot p;; write_slot p v;; ret (RItem (Some (p, e)))
           | None => ret (RItem None)
           end;;
      rs <- u_run_iter_script it' rest;; ret (r :: rs)
    end
  end.

Fixpoint u_iter_after (it : iter) (script : list sstep) : iter :=
  match script with
  | [] => it
  | st :: rest =>
    match st with
    | SNext => u_iter_after (fst (u_iter_next it)) rest
    | SNextBack => u_iter_after (fst (u_iter_next_back it)) rest
    | SLen | SClone => u_iter_after it rest
    | SNextSet _ => u_iter_after (fst (u_iter_mut_next it)) rest
    | SNextBackSet _ => u_iter_after (fst (u_iter_mut_next_back it)) rest
    end
  end.

Definition u_replace_buf (nb : cbuf) : M unit :=
  old <- get;;
  put nb;;
  '(_, _) <- with_buf old u_drop_buf;;
  ret tt.

Definition u_fam_write (fam : iofam) := match fam with Std => u_io_write | Eio => u_eio_write | Aio => u_aio_write end.
Definition u_fam_read (fam : iofam) := match fam with Std => u_io_read | Eio => u_eio_read | Aio => u_aio_read end.
Definition u_fam_fill_buf (fam : iofam) := match fam with Std => u_io_fill_buf | Eio => u_eio_fill_buf | Aio => u_aio_fill_buf end.
Definition u_fam_consume (fam : iofam) := match fam with Std => u_io_consume | Eio => u_eio_consume | Aio => u_aio_consume end.

Definition u_eq_form (form : eqform) :=
  match form with
  | EqSlice => u_buf_eq_slice | EqArray => u_buf_eq_array
  | EqSliceRef => u_buf_eq_slice_ref | EqSliceMut => u_buf_eq_slice_mut
  | EqArrayRef => u_buf_eq_array_ref | EqArrayMut => u_buf_eq_array_mut
  end.

(* ---- exec_unstable ------------------------------------------------------------ *)

Definition exec_unstable (o : op) : M out :=
  match o with
  | OLen => n <- len;; ret (OutZ n)
  | OIsEmpty => b <- is_empty;; ret (OutBool b)
  | OIsFull => b <- is_full;; ret (OutBool b)
  | OCapacity => n <- capacity;; ret (OutZ n)
  | OPushBack e => r <- push_back e;; ret (OutOpt r)
  | OPushFront e => r <- push_front e;; ret (OutOpt r)
  | OTryPushBack e => r <- try_push_back e;; ret (OutOpt r)
  | OTryPushFront e => r <- try_push_front e;; ret (OutOpt r)
  | OPopBack => r <- pop_back;; ret (OutOpt r)
  | OPopFront => r <- pop_front;; ret (OutOpt r)
  | ORemove i => r <- remove i;; ret (OutOpt r)
  | OSwap i j => swap i j;; ret OutUnit
  | OSwapRemoveBack i => r <- swap_remove_back i;; ret (OutOpt r)
  | OSwapRemoveFront i => r <- swap_remove_front i;; ret (OutOpt r)
  | OTruncateBack n => u_truncate_back n;; ret OutUnit
  | OTruncateFront n => u_truncate_front n;; ret OutUnit
  | OClear => u_clear;; ret OutUnit
  | OExtend xs => extend xs;; ret OutUnit
  | OExtendRef xs => extend_ref xs;; ret OutUnit
  | OExtendFromSlice xs => u_extend_from_slice xs;; ret OutUnit
  | OFill v => u_fill v;; ret OutUnit
  | OFillWith => u_fill_with;; ret OutUnit
  | OFillSpare v => fill_spare v;; ret OutUnit
  | OFillSpareWith => fill_spare_with;; ret OutUnit
  | ODrain sb eb script forget =>
    d <- drain_over_range sb eb;;
    '(d', rs) <- run_drain_script d script;;
    (if forget then ret tt else u_drain_drop d');;
    ret (OutScript rs)
  | OMakeContiguous ws =>
    sl <- u_make_contiguous;;
    f <- get_items;;
    let r := sl_pes f sl in
    write_through (map fst r) ws;;
    ret (OutSlices r [])
  | OGet i => o <- get_ i;; deref o
  | ONthFront i => o <- nth_front i;; deref o
  | ONthBack i => o <- nth_back i;; deref o
  | OFront => o <- front;; deref o
  | OBack => o <- back;; deref o
  | OIndex i => p <- index i;; deref (Some p)
  | OGetMutSet i v => o <- get_mut i;; deref_set o v
  | ONthFrontMutSet i v => o <- nth_front_mut i;; deref_set o v
  | ONthBackMutSet i v => o <- nth_back_mut i;; deref_set o v
  | OFrontMutSet v => o <- front_mut;; deref_set o v
  | OBackMutSet v => o <- back_mut;; deref_set o v
  | OIndexMutSet i v => p <- index_mut i;; deref_set (Some p) v
  | OAsSlices =>
    '(a, b) <- u_as_slices;;
    f <- get_items;;
    ret (OutSlices (sl_pes f a) (sl_pes f b))
  | OAsMutSlicesSet ws =>
    '(a, b) <- u_as_mut_slices;;
    f <- get_items;;
    let ra := sl_pes f a in
    let rb := sl_pes f b in
    write_through (map fst (ra ++ rb)) ws;;
    ret (OutSlices ra rb)
  | OIter script => it <- u_iter_new;; rs <- u_run_iter_script it script;; ret (OutScript rs)
  | ORange sb eb script =>
    it <- u_iter_over_range sb eb;; rs <- u_run_iter_script it script;; ret (OutScript rs)
  | OIterMut script => it <- u_iter_mut_new;; rs <- u_run_iter_script it script;; ret (OutScript rs)
  | ORangeMut sb eb script =>
    it <- u_iter_mut_over_range sb eb;; rs <- u_run_iter_script it script;; ret (OutScript rs)
  | OIntoIter script =>
    s <- get;;
    put (u_new_buf (cap s) junk0);;
    '(rs, _) <- with_buf s (rs <- run_into_iter_script script;; u_into_iter_drop;; ret rs);;
    ret (OutScript rs)
  | OToVec => v <- u_to_vec;; ret (OutList v)
  | ODebug => u_buf_fmt;; ret OutUnit
  | ONew => s <- get;; u_replace_buf (u_new_buf (cap s) junk0);; ret OutUnit
  | OFromArray xs =>
    s <- get;; nb <- u_from_array (cap s) junk0 xs;; u_replace_buf nb;; ret OutUnit
  | OFromIter xs =>
    s <- get;; nb <- u_from_iter (cap s) junk0 xs;; u_replace_buf nb;; ret OutUnit
  | OCloneDropClone =>
    c <- u_clone_buf junk0;;
    '(l, _) <- with_buf c (s <- get;; '(a, b) <- u_as_slices;;
                           ret (sl_elems (items s) a ++ sl_elems (items s) b));;
    '(_, _) <- with_buf c u_drop_buf;;
    ret (OutList l)
  | OCloneKeepClone =>
    c <- u_clone_buf junk0;;
    u_replace_buf c;;
    ret OutUnit
  | OCloneFrom other => u_clone_from other;; ret OutUnit
  | OEq other => b <- u_buf_eq val_eqb other;; ret (OutBool b)
  | OEqSlice form xs => b <- u_eq_form form val_eqb xs;; ret (OutBool b)
  | OPartialCmp other => r <- u_buf_partial_cmp val_cmp other;; ret (OutOrd r)
  | OCmp other => r <- u_buf_cmp val_ord other;; ret (OutOrd r)
  | OHash => u_buf_hash;; ret OutUnit
  | OWrite fam src => n <- u_fam_write fam src;; ret (OutZ n)
  | OFlush fam => fam_flush fam;; ret OutUnit
  | ORead fam dst => '(n, d) <- u_fam_read fam dst;; ret (OutRead n d)
  | OFillBuf fam => l <- u_fam_fill_buf fam;; ret (OutList l)
  | OConsume fam amt => u_fam_consume fam amt;; ret OutUnit
  | OBoxed => s <- get;; nb <- boxed (cap s) junk0;; u_replace_buf nb;; ret OutUnit
  | ODefault => s <- get;; u_replace_buf (u_default_buf (cap s) junk0);; ret OutUnit
  | OIterDefault script => rs <- u_run_iter_script iter_default script;; ret (OutScript rs)
  | OIterMutDefault script =>
    rs <- u_run_iter_script iter_mut_default script;; ret (OutScript rs)
  | ORefIntoIter script =>
    it <- u_ref_into_iter;; rs <- u_run_iter_script it script;; ret (OutScript rs)
  | OIterDebug sb eb pre =>
    it <- u_iter_over_range sb eb;;
    rs <- u_run_iter_script it pre;;
    u_iter_fmt (u_iter_after it pre);;
    ret (OutScript rs)
  | OIterMutDebug sb eb pre =>
    it <- u_iter_mut_over_range sb eb;;
    rs <- u_run_iter_script it pre;;
    u_iter_mut_fmt (u_iter_after it pre);;
    ret (OutScript rs)
  | ODrainDebug sb eb pre =>
    d <- drain_over_range sb eb;;
    '(d', rs) <- run_drain_script d pre;;
    finally (u_drain_fmt d') (u_drain_drop d');;
    ret (OutScript rs)
  | OIntoIterDebug pre =>
    s <- get;;
    put (u_new_buf (cap s) junk0);;
    '(rs, _) <- with_buf s (rs <- run_into_iter_script pre;;
                            finally u_into_iter_fmt u_into_iter_drop;;
                            ret rs);;
    ret (OutScript rs)
  end.

Fixpoint run_history_unstable (ops : list op) (s : cbuf) (w : world)
  : list (outcome out) * cbuf * world :=
  match ops with
  | [] => ([], s, w)
  | o :: rest =>
    match exec_unstable o s w with
    | (r, s', w') =>
      match run_history_unstable rest s' w' with
      | (rs, s'', w'') => (r :: rs, s'', w'')
      end
    end
  end.
