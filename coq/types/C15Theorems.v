(* C15 — theorems computed on the GENERATED terms of TypesGen.v.

   TypesGen.v is rewritten from <repo>/src/*.rs by tools/rs2coq_types before
   this file is compiled, so every statement below is re-checked against what
   the source says now.  Every proof is a computation (vm_compute) on closed
   terms; nothing is assumed (each theorem is followed by Print Assumptions).

   Parameter names are never spelled here: `nth_ty d 0` is "the first type
   parameter of the definition, whatever it is called". *)

From Coq Require Import String List.
Import ListNotations.
From CBT Require Import TypeModel TypesGen.
Local Open Scope string_scope.

Definition BUF := "crate::CircularBuffer".
Definition ITER := "crate::Iter".
Definition ITERMUT := "crate::IterMut".
Definition INTOITER := "crate::IntoIter".
Definition DRAIN := "crate::Drain".

(* variance of struct `name` in the parameter selected from its definition *)
Definition var (name : string) (sel : struct_def -> pref) : variance :=
  match find_def defs name with
  | Some d => variance_of defs name (sel d)
  | None => VUnknown
  end.
Definition T0 (d : struct_def) := PTy (nth_ty d 0).
Definition L0 (d : struct_def) := PLife (nth_life d 0).

(* (Send condition, Sync condition) of the struct applied to its own parameters,
   next to those of a reference type built from the same parameters *)
Definition auto_pair (t : ty) : cond * cond := (send_cond defs impls t, sync_cond defs impls t).
Definition auto_of (name : string) : option (cond * cond) :=
  match find_def defs name with Some d => Some (auto_pair (self_ty_of d)) | None => None end.
Definition auto_like (name : string) (like : struct_def -> ty) : option (cond * cond) :=
  match find_def defs name with Some d => Some (auto_pair (like d)) | None => None end.

Definition array_TN (d : struct_def) : ty := TArray (TParam (nth_ty d 0)) (CParam (nth_const d 0)).
Definition ref_slice (m : mutability) (d : struct_def) : ty :=
  TRef (LNamed (nth_life d 0)) m (TSlice (TParam (nth_ty d 0))).

Definition reqs (d : option struct_def) (send sync : list string) : option (cond * cond) :=
  match d with
  | Some d => Some (CReqs (map (fun tr => (nth_ty d 0, tr)) send),
                    CReqs (map (fun tr => (nth_ty d 0, tr)) sync))
  | None => None
  end.

Ltac compute_it := vm_compute; repeat (first [reflexivity | split | eexists]).

(* ============================================================ variance *)

Theorem buffer_covariant_T : var BUF T0 = Co.
Proof. compute_it. Qed.
Print Assumptions buffer_covariant_T.

Theorem iter_covariant_T : var ITER T0 = Co.
Proof. compute_it. Qed.
Print Assumptions iter_covariant_T.

Theorem iter_covariant_a : var ITER L0 = Co.
Proof. compute_it. Qed.
Print Assumptions iter_covariant_a.

Theorem drain_covariant_T : var DRAIN T0 = Co.
Proof. compute_it. Qed.
Print Assumptions drain_covariant_T.

Theorem drain_covariant_a : var DRAIN L0 = Co.
Proof. compute_it. Qed.
Print Assumptions drain_covariant_a.

Theorem itermut_invariant_T : var ITERMUT T0 = Inv.
Proof. compute_it. Qed.
Print Assumptions itermut_invariant_T.

Theorem itermut_covariant_a : var ITERMUT L0 = Co.
Proof. compute_it. Qed.
Print Assumptions itermut_covariant_a.

Theorem intoiter_covariant_T : var INTOITER T0 = Co.
Proof. compute_it. Qed.
Print Assumptions intoiter_covariant_T.

(* ============================================================ Send / Sync *)

(* CircularBuffer<N, T>  ~  [T; N] *)
Theorem buffer_auto_like_array : auto_of BUF = auto_like BUF array_TN.
Proof. compute_it. Qed.
Print Assumptions buffer_auto_like_array.

Theorem buffer_auto_value : auto_of BUF = reqs (find_def defs BUF) ["Send"] ["Sync"].
Proof. compute_it. Qed.
Print Assumptions buffer_auto_value.

(* Iter<'a, T>  ~  &'a [T] *)
Theorem iter_auto_like_shared_slice : auto_of ITER = auto_like ITER (ref_slice Shr).
Proof. compute_it. Qed.
Print Assumptions iter_auto_like_shared_slice.

Theorem iter_auto_value : auto_of ITER = reqs (find_def defs ITER) ["Sync"] ["Sync"].
Proof. compute_it. Qed.
Print Assumptions iter_auto_value.

(* IterMut<'a, T>  ~  &'a mut [T] *)
Theorem itermut_auto_like_mut_slice : auto_of ITERMUT = auto_like ITERMUT (ref_slice Mut).
Proof. compute_it. Qed.
Print Assumptions itermut_auto_like_mut_slice.

Theorem itermut_auto_value : auto_of ITERMUT = reqs (find_def defs ITERMUT) ["Send"] ["Sync"].
Proof. compute_it. Qed.
Print Assumptions itermut_auto_value.

(* IntoIter<N, T>  ~  [T; N] *)
Theorem intoiter_auto_like_array : auto_of INTOITER = auto_like INTOITER array_TN.
Proof. compute_it. Qed.
Print Assumptions intoiter_auto_like_array.

Theorem intoiter_auto_value : auto_of INTOITER = reqs (find_def defs INTOITER) ["Send"] ["Sync"].
Proof. compute_it. Qed.
Print Assumptions intoiter_auto_value.

(* ============================================================ const new *)

(* `pub const fn new() -> Self`, unconditional (no cfg), in an impl block that
   puts no trait bound on the element type *)
Theorem new_is_const :
  match the (inherent_methods impls BUF "new") with
  | Some (i, s) =>
      f_const s = true /\ f_vis s = VPub /\ f_unsafe s = false /\ f_async s = false /\
      f_recv s = RNone /\ f_args s = [] /\ f_cfg s = None /\ i_cfg i = None /\
      impl_trait_bounds i = [] /\ generics_trait_bounds (f_generics s) (f_where s) = [] /\
      resolved_ret defs i s = i_self i
  | None => False
  end.
Proof. compute_it. Qed.
Print Assumptions new_is_const.

(* ============================================================ Clone for Iter *)

(* exactly one `impl Clone for Iter`, positive, unconditional, with no trait
   bound at all (in particular none on the element type); a #[derive(Clone)]
   would show up here with its implied `T: Clone` bound *)
Theorem iter_clone_unconditional :
  map (fun i => (i_negative i, i_cfg i, impl_trait_bounds i))
      (impls_of defs impls "core::clone::Clone" ITER)
  = [(false, None, [])].
Proof. compute_it. Qed.
Print Assumptions iter_clone_unconditional.

(* ============================================================ borrows *)

(* Some (kind, true): the method is `pub`, unique, its result keeps a borrow
   of that kind on the buffer, and every lifetime in the result IS the
   lifetime of the receiver reference *)
Definition borrow (m : string) := borrow_of defs impls BUF m.

Theorem borrow_iter : borrow "iter" = Some (BShared, true).
Proof. compute_it. Qed.
Print Assumptions borrow_iter.
Theorem borrow_range : borrow "range" = Some (BShared, true).
Proof. compute_it. Qed.
Print Assumptions borrow_range.
Theorem borrow_as_slices : borrow "as_slices" = Some (BShared, true).
Proof. compute_it. Qed.
Print Assumptions borrow_as_slices.
Theorem borrow_get : borrow "get" = Some (BShared, true).
Proof. compute_it. Qed.
Print Assumptions borrow_get.
Theorem borrow_front : borrow "front" = Some (BShared, true).
Proof. compute_it. Qed.
Print Assumptions borrow_front.
Theorem borrow_back : borrow "back" = Some (BShared, true).
Proof. compute_it. Qed.
Print Assumptions borrow_back.
Theorem borrow_nth_front : borrow "nth_front" = Some (BShared, true).
Proof. compute_it. Qed.
Print Assumptions borrow_nth_front.
Theorem borrow_nth_back : borrow "nth_back" = Some (BShared, true).
Proof. compute_it. Qed.
Print Assumptions borrow_nth_back.

Theorem borrow_iter_mut : borrow "iter_mut" = Some (BMutable, true).
Proof. compute_it. Qed.
Print Assumptions borrow_iter_mut.
Theorem borrow_range_mut : borrow "range_mut" = Some (BMutable, true).
Proof. compute_it. Qed.
Print Assumptions borrow_range_mut.
Theorem borrow_as_mut_slices : borrow "as_mut_slices" = Some (BMutable, true).
Proof. compute_it. Qed.
Print Assumptions borrow_as_mut_slices.
Theorem borrow_make_contiguous : borrow "make_contiguous" = Some (BMutable, true).
Proof. compute_it. Qed.
Print Assumptions borrow_make_contiguous.
Theorem borrow_get_mut : borrow "get_mut" = Some (BMutable, true).
Proof. compute_it. Qed.
Print Assumptions borrow_get_mut.
Theorem borrow_front_mut : borrow "front_mut" = Some (BMutable, true).
Proof. compute_it. Qed.
Print Assumptions borrow_front_mut.
Theorem borrow_back_mut : borrow "back_mut" = Some (BMutable, true).
Proof. compute_it. Qed.
Print Assumptions borrow_back_mut.
Theorem borrow_nth_front_mut : borrow "nth_front_mut" = Some (BMutable, true).
Proof. compute_it. Qed.
Print Assumptions borrow_nth_front_mut.
Theorem borrow_nth_back_mut : borrow "nth_back_mut" = Some (BMutable, true).
Proof. compute_it. Qed.
Print Assumptions borrow_nth_back_mut.
Theorem borrow_drain : borrow "drain" = Some (BMutable, true).
Proof. compute_it. Qed.
Print Assumptions borrow_drain.

(* methods that hand out owned values keep no borrow (a sanity check of
   borrows_self in the other direction) *)
Theorem borrow_none_for_owned_results :
  map borrow ["len"; "pop_front"; "pop_back"; "push_back"; "is_empty"]
  = [Some (BNone, false); Some (BNone, false); Some (BNone, false); Some (BNone, false); Some (BNone, false)].
Proof. compute_it. Qed.
Print Assumptions borrow_none_for_owned_results.

(* ============================================================ lifetime ties *)

(* `view` is the result type of method m: View<'r, args of Self..> where 'r is
   the lifetime of the receiver reference and m takes `&self` (Shr) or
   `&mut self` (Mut).  So the lifetime parameter of the view IS the borrow of
   the buffer: the view cannot outlive the buffer, and the buffer stays
   borrowed (in that mode) while the view lives. *)
Definition tied (m view : string) (mode : mutability) (with_consts : bool) : Prop :=
  match the (inherent_methods impls BUF m) with
  | Some (i, s) =>
      exists l r ts cs,
        i_self i = TApp BUF [] ts cs /\
        f_recv s = RRef l mode /\ recv_life s = Some r /\
        m_ret (facts defs i s) = Some (TApp view [r] ts (if with_consts then cs else []))
  | None => False
  end.

Theorem iter_lifetime_tied : tied "iter" ITER Shr false.
Proof. compute_it. Qed.
Print Assumptions iter_lifetime_tied.

Theorem range_lifetime_tied : tied "range" ITER Shr false.
Proof. compute_it. Qed.
Print Assumptions range_lifetime_tied.

Theorem iter_mut_lifetime_tied : tied "iter_mut" ITERMUT Mut false.
Proof. compute_it. Qed.
Print Assumptions iter_mut_lifetime_tied.

Theorem range_mut_lifetime_tied : tied "range_mut" ITERMUT Mut false.
Proof. compute_it. Qed.
Print Assumptions range_mut_lifetime_tied.

Theorem drain_lifetime_tied : tied "drain" DRAIN Mut true.
Proof. compute_it. Qed.
Print Assumptions drain_lifetime_tied.

(* ============================================================ next *)

(* `Iterator::next` of each iterator type: result type (Self::Item resolved)
   and the borrow it keeps on the ITERATOR (none: items outlive the iterator
   value; what they may not outlive is the lifetime parameter). *)
Definition next_of (name : string) : option (ty * ty * borrow_kind) :=
  match the (trait_methods defs impls "core::iter::Iterator" name "next") with
  | Some (i, s) =>
      match m_ret (facts defs i s) with
      | Some r => Some (i_self i, r, m_borrow (facts defs i s))
      | None => None
      end
  | None => None
  end.
Definition opt_ (t : ty) : ty := TApp "core::option::Option" [] [t] [].

(* Drain::next returns an owned element: Option<T>, T the element parameter
   of the impl's self type, no lifetime in it, no borrow *)
Theorem drain_next_owned :
  exists l q cs, next_of DRAIN = Some (TApp DRAIN [l] [TParam q] cs, opt_ (TParam q), BNone).
Proof. compute_it. Qed.
Print Assumptions drain_next_owned.

Theorem intoiter_next_owned :
  exists q cs, next_of INTOITER = Some (TApp INTOITER [] [TParam q] cs, opt_ (TParam q), BNone).
Proof. compute_it. Qed.
Print Assumptions intoiter_next_owned.

(* Iter<'a, T>::next returns Option<&'a T> with the SAME named 'a *)
Theorem iter_next_item :
  exists a q, next_of ITER = Some (TApp ITER [LNamed a] [TParam q] [],
                                   opt_ (TRef (LNamed a) Shr (TParam q)), BNone).
Proof. compute_it. Qed.
Print Assumptions iter_next_item.

Theorem itermut_next_item :
  exists a q, next_of ITERMUT = Some (TApp ITERMUT [LNamed a] [TParam q] [],
                                      opt_ (TRef (LNamed a) Mut (TParam q)), BNone).
Proof. compute_it. Qed.
Print Assumptions itermut_next_item.
