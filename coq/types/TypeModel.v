(* C15 — a model of Rust TYPE DEFINITIONS AND SIGNATURES, and of the language
   rules that decide variance, auto traits (Send/Sync), lifetime elision and
   the borrow a method result keeps on its receiver.

   The terms this file computes on (struct definitions, impl headers, method
   signatures) are NOT written by hand: tools/rs2coq_types regenerates them
   from <repo>/src/*.rs into TypesGen.v on every run.  This file is the
   hand-written, trusted reading of the Rust Reference:
     - subtyping-and-variance chapter (variance table, composition),
     - special-types-and-traits / auto traits (Send, Sync),
     - lifetime-elision chapter (rules for fn items / methods).
   The reading itself is cross-checked against rustc by the witness programs
   in /verif/witness (each names the function of this file it tests). *)

From Coq Require Import String List Bool Arith.
Import ListNotations.
Local Open Scope string_scope.

(* ------------------------------------------------------------------ AST *)

Inductive lifetime :=
| LNamed (n : string)          (* 'a  (name without the apostrophe) *)
| LStatic                      (* 'static *)
| LElided.                     (* '_  or no lifetime written at all *)

Inductive mutability := Shr | Mut.

Inductive cexpr :=
| CParam (n : string)          (* a const generic parameter *)
| CLit (src : string)          (* an integer literal *)
| COther (src : string).       (* any other const expression, as source text *)

(* Generic arguments of a nominal type are kept per kind (lifetimes, types,
   consts).  Rust fixes the relative order inside each kind, so the i-th
   argument of a kind belongs to the i-th parameter of that kind. *)
Inductive ty :=
| TParam (n : string)                              (* type parameter T *)
| TSelf                                            (* Self *)
| TProj (base : ty) (assoc : string)               (* Self::Item, T::Item *)
| TRef (l : lifetime) (m : mutability) (t : ty)    (* &'a T, &'a mut T *)
| TPtr (m : mutability) (t : ty)                   (* *const T, *mut T *)
| TSlice (t : ty)                                  (* [T] *)
| TArray (t : ty) (len : cexpr)                    (* [T; N] *)
| TTuple (ts : list ty)                            (* (A, B), () *)
| TBase (n : string)                               (* usize, u8, bool, str, ! *)
| TFnPtr (args : list ty) (ret : ty)               (* fn(A) -> B *)
| TApp (n : string) (ls : list lifetime) (ts : list ty) (cs : list cexpr).

Inductive bound :=
| BTrait (maybe : bool) (path : string) (ls : list lifetime) (ts : list ty)
         (cs : list cexpr) (assoc : list (string * ty))   (* ?Sized: maybe = true *)
| BFn (path : string) (args : list ty) (ret : option ty)  (* FnMut(A) -> B *)
| BOutlives (l : lifetime).                               (* T: 'a *)

Inductive gparam :=
| GPLife (n : string) (outlives : list lifetime)
| GPTy (n : string) (bs : list bound)
| GPConst (n : string) (t : ty).

Inductive wpred :=
| WTy (t : ty) (bs : list bound)
| WLife (l : lifetime) (outlives : list lifetime).

Inductive vis := VPub | VCrate | VRestricted (p : string) | VPriv.

Inductive receiver :=
| RNone                                   (* associated function *)
| RRef (l : lifetime) (m : mutability)    (* &self, &'a self, &mut self *)
| RValue                                  (* self, mut self *)
| RTyped (t : ty).                        (* self: Box<Self> ... *)

Record field := { fd_name : string; fd_vis : vis; fd_ty : ty }.

Record struct_def := {
  s_name : string;                 (* crate::Name *)
  s_vis : vis;
  s_generics : list gparam;
  s_where : list wpred;
  s_fields : list field;
  s_derives : list string;         (* canonical trait paths from #[derive] *)
  s_repr : option string;
  s_src : string                   (* file:line, for the reader *)
}.

Record fn_sig := {
  f_name : string;
  f_vis : vis;
  f_const : bool;
  f_unsafe : bool;
  f_async : bool;
  f_generics : list gparam;
  f_where : list wpred;
  f_recv : receiver;
  f_args : list (string * ty);
  f_ret : option ty;               (* None = no `->` (unit) *)
  f_cfg : option string
}.

Record impl_block := {
  i_unsafe : bool;
  i_negative : bool;               (* impl !Trait for .. *)
  i_generics : list gparam;
  i_trait : option (string * (list lifetime * list ty * list cexpr));
  i_self : ty;
  i_where : list wpred;
  i_assoc : list (string * ty);    (* type Item = ..; *)
  i_consts : list string;
  i_fns : list fn_sig;
  i_cfg : option string;
  i_src : string
}.

(* ------------------------------------------------------- small helpers *)

Definition lifetime_eqb (a b : lifetime) : bool :=
  match a, b with
  | LNamed x, LNamed y => String.eqb x y
  | LStatic, LStatic => true
  | LElided, LElided => true
  | _, _ => false
  end.

Fixpoint find_str {A} (k : string) (l : list (string * A)) : option A :=
  match l with
  | [] => None
  | (k', v) :: r => if String.eqb k k' then Some v else find_str k r
  end.

Fixpoint index_of (k : string) (l : list string) : option nat :=
  match l with
  | [] => None
  | x :: r => if String.eqb k x then Some 0
              else match index_of k r with Some i => Some (S i) | None => None end
  end.

Fixpoint filter_map {A B} (f : A -> option B) (l : list A) : list B :=
  match l with
  | [] => []
  | x :: r => match f x with Some y => y :: filter_map f r | None => filter_map f r end
  end.

Definition life_params (g : list gparam) : list string :=
  filter_map (fun p => match p with GPLife n _ => Some n | _ => None end) g.
Definition ty_params (g : list gparam) : list string :=
  filter_map (fun p => match p with GPTy n _ => Some n | _ => None end) g.
Definition const_params (g : list gparam) : list string :=
  filter_map (fun p => match p with GPConst n _ => Some n | _ => None end) g.

Definition find_def (defs : list struct_def) (n : string) : option struct_def :=
  find (fun d => String.eqb (s_name d) n) defs.

(* `Name<'a.., T.., N..>` with the definition's own parameters as arguments *)
Definition self_ty_of (d : struct_def) : ty :=
  TApp (s_name d)
       (map LNamed (life_params (s_generics d)))
       (map TParam (ty_params (s_generics d)))
       (map CParam (const_params (s_generics d))).

Definition nth_life (d : struct_def) (i : nat) : string := nth i (life_params (s_generics d)) "?".
Definition nth_ty (d : struct_def) (i : nat) : string := nth i (ty_params (s_generics d)) "?".
Definition nth_const (d : struct_def) (i : nat) : string := nth i (const_params (s_generics d)) "?".

(* ---------------------------------------------------- std type table *)

Inductive variance := Bi | Co | Contra | Inv | VUnknown.
(* Bi: the parameter does not occur; VUnknown: the model cannot tell
   (unknown type, recursion deeper than the fuel, Self in a field ...) *)

Inductive auto := Send | Sync.

Inductive rule :=
| RuleNever
| RuleReqs (rs : list (nat * auto)).   (* (index of a type parameter, trait) *)

Record std_entry := {
  e_name : string;
  e_tyvar : list variance;   (* variance in each type parameter (no std type used here has lifetime parameters) *)
  e_send : rule;
  e_sync : rule
}.

Definition structural1 (n : string) (v : variance) : std_entry :=
  {| e_name := n; e_tyvar := [v];
     e_send := RuleReqs [(0, Send)]; e_sync := RuleReqs [(0, Sync)] |}.
Definition always0 (n : string) : std_entry :=
  {| e_name := n; e_tyvar := []; e_send := RuleReqs []; e_sync := RuleReqs [] |}.
(* interior mutability: invariant, Send iff T: Send, never Sync *)
Definition cell1 (n : string) : std_entry :=
  {| e_name := n; e_tyvar := [Inv]; e_send := RuleReqs [(0, Send)]; e_sync := RuleNever |}.

(* Rust Reference, "Subtyping and Variance" (table) and the documented
   auto-trait impls of each std type. *)
Definition std_table : list std_entry :=
  [ structural1 "core::mem::MaybeUninit" Co;
    structural1 "core::mem::ManuallyDrop" Co;
    structural1 "core::marker::PhantomData" Co;
    structural1 "core::ops::Range" Co;
    structural1 "core::ops::RangeInclusive" Co;
    structural1 "core::option::Option" Co;
    structural1 "core::num::Wrapping" Co;
    structural1 "alloc::boxed::Box" Co;
    structural1 "alloc::vec::Vec" Co;
    structural1 "alloc::collections::VecDeque" Co;
    {| e_name := "core::result::Result"; e_tyvar := [Co; Co];
       e_send := RuleReqs [(0, Send); (1, Send)]; e_sync := RuleReqs [(0, Sync); (1, Sync)] |};
    (* NonNull<T>: covariant, and neither Send nor Sync *)
    {| e_name := "core::ptr::NonNull"; e_tyvar := [Co]; e_send := RuleNever; e_sync := RuleNever |};
    cell1 "core::cell::UnsafeCell";
    cell1 "core::cell::Cell";
    cell1 "core::cell::RefCell";
    {| e_name := "alloc::rc::Rc"; e_tyvar := [Co]; e_send := RuleNever; e_sync := RuleNever |};
    {| e_name := "alloc::sync::Arc"; e_tyvar := [Co];
       e_send := RuleReqs [(0, Send); (0, Sync)]; e_sync := RuleReqs [(0, Send); (0, Sync)] |};
    always0 "alloc::string::String";
    always0 "core::sync::atomic::AtomicUsize";
    always0 "core::sync::atomic::AtomicBool";
    always0 "core::marker::PhantomPinned";
    always0 "core::convert::Infallible";
    always0 "core::cmp::Ordering" ].

(* `std::x::Y` is the same item as `core::x::Y` / `alloc::x::Y` *)
Definition strip_std (n : string) : list string :=
  if String.prefix "std::" n
  then let r := String.substring 5 (String.length n - 5) n in ["core::" ++ r; "alloc::" ++ r]
  else [n].

Definition find_std (n : string) : option std_entry :=
  find (fun e => existsb (String.eqb (e_name e)) (strip_std n)) std_table.

(* ----------------------------------------------------------- variance *)

(* join = greatest lower bound of rustc's variance lattice, with Bi as unit *)
Definition vjoin (a b : variance) : variance :=
  match a, b with
  | VUnknown, _ | _, VUnknown => VUnknown
  | Bi, x | x, Bi => x
  | Co, Co => Co
  | Contra, Contra => Contra
  | _, _ => Inv
  end.

(* variance of an occurrence with variance v, placed in a position of variance ctx *)
Definition xform (ctx v : variance) : variance :=
  match v with
  | Bi => Bi
  | VUnknown => VUnknown
  | _ => match ctx with
         | Co => v
         | Contra => match v with Co => Contra | Contra => Co | x => x end
         | Inv => Inv
         | Bi => Bi
         | VUnknown => VUnknown
         end
  end.

Definition vjoin_all (l : list variance) : variance := fold_right vjoin Bi l.

Inductive pref := PLife (n : string) | PTy (n : string).

Definition life_occ (p : pref) (l : lifetime) : variance :=
  match p, l with
  | PLife a, LNamed b => if String.eqb a b then Co else Bi
  | _, _ => Bi
  end.

Fixpoint zip_with {A B C} (f : A -> B -> C) (a : list A) (b : list B) : list C :=
  match a, b with
  | x :: a', y :: b' => f x y :: zip_with f a' b'
  | _, _ => []
  end.

(* variance of the occurrences of parameter p inside type t *)
Fixpoint var_in_ty (fuel : nat) (defs : list struct_def) (p : pref) (t : ty) : variance :=
  match fuel with
  | O => VUnknown
  | S f =>
    match t with
    | TParam n => match p with PTy a => if String.eqb a n then Co else Bi | _ => Bi end
    | TSelf => VUnknown
    | TProj _ _ => VUnknown
    | TRef l m u =>
        vjoin (life_occ p l)
              (xform (match m with Shr => Co | Mut => Inv end) (var_in_ty f defs p u))
    | TPtr Shr u => var_in_ty f defs p u
    | TPtr Mut u => xform Inv (var_in_ty f defs p u)
    | TSlice u => var_in_ty f defs p u
    | TArray u _ => var_in_ty f defs p u
    | TTuple us => vjoin_all (map (var_in_ty f defs p) us)
    | TBase _ => Bi
    | TFnPtr args ret =>
        vjoin (xform Contra (vjoin_all (map (var_in_ty f defs p) args)))
              (var_in_ty f defs p ret)
    | TApp n ls ts cs =>
        match find_def defs n with
        | Some d =>
            let lps := life_params (s_generics d) in
            let tps := ty_params (s_generics d) in
            if negb (Nat.eqb (length lps) (length ls) && Nat.eqb (length tps) (length ts))
            then VUnknown
            else
              (* variance of the nominal type in each of its own parameters:
                 join over its fields (one level down, less fuel) *)
              let own q := vjoin_all (map (fun fd => var_in_ty f defs q (fd_ty fd)) (s_fields d)) in
              vjoin
                (vjoin_all (zip_with (fun a l => xform (own (PLife a)) (life_occ p l)) lps ls))
                (vjoin_all (zip_with (fun a u => xform (own (PTy a)) (var_in_ty f defs p u)) tps ts))
        | None =>
            match find_std n with
            | Some e =>
                if negb (Nat.eqb (length (e_tyvar e)) (length ts) && Nat.eqb (length ls) 0)
                then VUnknown
                else vjoin_all (zip_with (fun v u => xform v (var_in_ty f defs p u)) (e_tyvar e) ts)
            | None => VUnknown
            end
        end
    end
  end.

Definition FUEL := 24.

(* variance of the named struct in one of its own parameters *)
Definition variance_of (defs : list struct_def) (name : string) (p : pref) : variance :=
  match find_def defs name with
  | None => VUnknown
  | Some d =>
      let declared := match p with
                      | PLife a => existsb (String.eqb a) (life_params (s_generics d))
                      | PTy a => existsb (String.eqb a) (ty_params (s_generics d))
                      end in
      if declared
      then vjoin_all (map (fun fd => var_in_ty FUEL defs p (fd_ty fd)) (s_fields d))
      else VUnknown
  end.

(* ------------------------------------------------- auto traits: Send/Sync *)

(* normal form: never / cannot tell / a sorted duplicate-free list of
   requirements (type parameter, trait) *)
Inductive cond :=
| CNever
| CUnknown (why : string)
| CReqs (rs : list (string * string)).

Definition auto_name (a : auto) : string := match a with Send => "Send" | Sync => "Sync" end.

Definition auto_of_path (p : string) : option auto :=
  if String.eqb p "core::marker::Send" || String.eqb p "std::marker::Send" || String.eqb p "Send" then Some Send
  else if String.eqb p "core::marker::Sync" || String.eqb p "std::marker::Sync" || String.eqb p "Sync" then Some Sync
  else None.

Definition req_ltb (a b : string * string) : bool :=
  match String.compare (fst a) (fst b) with
  | Lt => true
  | Gt => false
  | Eq => match String.compare (snd a) (snd b) with Lt => true | _ => false end
  end.
Definition req_eqb (a b : string * string) : bool :=
  String.eqb (fst a) (fst b) && String.eqb (snd a) (snd b).

Fixpoint req_insert (x : string * string) (l : list (string * string)) :=
  match l with
  | [] => [x]
  | y :: r => if req_eqb x y then l
              else if req_ltb x y then x :: l
              else y :: req_insert x r
  end.

Definition cconj (a b : cond) : cond :=
  match a, b with
  | CNever, _ | _, CNever => CNever
  | CUnknown w, _ | _, CUnknown w => CUnknown w
  | CReqs x, CReqs y => CReqs (fold_right req_insert y x)
  end.
Definition cconj_all (l : list cond) : cond := fold_right cconj (CReqs []) l.

Definition head_name (t : ty) : option string :=
  match t with TApp n _ _ _ => Some n | _ => None end.

(* #[derive(D)] on `struct S<T..>` stands for `impl<T: D ..> D for S<T..>` *)
Definition derive_impls (defs : list struct_def) : list impl_block :=
  flat_map (fun d =>
    map (fun tr =>
      {| i_unsafe := false; i_negative := false;
         i_generics := map (fun g => match g with
                                     | GPTy n bs => GPTy n (BTrait false tr [] [] [] [] :: bs)
                                     | x => x end) (s_generics d);
         i_trait := Some (tr, ([], [], []));
         i_self := self_ty_of d;
         i_where := s_where d;
         i_assoc := []; i_consts := []; i_fns := [];
         i_cfg := None;
         i_src := "derive on " ++ s_src d |}) (s_derives d)) defs.

Definition all_impls (defs : list struct_def) (impls : list impl_block) : list impl_block :=
  impls ++ derive_impls defs.

Definition trait_is (p : string) (i : impl_block) : bool :=
  match i_trait i with
  | Some (q, _) => existsb (fun a => existsb (String.eqb a) (strip_std q)) (strip_std p)
  | None => false
  end.

(* the impls of trait `tr` whose self type is the nominal type `name` *)
Definition impls_of (defs : list struct_def) (impls : list impl_block) (tr name : string) : list impl_block :=
  filter (fun i => trait_is tr i &&
                   match head_name (i_self i) with Some n => String.eqb n name | None => false end)
         (all_impls defs impls).

(* every (bounded type, trait path) of an impl header: inline bounds and where clause *)
Definition bound_traits (bs : list bound) : list string :=
  filter_map (fun b => match b with
                       | BTrait false p _ _ _ _ => Some p
                       | BFn p _ _ => Some p
                       | _ => None end) bs.
Definition generics_trait_bounds (g : list gparam) (w : list wpred) : list (ty * string) :=
  flat_map (fun p => match p with
                     | GPTy n bs => map (fun b => (TParam n, b)) (bound_traits bs)
                     | _ => [] end) g
  ++ flat_map (fun p => match p with
                        | WTy t bs => map (fun b => (t, b)) (bound_traits bs)
                        | _ => [] end) w.
Definition impl_trait_bounds (i : impl_block) : list (ty * string) :=
  generics_trait_bounds (i_generics i) (i_where i).

Definition all_distinct_params (ts : list ty) : option (list string) :=
  let names := filter_map (fun t => match t with TParam n => Some n | _ => None end) ts in
  if Nat.eqb (length names) (length ts) && Nat.eqb (length (nodup string_dec names)) (length names)
  then Some names else None.

Section AutoCond.
  Variable defs : list struct_def.
  Variable impls : list impl_block.

  (* when does `t : tr` hold, as requirements on the type parameters in t *)
  Fixpoint auto_cond (fuel : nat) (tr : auto) (t : ty) : cond :=
    match fuel with
    | O => CUnknown "out of fuel"
    | S f =>
      (* requirement `arg : trait-name` *)
      let req_on (trn : string) (arg : ty) : cond :=
        match auto_of_path trn with
        | Some a => auto_cond f a arg
        | None => match arg with
                  | TParam q => CReqs [(q, trn)]
                  | _ => CUnknown ("non-auto bound " ++ trn ++ " on a compound type")
                  end
        end in
      (* a condition over parameters `names`, instantiated with `args` *)
      let inst (names : list string) (args : list ty) (c : cond) : cond :=
        match c with
        | CReqs rs =>
            cconj_all (map (fun r => match index_of (fst r) names with
                                     | Some i => match nth_error args i with
                                                 | Some a => req_on (snd r) a
                                                 | None => CUnknown "arity"
                                                 end
                                     | None => CUnknown ("unbound " ++ fst r)
                                     end) rs)
        | x => x
        end in
      match t with
      | TParam n => CReqs [(n, auto_name tr)]
      | TSelf => CUnknown "Self"
      | TProj _ _ => CUnknown "projection"
      | TBase _ => CReqs []
      | TRef _ Shr u => auto_cond f Sync u        (* &T: Send iff T: Sync;  &T: Sync iff T: Sync *)
      | TRef _ Mut u => auto_cond f tr u          (* &mut T: Send iff T: Send; Sync iff T: Sync *)
      | TPtr _ _ => CNever                        (* raw pointers are neither *)
      | TSlice u => auto_cond f tr u
      | TArray u _ => auto_cond f tr u
      | TTuple us => cconj_all (map (auto_cond f tr) us)
      | TFnPtr _ _ => CReqs []
      | TApp n ls ts cs =>
          match find_def defs n with
          | Some d =>
              let tps := ty_params (s_generics d) in
              if negb (Nat.eqb (length tps) (length ts)) then CUnknown "arity" else
              let own : cond :=       (* over d's own type parameters *)
                match impls_of defs impls ("core::marker::" ++ auto_name tr) n with
                | [] => cconj_all (map (fun fd => auto_cond f tr (fd_ty fd)) (s_fields d))
                | [i] =>
                    if i_negative i then CNever else
                    match i_self i with
                    | TApp _ _ its _ =>
                        match all_distinct_params its with
                        | Some inames =>
                            (* the impl's where-clause, over the impl's parameters,
                               renamed positionally to d's parameters *)
                            inst inames (map TParam tps)
                                 (cconj_all (map (fun b =>
                                    match fst b with
                                    | TParam q => CReqs [(q, snd b)]
                                    | _ => CUnknown "bound on a compound type in an auto-trait impl"
                                    end) (impl_trait_bounds i)))
                        | None => CUnknown "specialised auto-trait impl"
                        end
                    | _ => CUnknown "impl self type"
                    end
                | _ => CUnknown "several auto-trait impls"
                end in
              inst tps ts own
          | None =>
              match find_std n with
              | Some e =>
                  if negb (Nat.eqb (length (e_tyvar e)) (length ts)) then CUnknown "arity" else
                  match (match tr with Send => e_send e | Sync => e_sync e end) with
                  | RuleNever => CNever
                  | RuleReqs rs =>
                      cconj_all (map (fun r => match nth_error ts (fst r) with
                                               | Some a => auto_cond f (snd r) a
                                               | None => CUnknown "arity"
                                               end) rs)
                  end
              | None => CUnknown ("unknown type " ++ n)
              end
          end
      end
    end.

  Definition send_cond (t : ty) : cond := auto_cond FUEL Send t.
  Definition sync_cond (t : ty) : cond := auto_cond FUEL Sync t.
End AutoCond.

(* ------------------------------------------- lifetime elision, borrows *)

(* the name given to the receiver's lifetime when it is elided (`&self`);
   the apostrophe keeps it apart from every source-level name *)
Definition self_life : lifetime := LNamed "'self".
Definition arg_life : lifetime := LNamed "'arg".

(* all lifetimes written (or elided) in a type, in order *)
Fixpoint ty_lifetimes (fuel : nat) (defs : list struct_def) (t : ty) : list lifetime :=
  match fuel with
  | O => [LElided]
  | S f =>
    match t with
    | TParam _ | TSelf | TBase _ => []
    | TProj b _ => ty_lifetimes f defs b
    | TRef l _ u => l :: ty_lifetimes f defs u
    | TPtr _ u | TSlice u | TArray u _ => ty_lifetimes f defs u
    | TTuple us => flat_map (ty_lifetimes f defs) us
    | TFnPtr a r => flat_map (ty_lifetimes f defs) a ++ ty_lifetimes f defs r
    | TApp n ls ts _ =>
        (* `Iter<T>` written without its lifetime argument means `Iter<'_, T>` *)
        let hidden := match find_def defs n with
                      | Some d => match ls with
                                  | [] => map (fun _ => LElided) (life_params (s_generics d))
                                  | _ => []
                                  end
                      | None => []
                      end in
        hidden ++ ls ++ flat_map (ty_lifetimes f defs) ts
    end
  end.

(* replace every elided lifetime by l *)
Fixpoint subst_elided (fuel : nat) (defs : list struct_def) (l : lifetime) (t : ty) : ty :=
  match fuel with
  | O => t
  | S f =>
    let sl x := match x with LElided => l | y => y end in
    match t with
    | TParam _ | TSelf | TBase _ => t
    | TProj b a => TProj (subst_elided f defs l b) a
    | TRef x m u => TRef (sl x) m (subst_elided f defs l u)
    | TPtr m u => TPtr m (subst_elided f defs l u)
    | TSlice u => TSlice (subst_elided f defs l u)
    | TArray u n => TArray (subst_elided f defs l u) n
    | TTuple us => TTuple (map (subst_elided f defs l) us)
    | TFnPtr a r => TFnPtr a r           (* elided lifetimes in fn pointers are higher-ranked: not touched *)
    | TApp n ls ts cs =>
        let ls' := match find_def defs n, ls with
                   | Some d, [] => map (fun _ => l) (life_params (s_generics d))
                   | _, _ => map sl ls
                   end in
        TApp n ls' (map (subst_elided f defs l) ts) cs
    end
  end.

Definition has_elided (defs : list struct_def) (t : ty) : bool :=
  existsb (lifetime_eqb LElided) (ty_lifetimes FUEL defs t).

Definition ret_ty (s : fn_sig) : ty := match f_ret s with Some t => t | None => TTuple [] end.

Definition recv_life (s : fn_sig) : option lifetime :=
  match f_recv s with
  | RRef LElided _ => Some self_life
  | RRef l _ => Some l
  | _ => None
  end.

(* Reference, "Lifetime elision": (1) each elided input lifetime is a fresh
   parameter; (2) if there is exactly one input lifetime it is given to all
   elided output lifetimes; (3) if the receiver is &self / &mut self, ITS
   lifetime is given to all elided output lifetimes; otherwise eliding an
   output lifetime is an error (None). *)
Definition elab_ret (defs : list struct_def) (s : fn_sig) : option ty :=
  let r := ret_ty s in
  match recv_life s with
  | Some l => Some (subst_elided FUEL defs l r)
  | None =>
      if negb (has_elided defs r) then Some r else
      match flat_map (fun a => ty_lifetimes FUEL defs (snd a)) (f_args s) with
      | [LElided] => Some (subst_elided FUEL defs arg_life r)
      | [l] => Some (subst_elided FUEL defs l r)
      | _ => None
      end
  end.

Inductive borrow_kind :=
| BNone        (* the result keeps no borrow of the receiver *)
| BShared      (* shared borrow of the receiver for the receiver reference's lifetime *)
| BMutable     (* mutable (exclusive) borrow, likewise *)
| BMove        (* the receiver is consumed *)
| BUnknown.

(* the borrow of `self` that stays alive as long as the method's result *)
Definition borrows_self (defs : list struct_def) (s : fn_sig) : borrow_kind :=
  match f_recv s with
  | RNone => BNone
  | RValue => BMove
  | RTyped _ => BUnknown
  | RRef l m =>
      match recv_life s, elab_ret defs s with
      | Some rl, Some r =>
          if existsb (lifetime_eqb rl) (ty_lifetimes FUEL defs r)
          then match m with Shr => BShared | Mut => BMutable end
          else BNone
      | _, _ => BUnknown
      end
  end.

(* every lifetime of the elaborated result is the receiver's: the result
   cannot be used after the borrow of the receiver ends, and cannot be
   'static or tied to something else *)
Definition ret_only_recv_life (defs : list struct_def) (s : fn_sig) : bool :=
  match recv_life s, elab_ret defs s with
  | Some rl, Some r =>
      let ls := ty_lifetimes FUEL defs r in
      negb (Nat.eqb (length ls) 0) && forallb (lifetime_eqb rl) ls
  | _, _ => false
  end.

(* ------------------------------------------------------ method lookup *)

Definition is_inherent_for (name : string) (i : impl_block) : bool :=
  match i_trait i, head_name (i_self i) with
  | None, Some n => String.eqb n name
  | _, _ => false
  end.

(* the methods called `m` in the inherent impls of `name` *)
Definition inherent_methods (impls : list impl_block) (name m : string) : list (impl_block * fn_sig) :=
  flat_map (fun i => if is_inherent_for name i
                     then map (fun s => (i, s)) (filter (fun s => String.eqb (f_name s) m) (i_fns i))
                     else []) impls.

Definition trait_methods (defs : list struct_def) (impls : list impl_block) (tr name m : string)
  : list (impl_block * fn_sig) :=
  flat_map (fun i => map (fun s => (i, s)) (filter (fun s => String.eqb (f_name s) m) (i_fns i)))
           (impls_of defs impls tr name).

Definition the {A} (l : list A) : option A := match l with [x] => Some x | _ => None end.

(* the anonymous lifetimes `'_` of an impl header belong to the impl, not to
   its methods: they get a name of their own before `Self` is substituted *)
Definition impl_life : lifetime := LNamed "'impl".

(* `Self` and `Self::X` resolved inside an impl block *)
Fixpoint resolve_self (fuel : nat) (defs : list struct_def) (i : impl_block) (t : ty) : ty :=
  match fuel with
  | O => t
  | S f =>
    match t with
    | TSelf => subst_elided FUEL defs impl_life (i_self i)
    | TProj TSelf a => match find_str a (i_assoc i) with
                       | Some u => resolve_self f defs i u
                       | None => t end
    | TProj b a => TProj (resolve_self f defs i b) a
    | TRef l m u => TRef l m (resolve_self f defs i u)
    | TPtr m u => TPtr m (resolve_self f defs i u)
    | TSlice u => TSlice (resolve_self f defs i u)
    | TArray u n => TArray (resolve_self f defs i u) n
    | TTuple us => TTuple (map (resolve_self f defs i) us)
    | TFnPtr a r => TFnPtr (map (resolve_self f defs i) a) (resolve_self f defs i r)
    | TApp n ls ts cs => TApp n ls (map (resolve_self f defs i) ts) cs
    | _ => t
    end
  end.

Definition resolved_ret (defs : list struct_def) (i : impl_block) (s : fn_sig) : ty :=
  resolve_self FUEL defs i (ret_ty s).

(* a `pub` method of an inherent impl, with the facts the theorems need *)
Record method_facts := {
  m_pub : bool;
  m_const : bool;
  m_cfg : option string;
  m_borrow : borrow_kind;
  m_only_recv_life : bool;
  m_ret : option ty               (* elaborated (elision applied, Self resolved) *)
}.

Definition facts (defs : list struct_def) (i : impl_block) (s : fn_sig) : method_facts :=
  let s' := {| f_name := f_name s; f_vis := f_vis s; f_const := f_const s; f_unsafe := f_unsafe s;
               f_async := f_async s; f_generics := f_generics s; f_where := f_where s;
               f_recv := f_recv s; f_args := f_args s;
               f_ret := Some (resolved_ret defs i s); f_cfg := f_cfg s |} in
  {| m_pub := match f_vis s with VPub => true | _ => false end;
     m_const := f_const s;
     m_cfg := f_cfg s;
     m_borrow := borrows_self defs s';
     m_only_recv_life := ret_only_recv_life defs s';
     m_ret := elab_ret defs s' |}.

Definition inherent_facts (defs : list struct_def) (impls : list impl_block) (name m : string)
  : option method_facts :=
  match the (inherent_methods impls name m) with
  | Some (i, s) => Some (facts defs i s)
  | None => None
  end.

Definition borrow_of (defs : list struct_def) (impls : list impl_block) (name m : string)
  : option (borrow_kind * bool) :=
  match inherent_facts defs impls name m with
  | Some mf => if m_pub mf then Some (m_borrow mf, m_only_recv_life mf) else None
  | None => None
  end.
