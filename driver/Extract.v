(* Extraction of the executable model and specification for the
   correspondence check. ExtrOcamlBasic only: Z stays Coq's binary Z. *)
From CB Require Import Spec Unstable.
Require Import ExtrOcamlBasic.
Extraction Language OCaml.
Extraction "model.ml" exec exec_unstable spec_step abs new_buf junk0 mkW mkB mkE WF W usize_max Z.add Z.sub Z.mul Z.div_eucl Z.compare Z.of_nat Z.to_nat.
