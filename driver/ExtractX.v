(* Extraction of the evaluator cross-check (theories/XCheck.v): the same
   Gallina function that [vm_compute] evaluates inside Coq, extracted the
   same way as the model in Extract.v (ExtrOcamlBasic only, no Extract
   Constant: Z stays Coq's binary Z, nat stays unary). *)
From CB Require Import XCheck.
Require Import ExtrOcamlBasic.
Extraction Language OCaml.
Extraction "xmodel.ml" xc_batch xc_run xc_count xc_ntags xc_ntemplates.
