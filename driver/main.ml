(* main.ml — driver for the extracted model and specification.
   Reads a case file (see /verif/DESIGN.md, "case language"), runs every
   operation through Model.exec and Model.spec_step, and prints one "m" line
   (model) and one "s" line (specification) per operation in the same format
   the Rust harness uses for the implementation. Hand-written, trusted only as
   part of the correspondence check. *)

open Model

(* ---- Z <-> int / string ------------------------------------------------ *)

let rec pos_of_int (n : int) : positive =
  if n = 1 then XH
  else if n land 1 = 0 then XO (pos_of_int (n lsr 1))
  else XI (pos_of_int (n lsr 1))

let z_of_int (n : int) : z =
  if n = 0 then Z0 else if n > 0 then Zpos (pos_of_int n) else Zneg (pos_of_int (-n))

let rec pos_bits = function XH -> 1 | XO p | XI p -> 1 + pos_bits p

let rec int_of_pos = function
  | XH -> 1
  | XO p -> 2 * int_of_pos p
  | XI p -> 2 * int_of_pos p + 1

let z10 = z_of_int 10

let rec string_of_pos_slow (zv : z) : string =
  (* zv > 0 *)
  let (q, r) = Z.div_eucl zv z10 in
  let d = (match r with Z0 -> 0 | Zpos p -> int_of_pos p | Zneg _ -> assert false) in
  let ds = string_of_int d in
  match q with Z0 -> ds | _ -> string_of_pos_slow q ^ ds

let string_of_z (zv : z) : string =
  match zv with
  | Z0 -> "0"
  | Zpos p -> if pos_bits p <= 61 then string_of_int (int_of_pos p) else string_of_pos_slow zv
  | Zneg p ->
    if pos_bits p <= 61 then string_of_int (- (int_of_pos p))
    else "-" ^ string_of_pos_slow (Zpos p)

let z_of_string (s : string) : z =
  let neg = String.length s > 0 && s.[0] = '-' in
  let body = if neg then String.sub s 1 (String.length s - 1) else s in
  let v =
    if String.length body <= 17 then z_of_int (int_of_string body)
    else begin
      let acc = ref Z0 in
      String.iter (fun c ->
          let d = Char.code c - 48 in
          if d < 0 || d > 9 then failwith ("bad number " ^ s);
          acc := Z.add (Z.mul !acc z10) (z_of_int d)) body;
      !acc
    end in
  if neg then (match v with Z0 -> Z0 | Zpos p -> Zneg p | Zneg p -> Zpos p) else v

let rec int_of_nat = function O -> 0 | S n -> 1 + int_of_nat n
let int_of_z zv = match zv with Z0 -> 0 | Zpos p -> int_of_pos p | Zneg p -> - (int_of_pos p)

(* ---- printing ------------------------------------------------------------ *)

let s_elem (e : elem) = string_of_z e.eid ^ ":" ^ string_of_z e.eval
let s_pe ((p, e) : z * elem) = string_of_z p ^ "@" ^ s_elem e
let s_list f l = if l = [] then "-" else String.concat "," (List.map f l)

(* long lists are printed as #<len>:<h1>.<h2>, exactly as the harness does *)
let digest_from = 300
(* element type of the current case: the harness prints u8 as 0:val and the zero-sized type as 0:0 *)
let elem_kind = ref "E"
let s_elem_norm (e : elem) =
  match !elem_kind with
  | "u8" -> "0:" ^ string_of_z e.eval
  | "Z" -> "0:0"
  | _ -> s_elem e
let s_contents (l : elem list) : string =
  let n = List.length l in
  if n < digest_from then s_list s_elem l
  else begin
    let h1 = ref 7 and h2 = ref 11 in
    List.iter (fun e ->
        String.iter (fun c ->
            h1 := (!h1 * 1000003 + Char.code c) mod 2147483647;
            h2 := (!h2 * 998244353 + Char.code c + 1) mod 2147483629) (s_elem_norm e);
        h1 := (!h1 * 1000003 + 44) mod 2147483647;
        h2 := (!h2 * 998244353 + 45) mod 2147483629) l;
    Printf.sprintf "#%d:%d.%d" n !h1 !h2
  end

let s_kind = function
  | PAssert -> "assert" | PDebugAssert -> "dassert" | POverflow -> "overflow"
  | PDivZero -> "divzero" | PBounds -> "bounds" | PExpect -> "expect"
  | PUnimplemented -> "unimpl" | PUser -> "user" | PFuel -> "fuel"
  | PMemFault -> "memfault" | PAbort -> "abort"

let s_sres = function
  | RItem None -> "inone"
  | RItem (Some x) -> "i(" ^ s_pe x ^ ")"
  | RLen n -> "l" ^ string_of_z n
  | RList l -> "L[" ^ s_list s_pe l ^ "]"

(* [nth k] on an iterator (script token t<k>): the model has no such method (the crate does not override
   it); by the Iterator contract it is k+1 calls of next of which only the last result is seen. The token is
   expanded into k+1 SNext steps and [script_mask] says which results of the last parsed script are printed. *)
let script_mask : bool list ref = ref []
let mask_results (l : 'a list) : 'a list =
  if !script_mask = [] || List.length !script_mask <> List.length l then l
  else List.concat (List.map2 (fun keep x -> if keep then [x] else []) !script_mask l)

let s_out = function
  | OutUnit -> "unit"
  | OutBool b -> if b then "b1" else "b0"
  | OutZ n -> "z" ^ string_of_z n
  | OutOpt None -> "none"
  | OutOpt (Some e) -> "some(" ^ s_elem e ^ ")"
  | OutRef None -> "rnone"
  | OutRef (Some x) -> "ref(" ^ s_pe x ^ ")"
  | OutList l -> "list[" ^ s_list s_elem l ^ "]"
  | OutSlices (a, b) -> "sl[" ^ s_list s_pe a ^ "|" ^ s_list s_pe b ^ "]"
  | OutScript l0 ->
    let l = mask_results l0 in
    "sc[" ^ (if l = [] then "-" else String.concat ";" (List.map s_sres l)) ^ "]"
  | OutOrd None -> "ordnone"
  | OutOrd (Some Lt) -> "ordlt"
  | OutOrd (Some Eq) -> "ordeq"
  | OutOrd (Some Gt) -> "ordgt"
  | OutRead (n, d) -> "rd" ^ string_of_z n ^ "[" ^ s_list s_elem d ^ "]"

let s_event = function
  | EvDrop e -> "D" ^ s_elem e
  | EvClone (a, b) -> "C" ^ s_elem a ^ ">" ^ s_elem b
  | EvCall e -> "F" ^ s_elem e
  | EvNext -> "X"
  | EvEq (a, b) -> "Q" ^ s_elem a ^ "=" ^ s_elem b
  | EvCmp (a, b) -> "M" ^ s_elem a ^ "?" ^ s_elem b
  | EvHashLen n -> "HL" ^ string_of_z n
  | EvHash e -> "H" ^ s_elem e
  | EvFmt e -> "T" ^ s_elem e
  | EvAlloc -> "A"

(* ---- parsing --------------------------------------------------------------- *)

let split c s = if s = "-" || s = "" then [] else String.split_on_char c s

let p_elem (s : string) : elem =
  match String.split_on_char ':' s with
  | [a; b] -> { eid = z_of_string a; eval = z_of_string b }
  | _ -> failwith ("bad elem " ^ s)

let p_elems s = List.map p_elem (split ',' s)

let p_bound (s : string) : bound =
  if s = "u" then BUnb
  else if s.[0] = 'i' then BIncl (z_of_string (String.sub s 1 (String.length s - 1)))
  else if s.[0] = 'e' then BExcl (z_of_string (String.sub s 1 (String.length s - 1)))
  else failwith ("bad bound " ^ s)

let p_step (s : string) : sstep =
  match s with
  | "n" -> SNext | "b" -> SNextBack | "l" -> SLen | "c" -> SClone
  | _ ->
    if String.length s > 3 && String.sub s 0 3 = "sn=" then
      SNextSet (p_elem (String.sub s 3 (String.length s - 3)))
    else if String.length s > 3 && String.sub s 0 3 = "sb=" then
      SNextBackSet (p_elem (String.sub s 3 (String.length s - 3)))
    else failwith ("bad step " ^ s)

let p_script s =
  let toks = split ',' s in
  let expand t =
    if String.length t > 1 && t.[0] = 't' then begin
      let k = int_of_string (String.sub t 1 (String.length t - 1)) in
      List.init (k + 1) (fun i -> (SNext, i = k))
    end else [(p_step t, true)] in
  let steps = List.concat (List.map expand toks) in
  script_mask := (if List.for_all snd steps then [] else List.map snd steps);
  List.map fst steps

let p_fam = function "std" -> Std | "eio" -> Eio | "aio" -> Aio | s -> failwith ("bad fam " ^ s)

let p_form = function
  | "slice" -> EqSlice | "array" -> EqArray | "slice_ref" -> EqSliceRef
  | "slice_mut" -> EqSliceMut | "array_ref" -> EqArrayRef | "array_mut" -> EqArrayMut
  | s -> failwith ("bad eq form " ^ s)

(* junk patterns for unoccupied slots; must agree with the harness *)
let big5a = z_of_string "6510615555426900570"   (* 0x5A5A5A5A5A5A5A5A *)
let junk_elem (pat : int) (live : elem array) (p : z) : elem =
  match pat with
  | 0 -> { eid = Z0; eval = Z0 }
  | 1 -> { eid = usize_max; eval = usize_max }
  | 2 -> { eid = big5a; eval = big5a }
  | 3 -> { eid = Z.add (z_of_int 1000000) p; eval = z_of_int 77 }
  | 5 -> { eid = Z0; eval = Z0 }      (* uninitialised in the harness: nobody may look *)
  | _ ->
    let n = Array.length live in
    if n = 0 then { eid = Z0; eval = Z0 }
    else
      (* copy of a live element *)
      let (_, r) = Z.div_eucl p (z_of_int n) in live.(int_of_z r)

(* build a buffer: capacity, front position, contents (front first), junk *)
let mk_buf (n : z) (st : z) (els : elem list) (pat : int) : cbuf =
  let live = Array.of_list els in
  let sz = Array.length live in
  let items (p : z) : elem =
    (* logical index of physical slot p, if occupied *)
    match n with
    | Z0 -> junk_elem pat live p
    | _ ->
      let d = Z.sub p st in
      let (_, i) = Z.div_eucl d n in
      (match Z.compare i (z_of_int sz) with
       | Lt -> (match Z.compare p Z0, Z.compare p n with
                | (Eq | Gt), Lt -> live.(int_of_z i)
                | _ -> junk_elem pat live p)
       | _ -> junk_elem pat live p) in
  { cap = n; size = z_of_int sz; start = st; items = items }

(* other buffer: "cap;start;id:val,id:val;junk" *)
let p_other (s : string) : cbuf =
  match String.split_on_char ';' s with
  | [c; st; els; j] -> mk_buf (z_of_string c) (z_of_string st) (p_elems els) (int_of_string j)
  | _ -> failwith ("bad other " ^ s)

let p_op (toks : string list) : op =
  let z = z_of_string in
  match toks with
  | ["len"] -> OLen | ["is_empty"] -> OIsEmpty | ["is_full"] -> OIsFull | ["capacity"] -> OCapacity
  | ["push_back"; e] -> OPushBack (p_elem e)
  | ["push_front"; e] -> OPushFront (p_elem e)
  | ["try_push_back"; e] -> OTryPushBack (p_elem e)
  | ["try_push_front"; e] -> OTryPushFront (p_elem e)
  | ["pop_back"] -> OPopBack | ["pop_front"] -> OPopFront
  | ["remove"; i] -> ORemove (z i)
  | ["swap"; i; j] -> OSwap (z i, z j)
  | ["swap_remove_back"; i] -> OSwapRemoveBack (z i)
  | ["swap_remove_front"; i] -> OSwapRemoveFront (z i)
  | ["truncate_back"; k] -> OTruncateBack (z k)
  | ["truncate_front"; k] -> OTruncateFront (z k)
  | ["clear"] -> OClear
  | ["extend"; xs] -> OExtend (p_elems xs)
  | ["extend_ref"; xs] -> OExtendRef (p_elems xs)
  | ["extend_from_slice"; xs] -> OExtendFromSlice (p_elems xs)
  | ["fill"; v] -> OFill (p_elem v)
  | ["fill_with"] -> OFillWith
  | ["fill_spare"; v] -> OFillSpare (p_elem v)
  | ["fill_spare_with"] -> OFillSpareWith
  | ["drain"; sb; eb; sc; fg] -> ODrain (p_bound sb, p_bound eb, p_script sc, fg = "forget")
  | ["make_contiguous"; ws] -> OMakeContiguous (p_elems ws)
  | ["get"; i] -> OGet (z i) | ["nth_front"; i] -> ONthFront (z i)
  | ["nth_back"; i] -> ONthBack (z i) | ["front"] -> OFront | ["back"] -> OBack
  | ["index"; i] -> OIndex (z i)
  | ["get_mut"; i; v] -> OGetMutSet (z i, p_elem v)
  | ["nth_front_mut"; i; v] -> ONthFrontMutSet (z i, p_elem v)
  | ["nth_back_mut"; i; v] -> ONthBackMutSet (z i, p_elem v)
  | ["front_mut"; v] -> OFrontMutSet (p_elem v)
  | ["back_mut"; v] -> OBackMutSet (p_elem v)
  | ["index_mut"; i; v] -> OIndexMutSet (z i, p_elem v)
  | ["as_slices"] -> OAsSlices
  | ["as_mut_slices"; ws] -> OAsMutSlicesSet (p_elems ws)
  | ["iter"; sc] -> OIter (p_script sc)
  | ["range"; sb; eb; sc] -> ORange (p_bound sb, p_bound eb, p_script sc)
  | ["iter_mut"; sc] -> OIterMut (p_script sc)
  | ["range_mut"; sb; eb; sc] -> ORangeMut (p_bound sb, p_bound eb, p_script sc)
  | ["into_iter"; sc] -> OIntoIter (p_script sc)
  | ["iter_default"; sc] -> OIterDefault (p_script sc)
  | ["iter_mut_default"; sc] -> OIterMutDefault (p_script sc)
  | ["ref_into_iter"; sc] -> ORefIntoIter (p_script sc)
  | ["iter_debug"; sb; eb; pre] -> OIterDebug (p_bound sb, p_bound eb, p_script pre)
  | ["iter_mut_debug"; sb; eb; pre] -> OIterMutDebug (p_bound sb, p_bound eb, p_script pre)
  | ["drain_debug"; sb; eb; pre] -> ODrainDebug (p_bound sb, p_bound eb, p_script pre)
  | ["into_iter_debug"; pre] -> OIntoIterDebug (p_script pre)
  | ["to_vec"] -> OToVec | ["debug"] -> ODebug
  | ["new"] -> ONew
  | ["default"] -> ODefault
  | ["boxed"] -> OBoxed
  | ["from_array"; xs] -> OFromArray (p_elems xs)
  | ["from_iter"; xs] -> OFromIter (p_elems xs)
  | ["clone_drop"] -> OCloneDropClone | ["clone_keep"] -> OCloneKeepClone
  | ["clone_from"; o] -> OCloneFrom (p_other o)
  | ["eq"; o] -> OEq (p_other o)
  | ["eq_slice"; f; xs] -> OEqSlice (p_form f, p_elems xs)
  | ["partial_cmp"; o] -> OPartialCmp (p_other o)
  | ["cmp"; o] -> OCmp (p_other o)
  | ["hash"] -> OHash
  | ["write"; f; xs] -> OWrite (p_fam f, p_elems xs)
  | ["flush"; f] -> OFlush (p_fam f)
  | ["read"; f; xs] -> ORead (p_fam f, p_elems xs)
  | ["fill_buf"; f] -> OFillBuf (p_fam f)
  | ["consume"; f; k] -> OConsume (p_fam f, z k)
  | _ -> failwith ("bad op: " ^ String.concat " " toks)

let p_fault (s : string) : (fkind * z) option =
  if s = "none" then None else
    match String.split_on_char ':' s with
    | [k; n] ->
      let kd = (match k with
          | "drop" -> FDrop | "clone" -> FClone | "call" -> FCall | "next" -> FNext
          | "eq" -> FEq | "cmp" -> FCmp | "hash" -> FHash | "fmt" -> FFmt
          | _ -> failwith ("bad fault kind " ^ k)) in
      Some (kd, z_of_string n)
    | _ -> failwith ("bad fault " ^ s)

(* ---- running ------------------------------------------------------------------ *)

(* replace the closure chain of a small store by a table *)
let normalize (s : cbuf) : cbuf =
  match s.cap with
  | Zpos p when pos_bits p <= 13 ->
    let n = int_of_pos p in
    let tab = Array.init n (fun i -> s.items (z_of_int i)) in
    let old = s.items in
    let items (q : z) : elem =
      match q with
      | Z0 -> tab.(0)
      | Zpos r when pos_bits r <= 13 && int_of_pos r < n -> tab.(int_of_pos r)
      | _ -> old q in
    { s with items = items }
  | _ -> s

let kv (line : string) : (string * string) list =
  List.filter_map (fun t ->
      match String.index_opt t '=' with
      | Some i -> Some (String.sub t 0 i, String.sub t (i + 1) (String.length t - i - 1))
      | None -> None) (String.split_on_char ' ' line)

let contents_line (s : cbuf) =
  "st=" ^ string_of_z s.start ^ " sz=" ^ string_of_z s.size ^ " c=" ^ s_contents (abs s)

let () =
  let ic = if Array.length Sys.argv > 1 then open_in Sys.argv.(1) else stdin in
  let oc = if Array.length Sys.argv > 2 then open_out Sys.argv.(2) else stdout in
  let cur : (cbuf * world) option ref = ref None in
  let k = ref 0 in
  let unst = ref false in
  (try
     while true do
       let line = input_line ic in
       if line = "" then ()
       else if String.length line >= 5 && String.sub line 0 5 = "case " then begin
         let f = kv line in
         let g key = List.assoc key f in
         let n = z_of_string (g "N") in
         let st = z_of_string (g "start") in
         let vals =
           let v = g "vals" in
           if String.length v > 0 && v.[0] = '@' then
             (* shorthand for the default contents 10, 20, ..., 10k *)
             List.init (int_of_string (String.sub v 1 (String.length v - 1))) (fun i -> string_of_int (10 * (i + 1)))
           else split ',' v in
         let els = List.mapi (fun i v -> { eid = z_of_int (i + 1); eval = z_of_string v }) vals in
         let b = mk_buf n st els (int_of_string (g "junk")) in
         let w = { dbg = (g "dbg" = "1"); next_id = z_of_string (g "nid");
                   log = []; fault = p_fault (g "fault") } in
         cur := Some (b, w);
         unst := (try g "unst" = "1" with Not_found -> false);
         elem_kind := (try g "elem" with Not_found -> "E");
         k := 0;
         output_string oc (line ^ "\n");
         output_string oc ("init " ^ contents_line b ^ "\n")
       end
       else if line = "end" then begin
         output_string oc "end\n"; cur := None
       end
       else begin
         match !cur with
         | None -> failwith ("op outside case: " ^ line)
         | Some (s, w) ->
           (* [eq_self]: the buffer compared with itself (the same object); [p_op]
              does not see the state *)
           script_mask := [];
           let o = (match String.split_on_char ' ' line with
                    | ["eq_self"] -> OEq s
                    | toks -> p_op toks) in
           (* specification *)
           (match spec_step s.cap (abs s) o w.next_id with
            | SRet r ->
              output_string oc
                (Printf.sprintf "s k=%d r=%s c=%s e=%s\n" !k (s_out r.sr_out)
                   (s_contents r.sr_list) (s_list s_event r.sr_evs))
            | SPanic -> output_string oc (Printf.sprintf "s k=%d r=panic\n" !k));
           (* model *)
           (* the nightly `unstable` build is compared with the model of the unstable bodies *)
           let ((r, s'), w') = if !unst then exec_unstable o s w else exec o s w in
           let rs = (match r with Ok v -> s_out v | Panic p -> "panic:" ^ s_kind p) in
           output_string oc
             (Printf.sprintf "m k=%d r=%s %s e=%s f=%s\n" !k rs (contents_line s')
                (s_list s_event w'.log)
                (match w'.fault with None -> "none" | Some _ -> "armed"));
           incr k;
           cur := Some (normalize s', { w' with log = [] })
       end
     done
   with End_of_file -> ());
  close_out oc
