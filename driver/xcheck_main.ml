(* xcheck_main.ml — runs the extracted [xc_batch] (theories/XCheck.v) and
   prints one line per case: the numbers of [xc_run k] in decimal, separated
   by spaces. tools/xcheck.py compares the lines with what [vm_compute]
   prints for the same term inside Coq.

     xcheck <lo> <n> [<lo> <n> ...]   the cases lo .. lo+n-1 of every range
     xcheck count                     "<xc_count> <xc_ntags> <xc_ntemplates>"

   The only hand-written logic is the conversion between OCaml ints and the
   unary naturals, and the decimal printer for binary positives below; the
   printer does not use any extracted arithmetic. *)

open Xmodel

let rec nat_of_int (n : int) : nat = if n <= 0 then O else S (nat_of_int (n - 1))

let int_of_nat (n : nat) : int =
  let rec go acc = function O -> acc | S m -> go (acc + 1) m in
  go 0 n

(* ---- decimal printing of a binary positive ----------------------------- *)

(* little-endian digits in base 10^9; every intermediate value fits in 31 bits *)
let base = 1_000_000_000

(* 2 * d + c *)
let rec double_add (d : int list) (c : int) : int list =
  match d with
  | [] -> if c = 0 then [] else [c]
  | x :: r ->
    let v = 2 * x + c in
    if v >= base then (v - base) :: double_add r 1 else v :: double_add r 0

(* positives are least-significant-bit first: xI p = 2p+1, xO p = 2p, xH = 1 *)
let rec digits_of_pos (p : positive) : int list =
  match p with
  | XH -> [1]
  | XO q -> double_add (digits_of_pos q) 0
  | XI q -> double_add (digits_of_pos q) 1

let string_of_pos (p : positive) : string =
  match List.rev (digits_of_pos p) with
  | [] -> "0"
  | top :: rest ->
    String.concat "" (string_of_int top :: List.map (Printf.sprintf "%09d") rest)

let string_of_z (v : z) : string =
  match v with
  | Z0 -> "0"
  | Zpos p -> string_of_pos p
  | Zneg p -> "-" ^ string_of_pos p

(* ---- main ---------------------------------------------------------------- *)

let usage () =
  prerr_endline "usage: xcheck <lo> <n> [<lo> <n> ...] | xcheck count";
  exit 2

let () =
  let args = List.tl (Array.to_list Sys.argv) in
  match args with
  | ["count"] ->
    Printf.printf "%d %d %d\n" (int_of_nat xc_count) (int_of_nat xc_ntags)
      (int_of_nat xc_ntemplates)
  | [] -> usage ()
  | _ ->
    let buf = Buffer.create 65536 in
    let rec go = function
      | [] -> ()
      | lo :: n :: rest ->
        let lo = int_of_string lo and n = int_of_string n in
        if lo < 0 || n < 0 then usage ();
        List.iter (fun line ->
            Buffer.add_string buf (String.concat " " (List.map string_of_z line));
            Buffer.add_char buf '\n')
          (xc_batch (nat_of_int lo) (nat_of_int n));
        go rest
      | _ -> usage () in
    go args;
    print_string (Buffer.contents buf)
