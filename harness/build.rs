// Writes $OUT_DIR/caps.rs: the capacities the harness is monomorphised for.
// Base lists below; VERIF_EXTRA_CAPS="4095,4096,..." adds capacities for the
// tracked element types (E, NE: 16 bytes; B, NB: 256 bytes, up to 600) and for u8 — used when the
// source fingerprint of a modelled function changed and its new numeric
// literals steer the search (tools/srcfp.py, tools/check.py).
use std::collections::BTreeSet;
use std::env;
use std::fs;
use std::path::Path;

const E: &[u64] = &[0, 1, 2, 3, 4, 5, 6, 7, 8, 9, 10, 11, 12, 13, 15, 16, 17, 31, 32, 33, 64, 65, 100, 128, 255, 256, 257, 1000];
const B: &[u64] = &[0, 1, 2, 3, 4, 5, 6, 7, 8, 9, 12, 13, 16, 17, 32, 33, 64, 100, 257, 1000];
// the tracked types without a destructor, and the type whose size is steered (VERIF_EXTRA_ELEM_WORDS)
const SMALL: &[u64] = &[0, 1, 2, 3, 4, 5, 6, 7, 8, 9, 13, 17, 33, 100];
const U8: &[u64] = &[0, 1, 2, 3, 4, 5, 6, 7, 8, 9, 12, 15, 16, 17, 32, 33, 64, 100, 255, 256, 257, 1000, 4096];
const Z: &[u64] = &[0, 1, 2, 3, 4, 65537, 2147483649, 3000000000, 4294967291, 4294967294, 4294967295, 4294967296, 4294967297,
    9223372036854775807, 9223372036854775808, 9223372036854775809, 18446744073709551614, 18446744073709551615];

fn list(base: &[u64], extra: &BTreeSet<u64>, max: u64) -> String {
    let mut s: BTreeSet<u64> = base.iter().copied().collect();
    for &x in extra {
        if x <= max {
            s.insert(x);
        }
    }
    s.iter().map(|x| x.to_string()).collect::<Vec<_>>().join(", ")
}

fn main() {
    println!("cargo:rerun-if-env-changed=VERIF_EXTRA_CAPS");
    println!("cargo:rerun-if-changed=build.rs");
    let mut extra = BTreeSet::new();
    if let Ok(v) = env::var("VERIF_EXTRA_CAPS") {
        for t in v.split(',') {
            if let Ok(x) = t.trim().parse::<u64>() {
                extra.insert(x);
            }
        }
    }
    println!("cargo:rerun-if-env-changed=VERIF_EXTRA_ELEM_WORDS");
    let words: u64 = env::var("VERIF_EXTRA_ELEM_WORDS").ok().and_then(|v| v.trim().parse().ok()).unwrap_or(2);
    let none = BTreeSet::new();
    let src = format!(
        "type S = EP<{w}>;\ntype NS = NP<{w}>;\n\
         fn dispatch_case(elem: &str, n: u64, hdr: &CaseHdr, ops: &[String], out: &mut dyn std::io::Write) -> bool {{\n\
         match elem {{\n\
         \"E\" => dispatch!(n, E, hdr, ops, out; {}),\n\
         \"B\" => dispatch!(n, B, hdr, ops, out; {}),\n\
         \"NE\" => dispatch!(n, NE, hdr, ops, out; {ne}),\n\
         \"NB\" => dispatch!(n, NB, hdr, ops, out; {nb}),\n\
         \"S\" => dispatch!(n, S, hdr, ops, out; {sm}),\n\
         \"NS\" => dispatch!(n, NS, hdr, ops, out; {sm2}),\n\
         \"u8\" => dispatch!(n, u8, hdr, ops, out; {}),\n\
         \"Z\" => dispatch!(n, Z, hdr, ops, out; {}),\n\
         _ => false,\n}}\n}}\n",
        list(E, &extra, 1 << 21), list(B, &extra, 600), list(U8, &extra, 1 << 22), list(Z, &none, 0),
        w = words, ne = list(SMALL, &extra, 8200), nb = list(SMALL, &extra, 600),
        sm = list(SMALL, &none, 0), sm2 = list(SMALL, &none, 0));
    let out = env::var("OUT_DIR").unwrap();
    fs::write(Path::new(&out).join("caps.rs"), src).unwrap();
}
