// cbharness — runs case files against the real circular-buffer crate (path
// dependency on /repo, built with --cfg circular_buffer_verif) and prints, for
// every operation, the same kind of line the extracted Coq model prints:
//
//   i k=<n> r=<result> st=<start> sz=<len> c=<contents> e=<events> a=<allocs> x=<extra>
//
// The contents are read from raw memory through the verification hooks
// (start, len, items pointer), not through the API under test.
// Element types: E (identity + value, every trait instrumented), u8, Z (a
// zero-sized type with instrumented Drop/Clone).

#![allow(clippy::all)]
#![cfg_attr(feature = "unstable", allow(unused_features))]

use circular_buffer::CircularBuffer;
use std::alloc::{GlobalAlloc, Layout, System};
use std::cell::{Cell, RefCell};
use std::collections::HashSet;
use std::fmt::{self, Write as FmtWrite};
use std::hash::{Hash, Hasher};
use std::io::{BufRead as _, Write as _};
use std::mem::{self, MaybeUninit};
use std::ops::Bound;
use std::panic::{catch_unwind, AssertUnwindSafe};
use std::sync::atomic::{AtomicBool, AtomicU64, Ordering as AO};

// ---------------------------------------------------------------- allocator

struct Counting;
static COUNT_ON: AtomicBool = AtomicBool::new(false);
static ALLOCS: AtomicU64 = AtomicU64::new(0);

unsafe impl GlobalAlloc for Counting {
    unsafe fn alloc(&self, l: Layout) -> *mut u8 {
        if COUNT_ON.load(AO::Relaxed) {
            ALLOCS.fetch_add(1, AO::Relaxed);
        }
        System.alloc(l)
    }
    unsafe fn dealloc(&self, p: *mut u8, l: Layout) {
        System.dealloc(p, l)
    }
    unsafe fn realloc(&self, p: *mut u8, l: Layout, n: usize) -> *mut u8 {
        if COUNT_ON.load(AO::Relaxed) {
            ALLOCS.fetch_add(1, AO::Relaxed);
        }
        System.realloc(p, l, n)
    }
}

#[global_allocator]
static GLOBAL: Counting = Counting;

/// Switches allocation counting off for the duration of instrumented user
/// code (element traits, iterator, closure): what the harness's own
/// bookkeeping allocates is not an allocation of the crate.
struct Pause(bool);
fn pause() -> Pause {
    Pause(COUNT_ON.swap(false, AO::Relaxed))
}
impl Drop for Pause {
    fn drop(&mut self) {
        COUNT_ON.store(self.0, AO::Relaxed);
    }
}

/// Runs a call into the crate with allocation counting switched on.
#[inline(always)]
fn meas<R>(f: impl FnOnce() -> R) -> R {
    COUNT_ON.store(true, AO::Relaxed);
    let r = f();
    COUNT_ON.store(false, AO::Relaxed);
    r
}

// ---------------------------------------------------------------- ledger

/// the NaN-like element value (theories/System.v: nan_val)
const NAN_VAL: u64 = 13;

const K_DROP: u8 = 0;
const K_CLONE: u8 = 1;
const K_CALL: u8 = 2;
const K_NEXT: u8 = 3;
const K_EQ: u8 = 4;
const K_CMP: u8 = 5;
const K_HASH: u8 = 6;
const K_FMT: u8 = 7;

thread_local! {
    static LOG: RefCell<Vec<String>> = RefCell::new(Vec::new());
    static LIVE: RefCell<HashSet<u64>> = RefCell::new(HashSet::new());
    static BAD: RefCell<Vec<String>> = RefCell::new(Vec::new());
    static FAULT: Cell<Option<(u8, u64)>> = Cell::new(None);
    static NEXT_ID: Cell<u64> = Cell::new(0);
    // 0: operation running (log + ledger + faults); 1: teardown (ledger only);
    // 2: suppressed (harness-internal use of the element traits)
    static PHASE: Cell<u8> = Cell::new(0);
    static ZLIVE: Cell<i64> = Cell::new(0);
    static PANIC_MSG: RefCell<String> = RefCell::new(String::new());
}

fn phase() -> u8 {
    PHASE.with(|p| p.get())
}
fn set_phase(p: u8) {
    PHASE.with(|c| c.set(p))
}
fn log(s: String) {
    if phase() == 0 {
        let on = COUNT_ON.swap(false, AO::Relaxed);
        LOG.with(|l| l.borrow_mut().push(s));
        COUNT_ON.store(on, AO::Relaxed);
    }
}
fn bad(s: String) {
    let on = COUNT_ON.swap(false, AO::Relaxed);
    BAD.with(|l| l.borrow_mut().push(s));
    COUNT_ON.store(on, AO::Relaxed);
}
fn fault_check(kind: u8) {
    if phase() != 0 {
        return;
    }
    let fire = FAULT.with(|f| match f.get() {
        Some((k, n)) if k == kind => {
            if n == 0 {
                f.set(None);
                true
            } else {
                f.set(Some((k, n - 1)));
                false
            }
        }
        _ => false,
    });
    if fire {
        panic!("verif-bomb");
    }
}
fn fresh_id() -> u64 {
    NEXT_ID.with(|n| {
        let v = n.get();
        n.set(v + 1);
        v
    })
}
fn live_insert(id: u64) {
    let on = COUNT_ON.swap(false, AO::Relaxed);
    let fresh = LIVE.with(|l| l.borrow_mut().insert(id));
    COUNT_ON.store(on, AO::Relaxed);
    if !fresh {
        bad(format!("dupid:{}", id));
    }
}
fn is_live(id: u64) -> bool {
    LIVE.with(|l| l.borrow().contains(&id))
}

// ---------------------------------------------------------------- element types

trait Elem:
    Sized + Clone + PartialEq + Eq + PartialOrd + Ord + Hash + fmt::Debug + 'static
{
    const KIND: &'static str;
    const ZST: bool = false;
    /// false for the tracked type without a destructor: its elements never die
    const HAS_DROP: bool = true;
    /// an element handed to the buffer by the caller
    fn mk(id: u64, val: u64) -> Self;
    /// bits for an unoccupied slot: never registered, never dropped
    fn raw(id: u64, val: u64) -> MaybeUninit<Self>;
    fn show(&self) -> String;
    fn id_of(&self) -> Option<u64> {
        None
    }
    fn from_closure() -> Self;
    /// operations that exist for this element type only
    fn special<const N: usize>(
        _buf: &mut CircularBuffer<N, Self>,
        _toks: &[&str],
        _bag: &mut Vec<Self>,
    ) -> Option<String> {
        None
    }
}

// ---- E: identity + value, everything instrumented

/// The tracked element types: identity + value, every trait instrumented.
/// `P` words of padding make them as large as wanted. `EP` has a destructor
/// (ownership is tracked through it); `NP` is the same without one, for code
/// paths gated on `mem::needs_drop::<T>()`: its clones are still fresh,
/// logged and can be made to panic.
#[repr(C)]
struct EP<const P: usize> {
    id: u64,
    val: u64,
    pad: [u64; P],
}
#[repr(C)]
struct NP<const P: usize> {
    id: u64,
    val: u64,
    pad: [u64; P],
}
type E = EP<0>; // 16 bytes
type B = EP<30>; // 256 bytes
type NE = NP<0>;
type NB = NP<30>;

impl<const P: usize> Drop for EP<P> {
    fn drop(&mut self) {
        let _p = pause();
        let ph = phase();
        if ph == 2 {
            return;
        }
        let was = LIVE.with(|l| l.borrow_mut().remove(&self.id));
        if !was {
            bad(format!("drop-dead:{}", self.s()));
        }
        if ph == 0 {
            log(format!("D{}", self.s()));
            fault_check(K_DROP);
        }
    }
}

impl<const P: usize> EP<P> {
    fn s(&self) -> String {
        format!("{}:{}", self.id, self.val)
    }
    fn touch(&self, what: &str) {
        if phase() == 0 && !is_live(self.id) {
            bad(format!("{}-dead:{}", what, self.s()));
        }
    }
}

impl<const P: usize> Clone for EP<P> {
    fn clone(&self) -> Self {
        let _p = pause();
        if phase() == 2 {
            return EP { id: self.id, val: self.val, pad: [0; P] };
        }
        self.touch("clone");
        fault_check(K_CLONE);
        let n = EP { id: fresh_id(), val: self.val, pad: [0; P] };
        live_insert(n.id);
        log(format!("C{}>{}", self.s(), n.s()));
        n
    }
}

impl<const P: usize> PartialEq for EP<P> {
    fn eq(&self, o: &Self) -> bool {
        let _p = pause();
        if phase() == 0 {
            self.touch("eq");
            log(format!("Q{}={}", self.s(), o.s()));
            fault_check(K_EQ);
        }
        // the value 13 is NaN-like: equal to nothing, itself included
        self.val == o.val && self.val != NAN_VAL
    }
}
impl<const P: usize> Eq for EP<P> {}
impl<const P: usize> PartialOrd for EP<P> {
    fn partial_cmp(&self, o: &Self) -> Option<std::cmp::Ordering> {
        let _p = pause();
        if phase() == 0 {
            self.touch("cmp");
            log(format!("M{}?{}", self.s(), o.s()));
            fault_check(K_CMP);
        }
        // ... and unordered against everything under partial_cmp (Ord::cmp stays total)
        if self.val == NAN_VAL || o.val == NAN_VAL {
            return None;
        }
        Some(self.val.cmp(&o.val))
    }
}
impl<const P: usize> Ord for EP<P> {
    fn cmp(&self, o: &Self) -> std::cmp::Ordering {
        let _p = pause();
        if phase() == 0 {
            self.touch("cmp");
            log(format!("M{}?{}", self.s(), o.s()));
            fault_check(K_CMP);
        }
        self.val.cmp(&o.val)
    }
}
impl<const P: usize> Hash for EP<P> {
    fn hash<H: Hasher>(&self, h: &mut H) {
        let _p = pause();
        if phase() == 0 {
            self.touch("hash");
            log(format!("H{}", self.s()));
            fault_check(K_HASH);
        }
        h.write_u64(self.val);
    }
}
impl<const P: usize> fmt::Debug for EP<P> {
    fn fmt(&self, f: &mut fmt::Formatter<'_>) -> fmt::Result {
        let _p = pause();
        if phase() == 0 {
            self.touch("fmt");
            log(format!("T{}", self.s()));
            fault_check(K_FMT);
        }
        fmt::Debug::fmt(&self.val, f)
    }
}

impl<const P: usize> NP<P> {
    fn s(&self) -> String {
        format!("{}:{}", self.id, self.val)
    }
    fn touch(&self, what: &str) {
        if phase() == 0 && !is_live(self.id) {
            bad(format!("{}-dead:{}", what, self.s()));
        }
    }
}

impl<const P: usize> Clone for NP<P> {
    fn clone(&self) -> Self {
        let _p = pause();
        if phase() == 2 {
            return NP { id: self.id, val: self.val, pad: [0; P] };
        }
        self.touch("clone");
        fault_check(K_CLONE);
        let n = NP { id: fresh_id(), val: self.val, pad: [0; P] };
        live_insert(n.id);
        log(format!("C{}>{}", self.s(), n.s()));
        n
    }
}

impl<const P: usize> PartialEq for NP<P> {
    fn eq(&self, o: &Self) -> bool {
        let _p = pause();
        if phase() == 0 {
            self.touch("eq");
            log(format!("Q{}={}", self.s(), o.s()));
            fault_check(K_EQ);
        }
        // the value 13 is NaN-like: equal to nothing, itself included
        self.val == o.val && self.val != NAN_VAL
    }
}
impl<const P: usize> Eq for NP<P> {}
impl<const P: usize> PartialOrd for NP<P> {
    fn partial_cmp(&self, o: &Self) -> Option<std::cmp::Ordering> {
        let _p = pause();
        if phase() == 0 {
            self.touch("cmp");
            log(format!("M{}?{}", self.s(), o.s()));
            fault_check(K_CMP);
        }
        // ... and unordered against everything under partial_cmp (Ord::cmp stays total)
        if self.val == NAN_VAL || o.val == NAN_VAL {
            return None;
        }
        Some(self.val.cmp(&o.val))
    }
}
impl<const P: usize> Ord for NP<P> {
    fn cmp(&self, o: &Self) -> std::cmp::Ordering {
        let _p = pause();
        if phase() == 0 {
            self.touch("cmp");
            log(format!("M{}?{}", self.s(), o.s()));
            fault_check(K_CMP);
        }
        self.val.cmp(&o.val)
    }
}
impl<const P: usize> Hash for NP<P> {
    fn hash<H: Hasher>(&self, h: &mut H) {
        let _p = pause();
        if phase() == 0 {
            self.touch("hash");
            log(format!("H{}", self.s()));
            fault_check(K_HASH);
        }
        h.write_u64(self.val);
    }
}
impl<const P: usize> fmt::Debug for NP<P> {
    fn fmt(&self, f: &mut fmt::Formatter<'_>) -> fmt::Result {
        let _p = pause();
        if phase() == 0 {
            self.touch("fmt");
            log(format!("T{}", self.s()));
            fault_check(K_FMT);
        }
        fmt::Debug::fmt(&self.val, f)
    }
}


macro_rules! tracked_elem {
    ($name:ident, $kind:literal, $has_drop:literal) => {
        impl<const P: usize> Elem for $name<P> {
            const KIND: &'static str = $kind;
            const HAS_DROP: bool = $has_drop;
            fn mk(id: u64, val: u64) -> Self {
                live_insert(id);
                $name { id, val, pad: [0; P] }
            }
            fn raw(id: u64, val: u64) -> MaybeUninit<Self> {
                MaybeUninit::new($name { id, val, pad: [0; P] })
            }
            fn show(&self) -> String {
                self.s()
            }
            fn id_of(&self) -> Option<u64> {
                Some(self.id)
            }
            fn from_closure() -> Self {
                let _p = pause();
                fault_check(K_CALL);
                let n = $name { id: fresh_id(), val: 9, pad: [0; P] };
                live_insert(n.id);
                log(format!("F{}", n.s()));
                n
            }
            fn special<const N: usize>(
                buf: &mut CircularBuffer<N, Self>,
                toks: &[&str],
                bag: &mut Vec<Self>,
            ) -> Option<String> {
                // operations with a second const parameter are wired for the 16-byte tracked type only
                let b: &mut dyn std::any::Any = buf;
                if let Some(b) = b.downcast_mut::<CircularBuffer<N, E>>() {
                    let g: &mut dyn std::any::Any = bag;
                    return pair_ops(b, toks, g.downcast_mut::<Vec<E>>().unwrap());
                }
                None
            }
        }
    };
}
tracked_elem!(EP, "E", true);
tracked_elem!(NP, "N", false);

impl Elem for u8 {
    const KIND: &'static str = "u8";
    fn mk(_id: u64, val: u64) -> u8 {
        val as u8
    }
    fn raw(_id: u64, val: u64) -> MaybeUninit<u8> {
        MaybeUninit::new(val as u8)
    }
    fn show(&self) -> String {
        format!("0:{}", self)
    }
    fn from_closure() -> u8 {
        9
    }
    fn special<const N: usize>(
        buf: &mut CircularBuffer<N, u8>,
        toks: &[&str],
        _bag: &mut Vec<u8>,
    ) -> Option<String> {
        io_ops(buf, toks)
    }
}

// ---- Z: zero-sized, instrumented Drop / Clone

#[derive(PartialEq, Eq, PartialOrd, Ord, Hash, Debug)]
struct Z;

impl Drop for Z {
    fn drop(&mut self) {
        let _p = pause();
        let ph = phase();
        if ph == 2 {
            return;
        }
        ZLIVE.with(|z| z.set(z.get() - 1));
        if ph == 0 {
            log("D0:0".to_string());
            fault_check(K_DROP);
        }
    }
}
impl Clone for Z {
    fn clone(&self) -> Z {
        let _p = pause();
        if phase() == 2 {
            return Z;
        }
        fault_check(K_CLONE);
        ZLIVE.with(|z| z.set(z.get() + 1));
        log("C0:0>0:0".to_string());
        Z
    }
}
impl Elem for Z {
    const KIND: &'static str = "Z";
    const ZST: bool = true;
    fn mk(_id: u64, _val: u64) -> Z {
        ZLIVE.with(|z| z.set(z.get() + 1));
        Z
    }
    fn raw(_id: u64, _val: u64) -> MaybeUninit<Z> {
        MaybeUninit::new(Z)
    }
    fn show(&self) -> String {
        "0:0".to_string()
    }
    fn from_closure() -> Z {
        let _p = pause();
        fault_check(K_CALL);
        ZLIVE.with(|z| z.set(z.get() + 1));
        log("F0:0".to_string());
        Z
    }
}

// ---------------------------------------------------------------- helpers

fn p_u64(s: &str) -> u64 {
    s.parse::<u64>().unwrap_or_else(|_| panic!("harness: bad number {}", s))
}
fn p_usize(s: &str) -> usize {
    p_u64(s) as usize
}
fn p_pair(s: &str) -> (u64, u64) {
    let mut it = s.split(':');
    let a = p_u64(it.next().unwrap());
    let b = p_u64(it.next().unwrap());
    (a, b)
}
fn p_pairs(s: &str) -> Vec<(u64, u64)> {
    if s == "-" || s.is_empty() {
        vec![]
    } else {
        s.split(',').map(p_pair).collect()
    }
}
fn mk_all<T: Elem>(s: &str) -> Vec<T> {
    p_pairs(s).into_iter().map(|(i, v)| T::mk(i, v)).collect()
}
fn p_bound(s: &str) -> Bound<usize> {
    if s == "u" {
        Bound::Unbounded
    } else if let Some(r) = s.strip_prefix('i') {
        Bound::Included(p_usize(r))
    } else if let Some(r) = s.strip_prefix('e') {
        Bound::Excluded(p_usize(r))
    } else {
        panic!("harness: bad bound {}", s)
    }
}
fn list<T>(v: &[T], f: impl Fn(&T) -> String) -> String {
    if v.is_empty() {
        "-".to_string()
    } else {
        v.iter().map(|x| f(x)).collect::<Vec<_>>().join(",")
    }
}

/// physical index of a reference into the buffer
fn phys<const N: usize, T: Elem>(buf: &CircularBuffer<N, T>, r: &T) -> i64 {
    let sz = mem::size_of::<T>();
    if sz == 0 {
        return -2;
    }
    let base = buf.verif_items_ptr() as usize;
    let a = r as *const T as usize;
    if a < base || (a - base) % sz != 0 || (a - base) / sz >= N {
        return -3;
    }
    ((a - base) / sz) as i64
}
fn s_ref<const N: usize, T: Elem>(buf: &CircularBuffer<N, T>, r: &T) -> String {
    format!("{}@{}", phys(buf, r), r.show())
}

/// junk bits for the unoccupied slot p; must agree with the OCaml driver
fn junk<T: Elem>(pat: u32, live: &[(u64, u64)], p: usize) -> MaybeUninit<T> {
    match pat {
        0 => T::raw(0, 0),
        1 => T::raw(u64::MAX, u64::MAX),
        2 => T::raw(0x5A5A5A5A5A5A5A5A, 0x5A5A5A5A5A5A5A5A),
        3 => T::raw(1000000 + p as u64, 77),
        // genuinely uninitialised memory: only meaningful under Miri, which
        // reports any read of it as undefined behaviour
        5 => MaybeUninit::uninit(),
        _ => {
            if live.is_empty() {
                T::raw(0, 0)
            } else {
                let (i, v) = live[p % live.len()];
                T::raw(i, v)
            }
        }
    }
}

/// builds a buffer in the given layout through the verification hook
fn build<const N: usize, T: Elem>(
    start: usize,
    els: &[(u64, u64)],
    pat: u32,
) -> CircularBuffer<N, T> {
    let mut items: [MaybeUninit<T>; N] = unsafe { MaybeUninit::uninit().assume_init() };
    if !T::ZST {
        for p in 0..N {
            items[p] = junk::<T>(pat, els, p);
        }
    }
    for (i, (id, v)) in els.iter().enumerate() {
        let p = ((start as u128 + i as u128) % (N as u128)) as usize;
        items[p] = MaybeUninit::new(T::mk(*id, *v));
    }
    unsafe { CircularBuffer::verif_from_raw_parts(start, els.len(), items) }
}

/// the contents as they lie in memory, front first
fn raw_contents<const N: usize, T: Elem>(buf: &CircularBuffer<N, T>) -> String {
    let st = buf.verif_start();
    let n = buf.len();
    let base = buf.verif_items_ptr();
    if n == 0 {
        return "-".to_string();
    }
    if N == 0 || n > N {
        return format!("corrupt(len={})", n);
    }
    let mut v = Vec::with_capacity(n.min(1 << 22));
    for i in 0..n.min(1 << 22) {
        let p = ((st as u128 + i as u128) % (N as u128)) as usize;
        let r: &T = unsafe { (*base.add(p)).assume_init_ref() };
        v.push(r.show());
    }
    digest_list(v)
}

/// Long lists are printed as `#<len>:<h1>.<h2>` (two polynomial hashes of the
/// `id:val` texts); the model driver prints the same, so equality of the
/// digests stands for equality of the lists.
const DIGEST_FROM: usize = 300;
fn digest_list(v: Vec<String>) -> String {
    if v.len() < DIGEST_FROM {
        return v.join(",");
    }
    let (mut h1, mut h2): (u64, u64) = (7, 11);
    for s in &v {
        for b in s.bytes() {
            h1 = (h1 * 1000003 + b as u64) % 2147483647;
            h2 = (h2 * 998244353 + b as u64 + 1) % 2147483629;
        }
        h1 = (h1 * 1000003 + 44) % 2147483647;
        h2 = (h2 * 998244353 + 45) % 2147483629;
    }
    format!("#{}:{}.{}", v.len(), h1, h2)
}

/// id -> physical slot of every live element (tracked element types only)
fn slot_map<const N: usize, T: Elem>(buf: &CircularBuffer<N, T>) -> std::collections::HashMap<u64, usize> {
    let mut m = std::collections::HashMap::new();
    let (st, n, base) = (buf.verif_start(), buf.len(), buf.verif_items_ptr());
    if N == 0 || n > N || T::ZST {
        return m;
    }
    for i in 0..n.min(1 << 22) {
        let p = ((st as u128 + i as u128) % (N as u128)) as usize;
        let r: &T = unsafe { (*base.add(p)).assume_init_ref() };
        if let Some(id) = r.id_of() {
            m.insert(id, p);
        }
    }
    m
}

/// every element in the buffer must be live and distinct
fn validity<const N: usize, T: Elem>(buf: &CircularBuffer<N, T>, extra: &mut String) {
    let st = buf.verif_start();
    let n = buf.len();
    let base = buf.verif_items_ptr();
    if n > N || (N > 0 && st >= N) || (N == 0 && st != 0) {
        extra.push_str("bad-bookkeeping;");
        return;
    }
    let mut seen: HashSet<u64> = HashSet::new();
    for i in 0..n.min(1 << 22) {
        let p = ((st as u128 + i as u128) % (N as u128)) as usize;
        let r: &T = unsafe { (*base.add(p)).assume_init_ref() };
        if let Some(id) = r.id_of() {
            if !is_live(id) {
                extra.push_str(&format!("holds-dead:{};", id));
            }
            if !seen.insert(id) {
                extra.push_str(&format!("holds-twice:{};", id));
            }
        }
    }
}

/// The caller's iterator: every step is logged and may be made to panic. It
/// is deliberately NOT fused: asked again after it has returned None, it
/// produces one more (sentinel) element — `for_each` / `extend` never do that,
/// so an implementation that calls `next` after the end shows up in the
/// contents or in the events.
struct FaultIter<T: Elem>(std::vec::IntoIter<T>, u8);
impl<T: Elem> Iterator for FaultIter<T> {
    type Item = T;
    fn next(&mut self) -> Option<T> {
        let _p = pause();
        log("X".to_string());
        fault_check(K_NEXT);
        match self.0.next() {
            Some(x) => Some(x),
            None => {
                self.1 += 1;
                if self.1 == 2 {
                    Some(T::mk(777777, 7))
                } else {
                    None
                }
            }
        }
    }
}

struct RecHasher;
impl Hasher for RecHasher {
    fn finish(&self) -> u64 {
        0
    }
    fn write(&mut self, _b: &[u8]) {}
    fn write_usize(&mut self, n: usize) {
        let _p = pause();
        log(format!("HL{}", n));
    }
    fn write_u64(&mut self, _n: u64) {}
}

#[derive(Clone, Copy)]
enum Step {
    Next,
    NextBack,
    Len,
    CloneIt,
    NextSet(u64, u64),
    NextBackSet(u64, u64),
    /// Iterator::nth(k) (script token t<k>)
    Nth(usize),
}
fn p_script(s: &str) -> Vec<Step> {
    if s == "-" || s.is_empty() {
        return vec![];
    }
    s.split(',')
        .map(|t| match t {
            "n" => Step::Next,
            "b" => Step::NextBack,
            "l" => Step::Len,
            "c" => Step::CloneIt,
            _ => {
                if let Some(r) = t.strip_prefix("sn=") {
                    let (i, v) = p_pair(r);
                    Step::NextSet(i, v)
                } else if let Some(r) = t.strip_prefix("sb=") {
                    let (i, v) = p_pair(r);
                    Step::NextBackSet(i, v)
                } else if let Some(r) = t.strip_prefix('t') {
                    Step::Nth(r.parse().unwrap())
                } else {
                    panic!("harness: bad step {}", t)
                }
            }
        })
        .collect()
}

fn s_opt<T: Elem>(o: &Option<T>) -> String {
    match o {
        None => "none".to_string(),
        Some(e) => format!("some({})", e.show()),
    }
}
fn keep<T: Elem>(bag: &mut Vec<T>, o: Option<T>) {
    if let Some(e) = o {
        bag.push(e);
    }
}
fn s_optref<const N: usize, T: Elem>(buf: &CircularBuffer<N, T>, o: Option<&T>) -> String {
    match o {
        None => "rnone".to_string(),
        Some(r) => format!("ref({})", s_ref(buf, r)),
    }
}
fn sc(v: Vec<String>) -> String {
    if v.is_empty() {
        "sc[-]".to_string()
    } else {
        format!("sc[{}]", v.join(";"))
    }
}

// ---------------------------------------------------------------- operations

/// mem::replace through an Option<&mut T>; reports slot and old element
fn set_through<const N: usize, T: Elem>(
    base: *const MaybeUninit<T>,
    o: Option<&mut T>,
    v: (u64, u64),
    bag: &mut Vec<T>,
) -> String {
    match o {
        None => "rnone".to_string(),
        Some(r) => {
            let sz = mem::size_of::<T>();
            let p: i64 = if sz == 0 {
                -2
            } else {
                ((r as *const T as usize - base as usize) / sz) as i64
            };
            let old = mem::replace(r, T::mk(v.0, v.1));
            let s = format!("ref({}@{})", p, old.show());
            bag.push(old);
            s
        }
    }
}

fn run_op<const N: usize, T: Elem>(
    buf: &mut CircularBuffer<N, T>,
    toks: &[&str],
    bag: &mut Vec<T>,
    extra: &mut String,
) -> String {
    let base = buf.verif_items_ptr();
    match toks[0] {
        "len" => format!("z{}", meas(|| buf.len())),
        "is_empty" => format!("b{}", meas(|| buf.is_empty()) as u8),
        "is_full" => format!("b{}", meas(|| buf.is_full()) as u8),
        "capacity" => format!("z{}", meas(|| buf.capacity())),
        "push_back" => {
            let (i, v) = p_pair(toks[1]);
            let x = T::mk(i, v);
            let r = meas(|| buf.push_back(x));
            let s = s_opt(&r);
            keep(bag, r);
            s
        }
        "push_front" => {
            let (i, v) = p_pair(toks[1]);
            let x = T::mk(i, v);
            let r = meas(|| buf.push_front(x));
            let s = s_opt(&r);
            keep(bag, r);
            s
        }
        "try_push_back" => {
            let (i, v) = p_pair(toks[1]);
            let x = T::mk(i, v);
            let r = meas(|| buf.try_push_back(x)).err();
            let s = s_opt(&r);
            keep(bag, r);
            s
        }
        "try_push_front" => {
            let (i, v) = p_pair(toks[1]);
            let x = T::mk(i, v);
            let r = meas(|| buf.try_push_front(x)).err();
            let s = s_opt(&r);
            keep(bag, r);
            s
        }
        "pop_back" => {
            let r = meas(|| buf.pop_back());
            let s = s_opt(&r);
            keep(bag, r);
            s
        }
        "pop_front" => {
            let r = meas(|| buf.pop_front());
            let s = s_opt(&r);
            keep(bag, r);
            s
        }
        "remove" => {
            let i = p_usize(toks[1]);
            let r = meas(|| buf.remove(i));
            let s = s_opt(&r);
            keep(bag, r);
            s
        }
        "swap" => {
            let (i, j) = (p_usize(toks[1]), p_usize(toks[2]));
            meas(|| buf.swap(i, j));
            "unit".to_string()
        }
        "swap_remove_back" => {
            let i = p_usize(toks[1]);
            let r = meas(|| buf.swap_remove_back(i));
            let s = s_opt(&r);
            keep(bag, r);
            s
        }
        "swap_remove_front" => {
            let i = p_usize(toks[1]);
            let r = meas(|| buf.swap_remove_front(i));
            let s = s_opt(&r);
            keep(bag, r);
            s
        }
        "truncate_back" => {
            let k = p_usize(toks[1]);
            meas(|| buf.truncate_back(k));
            "unit".to_string()
        }
        "truncate_front" => {
            let k = p_usize(toks[1]);
            meas(|| buf.truncate_front(k));
            "unit".to_string()
        }
        "clear" => {
            meas(|| buf.clear());
            "unit".to_string()
        }
        "extend" => {
            let xs: Vec<T> = mk_all(toks[1]);
            let it = FaultIter(xs.into_iter(), 0);
            meas(|| buf.extend(it));
            "unit".to_string()
        }
        "extend_from_slice" => {
            let xs: Vec<T> = mk_all(toks[1]);
            let r = catch_unwind(AssertUnwindSafe(|| meas(|| buf.extend_from_slice(&xs))));
            // the source stays with the caller
            bag.extend(xs);
            if let Err(e) = r {
                std::panic::resume_unwind(e);
            }
            "unit".to_string()
        }
        "fill" => {
            let (i, v) = p_pair(toks[1]);
            let x = T::mk(i, v);
            meas(|| buf.fill(x));
            "unit".to_string()
        }
        "fill_with" => {
            meas(|| buf.fill_with(T::from_closure));
            "unit".to_string()
        }
        "fill_spare" => {
            let (i, v) = p_pair(toks[1]);
            let x = T::mk(i, v);
            meas(|| buf.fill_spare(x));
            "unit".to_string()
        }
        "fill_spare_with" => {
            meas(|| buf.fill_spare_with(T::from_closure));
            "unit".to_string()
        }
        "drain" | "drain_debug" => {
            let (sb, eb) = (p_bound(toks[1]), p_bound(toks[2]));
            let script = p_script(toks[3]);
            let dbg_it = toks[0] == "drain_debug";
            let forget = !dbg_it && toks[4] == "forget";
            let mut out: Vec<String> = Vec::with_capacity(script.len());
            let mut d = meas(|| buf.drain((sb, eb)));
            for st in script {
                match st {
                    Step::NextBack | Step::NextBackSet(..) => {
                        let r = meas(|| d.next_back());
                        out.push(match &r {
                            None => "inone".to_string(),
                            Some(e) => format!("i(-1@{})", e.show()),
                        });
                        keep(bag, r);
                    }
                    Step::Nth(k) => {
                        let r = meas(|| d.nth(k));
                        out.push(match &r {
                            None => "inone".to_string(),
                            Some(e) => format!("i(-1@{})", e.show()),
                        });
                        keep(bag, r);
                    }
                    Step::Len | Step::CloneIt => {
                        let n = meas(|| d.len());
                        let (lo, hi) = d.size_hint();
                        if lo != n || hi != Some(n) {
                            extra.push_str("size_hint-mismatch;");
                        }
                        out.push(format!("l{}", n));
                    }
                    _ => {
                        let r = meas(|| d.next());
                        out.push(match &r {
                            None => "inone".to_string(),
                            Some(e) => format!("i(-1@{})", e.show()),
                        });
                        keep(bag, r);
                    }
                }
            }
            if dbg_it {
                // <Drain as Debug>::fmt: the elements still to be yielded
                let mut txt = String::with_capacity(64 + 24 * d.len());
                meas(|| write!(txt, "{:?}", d)).unwrap();
                if !txt.starts_with('[') {
                    extra.push_str("drain-debug-not-a-list;");
                }
            }
            if forget {
                mem::forget(d);
            } else {
                meas(|| drop(d));
            }
            sc(out)
        }
        "make_contiguous" => {
            let ws = p_pairs(toks[1]);
            let sl = meas(|| buf.make_contiguous());
            let sz = mem::size_of::<T>().max(1);
            let mut out = Vec::with_capacity(sl.len());
            let mut wi = ws.into_iter();
            for r in sl.iter_mut() {
                let p = if T::ZST { -2 } else { ((r as *const T as usize - base as usize) / sz) as i64 };
                out.push(format!("{}@{}", p, r.show()));
                if let Some((i, v)) = wi.next() {
                    bag.push(mem::replace(r, T::mk(i, v)));
                }
            }
            format!("sl[{}|-]", if out.is_empty() { "-".to_string() } else { out.join(",") })
        }
        "get" => {
            let i = p_usize(toks[1]);
            let r = meas(|| buf.get(i));
            s_optref(buf, r)
        }
        "nth_front" => {
            let i = p_usize(toks[1]);
            let r = meas(|| buf.nth_front(i));
            s_optref(buf, r)
        }
        "nth_back" => {
            let i = p_usize(toks[1]);
            let r = meas(|| buf.nth_back(i));
            s_optref(buf, r)
        }
        "front" => {
            let r = meas(|| buf.front());
            s_optref(buf, r)
        }
        "back" => {
            let r = meas(|| buf.back());
            s_optref(buf, r)
        }
        "index" => {
            let i = p_usize(toks[1]);
            let r = meas(|| &buf[i]);
            format!("ref({})", s_ref(buf, r))
        }
        "get_mut" => {
            let i = p_usize(toks[1]);
            let v = p_pair(toks[2]);
            let r = meas(|| buf.get_mut(i));
            set_through::<N, T>(base, r, v, bag)
        }
        "nth_front_mut" => {
            let i = p_usize(toks[1]);
            let v = p_pair(toks[2]);
            let r = meas(|| buf.nth_front_mut(i));
            set_through::<N, T>(base, r, v, bag)
        }
        "nth_back_mut" => {
            let i = p_usize(toks[1]);
            let v = p_pair(toks[2]);
            let r = meas(|| buf.nth_back_mut(i));
            set_through::<N, T>(base, r, v, bag)
        }
        "front_mut" => {
            let v = p_pair(toks[1]);
            let r = meas(|| buf.front_mut());
            set_through::<N, T>(base, r, v, bag)
        }
        "back_mut" => {
            let v = p_pair(toks[1]);
            let r = meas(|| buf.back_mut());
            set_through::<N, T>(base, r, v, bag)
        }
        "index_mut" => {
            let i = p_usize(toks[1]);
            let v = p_pair(toks[2]);
            let r = meas(|| &mut buf[i]);
            set_through::<N, T>(base, Some(r), v, bag)
        }
        "as_slices" => {
            let (a, b) = meas(|| buf.as_slices());
            format!(
                "sl[{}|{}]",
                list(a, |r| s_ref(buf, r)),
                list(b, |r| s_ref(buf, r))
            )
        }
        "as_mut_slices" => {
            let ws = p_pairs(toks[1]);
            let sz = mem::size_of::<T>().max(1);
            let (a, b) = meas(|| buf.as_mut_slices());
            let mut wi = ws.into_iter();
            let mut oa = Vec::with_capacity(a.len());
            let mut ob = Vec::with_capacity(b.len());
            for (sl, out) in [(a, &mut oa), (b, &mut ob)] {
                for r in sl.iter_mut() {
                    let p = if T::ZST { -2 } else { ((r as *const T as usize - base as usize) / sz) as i64 };
                    out.push(format!("{}@{}", p, r.show()));
                    if let Some((i, v)) = wi.next() {
                        bag.push(mem::replace(r, T::mk(i, v)));
                    }
                }
            }
            let j = |v: Vec<String>| if v.is_empty() { "-".to_string() } else { v.join(",") };
            format!("sl[{}|{}]", j(oa), j(ob))
        }
        "iter" | "range" | "ref_into_iter" | "iter_default" | "iter_debug" => {
            let (script, mut it) = match toks[0] {
                "iter" => (p_script(toks[1]), meas(|| buf.iter())),
                // <&CircularBuffer as IntoIterator>::into_iter
                "ref_into_iter" => (p_script(toks[1]), meas(|| (&*buf).into_iter())),
                // <Iter as Default>::default
                "iter_default" => (p_script(toks[1]), meas(|| circular_buffer::Iter::<'_, T>::default())),
                _ => {
                    let (sb, eb) = (p_bound(toks[1]), p_bound(toks[2]));
                    (p_script(toks[3]), meas(|| buf.range((sb, eb))))
                }
            };
            let dbg_it = toks[0] == "iter_debug";
            let mut out: Vec<String> = Vec::with_capacity(script.len());
            let mut clones: Vec<(usize, circular_buffer::Iter<'_, T>)> = Vec::new();
            for st in script {
                match st {
                    Step::Next | Step::NextSet(..) => {
                        let r = meas(|| it.next());
                        out.push(match r {
                            None => "inone".to_string(),
                            Some(e) => format!("i({})", s_ref(buf, e)),
                        });
                    }
                    Step::Nth(k) => {
                        let r = meas(|| it.nth(k));
                        out.push(match r {
                            None => "inone".to_string(),
                            Some(e) => format!("i({})", s_ref(buf, e)),
                        });
                    }
                    Step::NextBack | Step::NextBackSet(..) => {
                        let r = meas(|| it.next_back());
                        out.push(match r {
                            None => "inone".to_string(),
                            Some(e) => format!("i({})", s_ref(buf, e)),
                        });
                    }
                    Step::Len => {
                        let n = meas(|| it.len());
                        let (lo, hi) = it.size_hint();
                        if lo != n || hi != Some(n) {
                            extra.push_str("size_hint-mismatch;");
                        }
                        out.push(format!("l{}", n));
                    }
                    Step::CloneIt => {
                        clones.push((out.len(), meas(|| it.clone())));
                        out.push(String::new());
                    }
                }
            }
            for (pos, c) in clones {
                let v: Vec<String> = c.map(|e| s_ref(buf, e)).collect();
                out[pos] = format!("L[{}]", if v.is_empty() { "-".to_string() } else { v.join(",") });
            }
            if dbg_it {
                // <Iter as Debug>::fmt: the elements still to come, as a list
                let mut txt = String::with_capacity(64 + 24 * it.len());
                meas(|| write!(txt, "{:?}", it)).unwrap();
                let save = phase();
                set_phase(2);
                let rest: Vec<&T> = it.clone().collect();
                if txt != format!("{:?}", &rest[..]) {
                    extra.push_str("iter-debug-differs;");
                }
                set_phase(save);
            }
            sc(out)
        }
        "iter_mut" | "range_mut" | "iter_mut_default" | "iter_mut_debug" => {
            let sz = mem::size_of::<T>().max(1);
            let (script, mut it) = match toks[0] {
                "iter_mut" => (p_script(toks[1]), meas(|| buf.iter_mut())),
                "iter_mut_default" => (p_script(toks[1]), meas(|| circular_buffer::IterMut::<'_, T>::default())),
                _ => {
                    let (sb, eb) = (p_bound(toks[1]), p_bound(toks[2]));
                    (p_script(toks[3]), meas(|| buf.range_mut((sb, eb))))
                }
            };
            let dbg_it = toks[0] == "iter_mut_debug";
            let mut out: Vec<String> = Vec::with_capacity(script.len());
            let mut held: Vec<*const T> = Vec::with_capacity(script.len());
            for st in script {
                let (r, w) = match st {
                    Step::Next | Step::CloneIt => (meas(|| it.next()), None),
                    Step::Nth(k) => (meas(|| it.nth(k)), None),
                    Step::NextBack => (meas(|| it.next_back()), None),
                    Step::NextSet(i, v) => (meas(|| it.next()), Some((i, v))),
                    Step::NextBackSet(i, v) => (meas(|| it.next_back()), Some((i, v))),
                    Step::Len => {
                        let n = meas(|| it.len());
                        let (lo, hi) = it.size_hint();
                        if lo != n || hi != Some(n) {
                            extra.push_str("size_hint-mismatch;");
                        }
                        out.push(format!("l{}", n));
                        continue;
                    }
                };
                match r {
                    None => out.push("inone".to_string()),
                    Some(e) => {
                        let a = e as *const T;
                        if !T::ZST && held.contains(&a) {
                            extra.push_str("aliased-mut;");
                        }
                        held.push(a);
                        let p = if T::ZST { -2 } else { ((a as usize - base as usize) / sz) as i64 };
                        out.push(format!("i({}@{})", p, e.show()));
                        if let Some((i, v)) = w {
                            bag.push(mem::replace(e, T::mk(i, v)));
                        }
                    }
                }
            }
            if dbg_it {
                // <IterMut as Debug>::fmt
                let mut txt = String::with_capacity(64 + 24 * it.len());
                meas(|| write!(txt, "{:?}", it)).unwrap();
                let save = phase();
                set_phase(2);
                let rest: Vec<&mut T> = it.collect();
                if txt != format!("{:?}", &rest[..]) {
                    extra.push_str("iter-mut-debug-differs;");
                }
                set_phase(save);
            }
            sc(out)
        }
        "into_iter" | "into_iter_debug" => {
            let script = p_script(toks[1]);
            let mut out: Vec<String> = Vec::with_capacity(script.len());
            let old = mem::replace(buf, CircularBuffer::new());
            let mut it = meas(|| old.into_iter());
            for st in script {
                match st {
                    Step::NextBack | Step::NextBackSet(..) => {
                        let r = meas(|| it.next_back());
                        out.push(match &r {
                            None => "inone".to_string(),
                            Some(e) => format!("i(-1@{})", e.show()),
                        });
                        keep(bag, r);
                    }
                    Step::Nth(k) => {
                        let r = meas(|| it.nth(k));
                        out.push(match &r {
                            None => "inone".to_string(),
                            Some(e) => format!("i(-1@{})", e.show()),
                        });
                        keep(bag, r);
                    }
                    Step::Len | Step::CloneIt => {
                        let n = meas(|| it.len());
                        let (lo, hi) = it.size_hint();
                        if lo != n || hi != Some(n) {
                            extra.push_str("size_hint-mismatch;");
                        }
                        out.push(format!("l{}", n));
                    }
                    _ => {
                        let r = meas(|| it.next());
                        out.push(match &r {
                            None => "inone".to_string(),
                            Some(e) => format!("i(-1@{})", e.show()),
                        });
                        keep(bag, r);
                    }
                }
            }
            if toks[0] == "into_iter_debug" {
                // <IntoIter as Debug>::fmt
                let mut txt = String::with_capacity(64 + 24 * it.len());
                meas(|| write!(txt, "{:?}", it)).unwrap();
                if !txt.starts_with('[') {
                    extra.push_str("into-iter-debug-not-a-list;");
                }
            }
            meas(|| drop(it));
            sc(out)
        }
        "boxed" => {
            // CircularBuffer::boxed(): one allocation, empty; moved into place, old buffer dropped
            let b = meas(|| CircularBuffer::<N, T>::boxed());
            if !b.is_empty() || b.len() != 0 {
                extra.push_str("boxed-not-empty;");
            }
            let old = mem::replace(buf, *b);
            meas(|| drop(old));
            "unit".to_string()
        }
        "to_vec" => {
            let v = meas(|| buf.to_vec());
            let s = format!("list[{}]", list(&v, |e| e.show()));
            bag.extend(v);
            s
        }
        "debug" => {
            let mut s = String::with_capacity(64 + 24 * buf.len());
            meas(|| write!(s, "{:?}", buf)).unwrap();
            // oracle: every formatter flag gives the output of the equivalent slice
            let save = phase();
            set_phase(2);
            let refs: Vec<&T> = buf.iter().collect();
            let mut ok = true;
            macro_rules! chk {
                ($f:literal) => {
                    if format!($f, buf) != format!($f, &refs[..]) {
                        ok = false;
                        extra.push_str(concat!("debug-differs:", $f, ";"));
                    }
                };
            }
            chk!("{:?}");
            chk!("{:#?}");
            chk!("{:5?}");
            chk!("{:<8?}");
            chk!("{:#x?}");
            chk!("{:+?}");
            chk!("{:08.3?}");
            set_phase(save);
            let _ = ok;
            "unit".to_string()
        }
        "new" => {
            let old = mem::replace(buf, meas(|| CircularBuffer::new()));
            meas(|| drop(old));
            "unit".to_string()
        }
        "default" => {
            // <CircularBuffer<N, T> as Default>::default()
            let old = mem::replace(buf, meas(|| Default::default()));
            meas(|| drop(old));
            "unit".to_string()
        }
        "from_iter" => {
            let xs: Vec<T> = mk_all(toks[1]);
            let it = FaultIter(xs.into_iter(), 0);
            let nb: CircularBuffer<N, T> = meas(|| it.collect());
            let old = mem::replace(buf, nb);
            meas(|| drop(old));
            "unit".to_string()
        }
        "clone_drop" => {
            let c = meas(|| buf.clone());
            let s = {
                let (a, b) = c.as_slices();
                let mut v: Vec<String> = a.iter().map(|e| e.show()).collect();
                v.extend(b.iter().map(|e| e.show()));
                format!("list[{}]", if v.is_empty() { "-".to_string() } else { v.join(",") })
            };
            meas(|| drop(c));
            s
        }
        "clone_keep" => {
            let c = meas(|| buf.clone());
            let old = mem::replace(buf, c);
            meas(|| drop(old));
            "unit".to_string()
        }
        "hash" => {
            let mut h = RecHasher;
            meas(|| buf.hash(&mut h));
            "unit".to_string()
        }
        "eq_slice" if toks[1] == "slice" || toks[1] == "slice_ref" || toks[1] == "slice_mut" => {
            let mut xs: Vec<T> = mk_all(toks[2]);
            let r = catch_unwind(AssertUnwindSafe(|| match toks[1] {
                "slice" => meas(|| *buf == xs[..]),
                "slice_ref" => meas(|| *buf == &xs[..]),
                _ => meas(|| *buf == &mut xs[..]),
            }));
            bag.extend(xs);
            match r {
                Ok(b) => format!("b{}", b as u8),
                Err(e) => std::panic::resume_unwind(e),
            }
        }
        _ => match T::special(buf, toks, bag) {
            Some(s) => s,
            None => "unsupported".to_string(),
        },
    }
}

// ---- operations involving a second const parameter (element type E only)

const PAIR_MAX: usize = 11;

fn build_other<const M: usize>(spec: &str) -> CircularBuffer<M, E> {
    // "cap;start;id:val,id:val;junk"
    let f: Vec<&str> = spec.split(';').collect();
    build::<M, E>(p_usize(f[1]), &p_pairs(f[2]), f[3].parse().unwrap())
}

fn pair_m<const N: usize, const M: usize>(
    buf: &mut CircularBuffer<N, E>,
    toks: &[&str],
    bag: &mut Vec<E>,
) -> String {
    match toks[0] {
        "eq" | "partial_cmp" => {
            let other = build_other::<M>(toks[1]);
            let r = catch_unwind(AssertUnwindSafe(|| {
                if toks[0] == "eq" {
                    format!("b{}", meas(|| *buf == other) as u8)
                } else {
                    match meas(|| (*buf).partial_cmp(&other)) {
                        None => "ordnone".to_string(),
                        Some(std::cmp::Ordering::Less) => "ordlt".to_string(),
                        Some(std::cmp::Ordering::Equal) => "ordeq".to_string(),
                        Some(std::cmp::Ordering::Greater) => "ordgt".to_string(),
                    }
                }
            }));
            let save = phase();
            set_phase(1);
            drop(other);
            set_phase(save);
            match r {
                Ok(s) => s,
                Err(e) => std::panic::resume_unwind(e),
            }
        }
        "from_array" => {
            let xs: Vec<E> = mk_all(toks[1]);
            let arr: [E; M] = match xs.try_into() {
                Ok(a) => a,
                Err(_) => panic!("harness: array length"),
            };
            let nb: CircularBuffer<N, E> = meas(|| CircularBuffer::from(arr));
            let old = mem::replace(buf, nb);
            meas(|| drop(old));
            "unit".to_string()
        }
        "eq_slice" => {
            let xs: Vec<E> = mk_all(toks[2]);
            let mut arr: [E; M] = match xs.try_into() {
                Ok(a) => a,
                Err(_) => panic!("harness: array length"),
            };
            let r = catch_unwind(AssertUnwindSafe(|| match toks[1] {
                "array" => meas(|| *buf == arr),
                "array_ref" => meas(|| *buf == &arr),
                _ => meas(|| *buf == &mut arr),
            }));
            bag.extend(arr);
            match r {
                Ok(b) => format!("b{}", b as u8),
                Err(e) => std::panic::resume_unwind(e),
            }
        }
        _ => "unsupported".to_string(),
    }
}

fn same_n<const N: usize>(
    buf: &mut CircularBuffer<N, E>,
    toks: &[&str],
) -> String {
    let other = build_other::<N>(toks[1]);
    let r = catch_unwind(AssertUnwindSafe(|| match toks[0] {
        "clone_from" => {
            meas(|| buf.clone_from(&other));
            "unit".to_string()
        }
        _ => match meas(|| (*buf).cmp(&other)) {
            std::cmp::Ordering::Less => "ordlt".to_string(),
            std::cmp::Ordering::Equal => "ordeq".to_string(),
            std::cmp::Ordering::Greater => "ordgt".to_string(),
        },
    }));
    let save = phase();
    set_phase(1);
    drop(other);
    set_phase(save);
    match r {
        Ok(s) => s,
        Err(e) => std::panic::resume_unwind(e),
    }
}

fn pair_ops<const N: usize>(
    buf: &mut CircularBuffer<N, E>,
    toks: &[&str],
    bag: &mut Vec<E>,
) -> Option<String> {
    let m: usize = match toks[0] {
        "eq" | "partial_cmp" => p_usize(toks[1].split(';').next().unwrap()),
        "from_array" => p_pairs(toks[1]).len(),
        "eq_slice" => p_pairs(toks[2]).len(),
        "clone_from" | "cmp" => return Some(same_n(buf, toks)),
        "eq_self" => {
            // the same object on both sides: an identity shortcut would answer true
            let r: &CircularBuffer<N, E> = buf;
            let b = meas(|| *r == *r);
            return Some(format!("b{}", b as u8));
        }
        _ => return None,
    };
    if N > 6 {
        return None;
    }
    macro_rules! go {
        ($($M:literal),*) => {
            match m {
                $( $M => Some(pair_m::<N, $M>(buf, toks, bag)), )*
                _ => None,
            }
        };
    }
    let _ = PAIR_MAX;
    go!(0, 1, 2, 3, 4, 5, 6, 7, 8, 9, 10, 11, 12, 13)
}

// ---- byte I/O (element type u8 only)

fn vals(s: &str) -> Vec<u8> {
    p_pairs(s).into_iter().map(|(_, v)| v as u8).collect()
}
fn s_bytes(v: &[u8]) -> String {
    list(v, |b| format!("0:{}", b))
}

#[cfg(feature = "embedded-io-async")]
fn poll_once<F: std::future::Future>(f: F) -> Option<F::Output> {
    use std::task::{Context, Poll, Waker};
    let mut f = std::pin::pin!(f);
    let mut cx = Context::from_waker(Waker::noop());
    match f.as_mut().poll(&mut cx) {
        Poll::Ready(v) => Some(v),
        Poll::Pending => None,
    }
}

fn io_ops<const N: usize>(buf: &mut CircularBuffer<N, u8>, toks: &[&str]) -> Option<String> {
    let fam = *toks.get(1).unwrap_or(&"");
    match (toks[0], fam) {
        ("extend_ref", _) => {
            let xs = vals(toks[1]);
            meas(|| buf.extend(xs.iter()));
            Some("unit".to_string())
        }
        ("write", "std") => {
            let src = vals(toks[2]);
            Some(match meas(|| buf.write(&src)) {
                Ok(n) => format!("z{}", n),
                Err(_) => "ioerr".to_string(),
            })
        }
        ("flush", "std") => Some(match meas(|| buf.flush()) {
            Ok(()) => "unit".to_string(),
            Err(_) => "ioerr".to_string(),
        }),
        ("read", "std") => {
            let mut dst = vals(toks[2]);
            Some(match meas(|| std::io::Read::read(buf, &mut dst)) {
                Ok(n) => format!("rd{}[{}]", n, s_bytes(&dst)),
                Err(_) => "ioerr".to_string(),
            })
        }
        ("fill_buf", "std") => Some(match meas(|| buf.fill_buf()) {
            Ok(s) => format!("list[{}]", s_bytes(s)),
            Err(_) => "ioerr".to_string(),
        }),
        ("consume", "std") => {
            let k = p_usize(toks[2]);
            meas(|| buf.consume(k));
            Some("unit".to_string())
        }
        #[cfg(feature = "embedded-io")]
        ("write", "eio") => {
            let src = vals(toks[2]);
            Some(match meas(|| embedded_io::Write::write(buf, &src)) {
                Ok(n) => format!("z{}", n),
                Err(_) => "ioerr".to_string(),
            })
        }
        #[cfg(feature = "embedded-io")]
        ("flush", "eio") => Some(match meas(|| embedded_io::Write::flush(buf)) {
            Ok(()) => "unit".to_string(),
            Err(_) => "ioerr".to_string(),
        }),
        #[cfg(feature = "embedded-io")]
        ("read", "eio") => {
            let mut dst = vals(toks[2]);
            Some(match meas(|| embedded_io::Read::read(buf, &mut dst)) {
                Ok(n) => format!("rd{}[{}]", n, s_bytes(&dst)),
                Err(_) => "ioerr".to_string(),
            })
        }
        #[cfg(feature = "embedded-io")]
        ("fill_buf", "eio") => Some(match meas(|| embedded_io::BufRead::fill_buf(buf)) {
            Ok(s) => format!("list[{}]", s_bytes(s)),
            Err(_) => "ioerr".to_string(),
        }),
        #[cfg(feature = "embedded-io")]
        ("consume", "eio") => {
            let k = p_usize(toks[2]);
            meas(|| embedded_io::BufRead::consume(buf, k));
            Some("unit".to_string())
        }
        #[cfg(feature = "embedded-io-async")]
        ("write", "aio") => {
            let src = vals(toks[2]);
            Some(match meas(|| poll_once(embedded_io_async::Write::write(buf, &src))) {
                Some(Ok(n)) => format!("z{}", n),
                Some(Err(_)) => "ioerr".to_string(),
                None => "pending".to_string(),
            })
        }
        #[cfg(feature = "embedded-io-async")]
        ("flush", "aio") => Some(match meas(|| poll_once(embedded_io_async::Write::flush(buf))) {
            Some(Ok(())) => "unit".to_string(),
            Some(Err(_)) => "ioerr".to_string(),
            None => "pending".to_string(),
        }),
        #[cfg(feature = "embedded-io-async")]
        ("read", "aio") => {
            let mut dst = vals(toks[2]);
            let r = meas(|| poll_once(embedded_io_async::Read::read(buf, &mut dst)));
            Some(match r {
                Some(Ok(n)) => format!("rd{}[{}]", n, s_bytes(&dst)),
                Some(Err(_)) => "ioerr".to_string(),
                None => "pending".to_string(),
            })
        }
        #[cfg(feature = "embedded-io-async")]
        ("fill_buf", "aio") => {
            Some(match meas(|| poll_once(embedded_io_async::BufRead::fill_buf(buf))) {
                Some(Ok(s)) => format!("list[{}]", s_bytes(s)),
                Some(Err(_)) => "ioerr".to_string(),
                None => "pending".to_string(),
            })
        }
        #[cfg(feature = "embedded-io-async")]
        ("consume", "aio") => {
            let k = p_usize(toks[2]);
            meas(|| embedded_io_async::BufRead::consume(buf, k));
            Some("unit".to_string())
        }
        _ => None,
    }
}

// ---------------------------------------------------------------- cases

fn panic_kind(msg: &str) -> &'static str {
    if msg.contains("verif-bomb") {
        "user"
    } else if msg.starts_with("harness:") {
        "harness"
    } else if msg.contains("with overflow") {
        "overflow"
    } else if msg.contains("divisor of zero") || msg.contains("divide by zero") {
        "divzero"
    } else if msg.contains("exceeds maximum usize") || msg == "index out-of-bounds" {
        "expect"
    } else if msg.contains("for buffer of length")
        || msg.contains("range starts at index")
        || msg == "i index out-of-bounds"
        || msg == "j index out-of-bounds"
    {
        "assert"
    } else if msg.contains("not implemented") {
        "unimpl"
    } else if msg.contains("out of bounds")
        || msg.contains("out of range for slice")
        || msg.contains("slice index starts at")
        || msg.contains("mid > len")
        || msg.contains("range end index")
        || msg.contains("range start index")
    {
        "bounds"
    } else {
        // every other message raised inside the crate is a debug assertion
        "dassert"
    }
}

struct CaseHdr {
    start: usize,
    vals: Vec<u64>,
    junk: u32,
    fault: Option<(u8, u64)>,
    nid: u64,
}

fn run_case<const N: usize, T: Elem>(hdr: &CaseHdr, ops: &[String], out: &mut dyn std::io::Write) {
    LOG.with(|l| l.borrow_mut().clear());
    LIVE.with(|l| l.borrow_mut().clear());
    BAD.with(|l| l.borrow_mut().clear());
    ZLIVE.with(|z| z.set(0));
    NEXT_ID.with(|n| n.set(hdr.nid));
    FAULT.with(|f| f.set(None));
    set_phase(0);
    let els: Vec<(u64, u64)> =
        hdr.vals.iter().enumerate().map(|(i, v)| (i as u64 + 1, *v)).collect();
    let mut buf: CircularBuffer<N, T> = build::<N, T>(hdr.start, &els, hdr.junk);
    let mut bag: Vec<T> = Vec::new();
    writeln!(out, "init st={} sz={} c={}", buf.verif_start(), buf.len(), raw_contents(&buf)).unwrap();
    FAULT.with(|f| f.set(hdr.fault));
    for (k, line) in ops.iter().enumerate() {
        let toks: Vec<&str> = line.split(' ').collect();
        let mut extra = String::new();
        ALLOCS.store(0, AO::Relaxed);
        LOG.with(|l| l.borrow_mut().clear());
        out.flush().unwrap();
        let before = slot_map(&buf);
        let r = catch_unwind(AssertUnwindSafe(|| run_op::<N, T>(&mut buf, &toks, &mut bag, &mut extra)));
        COUNT_ON.store(false, AO::Relaxed);
        set_phase(0);
        let rs = match r {
            Ok(s) => s,
            Err(_) => {
                let msg = PANIC_MSG.with(|m| m.borrow().clone());
                let kind = panic_kind(&msg);
                if kind == "harness" {
                    eprintln!("harness error: {} in op {:?}", msg, line);
                    std::process::exit(3);
                }
                format!("panic:{}", kind)
            }
        };
        let evs = LOG.with(|l| {
            let l = l.borrow();
            if l.is_empty() { "-".to_string() } else { l.join(",") }
        });
        let armed = FAULT.with(|f| f.get().is_some());
        validity(&buf, &mut extra);
        // surviving elements whose physical slot changed (C20)
        let after = slot_map(&buf);
        let moved = before.iter().filter(|(id, p)| after.get(*id).map_or(false, |q| q != *p)).count();
        writeln!(
            out,
            "i k={} r={} mv={} st={} sz={} c={} e={} f={} a={} x={}",
            k,
            rs,
            moved,
            buf.verif_start(),
            buf.len(),
            raw_contents(&buf),
            evs,
            if armed { "armed" } else { "none" },
            ALLOCS.load(AO::Relaxed),
            if extra.is_empty() { "-" } else { &extra }
        )
        .unwrap();
        // API-level observers must agree with the raw state
        let n = buf.len();
        if buf.is_empty() != (n == 0) || buf.is_full() != (n == N) || buf.capacity() != N {
            writeln!(out, "i k={} observer-mismatch", k).unwrap();
        }
    }
    // teardown: the caller drops what it holds, then the buffer
    FAULT.with(|f| f.set(None));
    set_phase(1);
    drop(bag);
    drop(buf);
    set_phase(0);
    let mut live: Vec<u64> = LIVE.with(|l| l.borrow().iter().cloned().collect());
    if !T::HAS_DROP {
        live.clear(); // without a destructor nothing ever dies: no leak accounting for this type
    }
    live.sort();
    let zl = ZLIVE.with(|z| z.get());
    let bads = BAD.with(|b| b.borrow().join(";"));
    writeln!(
        out,
        "fin live={} zlive={} bad={}",
        list(&live, |i| i.to_string()),
        zl,
        if bads.is_empty() { "-" } else { &bads }
    )
    .unwrap();
}

macro_rules! dispatch {
    ($n:expr, $t:ty, $hdr:expr, $ops:expr, $out:expr; $($N:literal),*) => {
        match $n {
            $( $N => { run_case::<$N, $t>($hdr, $ops, $out); true } )*
            _ => false,
        }
    };
}

// fn dispatch_case(elem, n, hdr, ops, out) -> bool: one monomorphised run_case per
// (element type, capacity); the capacity lists are written by build.rs (base
// lists + VERIF_EXTRA_CAPS, the capacities a changed source text steers the
// search to)
include!(concat!(env!("OUT_DIR"), "/caps.rs"));

fn main() {
    // the buffers under test live on the stack; large capacities need room
    let child = std::thread::Builder::new()
        .stack_size(3 << 30)
        .spawn(real_main)
        .expect("spawn");
    if child.join().is_err() {
        std::process::exit(101);
    }
}

fn real_main() {
    let args: Vec<String> = std::env::args().collect();
    if args.len() < 3 {
        eprintln!("usage: cbharness <cases> <out> [skip]");
        std::process::exit(2);
    }
    let skip: usize = args.get(3).map(|s| s.parse().unwrap()).unwrap_or(0);
    std::panic::set_hook(Box::new(|info| {
        let msg = if let Some(s) = info.payload().downcast_ref::<&str>() {
            s.to_string()
        } else if let Some(s) = info.payload().downcast_ref::<String>() {
            s.clone()
        } else {
            "?".to_string()
        };
        let on = COUNT_ON.swap(false, AO::Relaxed);
        PANIC_MSG.with(|m| *m.borrow_mut() = msg);
        COUNT_ON.store(on, AO::Relaxed);
    }));
    let text = std::fs::read_to_string(&args[1]).expect("read cases");
    let f = std::fs::OpenOptions::new()
        .create(true)
        .append(true)
        .open(&args[2])
        .expect("open out");
    let mut out = std::io::BufWriter::new(f);
    let mut lines = text.lines().peekable();
    let mut idx = 0usize;
    while let Some(line) = lines.next() {
        if !line.starts_with("case ") {
            continue;
        }
        let mut ops: Vec<String> = Vec::new();
        for l in lines.by_ref() {
            if l == "end" {
                break;
            }
            if !l.is_empty() {
                ops.push(l.to_string());
            }
        }
        idx += 1;
        if idx <= skip {
            continue;
        }
        let mut kvs = std::collections::HashMap::new();
        for t in line.split(' ') {
            if let Some(i) = t.find('=') {
                kvs.insert(&t[..i], &t[i + 1..]);
            }
        }
        let n: u64 = p_u64(kvs["N"]);
        let hdr = CaseHdr {
            start: p_usize(kvs["start"]),
            vals: if kvs["vals"] == "-" {
                vec![]
            } else if let Some(k) = kvs["vals"].strip_prefix('@') {
                // shorthand for the default contents 10, 20, ..., 10k
                (1..=p_u64(k)).map(|i| 10 * i).collect()
            } else {
                kvs["vals"].split(',').map(p_u64).collect()
            },
            junk: kvs["junk"].parse().unwrap(),
            fault: match kvs["fault"] {
                "none" => None,
                s => {
                    let mut it = s.split(':');
                    let k = match it.next().unwrap() {
                        "drop" => K_DROP,
                        "clone" => K_CLONE,
                        "call" => K_CALL,
                        "next" => K_NEXT,
                        "eq" => K_EQ,
                        "cmp" => K_CMP,
                        "hash" => K_HASH,
                        "fmt" => K_FMT,
                        o => panic!("bad fault kind {}", o),
                    };
                    Some((k, p_u64(it.next().unwrap())))
                }
            },
            nid: p_u64(kvs["nid"]),
        };
        // the marker is flushed before the case runs, so that an abort or a
        // hang is attributed to it
        writeln!(out, "{}", line).unwrap();
        out.flush().unwrap();
        let ok = dispatch_case(kvs["elem"], n, &hdr, &ops, &mut out);
        if !ok {
            writeln!(out, "unsupported-case").unwrap();
        }
        writeln!(out, "end").unwrap();
        out.flush().unwrap();
    }
}
