"""API surface audit: every public function and every trait impl of the crate
must be one the model covers. The list below is what the Gallina model
(coq/theories) has an image for; a public item of src/*.rs that is not on it
has no theorem and no correspondence case, so the properties that quantify
over "every operation of the API" are no longer shown to hold."""
import os
import re

# inherent pub fns of CircularBuffer that the model covers (theories/Buf.v, Traits.v, System.v)
PUB_FNS = {
    "new", "boxed", "len", "capacity", "is_empty", "is_full", "iter", "iter_mut", "range", "range_mut", "drain",
    "make_contiguous", "as_slices", "as_mut_slices", "back", "back_mut", "front", "front_mut", "get", "get_mut",
    "nth_front", "nth_front_mut", "nth_back", "nth_back_mut", "push_back", "try_push_back", "push_front",
    "try_push_front", "pop_back", "pop_front", "remove", "swap", "swap_remove_back", "swap_remove_front", "fill",
    "fill_with", "fill_spare", "fill_spare_with", "truncate_back", "truncate_front", "clear", "extend_from_slice",
    "to_vec",
    # hooks (cfg(circular_buffer_verif)), not part of the API
    "verif_start", "verif_items_ptr", "verif_items_mut_ptr", "verif_from_raw_parts", "verif_set_layout",
}

# trait impls the model covers, as (trait, self type head)
IMPLS = {
    ("Default", "CircularBuffer"), ("From", "CircularBuffer"), ("FromIterator", "CircularBuffer"),
    ("Extend", "CircularBuffer"), ("Index", "CircularBuffer"), ("IndexMut", "CircularBuffer"),
    ("IntoIterator", "CircularBuffer"), ("IntoIterator", "&CircularBuffer"),
    ("PartialEq", "CircularBuffer"), ("Eq", "CircularBuffer"), ("PartialOrd", "CircularBuffer"),
    ("Ord", "CircularBuffer"), ("Hash", "CircularBuffer"), ("Clone", "CircularBuffer"), ("Drop", "CircularBuffer"),
    ("Debug", "CircularBuffer"),
    ("Write", "CircularBuffer"), ("Read", "CircularBuffer"), ("BufRead", "CircularBuffer"),
    ("ErrorType", "CircularBuffer"),
    ("Iterator", "IntoIter"), ("ExactSizeIterator", "IntoIter"), ("FusedIterator", "IntoIter"),
    ("DoubleEndedIterator", "IntoIter"), ("Debug", "IntoIter"),
    ("Default", "Iter"), ("Iterator", "Iter"), ("ExactSizeIterator", "Iter"), ("FusedIterator", "Iter"),
    ("DoubleEndedIterator", "Iter"), ("Clone", "Iter"), ("Debug", "Iter"),
    ("Default", "IterMut"), ("Iterator", "IterMut"), ("ExactSizeIterator", "IterMut"), ("FusedIterator", "IterMut"),
    ("DoubleEndedIterator", "IterMut"), ("Debug", "IterMut"),
    ("Iterator", "Drain"), ("ExactSizeIterator", "Drain"), ("FusedIterator", "Drain"),
    ("DoubleEndedIterator", "Drain"), ("Drop", "Drain"), ("Debug", "Drain"),
    ("Copy", "CircularSlicePtr"), ("Clone", "CircularSlicePtr"),
    ("Drop", "Dropper"), ("Drop", "Guard"),
}

IMPL_RE = re.compile(r"^\s*(?:unsafe\s+)?impl\s*(?:<[^{]*?>)?\s*(!?[\w:]+)(?:<[^{]*?>)?\s+for\s+(&?\s*(?:'\w+\s+)?(?:mut\s+)?[\w:]+)", re.M)


def strip_comments(src):
    src = re.sub(r"//[^\n]*", "", src)
    return re.sub(r"/\*.*?\*/", "", src, flags=re.S)


def audit(repo):
    """returns (unknown items, all items seen)"""
    unknown, seen = [], []
    srcdir = os.path.join(repo, "src")
    librs = strip_comments(open(os.path.join(srcdir, "lib.rs")).read())
    test_mods = set(re.findall(r"#\[cfg\(test\)\]\s*mod\s+(\w+)\s*;", librs))
    for fn in sorted(os.listdir(srcdir)):
        if not fn.endswith(".rs"):
            continue
        text = strip_comments(open(os.path.join(srcdir, fn)).read())
        # compiled at all? (a file without a `mod` declaration is dead text)
        if fn != "lib.rs" and (fn[:-3] in test_mods or not re.search(r"\bmod\s+%s\s*;" % re.escape(fn[:-3]), librs)):
            continue
        # inline test modules are not API
        text = re.split(r"#\[cfg\(test\)\]\s*mod\s+\w+\s*\{", text)[0]
        for m in re.finditer(r"\bpub\s+(?:const\s+)?(?:unsafe\s+)?fn\s+(\w+)", text):
            seen.append("fn " + m.group(1))
            if m.group(1) not in PUB_FNS:
                unknown.append("%s: pub fn %s" % (fn, m.group(1)))
        for m in IMPL_RE.finditer(text):
            tr = m.group(1).split("::")[-1]
            ty = re.sub(r"\s+|'\w+|mut", "", m.group(2)).split("::")[-1]
            ty = ("&" if m.group(2).strip().startswith("&") else "") + ty.lstrip("&")
            seen.append("impl %s for %s" % (tr, ty))
            if (tr, ty) not in IMPLS:
                unknown.append("%s: impl %s for %s" % (fn, tr, ty))
    return unknown, seen


if __name__ == "__main__":
    import sys
    u, s = audit(sys.argv[1] if len(sys.argv) > 1 else "/repo")
    print(len(s), "items;", "unknown:", u)
