"""C15 — borrow, variance, const and auto-trait contracts of the public types.

Two halves, both re-done against the working tree on every run:

  proved    tools/rs2coq_types regenerates the struct definitions, impl headers
            and method signatures of <repo>/src/*.rs into TypesGen.v; the
            theorems of coq/types/C15Theorems.v (variance, Send/Sync conditions,
            constness, Clone bounds, elision / borrow of the receiver, lifetime
            ties) are computed on those closed terms with the rules of
            coq/types/TypeModel.v and must be closed under the global context.
  observed  every program under witness/ is compiled against the crate built
            from the working tree; rustc's verdict (accept / reject with one of
            the listed diagnostics) must equal the expectation that the named
            theorem predicts.

A witness whose verdict flips is a concrete failing program (the replay).
A theorem that stops checking, or source syntax the translator has no image
for, is reported with ` no-failing-input-found`.

    python3 tools/c15.py quick|thorough [seed]
"""

import concurrent.futures
import hashlib
import json
import os
import re
import sys
import time

sys.path.insert(0, os.path.dirname(os.path.abspath(__file__)))
import engine as E  # noqa: E402

PID = "C15"
HERE = os.path.dirname(os.path.abspath(__file__))
TYPES_DIR = os.path.join(E.VERIF, "coq", "types")
WITNESS_DIR = os.path.join(E.VERIF, "witness")
TOOL_DIR = os.path.join(E.VERIF, "tools", "rs2coq_types")
WORK = os.path.join(E.CACHE, "c15")

FORBIDDEN = re.compile(r"\b(Admitted|admit|Axiom|Axioms|Parameter|Parameters|Conjecture|Hypothesis|Hypotheses|"
                       r"Unset Guard Checking|bypass_check|Admit Obligations)\b|type-in-type|impredicative-set")

# diagnostics without an error code that still identify a lifetime error
PSEUDO = {
    "lifetime": re.compile(r"lifetime may not live long enough|lifetime mismatch|"
                           r"explicit lifetime required|lifetime of reference outlives"),
}
# error codes that mean "rejected for the reason the contract is about"
# (borrow checker, lifetimes, trait selection) as opposed to a witness that no
# longer names anything (resolution / syntax errors)
SEMANTIC = {"E0499", "E0502", "E0505", "E0506", "E0515", "E0597", "E0716", "E0277", "E0308", "E0621",
            "E0623", "E0495", "E0015", "E0133", "lifetime"}


def strip_comments(src):
    out, depth, i = [], 0, 0
    while i < len(src):
        if src.startswith("(*", i):
            depth += 1
            i += 2
        elif src.startswith("*)", i) and depth > 0:
            depth -= 1
            i += 2
        else:
            if depth == 0:
                out.append(src[i])
            i += 1
    return "".join(out)


def write_replay(tag, payload):
    d = os.path.join(E.VERIF, "replays")
    os.makedirs(d, exist_ok=True)
    h = hashlib.sha1(json.dumps(payload, sort_keys=True).encode()).hexdigest()[:12]
    path = os.path.join(d, "%s-%s-%s.json" % (PID, re.sub(r"\W+", "_", tag)[:60], h))
    json.dump(payload, open(path, "w"), indent=1)
    return path


# ------------------------------------------------------------------ proved half

def build_translator():
    tdir = os.path.join(E.CACHE, "target-rs2coq_types")
    env = {"CARGO_TARGET_DIR": tdir, "CARGO_NET_OFFLINE": "true"}
    rc, out = E.sh("cargo build --offline --locked --release", cwd=TOOL_DIR, env=env, timeout=900)
    exe = os.path.join(tdir, "release", "rs2coq_types")
    if rc != 0 or not os.path.exists(exe):
        return None, out
    return exe, out


def theorem_blocks(src):
    """[(name, statement text, first line, last line)] of the theorem file"""
    out = []
    lines = src.split("\n")
    i = 0
    while i < len(lines):
        m = re.match(r"\s*(?:Theorem|Lemma|Corollary)\s+(\w+)\s*:(.*)", lines[i])
        if m:
            name, j = m.group(1), i
            stmt = [m.group(2)]
            while j < len(lines) and not re.match(r"\s*Proof\b", lines[j]):
                j += 1
                if j < len(lines) and not re.match(r"\s*Proof\b", lines[j]):
                    stmt.append(lines[j])
            k = j
            while k < len(lines) and not re.search(r"\b(Qed|Defined)\s*\.", lines[k]):
                k += 1
            out.append((name, " ".join(s.strip() for s in stmt).rstrip(". ").strip(), i + 1, k + 1))
            i = k
        i += 1
    return out


def diagnose_theorems(cdir, thm_src):
    """one pass over a copy in which every proof is attempted, not required:
    returns {name: computed value or None} for the theorems that fail"""
    blocks = theorem_blocks(thm_src)
    lines = thm_src.split("\n")
    out_lines, pos = [], 0
    for name, stmt, a, b_ in blocks:
        out_lines += lines[pos:a - 1]
        out_lines.append("Goal %s." % stmt)
        out_lines.append('Proof. first [ solve [compute_it]; idtac "C15THM ok %s" | idtac "C15THM FAIL %s" ]. Abort.'
                         % (name, name))
        m = re.match(r"^(.*?[^<>:=])\s=\s(.*)$", stmt, flags=re.S)
        if m and "match" not in m.group(1) and "exists" not in m.group(1):
            out_lines.append('Goal True. idtac "C15VAL %s"; let v := eval vm_compute in (%s) in idtac v. Abort.'
                             % (name, m.group(1)))
        pos = b_
    out_lines += [l for l in lines[pos:] if not re.match(r"\s*Print Assumptions", l)]
    text = "\n".join(l for l in out_lines if not re.match(r"\s*Print Assumptions", l))
    open(os.path.join(cdir, "C15Diag.v"), "w").write(text)
    rc, out = E.sh("coqc -Q . CBT C15Diag.v", cwd=cdir, timeout=300)
    failed = re.findall(r"C15THM FAIL (\w+)", out)
    vals = {}
    for m in re.finditer(r"C15VAL (\w+)\n(.*?)(?=\nC15THM|\nC15VAL|\Z)", out, flags=re.S):
        vals[m.group(1)] = " ".join(m.group(2).split())
    stmts = {n: s for n, s, _, _ in blocks}
    return rc, out, [(n, stmts.get(n, ""), vals.get(n)) for n in failed]


def proved_half(problems):
    """returns info dict; appends (tag, payload) to problems"""
    info = {"theorems": [], "closed": 0, "translator": "", "generated": {}, "gen_sha256": None}
    exe, out = build_translator()
    if exe is None:
        problems.append(("translator-build", {"kind": "translator does not build", "output": out[-3000:]}))
        return info
    cdir = os.path.join(WORK, "coq")
    os.makedirs(cdir, exist_ok=True)
    for f in os.listdir(cdir):
        if f.endswith((".vo", ".vok", ".vos", ".glob", ".aux")) or f in ("TypesGen.v", "C15Diag.v"):
            os.remove(os.path.join(cdir, f))
    gen = os.path.join(cdir, "TypesGen.v")
    rc, out = E.sh("%s %s %s" % (exe, E.REPO, gen), timeout=120)
    info["translator"] = out.strip()[-600:]
    if rc != 0 or not os.path.exists(gen):
        problems.append(("translation", {
            "kind": "translation failed: the source contains syntax the type-level model has no image for "
                    "(or a modelled item disappeared)",
            "repo": E.REPO, "output": out.strip()[-3000:]}))
        return info
    gsrc = open(gen).read()
    info["gen_sha256"] = hashlib.sha256(gsrc.encode()).hexdigest()
    for name in ("def_CircularBuffer", "def_Iter", "def_IterMut", "def_Drain"):
        m = re.search(r"Definition %s : struct_def :=\n(.*?)\n\n" % name, gsrc, flags=re.S)
        if m:
            info["generated"][name] = [l.strip() for l in m.group(1).split("\n")]
    for f in ("TypeModel.v", "C15Theorems.v"):
        open(os.path.join(cdir, f), "w").write(open(os.path.join(TYPES_DIR, f)).read())
    thm_src_raw = open(os.path.join(TYPES_DIR, "C15Theorems.v")).read()
    info["theorem_file_sha256"] = hashlib.sha256(thm_src_raw.encode()).hexdigest()

    # source audit (comments stripped)
    for f in ("TypeModel.v", "TypesGen.v", "C15Theorems.v"):
        for n, line in enumerate(strip_comments(open(os.path.join(cdir, f)).read()).split("\n"), 1):
            if FORBIDDEN.search(line):
                problems.append(("forbidden", {"kind": "forbidden construct", "file": f, "line": n, "text": line.strip()}))
    thm_src = strip_comments(thm_src_raw)
    thms = re.findall(r"^\s*(?:Theorem|Lemma|Corollary)\s+(\w+)", thm_src, flags=re.M)
    printed = re.findall(r"^\s*Print Assumptions\s+(\w+)\s*\.", thm_src, flags=re.M)
    info["theorems"] = thms
    missing = [t for t in thms if t not in printed]
    if missing or not thms:
        problems.append(("print-assumptions", {"kind": "theorems without Print Assumptions", "theorems": missing}))

    for f in ("TypeModel.v", "TypesGen.v"):
        rc, out = E.sh("coqc -Q . CBT %s" % f, cwd=cdir, timeout=300)
        if rc != 0:
            problems.append(("coq-" + f, {"kind": "%s does not compile" % f, "output": out[-3000:]}))
            return info
    rc, out = E.sh("coqc -Q . CBT C15Theorems.v", cwd=cdir, timeout=600)
    info["closed"] = len(re.findall(r"Closed under the global context", out))
    if rc != 0:
        drc, dout, failed = diagnose_theorems(cdir, thm_src_raw)
        if not failed:
            problems.append(("theorems", {"kind": "C15Theorems.v does not compile", "output": out[-3000:],
                                          "diagnostic_output": dout[-1500:]}))
        for name, stmt, val in failed:
            problems.append(("theorem-" + name, {
                "kind": "theorem no longer holds on the definitions generated from the working tree",
                "theorem": name, "statement": stmt, "model_computes_lhs": val,
                "repo": E.REPO, "generated_sha256": info["gen_sha256"],
                "how_to_check": "%s %s TypesGen.v && coqc -Q . CBT TypeModel.v TypesGen.v C15Theorems.v (in %s)"
                                % (exe, E.REPO, cdir)}))
        info["failed_theorems"] = [f[0] for f in failed]
        info["closed"] = 0
        return info
    if "Axioms:" in out or info["closed"] != len(printed):
        problems.append(("assumptions", {"kind": "not every theorem is closed under the global context",
                                         "closed": info["closed"], "printed": len(printed),
                                         "output": out[-2000:]}))
    return info


# ------------------------------------------------------------------ observed half

class Witness:
    def __init__(self, name, path, text, origin=None):
        self.name, self.path, self.text, self.origin = name, path, text, origin or name
        m = re.search(r"^// expect:[ \t]*(pass|fail)[ \t]*(.*)$", text, flags=re.M)
        p = re.search(r"^// predicts:[ \t]*(.*)$", text, flags=re.M)
        self.ok_header = bool(m and p)
        self.expect = m.group(1) if m else None
        self.codes = m.group(2).split() if m else []
        self.predicts = p.group(1).split() if p else []
        self.body_sha = hashlib.sha256(re.sub(r"^//.*\n", "", text, flags=re.M).encode()).hexdigest()


def load_witnesses():
    ws = []
    for f in sorted(os.listdir(WITNESS_DIR)):
        if f.endswith(".rs"):
            p = os.path.join(WITNESS_DIR, f)
            ws.append(Witness(f, p, open(p).read()))
    return ws


# thorough tier: the same programs over other element types / capacities.
# (capacity, element type): the contracts are facts of the definitions, so the
# verdict must not depend on either.
VARIANTS = [("0", "u8"), ("1", "Box<u32>"), ("7", "Option<std::rc::Rc<u8>>"), ("2", "(u8, String)"),
            ("3", "&'static str"), ("1024", "Vec<std::cell::Cell<i64>>")]


def variants(ws, wd, seed):
    out = []
    d = os.path.join(wd, "variants")
    os.makedirs(d, exist_ok=True)
    for w in ws:
        if "CircularBuffer<4, String>" not in w.text or "Option<String>" in w.text or "&'x" in w.text:
            continue
        for i, (n, t) in enumerate(VARIANTS):
            text = w.text.replace("CircularBuffer<4, String>", "CircularBuffer<%s, %s>" % (n, t))
            if "x.push('!')" in text:
                continue
            name = "%s__v%d.rs" % (w.name[:-3], i)
            p = os.path.join(d, name)
            open(p, "w").write(text)
            out.append(Witness(name, p, text, origin=w.name))
    return out


def build_crate():
    """the crate is built from a copy of the working tree (never inside it)"""
    cdir = os.path.join(WORK, "crate")
    tdir = os.path.join(WORK, "target")
    os.makedirs(cdir, exist_ok=True)
    # by content, not by mtime: a file that differs is rewritten (fresh mtime, so
    # cargo rebuilds), an identical file is left alone (so cargo does not)
    rc, out = E.sh("rsync -rlc --delete --exclude target --exclude .git %s/ %s/" % (E.REPO.rstrip("/"), cdir))
    if rc != 0:
        return None, None, out
    env = {"CARGO_TARGET_DIR": tdir, "CARGO_NET_OFFLINE": "true"}
    rc, out = E.sh("cargo build --offline --lib", cwd=cdir, env=env, timeout=900)
    rlib = os.path.join(tdir, "debug", "libcircular_buffer.rlib")
    if rc != 0 or not os.path.exists(rlib):
        return None, None, out
    return rlib, os.path.join(tdir, "debug", "deps"), out


def rustc_cmd(w, rlib, deps, outdir):
    return ("rustc --edition 2021 --crate-type lib --crate-name w --emit=metadata --error-format=json "
            "-L dependency=%s --extern circular_buffer=%s %s -o %s"
            % (deps, rlib, w.path, os.path.join(outdir, w.name[:-3] + ".rmeta")))


def compile_witness(w, rlib, deps, outdir):
    cmd = rustc_cmd(w, rlib, deps, outdir)
    rc, out = E.sh(cmd, timeout=120)
    errors = []
    for line in out.split("\n"):
        line = line.strip()
        if not line.startswith("{"):
            continue
        try:
            d = json.loads(line)
        except ValueError:
            continue
        if d.get("level") != "error" or d.get("message", "").startswith("aborting due to"):
            continue
        code = (d.get("code") or {}).get("code")
        msg = d.get("message", "")
        if code is None:
            for k, rx in PSEUDO.items():
                if rx.search(msg):
                    code = k
        ln = None
        for sp in d.get("spans", []):
            if sp.get("is_primary"):
                ln = sp.get("line_start")
        errors.append({"code": code, "message": msg, "line": ln})
    verdict = "pass" if rc == 0 and not errors else "fail"
    if rc != 0 and not errors:
        errors.append({"code": None, "message": "rustc exit %d: %s" % (rc, out[-300:]), "line": None})
    codes = sorted({e["code"] or "none" for e in errors})
    agrees = (verdict == w.expect) and (verdict == "pass" or all(c in w.codes for c in codes))
    nontrivial = agrees and (verdict == "pass" and "circular_buffer::" in w.text
                             or verdict == "fail" and all(c in SEMANTIC for c in codes))
    return {"witness": w.name, "expect": w.expect, "accepted_codes": w.codes, "verdict": verdict, "codes": codes,
            "errors": errors[:6], "agrees": agrees, "nontrivial": nontrivial, "cmd": cmd}


def observed_half(tier, seed, wd, thms, problems):
    info = {"results": [], "witnesses": 0}
    ws = load_witnesses()
    for w in ws:
        if not w.ok_header:
            problems.append(("witness-header", {"kind": "witness without expect:/predicts: header", "witness": w.name}))
        for t in w.predicts:
            if thms and t not in thms:
                problems.append(("witness-predicts", {"kind": "witness names a theorem that does not exist",
                                                      "witness": w.name, "theorem": t}))
    if tier == "thorough":
        ws = ws + variants(ws, wd, seed)
    info["witnesses"] = len(ws)
    rlib, deps, out = build_crate()
    if rlib is None:
        problems.append(("crate-build", {"kind": "the crate does not build from the working tree", "repo": E.REPO,
                                         "output": out[-3000:]}))
        return info
    outdir = os.path.join(wd, "rmeta")
    os.makedirs(outdir, exist_ok=True)
    with concurrent.futures.ThreadPoolExecutor(max_workers=E.JOBS) as ex:
        results = list(ex.map(lambda w: compile_witness(w, rlib, deps, outdir), ws))
    info["results"] = results
    info["by_name"] = {w.name: w for w in ws}
    return info


# ------------------------------------------------------------------ entry point

def run(tier, seed, t0, wd):
    os.makedirs(wd, exist_ok=True)
    os.makedirs(WORK, exist_ok=True)
    os.makedirs(os.path.join(E.VERIF, "evidence"), exist_ok=True)
    problems = []          # (tag, payload): no failing program attached
    pinfo = proved_half(problems)
    oinfo = observed_half(tier, seed, wd, pinfo["theorems"], problems)

    flips = []             # (replay path, witness): concrete failing programs
    for r in oinfo["results"]:
        if not r["agrees"]:
            w = oinfo["by_name"][r["witness"]]
            flips.append((write_replay("witness-" + w.name, {
                "kind": "witness verdict flipped: this program is the failing input",
                "witness": w.path, "variant_of": w.origin, "program": w.text.split("\n"),
                "expected": {"verdict": w.expect, "codes": w.codes}, "predicted_by": w.predicts,
                "rustc": {"verdict": r["verdict"], "codes": r["codes"], "errors": r["errors"]},
                "repo": E.REPO, "replay_cmd": r["cmd"]}), w))
    nf_paths = []          # (replay path, has a failing program attached)
    for tag, payload in problems:
        mine = [p for p, w in flips if payload.get("theorem") in w.predicts]
        if mine:
            payload["failing_programs"] = mine
        nf_paths.append((write_replay(tag, payload), bool(mine)))

    results = oinfo["results"]
    agree = [r for r in results if r["agrees"]]
    seen, distinct_nt = set(), 0
    for r in results:
        w = oinfo["by_name"][r["witness"]]
        if r["nontrivial"] and w.body_sha not in seen:
            seen.add(w.body_sha)
            distinct_nt += 1
    n_thm = len(pinfo["theorems"])
    failed_thms = pinfo.get("failed_theorems", [])
    thm_ok = (n_thm - len(failed_thms)) if pinfo["closed"] or failed_thms else 0
    if pinfo["closed"]:
        thm_ok = min(n_thm, pinfo["closed"])
    violations = len(flips) + len(nf_paths)

    def sample(r):
        return {"witness": r["witness"], "expect": (r["expect"] + " " + " ".join(r["accepted_codes"])).strip(),
                "rustc": (r["verdict"] + " " + " ".join(r["codes"])).strip(),
                "first_error": (r["errors"][0]["message"] if r["errors"] else None)}
    picks = [r for r in results if r["witness"] in (
        "f_itermut_shorten_T.rs", "f_borrow_drain.rs", "p_const_new.rs", "f_auto_iter_send.rs",
        "f_outlive_drain.rs", "p_iter_clone_nonclone.rs")] or results[:6]

    ev = {
        "property_id": PID, "tier": tier, "seed": int(seed), "level": "proof",
        "coverage": {
            "explanation": (
                "PROVED (Coq, by computation, closed under the global context): on the struct definitions, impl headers and "
                "method signatures regenerated from the working tree's src/*.rs by tools/rs2coq_types (syn) on this run, "
                "with the Rust Reference's variance / auto-trait / lifetime-elision rules as encoded in coq/types/TypeModel.v: "
                "CircularBuffer, Iter, Drain, IntoIter covariant in T (Iter, Drain, IterMut covariant in 'a), IterMut invariant in T; "
                "Send/Sync conditions of CircularBuffer<N,T>, Iter<'a,T>, IterMut<'a,T>, IntoIter<N,T> equal those of [T;N], &'a [T], "
                "&'a mut [T], [T;N]; `new` is an unconditional pub const fn without bounds; exactly one unconditional bound-free "
                "`impl Clone for Iter`; iter/range/as_slices/get/front/back/nth_front/nth_back borrow self shared and "
                "iter_mut/range_mut/as_mut_slices/make_contiguous/get_mut/front_mut/back_mut/nth_front_mut/nth_back_mut/drain mutably, "
                "each for exactly the receiver's lifetime; the lifetime argument of the Iter/IterMut/Drain returned by "
                "iter/range/iter_mut/range_mut/drain is the receiver's; Drain::next and IntoIter::next return owned T, "
                "Iter/IterMut::next return &'a T / &'a mut T. "
                "OBSERVED (rustc, on the crate built from the working tree): one program per contract under witness/ "
                "(must-compile and must-fail with a listed diagnostic), each naming the theorem that predicts its verdict; "
                "rustc's verdict must equal the prediction. This ties my encoding of the language rules to the compiler, "
                "and the generic witnesses (`fn f<T: Sync>() { assert_send::<Iter<T>>() }`) carry the quantifier over element types. "
                "NOT covered: the theorems are about reified definitions, not about rustc's inference itself; cfg(feature=\"unstable\") "
                "and no_std builds are not compiled (the definitions do not depend on them; the translator refuses #[cfg] on "
                "structs/fields); Drain's own Send/Sync status is computed (never) but is not part of the property."),
            "obligations": n_thm + len(results),
            "discharged": thm_ok + len(agree),
            "theorems": pinfo["theorems"], "theorems_closed": pinfo["closed"],
            "theorems_failed": failed_thms,
            "witnesses": len(results), "witnesses_agree": len(agree),
            "witness_must_pass": len([r for r in results if r["expect"] == "pass"]),
            "witness_must_fail": len([r for r in results if r["expect"] == "fail"]),
            "checker_cmd": "VERIF_ROOT=%s VERIF_REPO=%s python3 tools/c15.py %s  (= rs2coq_types <repo> TypesGen.v; "
                           "coqc -Q . CBT TypeModel.v TypesGen.v C15Theorems.v; rustc --emit=metadata --error-format=json "
                           "--extern circular_buffer=<rlib of the working tree> witness/*.rs)" % (E.VERIF, E.REPO, tier),
            "trusted_base": [
                "Coq 8.16.1 kernel and VM (vm_compute)",
                "coq/types/TypeModel.v: my encoding of the Rust Reference rules (variance table and composition, Send/Sync of "
                "references / raw pointers / std types, lifetime elision) - cross-checked against rustc by the witnesses only",
                "tools/rs2coq_types (syn 2.0.119): faithfulness of the translation of definitions and signatures; it refuses unknown syntax",
                "rustc 1.95 borrow checker / variance inference / auto-trait selection as the judge of the witnesses",
                "tools/c15.py: comparison of verdicts and diagnostics",
            ],
            "translator": pinfo["translator"], "generated_sha256": pinfo["gen_sha256"],
            "theorem_file_sha256": pinfo.get("theorem_file_sha256"),
            "evaluations": len(results),
            "distinct_nontrivial": distinct_nt,
            "rule": "one evaluation = one witness program compiled by rustc against the working tree; non-trivial = the verdict "
                    "agrees with the prediction AND (must-fail) every diagnostic is one of the listed borrow-check / lifetime / "
                    "trait-selection codes, not a resolution or syntax error, or (must-pass) the program compiles without error "
                    "while using the crate's items; distinct by the sha256 of the program text without its header comments",
            "samples": [sample(r) for r in picks] + [{"generated": k, "term": v} for k, v in list(pinfo["generated"].items())[:3]],
            "exhaustive": False,
        },
        "assumptions": ["the Rust Reference rules as encoded in TypeModel.v", "translator faithfulness (syn AST -> Gallina AST)",
                        "default feature set (std) of the crate for the witnesses"],
        "wall_s": round(time.time() - t0, 1),
        "violations": violations,
    }
    json.dump(ev, open(os.path.join(E.VERIF, "evidence", PID + ".json"), "w"), indent=1)

    if violations:
        for p, _ in flips:
            print("VIOLATION property=%s replay=%s" % (PID, p))
        for p, attached in nf_paths:
            # a theorem / the translation broke: unless a flipped witness that this
            # theorem predicts is attached, there is no failing program to replay
            print("VIOLATION property=%s replay=%s%s" % (PID, p, "" if attached else " no-failing-input-found"))
        return 1
    print("OK property=%s tier=%s theorems=%d witnesses=%d (pass=%d fail=%d) nontrivial=%d wall=%.0fs" % (
        PID, tier, n_thm, len(results), ev["coverage"]["witness_must_pass"], ev["coverage"]["witness_must_fail"],
        distinct_nt, time.time() - t0))
    return 0


if __name__ == "__main__":
    _tier = sys.argv[1] if len(sys.argv) > 1 else "quick"
    _seed = int(sys.argv[2]) if len(sys.argv) > 2 else 1
    if _tier not in ("quick", "thorough"):
        print(__doc__)
        sys.exit(2)
    _wd = os.path.join(E.CACHE, "work", PID)
    sys.exit(run(_tier, _seed, time.time(), _wd))
