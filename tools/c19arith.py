"""C19, arithmetic part: tie the model of add_mod / sub_mod to the source by
translation, not by testing.

run_arith(wd) regenerates the Gallina definitions gen_add_mod / gen_sub_mod from
E.REPO/src/lib.rs (tools/rs2coq_arith), and re-checks the theorems of
proofs/Arith.v on them (coq/gen/ArithGenProofs.v), either by identifying the
generated functions with the hand-written model (path "eq") or by replaying the
proof on the generated term (path "direct"). When neither works, a failing input
is searched for among boundary triples, both by evaluating the generated
definitions inside Coq and by running the verbatim source text of the two
functions, compiled by rustc in a debug and in a release configuration.

Nothing is written inside the tracked tree: all files go to `wd`.
"""

import concurrent.futures
import os
import re
import shutil
import sys
import time

sys.path.insert(0, os.path.dirname(os.path.abspath(__file__)))
import engine as E  # noqa: E402

TOOL_DIR = os.path.join(E.VERIF, "tools", "rs2coq_arith")
TEMPLATE = os.path.join(E.COQ, "gen", "ArithGenProofs.v")
W = 2 ** 64

MS = [1, 2, 3, 2 ** 31, 2 ** 31 + 1, 3000000000, 2 ** 32 - 5, 2 ** 32 - 2, 2 ** 32 - 1, 2 ** 32, 2 ** 63 - 1, 2 ** 63, 2 ** 63 + 1, 2 ** 64 - 2, 2 ** 64 - 1]

# statements as coqc prints them (whitespace-normalised)
EXPECT = {
    "gen_add_mod_eq": "forall (x y m : Z) (s : cbuf) (w : world), gen_add_mod x y m s w = add_mod x y m s w",
    "gen_sub_mod_eq": "forall (x y m : Z) (s : cbuf) (w : world), gen_sub_mod x y m s w = sub_mod x y m s w",
    "gen_add_mod_ok": "forall (x y m : Z) (s : cbuf) (w : world), 0 < m < W -> 0 <= x <= m -> 0 <= y <= m -> "
                      "gen_add_mod x y m s w = (Ok ((x + y) mod m), s, w)",
    "gen_sub_mod_ok": "forall (x y m : Z) (s : cbuf) (w : world), 0 < m < W -> 0 <= x <= m -> 0 <= y <= m -> "
                      "gen_sub_mod x y m s w = (Ok ((x + (m - y)) mod m), s, w)",
}
EXPECT["gen_add_mod_ok_direct"] = EXPECT["gen_add_mod_ok"]
EXPECT["gen_sub_mod_ok_direct"] = EXPECT["gen_sub_mod_ok"]
PATH_THEOREMS = {
    "eq": ["gen_add_mod_eq", "gen_sub_mod_eq", "gen_add_mod_ok", "gen_sub_mod_ok"],
    "direct": ["gen_add_mod_ok_direct", "gen_sub_mod_ok_direct"],
}


def qflags(wd):
    return "-Q %s/theories CB -Q %s/proofs CBP -Q %s CBG" % (E.COQ, E.COQ, wd)


def coqc(wd, name, timeout=300):
    for ext in (".vo", ".vok", ".vos", ".glob"):
        p = os.path.join(wd, name[:-2] + ext)
        if os.path.exists(p):
            os.remove(p)
    return E.sh("timeout %d coqc %s %s" % (timeout, qflags(wd), name), cwd=wd, timeout=timeout + 20)


# ---------------------------------------------------------------- translator

def build_translator():
    tdir = os.path.join(E.CACHE, "target-rs2coq")
    env = {"CARGO_TARGET_DIR": tdir, "CARGO_NET_OFFLINE": "true"}
    rc, out = E.sh("cargo build --offline --locked 2>&1", cwd=TOOL_DIR, env=env, timeout=900)
    exe = os.path.join(tdir, "debug", "rs2coq_arith")
    if rc != 0 or not os.path.exists(exe):
        return False, out
    return True, exe


def translate(exe, wd):
    gen = os.path.join(wd, "ArithGen.v")
    rs = os.path.join(wd, "fns.rs")
    for p in (gen, rs):
        if os.path.exists(p):
            os.remove(p)
    rc, out = E.sh("%s %s %s %s" % (exe, E.REPO, gen, rs), timeout=60)
    return rc, out.strip(), gen, rs


# ---------------------------------------------------------------- proofs

def split_template(text):
    parts = {}
    cur = "header"
    for line in text.split("\n"):
        m = re.match(r"\(\*@ (\w+) \*\)\s*$", line)
        if m:
            cur = m.group(1)
            continue
        parts.setdefault(cur, []).append(line)
    return {k: "\n".join(v) + "\n" for k, v in parts.items()}


def parse_report(out):
    """coqc output of Check / Print Assumptions pairs ->
       {theorem: (statement, [axioms])}"""
    res = {}
    chunks = re.split(r"^(gen_\w+)\n(?=\s+: )", out, flags=re.M)
    # chunks: [junk, name, body, name, body, ...]
    for i in range(1, len(chunks) - 1, 2):
        name, body = chunks[i], chunks[i + 1]
        m = re.match(r"\s+: (.*?)\n(?=\S)", body, flags=re.S)
        stmt = " ".join(m.group(1).split()) if m else ""
        rest = body[m.end():] if m else body
        if rest.startswith("Closed under the global context"):
            ax = []
        elif rest.startswith("Axioms:"):
            ax = [" ".join(a.split()) for a in re.findall(r"^(\S[^\n]*(?:\n\s+[^\n]*)*)", rest[len("Axioms:"):], flags=re.M)]
            ax = [a for a in ax if a]
        else:
            ax = ["<no Print Assumptions output>"]
        res[name] = (stmt, ax)
    return res


def first_error(out):
    m = re.search(r"(File \"[^\"]*\", line \d+[^\n]*\n)?Error:?(.*)", out, flags=re.S)
    if not m:
        return " ".join(out.split())[-300:]
    loc = re.search(r"line (\d+)", m.group(1) or "")
    return ("line %s: " % loc.group(1) if loc else "") + " ".join(m.group(2).split())[:300]


def check_path(path, rep, problems):
    """are all theorems of this path present, with the pinned statement, axiom-free?"""
    ok = True
    for t in PATH_THEOREMS[path]:
        if t not in rep:
            problems.append("path %s: theorem %s not reported by coqc" % (path, t))
            ok = False
            continue
        stmt, ax = rep[t]
        if stmt != EXPECT[t]:
            problems.append("path %s: %s has statement `%s`, expected `%s`" % (path, t, stmt, EXPECT[t]))
            ok = False
        if ax:
            problems.append("path %s: %s depends on assumptions: %s" % (path, t, "; ".join(ax)))
            ok = False
    return ok


def run_proofs(wd, res):
    """sets res[path, theorems, assumptions]; returns per-path notes"""
    text = open(TEMPLATE).read()
    open(os.path.join(wd, "ArithGenProofs.v"), "w").write(text)
    notes = {}
    reports = {}
    # the two parts are compiled separately (and concurrently): a failure of one
    # must not hide the other
    parts = split_template(text)
    for p in ("eq", "direct"):
        open(os.path.join(wd, "ArithGen_%s.v" % p), "w").write(
            "(* %s part of coq/gen/ArithGenProofs.v *)\n" % p + parts.get("common", "") + parts.get(p, ""))
    with concurrent.futures.ThreadPoolExecutor(max_workers=2) as ex:
        futs = {p: ex.submit(coqc, wd, "ArithGen_%s.v" % p, 150) for p in ("eq", "direct")}
        for p, f in futs.items():
            rc, out = f.result()
            if rc == 0:
                reports[p] = parse_report(out)
                notes[p] = "proved"
            else:
                notes[p] = "not proved (ArithGen_%s.v %s)" % (p, first_error(out))
    for p in ("eq", "direct"):
        if p not in reports:
            continue
        probs = []
        if check_path(p, reports[p], probs):
            if res["path"] is None:
                res["path"] = p
            for t in PATH_THEOREMS[p]:
                if t not in res["theorems"]:
                    res["theorems"].append(t)
                res["assumptions"] += ["%s: %s" % (t, a) for a in reports[p][t][1]]
        else:
            notes[p] = "rejected"
            res["problems"] += probs
    return notes


# ---------------------------------------------------------------- failing-input search

def triples():
    out = []
    for m in MS:
        vs = sorted(v for v in {0, 1, m - 1, m, m // 2} if 0 <= v <= m)
        for x in vs:
            for y in vs:
                out.append((x, y, m))
    return out


def expected(fn, x, y, m):
    return (x + y) % m if fn == "add_mod" else (x + (m - y)) % m


def coq_eval(wd, ts):
    """{(fn, dbg, x, y, m): 'Ok n' | 'Panic K'} by vm_compute on the generated definitions"""
    src = ["From CB Require Import Machine.", "From CBG Require Import ArithGen.", "Open Scope Z_scope.",
           "Definition st0 := mkB 0 0 0 (fun _ => mkE 0 0).",
           "Definition runc (f : Z -> Z -> Z -> M Z) (d : bool) (c : Z * Z * Z) : outcome Z :=",
           "  let '(x, y, m) := c in fst (fst (f x y m st0 (mkW d 0 [] None))).",
           "Definition cases : list (Z * Z * Z) := [%s]." % "; ".join("(%d, %d, %d)" % t for t in ts)]
    order = [(fn, d) for fn in ("add_mod", "sub_mod") for d in (True, False)]
    for fn, d in order:
        src.append("Eval vm_compute in map (runc gen_%s %s) cases." % (fn, "true" if d else "false"))
    open(os.path.join(wd, "ArithCases.v"), "w").write("\n".join(src) + "\n")
    rc, out = coqc(wd, "ArithCases.v", timeout=120)
    if rc != 0:
        return None, "evaluation in Coq failed: " + first_error(out)
    blocks = out.split(": list (outcome Z)")
    if len(blocks) < len(order) + 1:
        return None, "evaluation in Coq: unexpected output"
    res = {}
    for (fn, d), b in zip(order, blocks):
        toks = re.findall(r"Ok \(?(-?\d+)\)?|Panic (\w+)", b)
        if len(toks) != len(ts):
            return None, "evaluation in Coq: %d results for %d cases" % (len(toks), len(ts))
        for t, (v, k) in zip(ts, toks):
            res[(fn, d) + t] = ("Ok " + v) if v else ("Panic " + k)
    return res, None


MAIN_RS = r'''
fn main() {
    assert_eq!(usize::BITS, 64);
    std::panic::set_hook(Box::new(|_| {}));
    let path = std::env::args().nth(1).expect("cases file");
    let text = std::fs::read_to_string(path).expect("readable cases file");
    for line in text.lines() {
        let v: Vec<&str> = line.split_whitespace().collect();
        if v.len() != 4 { continue; }
        let x: usize = v[1].parse().unwrap();
        let y: usize = v[2].parse().unwrap();
        let m: usize = v[3].parse().unwrap();
        let add = v[0] == "add_mod";
        let r = std::panic::catch_unwind(move || if add { add_mod(x, y, m) } else { sub_mod(x, y, m) });
        match r {
            Ok(z) => println!("{} {} {} {} Ok {}", v[0], x, y, m, z),
            Err(e) => {
                let msg = if let Some(s) = e.downcast_ref::<&str>() { s.to_string() }
                          else if let Some(s) = e.downcast_ref::<String>() { s.clone() }
                          else { "?".to_string() };
                println!("{} {} {} {} Panic {}", v[0], x, y, m, msg)
            }
        }
    }
}
'''

BUILDS = {True: ("debug", "-C opt-level=0 -C debug-assertions=on -C overflow-checks=on"),
          False: ("release", "-C opt-level=3 -C debug-assertions=off -C overflow-checks=off")}


def pkind_of(msg):
    if msg.startswith("assertion"):
        return "PDebugAssert"      # (assert! would be PAssert; the message is the same)
    if "with overflow" in msg:
        return "POverflow"
    if "divisor of zero" in msg:
        return "PDivZero"
    if "on a `None` value" in msg:
        return "PExpect"
    return "?"


def real_eval(wd, rs, ts):
    """{(fn, dbg, x, y, m): 'Ok n' | 'Panic <message>'} on the verbatim source text"""
    fns = open(rs).read()
    d = os.path.join(wd, "real")
    os.makedirs(d, exist_ok=True)
    open(os.path.join(d, "main.rs"), "w").write(
        "// the two functions below are copied verbatim from src/lib.rs by tools/rs2coq_arith\n"
        "#![allow(warnings)]\n\n" + fns + MAIN_RS)
    open(os.path.join(d, "cases.txt"), "w").write(
        "".join("%s %d %d %d\n" % ((fn,) + t) for fn in ("add_mod", "sub_mod") for t in ts))

    def one(dbg):
        name, flags = BUILDS[dbg]
        rc, out = E.sh("rustc --edition 2021 %s -o arith_%s main.rs 2>&1" % (flags, name), cwd=d, timeout=300)
        if rc != 0:
            return dbg, None, "rustc (%s) failed on the extracted functions: %s" % (name, " ".join(out.split())[:400])
        rc, out = E.sh("./arith_%s cases.txt" % name, cwd=d, timeout=120)
        if rc != 0:
            return dbg, None, "extracted functions (%s build) crashed: rc=%d %s" % (name, rc, out[-300:])
        return dbg, out, None

    res = {}
    errs = []
    with concurrent.futures.ThreadPoolExecutor(max_workers=2) as ex:
        for dbg, out, err in ex.map(one, (True, False)):
            if err:
                errs.append(err)
                continue
            for line in out.split("\n"):
                p = line.split(" ", 5)
                if len(p) >= 6 and p[0] in ("add_mod", "sub_mod"):
                    res[(p[0], dbg, int(p[1]), int(p[2]), int(p[3]))] = p[4] + " " + p[5]
    return res, errs


def same_outcome(coq, real):
    if coq.startswith("Ok") or real.startswith("Ok"):
        return coq == real
    return coq == "Panic " + pkind_of(real[len("Panic "):])


def search(wd, rs_ok, have_gen, res):
    ts = triples()
    coq = None
    if have_gen:
        coq, err = coq_eval(wd, ts)
        if err:
            res["problems"].append(err)
    real, errs = (real_eval(wd, os.path.join(wd, "fns.rs"), ts) if rs_ok else ({}, []))
    res["problems"] += errs
    res["search"] = {"triples": len(ts), "coq_evaluated": len(coq) if coq else 0, "real_evaluated": len(real)}
    keys = [(fn, d) + t for fn in ("add_mod", "sub_mod") for t in ts for d in (True, False)]
    # the generated definitions and the compiled source must agree wherever both ran:
    # a disagreement is a defect of the translator or of Machine.v, not of the crate
    if coq and real:
        bad = [k for k in keys if k in coq and k in real and not same_outcome(coq[k], real[k])]
        res["search"]["model_vs_code_disagreements"] = len(bad)
        if bad:
            k = bad[0]
            res["problems"].append(
                "generated definition and compiled source disagree on %s(%d, %d, %d) dbg=%s: Coq `%s`, rustc `%s` "
                "(%d such triples)" % (k[0], k[2], k[3], k[4], k[1], coq[k], real[k], len(bad)))
    for k in keys:
        want = "Ok %d" % expected(k[0], k[2], k[3], k[4])
        c = coq.get(k) if coq else None
        r = real.get(k)
        if (c is not None and c != want) or (c is None and r is not None and r != want):
            build = BUILDS[k[1]][0]
            other = (k[0], not k[1]) + k[2:]
            return {"fn": k[0], "x": k[2], "y": k[3], "m": k[4], "dbg": k[1], "build": build,
                    "expected": want, "coq": c, "real": r,
                    "real_other_build": real.get(other), "coq_other_build": coq.get(other) if coq else None,
                    "wrong_in_coq_evaluation": c is not None and c != want,
                    "confirmed_on_real_code": r is not None and r != want}
    return None


# ---------------------------------------------------------------- entry point

def run_arith(wd=None, always_search=False):
    t0 = time.time()
    wd = wd or os.path.join(E.CACHE, "c19arith")
    os.makedirs(wd, exist_ok=True)
    res = {"ok": False, "path": None, "theorems": [], "assumptions": [], "problems": [],
           "generated": "", "counterexample": None, "paths": {}, "timings": {}}

    ok, exe = build_translator()
    res["timings"]["build_translator"] = round(time.time() - t0, 2)
    if not ok:
        res["problems"].append("translator does not build: " + exe[-600:])
        return res

    t = time.time()
    rc, out, gen, rs = translate(exe, wd)
    res["timings"]["translate"] = round(time.time() - t, 2)
    have_gen = rc == 0 and os.path.exists(gen)
    rs_ok = os.path.exists(rs)
    if not have_gen:
        res["problems"].append("translator refused the source: " + out[-600:])
    else:
        res["generated"] = open(gen).read()

    if have_gen:
        t = time.time()
        ok, out = E.build_coq()
        if not ok:
            res["problems"].append("the Coq development does not build: " + out[-600:])
            return res
        rc, out = coqc(wd, "ArithGen.v")
        if rc != 0:
            res["problems"].append("generated ArithGen.v does not compile: " + first_error(out))
            have_gen = False
        else:
            res["paths"] = run_proofs(wd, res)
        res["timings"]["proofs"] = round(time.time() - t, 2)

    res["ok"] = res["path"] is not None and not res["assumptions"]
    if res["ok"]:
        # problems of a rejected alternative path are not problems of the result
        res["problems"] = [p for p in res["problems"] if not p.startswith("path ")]
    elif have_gen:
        res["problems"].insert(0, "theorems not proved on the generated definitions: eq %s; direct %s"
                               % (res["paths"].get("eq"), res["paths"].get("direct")))
    if not res["ok"] or always_search:
        t = time.time()
        res["counterexample"] = search(wd, rs_ok, have_gen, res)
        res["timings"]["search"] = round(time.time() - t, 2)
        if always_search and res["ok"] and (res["counterexample"] or
                                            res["search"].get("model_vs_code_disagreements")):
            res["ok"] = False
    res["timings"]["total"] = round(time.time() - t0, 2)
    return res


if __name__ == "__main__":
    import json
    r = run_arith(sys.argv[1] if len(sys.argv) > 1 and not sys.argv[1].startswith("-") else None,
                  always_search="--search" in sys.argv)
    g = r.pop("generated")
    print(json.dumps(r, indent=1))
    print(g)
    sys.exit(0 if r["ok"] else 1)
