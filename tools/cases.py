"""Case generators for the correspondence check, one per property.

A case is a start layout (capacity, front position, contents, junk filling of
the unoccupied slots, fault plan) plus a list of operations. All random
choices derive from one SplitMix64 state seeded by VERIF_SEED.
"""
import re

import itertools

MAX = 2**64 - 1
NID = 500000          # first identity handed out to clones / closure results
JUNKS = [0, 1, 2, 3, 4]


class Rng:
    def __init__(self, seed):
        self.s = (seed * 0x9E3779B97F4A7C15 + 0x1234567) & MAX

    def next(self):
        self.s = (self.s + 0x9E3779B97F4A7C15) & MAX
        z = self.s
        z = ((z ^ (z >> 30)) * 0xBF58476D1CE4E5B9) & MAX
        z = ((z ^ (z >> 27)) * 0x94D049BB133111EB) & MAX
        return z ^ (z >> 31)

    def below(self, n):
        return self.next() % n if n > 0 else 0

    def choice(self, xs):
        return xs[self.below(len(xs))]

    def chance(self, num, den):
        return self.below(den) < num


class Case:
    __slots__ = ("cid", "elem", "N", "start", "vals", "junk", "fault", "ops", "tag", "_eid")

    def __init__(self, cid, N, start, vals, junk=3, fault="none", elem="E", tag=""):
        self.cid = cid
        self.elem = elem
        self.N = N
        self.start = start
        self.vals = list(vals)
        self.junk = junk
        self.fault = fault
        self.ops = []
        self.tag = tag
        # identities of caller-made elements: above the initial contents' (1..len), below 9000 (suffix ops) when possible
        self._eid = 100 if len(self.vals) < 90 else 10000 + len(self.vals)

    def e(self, val=None):
        """a fresh caller-owned element id:val"""
        self._eid += 1
        if val is None:
            val = 40 + (self._eid % 50)
        if self.elem == "u8":
            val %= 256
        return "%d:%d" % (self._eid, val)

    def es(self, n, vals=None):
        if n == 0:
            return "-"
        return ",".join(self.e(None if vals is None else vals[i]) for i in range(n))

    def text(self, dbg, unst=False):
        hdr = "case %d elem=%s N=%d start=%d vals=%s junk=%d fault=%s dbg=%d nid=%d%s" % (
            self.cid, self.elem, self.N, self.start,
            ("@%d" % len(self.vals) if len(self.vals) > 40 and self.vals == default_vals(len(self.vals))
             else ",".join(map(str, self.vals))) if self.vals else "-",
            self.junk, self.fault, 1 if dbg else 0, NID, " unst=1" if unst else "")
        return hdr + "\n" + "\n".join(self.ops) + "\nend\n"


class DryCase(Case):
    """stands in for a case while a family is enumerated: element lists are placeholders, made real (fresh ids from
    the case that ends up carrying the operation) by [materialise]; long element lists are then only built for the
    operations that are kept"""
    __slots__ = ()

    def e(self, val=None):
        return "\x00e%s\x00" % ("" if val is None else val)

    def es(self, n, vals=None):
        if n == 0:
            return "-"
        if vals is not None:
            return ",".join(self.e(vals[i]) for i in range(n))
        return "\x00s%d\x00" % n


_PLACE = re.compile("\x00([es])(\\d*)\x00")


def materialise(c, op):
    def f(m):
        if m.group(1) == "e":
            return c.e(int(m.group(2)) if m.group(2) else None)
        return c.es(int(m.group(2)))
    return _PLACE.sub(f, op)


def layouts(N):
    if N == 0:
        return [(0, 0)]
    return [(st, sz) for st in range(N) for sz in range(N + 1)]


def default_vals(sz, base=10):
    return [base * (i + 1) for i in range(sz)]


def idxs(N, size):
    s = set(range(0, N + 2)) | {max(size - 1, 0), size, size + 1, MAX - 1, MAX}
    return sorted(s)


def bound_forms(a, b):
    """all RangeBounds forms denoting a..b (a, b may be out of range on purpose)"""
    starts = ["i%d" % a]
    if a >= 1:
        starts.append("e%d" % (a - 1))
    if a == 0:
        starts.append("u")
    ends = ["e%d" % b]
    if b >= 1:
        ends.append("i%d" % (b - 1))
    return [(s, e) for s in starts for e in ends]


def all_ranges(size, with_invalid=True):
    """(sb, eb, a, b) canonical Included/Excluded form for every a, b in 0..size+1"""
    top = size + 1 if with_invalid else size
    out = []
    for a in range(0, top + 1):
        for b in range(0, top + 1):
            if not with_invalid and a > b:
                continue
            out.append(("i%d" % a, "e%d" % b, a, b))
    return out


def extreme_ranges(size):
    return [("e%d" % MAX, "u"), ("u", "i%d" % MAX), ("i%d" % MAX, "u"), ("u", "e%d" % MAX),
            ("i%d" % MAX, "e%d" % MAX), ("e%d" % (MAX - 1), "u"), ("u", "u"),
            ("i0", "i%d" % MAX), ("e%d" % MAX, "e%d" % MAX)]


def scripts_exhaustive(L, extra=2, alphabet="nb"):
    out = []
    for k in range(0, L + extra + 1):
        for t in itertools.product(alphabet, repeat=k):
            out.append(",".join(t) if t else "-")
    return out


def scripts_shapes(L, extra=2):
    k = L + extra
    shapes = ["-", ",".join("n" * k), ",".join("b" * k),
              ",".join(("nb" * k)[:k]), ",".join(("bn" * k)[:k]),
              ",".join(("lnlb" * k)[:2 * k]), "l", "n,l", "b,l"]
    if L >= 1:
        shapes.append(",".join("n" * (L // 2 + 1)))
        shapes.append(",".join("b" * (L // 2 + 1)))
    seen, out = set(), []
    for s in shapes:
        s = s.strip(",") or "-"
        if s not in seen:
            seen.add(s)
            out.append(s)
    return out


class Gen:
    def __init__(self, seed):
        self.rng = Rng(seed)
        self.cases = []

    def new(self, N, start, vals, **kw):
        c = Case(len(self.cases) + 1, N, start, vals, **kw)
        self.cases.append(c)
        return c

    # one case per (layout, junk, op); [mk] gets the case and returns op strings
    def one_step(self, Ns, junks, mk, suffix=("new",), elem="E", fault="none", tag=""):
        for N in Ns:
            for (st, sz) in layouts(N):
                probe = Case(0, N, st, default_vals(sz), elem=elem)
                nops = len(mk(probe, N, sz))
                for j in junks:
                    for k in range(nops):
                        c = self.new(N, st, default_vals(sz), junk=j, fault=fault, elem=elem, tag=tag)
                        op = mk(c, N, sz)[k]
                        c.ops = ([op] if isinstance(op, str) else list(op)) + list(suffix)


# ---------------------------------------------------------------- op families

def fam_push(c, N, sz):
    return ["push_back " + c.e(), "push_front " + c.e(),
            "try_push_back " + c.e(), "try_push_front " + c.e()]


def fam_pop(c, N, sz):
    return ["pop_back", "pop_front"]


def fam_index1(c, N, sz):
    out = []
    for i in idxs(N, sz):
        out += ["remove %d" % i, "swap_remove_back %d" % i, "swap_remove_front %d" % i,
                "truncate_back %d" % i, "truncate_front %d" % i]
    return out


def fam_swap(c, N, sz):
    I = sorted(set(range(0, sz + 1)) | {MAX})
    return ["swap %d %d" % (i, j) for i in I for j in I]


def fam_bulk(c, N, sz):
    out = ["clear", "fill " + c.e(), "fill_with", "fill_spare " + c.e(), "fill_spare_with"]
    for k in range(0, 2 * N + 2):
        out.append("extend " + c.es(k))
        out.append("extend_from_slice " + c.es(k))
    return out


def fam_extend_ref(c, N, sz):
    """Extend<&T> for T: Copy (u8 cases only)"""
    return ["extend_ref " + c.es(k) for k in range(0, 2 * N + 2)]


def fam_mut_views(c, N, sz):
    out = []
    for i in idxs(N, sz):
        out += ["get_mut %d %s" % (i, c.e()), "nth_front_mut %d %s" % (i, c.e()),
                "nth_back_mut %d %s" % (i, c.e()), "index_mut %d %s" % (i, c.e())]
    out += ["front_mut " + c.e(), "back_mut " + c.e()]
    for k in sorted({0, 1, sz, sz + 1}):
        out.append("as_mut_slices " + c.es(k))
        out.append("make_contiguous " + c.es(k))
    # iter_mut / range_mut with writes at both ends
    out.append("iter_mut " + ",".join("sn=%s,sb=%s" % (c.e(), c.e()) for _ in range((sz + 3) // 2)))
    out.append("iter_mut " + ",".join("sb=%s,l,sn=%s" % (c.e(), c.e()) for _ in range((sz + 3) // 2)))
    for (sb, eb, a, b) in all_ranges(sz):
        out.append("range_mut %s %s %s" % (sb, eb, ",".join(["sn=" + c.e(), "sb=" + c.e(), "n"])))
    return out


def fam_accessors(c, N, sz):
    out = ["front", "back", "as_slices", "to_vec", "debug", "len", "is_empty", "is_full",
           "capacity", "iter " + ",".join("n" * (sz + 2)), "iter " + ",".join("b" * (sz + 2))]
    for i in idxs(N, sz):
        out += ["get %d" % i, "nth_front %d" % i, "nth_back %d" % i, "index %d" % i]
    return out


def fam_drain(c, N, sz, scripts, ending=("drop",), ranges=None):
    out = []
    rs = ranges if ranges is not None else all_ranges(sz)
    for (sb, eb, a, b) in rs:
        L = max(0, min(b, sz) - a)
        for s in scripts(L):
            for end in ending:
                out.append("drain %s %s %s %s" % (sb, eb, s, end))
    return out


def fam_drain_forms(c, N, sz):
    out = []
    for (sb0, eb0, a, b) in all_ranges(sz, with_invalid=False):
        for (sb, eb) in bound_forms(a, b):
            out.append("drain %s %s n,b drop" % (sb, eb))
    for (sb, eb) in extreme_ranges(sz):
        out.append("drain %s %s n drop" % (sb, eb))
    return out


def fam_iters(c, N, sz, scripts, kinds=("range", "range_mut")):
    out = []
    for (sb, eb, a, b) in all_ranges(sz):
        L = max(0, min(b, sz) - a)
        for s in scripts(L):
            for k in kinds:
                out.append("%s %s %s %s" % (k, sb, eb, s))
    return out


def fam_iter_forms(c, N, sz):
    out = []
    for (sb0, eb0, a, b) in all_ranges(sz, with_invalid=False):
        for (sb, eb) in bound_forms(a, b):
            out.append("range %s %s n,l,b,c,n" % (sb, eb))
            out.append("range_mut %s %s n,l,b,n" % (sb, eb))
            for k in sorted({0, 1, max(b - a - 1, 0), b - a}):
                out.append("range %s %s t%d,l,n" % (sb, eb, k))
                out.append("range_mut %s %s b,t%d,l" % (sb, eb, k))
    for (sb, eb) in extreme_ranges(sz):
        out.append("range %s %s n" % (sb, eb))
        out.append("range_mut %s %s n" % (sb, eb))
    return out


def fam_constructors(c, N, sz):
    out = ["new", "default", "boxed", "clone_drop", "clone_keep", "to_vec", "into_iter -",
           "into_iter " + ",".join("n" * (sz + 1)), "into_iter " + ",".join("b" * (sz + 1)),
           "into_iter n,b,l", "into_iter l,n"]
    for m in range(0, 2 * N + 2):
        out.append("from_array " + c.es(m))
        out.append("from_iter " + c.es(m))
    return out


def fam_more_iters(c, N, sz):
    """Iter::default / IterMut::default, (&buf).into_iter()"""
    out = ["iter_default n,b,l,c,n", "iter_default -", "iter_mut_default n,b,l,n", "iter_mut_default sn=%s,sb=%s,l" % (c.e(), c.e())]
    out += ["ref_into_iter " + s for s in (",".join("n" * (sz + 1)), ",".join("b" * (sz + 1)), "n,l,b,c,n", "-")]
    # Iterator::nth (also what skip / step_by go through): t<k> = nth(k)
    for k in sorted({0, 1, max(sz - 1, 0), sz, sz + 1}):
        out += ["iter t%d,l,n,b" % k, "iter_mut t%d,l,b,n" % k, "ref_into_iter n,t%d,l" % k, "iter b,t%d,t0,l" % k]
    return out


def fam_debug_views(c, N, sz, with_invalid=False):
    """Debug of Iter / IterMut / Drain / IntoIter after a script has run on them"""
    out = []
    pres = ["-", "n", "b", "n,b", "n,n,b,l"]
    for (sb, eb, a, b) in all_ranges(sz, with_invalid=with_invalid):
        for pre in pres:
            out.append("iter_debug %s %s %s" % (sb, eb, pre))
            out.append("iter_mut_debug %s %s %s" % (sb, eb, pre))
            out.append("drain_debug %s %s %s" % (sb, eb, pre))
        out.append("iter_mut_debug %s %s sn=%s,b" % (sb, eb, c.e()))
    for pre in pres:
        out.append("into_iter_debug " + pre)
    return out


# ---------------------------------------------------------------- wider capacities

STEERED = set()       # capacities a changed source text points at (tools/check.py): always enumerated densely
WIDE_E = [9, 10, 11, 12, 13, 15, 17, 31, 32, 33, 65, 100, 128, 255, 256, 257]
WIDE_U8 = [9, 12, 15, 17, 32, 33, 100, 255, 256, 257, 4096]


def wide_layouts(N, r, k=6):
    """edge layouts plus k random ones: (start, size)"""
    edge = {(0, 0), (0, N), (N - 1, N), (N - 1, 1), (1, N - 1), (N // 2, N // 2), (N // 2, N - N // 2 + 1),
            (N - 3, 5), (3, N - 3), (N - 1, 0), (N // 2 + 1, N), (1, N - 2), (N // 2, N)}
    out = [(st % N, min(max(sz, 0), N)) for (st, sz) in edge]
    for _ in range(k):
        out.append((r.below(N), r.below(N + 1)))
    seen, res = set(), []
    for x in out:
        if x not in seen:
            seen.add(x)
            res.append(x)
    return res


def sparse(N, sz, r, extra=2):
    s = {0, 1, 2, sz // 4, max(sz // 2 - 1, 0), sz // 2, sz // 2 + 1, (3 * sz) // 4, max(sz - 2, 0), max(sz - 1, 0), sz, sz + 1,
         N - 1, N, N + 1, MAX - 1, MAX}
    for _ in range(extra):
        s.add(r.below(N + 2))
    return sorted(x for x in s if 0 <= x <= MAX)


def sparse_ranges(sz, r, extra=3):
    pts = sorted({0, 1, sz // 3, sz // 2, max(sz - 1, 0), sz})
    out = [(a, b) for a in pts for b in pts if a <= b]
    for _ in range(extra):
        a = r.below(sz + 1)
        out.append((a, a + r.below(sz - a + 1)))
    return sorted(set(out))


def steered_lens(N):
    """slice / iterator lengths the changed source text points at, tried at a few small capacities (a long argument
    costs the model time quadratic in its length): all of them up to 1100 at capacities 9, 17 and 100, the two
    smallest beyond that at capacity 17 only"""
    if N not in (9, 17, 100):
        return set()
    small = [t for t in STEERED if t <= 1100]
    large = sorted(t for t in STEERED if t > 1100)[:2] if N == 17 else []
    return {t + d for t in small + large for d in (0, 1)}


def wide_ops(c, N, sz, r, kind):
    """single operations with sparse, boundary-biased arguments for a large capacity"""
    out = []
    I = sparse(N, sz, r)
    lens = sorted({0, 1, 2, max(N - sz - 1, 0), N - sz, N - sz + 1, N - 1, N, N + 1, min(2 * N + 1, 600)} | steered_lens(N))
    if kind == "push":
        return fam_push(c, N, sz)
    if kind == "forget":
        return ["drain i%d e%d %s forget" % (a, b, scr) for (a, b) in sparse_ranges(sz, r)
                for scr in ("-", "n", "b", "n,b,l")]
    if kind in ("mut", "all"):
        out += fam_push(c, N, sz) + fam_pop(c, N, sz) + ["clear", "make_contiguous -"]
        for i in I:
            out += ["remove %d" % i, "swap_remove_back %d" % i, "swap_remove_front %d" % i,
                    "truncate_back %d" % i, "truncate_front %d" % i]
        J = [0, sz // 2, max(sz - 1, 0), sz]
        out += ["swap %d %d" % (i, j) for i in J for j in J]
        for m in lens:
            out += ["extend " + c.es(m), "extend_from_slice " + c.es(m)]
        if N <= 128 or N in STEERED:
            out += ["fill " + c.e(), "fill_with", "fill_spare " + c.e(), "fill_spare_with"]
    if kind in ("drain", "mut", "all"):
        for (a, b) in sparse_ranges(sz, r):
            L = b - a
            for scr in ("-", "n", "b", "n,b,l", ",".join("n" * min(L, 3)) or "-", ",".join("b" * min(L + 1, 4))):
                out.append("drain i%d e%d %s drop" % (a, b, scr))
    if kind in ("view", "all"):
        out += ["front", "back", "as_slices", "to_vec", "debug", "hash", "len", "is_full", "clone_keep",
                "iter n,n,n,b,b,l,c", "iter_mut n,b,n,l", "into_iter n,b,n,l", "as_mut_slices -",
                "iter t%d,l,n" % (sz // 2), "iter t%d,l" % max(sz - 1, 0), "iter n,t%d,b,l" % (sz // 3), "iter_mut t%d,n,l" % (sz // 2),
                "iter t%d,n" % sz]
        for i in I:
            out += ["get %d" % i, "nth_back %d" % i, "index %d" % i, "get_mut %d %s" % (i, c.e()),
                    "nth_back_mut %d %s" % (i, c.e())]
        for (a, b) in sparse_ranges(sz, r, 2):
            out += ["range i%d e%d n,b,l,n,b" % (a, b), "range_mut i%d e%d n,sb=%s,l,b" % (a, b, c.e()),
                    "iter_debug i%d e%d n" % (a, b), "range i%d e%d t%d,l,n" % (a, b, (b - a) // 2)]
    return out


def wide_io(c, N, sz, r, fams=("std",)):
    out = []
    lens = sorted({0, 1, 2, max(N - sz - 1, 0), N - sz, N - sz + 1, N - 1, N, N + 1, min(2 * N + 1, 700)} | steered_lens(N))
    big = N in STEERED
    for fam in fams:
        out += ["write %s %s" % (fam, c.es(m)) for m in lens]
        out += ["read %s %s" % (fam, c.es(m)) for m in sorted({0, 1, sz - 1 if sz else 0, sz, sz + 1, N + 2 if big else min(N + 2, 700)})]
        out += ["fill_buf " + fam, "flush " + fam]
        out += ["consume %s %d" % (fam, k) for k in sorted({0, 1, sz // 2, max(sz - 1, 0), sz, sz + 1, N + 2, MAX})]
    out += ["extend_ref " + c.es(m) for m in (1, N - sz + 1)]
    return out


# operation keyword of the case language -> name of the function it enters, where the two differ
OP_FN = {"eq_slice": "eq", "eq_buf": "eq", "eq_self": "eq", "eq_array": "eq", "ne": "eq", "debug": "fmt", "iter_debug": "fmt",
         "iter_mut_debug": "fmt", "drain_debug": "fmt", "into_iter_debug": "fmt", "cmp": "cmp", "partial_cmp": "partial_cmp",
         "clone_keep": "clone", "from_array": "from", "extend_ref": "extend", "index": "index", "get_mut": "get_mut",
         "iter_default": "default", "iter_mut_default": "default", "ref_into_iter": "into_iter", "boxed": "boxed"}
AFFECTED = set()      # set by check.py's steered search: names of the functions through which a changed function is reached


def enters(op, affected):
    t = op.split(" ", 1)[0]
    return OP_FN.get(t, t) in affected


STEER_LIMIT = {"E": 1 << 21, "u8": 1 << 22, "NE": 8200, "B": 600, "NB": 600}   # as harness/build.rs instantiates them


def wide_cases(g, Ns, kind, elem="E", fault="none", suffix=("new",), layouts_per_n=6, junk=3, fams=("std",), every=1):
    """one case per (capacity, layout, operation); [every] > 1 keeps a seeded subsample"""
    r = g.rng
    # capacities the changed source text points at (check.py's steered search) are always part of the list
    Ns = list(Ns) + [t for t in sorted(STEERED) if t not in Ns and t <= STEER_LIMIT.get(elem, 0)]
    for N in Ns:
        for (st, sz) in wide_layouts(N, r, layouts_per_n):
            vals = [(v if v != 13 else 14) for v in (((7 * i + 3) % 251) for i in range(sz))] if elem == "u8" else default_vals(sz)
            probe = DryCase(0, N, st, vals, elem=elem)
            mk = (lambda c: wide_io(c, N, sz, Rng(N * 1000 + st * 7 + sz), fams)) if kind == "io" else \
                 (lambda c: wide_ops(c, N, sz, Rng(N * 1000 + st * 7 + sz), kind))
            dry = mk(probe)
            n = len(dry)
            # large capacities: every case carries the whole contents; keep about 100 operations per layout
            ev = max(every, n // 100) if N > 1000 else every
            if N in STEERED:
                ev = 1 if N <= 1000 else max(1, n // 50)     # ~50 operations x 18 layouts per large steered capacity
            for k in range(n):
                if ev > 1 and not r.chance(1, ev) and not (AFFECTED and enters(dry[k], AFFECTED)):
                    continue
                c = g.new(N, st, vals, junk=junk, fault=fault, elem=elem, tag="wide")
                c.ops = [materialise(c, dry[k])] + list(suffix)


def wide_eq(g, Ns, every=1, layouts_per_n=4):
    """buffer == slice where the slice differs from the contents in exactly one position (every position for
    lengths up to 80, block boundaries beyond), or not at all, or only in length"""
    r = g.rng
    for N in Ns:
        for (st, sz) in wide_layouts(N, r, layouts_per_n):
            vals = default_vals(sz)
            pos = list(range(sz)) if sz <= 80 else sorted({p for b in range(0, sz, 8) for p in (b - 1, b, b + 1) if 0 <= p < sz} |
                                                           {0, sz - 1, sz // 2})
            variants = [list(vals), list(vals[:-1]), list(vals) + [7]]
            for p_ in pos:
                v = list(vals)
                v[p_] += 1
                variants.append(v)
            for v in variants:
                if every > 1 and not r.chance(1, every):
                    continue
                c = g.new(N, st, vals, junk=3, tag="wide")
                c.ops = ["eq_slice slice " + c.es(len(v), v), "new"]


def other_buf(c, M, st, vals, junk=3, idbase=900):
    els = ",".join("%d:%d" % (idbase + i, v) for i, v in enumerate(vals)) if vals else "-"
    return "%d;%d;%s;%d" % (M, st, els, junk)
