#!/usr/bin/env python3
"""check.py <property> [quick|thorough] | <property> --replay <file>

Decides one property: (1) the Coq development builds, the property's theorems
are closed (Print Assumptions, no Admitted/Axiom), (2) the implementation in
/repo's working tree (rebuilt, hooks on) satisfies the property oracle on the
generated case space, (3) it agrees with the extracted Coq model on the
property's projection of observables. Exit 0 iff all three hold; otherwise
exit 1 with `VIOLATION property=<id> replay=<path>`.
"""

import glob
import hashlib
import json
import os
import re
import shutil
import sys
import time

sys.path.insert(0, os.path.dirname(os.path.abspath(__file__)))
import engine as E          # noqa: E402
import props as P           # noqa: E402
import special as S         # noqa: E402

ALLOWED_AXIOMS = set()      # none are needed; see DESIGN.md section 7
FORBIDDEN = re.compile(r"\b(Admitted|admit|Axiom|Axioms|Parameter|Parameters|Conjecture|"
                       r"Unset Guard Checking|bypass_check|Admit Obligations)\b|type-in-type|impredicative-set")


# properties whose theorems rest on the core inherent methods (all but the type-level C15)
CORE_PROPS = {"C%02d" % i for i in range(1, 21)} - {"C15"}

EXPLAIN = {
    "C17": "Partial by nature: (1) theorems: no operation changes the capacity and the specification emits an allocation event only for "
           "to_vec; (2) what decides the property: under a counting global allocator every returning call of the case space must perform "
           "exactly the number of allocations the model predicts (0, or 1 for to_vec of a non-empty buffer); (3) the crate is built from "
           "the working tree with --no-default-features and with only the alloc feature. cfg-conditional compilation and the allocator "
           "are observed, not modelled.",
}


def known_findings():
    try:
        return json.load(open(os.path.join(E.VERIF, "known_findings.json")))
    except Exception:
        return {"known": [], "fixed": []}


# ---------------------------------------------------------------- proof audit

def strip_comments(src):
    out, depth, i = [], 0, 0
    while i < len(src):
        if src.startswith("(*", i):
            depth += 1
            i += 2
        elif src.startswith("*)", i) and depth > 0:
            depth -= 1
            i += 2
        else:
            if depth == 0:
                out.append(src[i])
            i += 1
    return "".join(out)


SECTION_DECL = re.compile(r"^\s*(Variable|Variables|Hypothesis|Hypotheses|Context)\b")


def audit_proofs(pid, tier="quick"):
    """returns (ok, info dict)"""
    info = {"theorems": [], "assumptions": [], "problems": []}
    ok, out = E.build_coq()
    if not ok:
        info["problems"].append("coq build failed: " + out[-1500:])
        return False, info
    for f in glob.glob(os.path.join(E.COQ, "**", "*.v"), recursive=True):
        depth = 0
        for n, line in enumerate(strip_comments(open(f).read()).split("\n"), 1):
            if FORBIDDEN.search(line):
                info["problems"].append("forbidden construct in %s:%d: %s" % (f, n, line.strip()))
            # a Variable / Hypothesis outside a section declares an axiom
            if re.match(r"^\s*Section\s+\w+\s*\.", line):
                depth += 1
            elif re.match(r"^\s*End\s+\w+\s*\.", line) and depth > 0:
                depth -= 1
            elif SECTION_DECL.match(line) and depth == 0:
                info["problems"].append("%s outside a section in %s:%d" % (SECTION_DECL.match(line).group(1), f, n))
    pf = os.path.join(E.COQ, "Properties", pid + ".v")
    if not os.path.exists(pf):
        info["problems"].append("no theorem file " + pf)
        return False, info
    src = strip_comments(open(pf).read())
    thms = re.findall(r"\b(?:Theorem|Corollary)\s+(\w+)", src)
    nprint = len(re.findall(r"\bPrint Assumptions\b", src))
    info["theorems"] = thms
    info["file_sha256"] = hashlib.sha256(open(pf, "rb").read()).hexdigest()
    rc, out = E.sh("coqc -Q theories CB -Q proofs CBP -Q Properties CBProps Properties/%s.v" % pid,
                   cwd=E.COQ, timeout=900)
    if rc != 0:
        info["problems"].append("theorem file does not check: " + out[-1500:])
        return False, info
    closed = len(re.findall(r"Closed under the global context", out))
    axioms = re.findall(r"^\s*([\w.]+)\s*:", out.split("Axioms:", 1)[1], flags=re.M) if "Axioms:" in out else []
    info["assumptions"] = ["Closed under the global context"] * closed + axioms
    if nprint < len(thms) or nprint == 0:
        info["problems"].append("a theorem lacks its Print Assumptions")
    bad = [a for a in axioms if a not in ALLOWED_AXIOMS]
    if bad or closed + (1 if axioms else 0) < nprint:
        info["problems"].append("theorems depend on axioms: %s" % bad)
    if tier == "thorough" and not info["problems"]:
        # independent re-check of the compiled theorem file and everything it depends on
        rc, out = E.sh("coqchk -o -silent -Q theories CB -Q proofs CBP -Q Properties CBProps CBProps.%s" % pid,
                       cwd=E.COQ, timeout=1800)
        m = re.search(r"\* Axioms:\s*(.*?)\n\s*\n", out, flags=re.S)
        info["coqchk"] = {"rc": rc, "axioms": (m.group(1).strip() if m else "?")}
        if rc != 0 or not m or m.group(1).strip() != "<none>":
            info["problems"].append("coqchk: rc=%d axioms=%s" % (rc, info["coqchk"]["axioms"][:300]))
    return not info["problems"], info


# ---------------------------------------------------------------- comparison

def pick(fields, d, elem, phys):
    """tuple of the observables named in [fields] out of a model or implementation line"""
    out = []
    for f in fields:
        if f == "r":
            out.append(E.norm_elem(d.get("r"), elem))
        elif f == "r-":
            out.append(E.erase_phys(E.norm_elem(d.get("r", ""), elem)))
        elif f == "e":
            out.append(tuple(E.events(d.get("e"), elem)))
        elif f == "a":
            # unwinding allocates the panic payload: allocations are only compared for returning calls
            if str(d.get("r", "")).startswith("panic"):
                out.append(0)
            else:
                out.append(int(d["a"]) if "a" in d else E.nallocs(d.get("e")))
        elif f == "c":
            out.append(E.norm_elem(d.get("c"), elem))
        else:
            out.append(d.get(f))
    return tuple(out)


def spec_oracle(plan, case, optext, s, i):
    """implementation line against the specification line; returns a reason or None"""
    elem = case.elem
    ir = i.get("r", "")
    if s.get("r") == "panic":
        if not ir.startswith("panic:"):
            return "documented panic did not happen: got %s" % ir
        if ir not in ("panic:assert", "panic:expect"):
            return "undocumented panic class %s" % ir
        return None
    if ir.startswith("panic:"):
        return "unexpected %s" % ir
    if "r-" in plan.spec:
        sr = E.erase_phys(E.norm_elem(s["r"], elem))
        rr = E.erase_phys(E.norm_elem(ir, elem))
        if optext.startswith("fill_buf"):
            whole = sr[5:-1]
            got = rr[5:-1]
            okp = (got == "-" and whole == "-") or (got != "-" and (whole + ",").startswith(got + ","))
            if not okp:
                return "fill_buf returned %s, contents %s" % (got, whole)
        elif sr != rr:
            return "result %s, specified %s" % (rr, sr)
    if "c" in plan.spec and not (optext.startswith("drain") and optext.endswith("forget")):
        if E.norm_elem(s["c"], elem) != E.norm_elem(i.get("c"), elem):
            return "contents %s, specified %s" % (i.get("c"), s["c"])
    if "e" in plan.spec:
        se, ie = tuple(E.events(s.get("e"), elem)), tuple(E.events(i.get("e"), elem))
        if se != ie:
            return "events %s, specified %s" % (",".join(ie) or "-", ",".join(se) or "-")
    return None


def compare(plan, cases, parsed, dbg):
    """returns (oracle_failures, corr_failures, stats)"""
    ofail, cfail = [], []
    evals, nontrivial = 0, set()
    dist = {}
    for c in cases:
        p = parsed.get(c.cid)
        if p is None:
            cfail.append((c, -1, "case missing from the outputs"))
            continue
        if "unsupported-case" in p["notes"]:
            cfail.append((c, -1, "harness does not support this case"))
            continue
        for note in p["notes"]:
            ofail.append((c, -1, note))
        if p["crash"]:
            ofail.append((c, -1, "the process died (abort / double panic / hang): " + p["crash"]))
            continue
        wrapped = c.N > 0 and c.start + len(c.vals) > c.N
        armed = c.fault != "none"
        for k, optext in enumerate(c.ops):
            rec = p["ops"].get(k, {})
            m, s, i = rec.get("m"), rec.get("s"), rec.get("i")
            if m is None or i is None:
                cfail.append((c, k, "missing line (model %s, implementation %s)" % (m is not None, i is not None)))
                break
            if i.get("r") == "unsupported":
                cfail.append((c, k, "operation not supported by the harness"))
                break
            evals += 1
            name = optext.split(" ")[0]
            dist[name] = dist.get(name, 0) + 1
            if (wrapped or m.get("c") != p["init"].get("model", {}).get("c") or
                    m.get("r", "").startswith(("some", "panic", "ref", "sc[i", "list[", "sl[", "b1", "rd"))):
                nontrivial.add(E.case_sig(c, optext))
            # oracle
            why = None
            if i.get("x", "-") != "-":
                why = "implementation state/protocol check: " + i["x"]
            elif plan.spec and s is not None and not armed:
                why = spec_oracle(plan, c, optext, s, i)
            armed = i.get("f", "none") != "none"
            extra = plan.oracle_op(c, k, optext, rec, p) if hasattr(plan, "oracle_op") else None
            why = why or extra
            if why:
                ofail.append((c, k, why))
                break
            # correspondence
            if pick(plan.corr, m, c.elem, True) != pick(plan.corr, i, c.elem, True):
                cfail.append((c, k, "model %s / implementation %s on %s" % (
                    pick(plan.corr, m, c.elem, True), pick(plan.corr, i, c.elem, True), plan.corr)))
                break
        fin = p["fin"]
        if fin is not None and plan.ledger:
            if fin.get("bad", "-") != "-":
                ofail.append((c, len(c.ops), "ownership violated: " + fin["bad"]))
            elif plan.no_leak and (c.fault == "none" or getattr(plan, "no_leak_faults", False)) and c.ops and c.ops[-1] == "new" and \
                    not any(o.endswith("forget") for o in c.ops):
                if fin.get("live", "-") != "-" or fin.get("zlive", "0") != "0":
                    ofail.append((c, len(c.ops), "leaked elements: live=%s zlive=%s" % (fin.get("live"), fin.get("zlive"))))
        if hasattr(plan, "oracle_case"):
            for why in plan.oracle_case(c, p):
                ofail.append((c, -1, why))
    if hasattr(plan, "oracle_groups"):
        ofail.extend(plan.oracle_groups(cases, parsed))
    return ofail, cfail, {"evaluations": evals, "distinct_nontrivial": len(nontrivial), "ops": dist}


def minimise(plan, case, k, cfgname, driver, harness, wd, dbg, kind):
    """delta-debug a failing history: drop operations while the failure persists"""
    if len(case.ops) <= 2:
        return case
    import copy
    best = case

    def fails(c):
        parsed = E.run_both([c], dbg, driver, harness, wd)
        o, cf, _ = compare(plan, [c], parsed, dbg)
        return bool(o) if kind == "oracle" else bool(o or cf)

    ops = list(case.ops[:k + 1]) + ([case.ops[-1]] if case.ops[-1] == "new" and k + 1 < len(case.ops) else [])
    c2 = copy.copy(case)
    c2.ops = ops
    if fails(c2):
        best = c2
    i = 0
    budget = 60
    while i < len(best.ops) - 1 and budget > 0:
        budget -= 1
        c3 = copy.copy(best)
        c3.ops = best.ops[:i] + best.ops[i + 1:]
        if fails(c3):
            best = c3
        else:
            i += 1
    return best


def write_replay(pid, tag, payload):
    d = os.path.join(E.VERIF, "replays")
    os.makedirs(d, exist_ok=True)
    h = hashlib.sha1(json.dumps(payload, sort_keys=True).encode()).hexdigest()[:12]
    path = os.path.join(d, "%s-%s-%s.json" % (pid, tag, h))
    json.dump(payload, open(path, "w"), indent=1)
    return path


# ---------------------------------------------------------------- main

WIDE_BUDGET = 1500.0     # CPU seconds of model time the steered search may spend on its expensive cases


def model_seconds(c):
    """Measured cost of one case in the extracted model (its store is a function, its event log a list that is
    appended to): ~1.4e-8 s x capacity^2 for an operation on a buffer of that capacity, ~1e-7 s x length^2 for
    an operation that takes a slice or iterator of that length."""
    n = c.N if c.N < (1 << 40) else 0                 # zero-sized element types carry no contents
    longest = max((len(o) for o in c.ops), default=0) // 10
    return 1.4e-8 * n * n + 1e-7 * longest * longest


def enters_changed(c, affected):
    import cases as C
    return any(C.enters(o, affected) for o in c.ops)


def within_budget(cases, budget, seed, affected=()):
    """The steered search runs whole families at capacities and lengths in the thousands. Keep every cheap case and a
    seeded subsample of the expensive ones (> 20 ms) such that their estimated model time stays within [budget];
    cases that enter a function whose text changed (directly or through its callees) are served first, with
    two thirds of the budget."""
    costly = [(c, model_seconds(c)) for c in cases]
    costly = [(c, t) for (c, t) in costly if t > 0.02]
    total = sum(t for _, t in costly)
    if total <= budget:
        return cases
    import cases as C
    r = C.Rng(seed * 31 + 5)
    scale = 1 << 30
    first = [(c, t) for (c, t) in costly if affected and enters_changed(c, affected)]
    rest = [(c, t) for (c, t) in costly if not (affected and enters_changed(c, affected))]
    drop = set()
    b1 = budget * 2 / 3 if rest else budget
    t1 = sum(t for _, t in first)
    if t1 > b1:
        drop |= set(id(c) for (c, _) in first if r.below(scale) >= int(scale * b1 / t1))
        t1 = b1
    b2 = max(budget - t1, 0.0)
    t2 = sum(t for _, t in rest)
    if t2 > b2:
        drop |= set(id(c) for (c, _) in rest if r.below(scale) >= int(scale * b2 / t2))
    return [c for c in cases if id(c) not in drop]


def run_plan(plan, tier, seed, wd, extra_cfgs=(), budget=None, affected=()):
    """runs the correspondence + oracle part; returns results per configuration"""
    ok, driver = E.build_driver()
    if not ok:
        raise RuntimeError("driver build failed: " + driver[-1500:])
    results = []
    for cfg in list(plan.cfgs(tier)) + [c for c in extra_cfgs if c not in plan.cfgs(tier)]:
        ok, harness = E.build_harness(cfg)
        if not ok:
            results.append({"cfg": cfg, "build_failed": harness[-3000:]})
            continue
        dbg = E.CONFIGS[cfg][3]
        cases = plan.gen_cfg(tier, seed, cfg) if hasattr(plan, "gen_cfg") else plan.gen(tier, seed)
        if budget:
            cases = within_budget(cases, budget, seed, affected)
        parsed = E.run_both(cases, dbg, driver, harness, os.path.join(wd, cfg), unst=cfg.startswith("unstable"))
        ofail, cfail, stats = compare(plan, cases, parsed, dbg)
        results.append({"cfg": cfg, "cases": cases, "ofail": ofail, "cfail": cfail, "stats": stats,
                        "driver": driver, "harness": harness, "dbg": dbg, "parsed": parsed})
    return results


def sample_cases(cases, n=3):
    out = []
    step = max(1, len(cases) // n)
    for c in cases[::step][:n]:
        out.append(c.text(True).strip().split("\n"))
    return out


def main():
    if len(sys.argv) < 2:
        print(__doc__)
        return 2
    pid = sys.argv[1]
    if len(sys.argv) >= 4 and sys.argv[2] == "--replay":
        return S.replay(pid, sys.argv[3])
    tier = sys.argv[2] if len(sys.argv) > 2 else os.environ.get("VERIF_TIER", "quick")
    seed = int(os.environ.get("VERIF_SEED", "1"))
    t0 = time.time()
    os.makedirs(os.path.join(E.VERIF, "evidence"), exist_ok=True)
    wd = os.path.join(E.CACHE, "work", pid + "-" + tier)
    shutil.rmtree(wd, ignore_errors=True)
    os.makedirs(wd, exist_ok=True)

    if pid in S.SPECIAL:
        return S.SPECIAL[pid](tier, seed, t0, wd)

    plan = P.ALL[pid]
    violations = []
    proofs_ok, pinfo = audit_proofs(pid, tier)
    # the hand-written model is an image of specific source text: fingerprint of every function the property depends on
    import srcfp
    try:
        fp = srcfp.check(pid)
    except Exception as ex:            # the fingerprint tool itself failed: the tie is not established
        fp = {"ok": False, "error": str(ex), "changed": [], "new_items": [], "removed": [], "message": "source fingerprint failed: %s" % ex}
    fp_ok = bool(fp.get("ok"))
    # the core inherent methods are regenerated from the source and proved equal to the hand-written model
    # (tools/rs2coq_core, coq/gen/CoreGenProofs.v): for them the model IS what the source says now
    import coregen
    try:
        cg = coregen.run()
    except Exception as ex:
        cg = {"ok": False, "translated": [], "proved": [], "failed": {}, "skipped": {}, "problems": ["core translator failed: %s" % ex]}
    proved = set(cg.get("proved", []))

    # srcfp item name -> translated function name (the translator reports which source item each function is)
    item_of = {v: k for k, v in (cg.get("items") or {}).items()}
    # a destructor declared inside a function is part of the translation of that function
    item_of.update(cg.get("covered_items") or {})

    def core_name(item):
        return item_of.get(item)
    if not fp_ok and not fp.get("error"):
        still = [n for n in fp.get("changed", []) if core_name(n) not in proved]
        if not still and not fp.get("removed") and not [n for n in fp.get("new_items", []) if n not in fp.get("changed", [])]:
            # every function whose text changed is one whose regenerated model is PROVED equal to the hand model:
            # a harmless rewrite, the theorems are still about this code
            fp_ok = True
            fp["harmless_rewrite_of"] = fp.get("changed")
    cg_relevant = [f for f in (cg.get("failed") or {}) if pid in CORE_PROPS]
    if (cg_relevant or (cg.get("problems") and pid in CORE_PROPS)) and fp_ok:
        fp_ok = False
        fp.setdefault("changed", [])
        fp["message"] = "regenerated model differs from the hand model: %s %s" % (sorted(cg.get("failed") or {}), cg.get("problems"))
    # extraction is validated, not only trusted: the same Gallina computations (inputs enumerated by a Gallina
    # function, all 72 operations) evaluated by vm_compute in the kernel and by the extracted OCaml program
    import xcheck
    try:
        xr = xcheck.run(sample=400 if tier == "quick" else 2000, seed=seed)
    except Exception as ex:
        xr = {"ok": False, "error": str(ex)}
    if not xr.get("ok"):
        path = write_replay(pid, "extraction", {"property": pid, "kind": "vm_compute and the extracted OCaml model disagree (or could not be run)",
                                                "detail": {k: xr.get(k) for k in ("mismatches", "mismatch_count", "error", "cases")}})
        violations.append((path, True))
    results = run_plan(plan, tier, seed, wd)

    if hasattr(plan, "cross_cfg"):
        for (r, fail) in plan.cross_cfg(results):
            r["ofail"].append(fail)
    extras = plan.extra_obligations(tier, wd) if hasattr(plan, "extra_obligations") else []
    for ob in extras:
        name, ok, detail = ob[0], ob[1], ob[2]
        no_input = ob[3] if len(ob) > 3 else False
        if not ok:
            path = write_replay(pid, "obligation", {"property": pid, "kind": "obligation failed on /repo's working tree",
                                                    "what": name, "detail": detail})
            violations.append((path, no_input))
    total_evals = sum(r.get("stats", {}).get("evaluations", 0) for r in results)
    total_nt = sum(r.get("stats", {}).get("distinct_nontrivial", 0) for r in results)
    corr_ok = True
    for r in results:
        if "build_failed" in r:
            corr_ok = False
            path = write_replay(pid, "build", {"property": pid, "cfg": r["cfg"],
                                               "what": "the harness does not build against /repo's working tree in this configuration",
                                               "log": r["build_failed"]})
            violations.append((path, True))
            continue
        if r["ofail"]:
            c, k, why = r["ofail"][0]
            kname = "oracle"
            try:
                cmin = minimise(plan, c, max(k, 0), r["cfg"], r["driver"], r["harness"],
                                os.path.join(wd, "min"), r["dbg"], kname) if k >= 0 else c
            except Exception:
                cmin = c
            path = write_replay(pid, "oracle", {
                "property": pid, "cfg": r["cfg"], "kind": "property violated by the implementation",
                "reason": why, "op_index": k, "case": cmin.text(r["dbg"]),
                "original_case": c.text(r["dbg"]), "failures_total": len(r["ofail"])})
            violations.append((path, False))
        elif r["cfail"]:
            corr_ok = False

    need_search = (not proofs_ok) or (not corr_ok) or (not fp_ok)
    steer = []
    if need_search and not any(not nf for _, nf in violations):
        # the property is no longer shown to hold: search wider for a failing input
        found = None
        try:
            if not fp_ok:
                # numeric literals that are new in the changed functions steer the search: the harness is
                # rebuilt for capacities around them and the wide families run there as well
                steer, nbig = [], 0
                for t in srcfp.thresholds(fp):          # most telling first; large capacities are costly (the extracted model's store is a function): at most three above 2048
                    if 8 < t <= 8200 and len(steer) < 24:
                        if t > 2048:
                            nbig += 1
                            if nbig > 3:
                                continue
                        steer.append(t)
                if "size_of" in (fp.get("new_features") or []) or any("size_of" in str(v.get("new_features")) for v in (fp.get("detail") or {}).values()):
                    # a new threshold on the element size: the steerable element type S is made larger than it
                    big = [l for l in fp.get("new_literals", []) if 64 <= l <= 16384]
                    if big:
                        os.environ["VERIF_EXTRA_ELEM_WORDS"] = str(max(big) // 8 + 1)
                if steer:
                    import cases as C
                    os.environ["VERIF_EXTRA_CAPS"] = ",".join(map(str, steer))
                    C.STEERED.update(steer)
                    for lst in (C.WIDE_E, C.WIDE_U8):
                        lst.extend(x for x in steer if x not in lst)
            if tier == "quick" or steer or os.environ.get("VERIF_EXTRA_ELEM_WORDS"):
                # quick tier with a changed source text: the quick density at the steered capacities (minutes);
                # otherwise the thorough case space
                wide_tier = "quick" if (tier == "quick" and not fp_ok and proofs_ok and corr_ok) else "thorough"
                try:
                    affected = srcfp.affected_names(fp.get("changed", [])) if not fp_ok else ()
                except Exception:
                    affected = ()
                # destructors and iterator protocol methods are entered through the operation that creates the view
                affected = set(affected)
                for n in fp.get("changed", []):
                    if "Drain" in n or "CircularSlicePtr" in n:
                        affected.add("drain")
                    if "Iter" in n or n.startswith("slice_take") or n.startswith("translate_range"):
                        affected |= {"iter", "iter_mut", "range", "range_mut", "into_iter", "drain"}
                import cases as C
                C.AFFECTED = set(affected)      # the sampled families keep every operation that enters a changed function
                # a changed function that only exists in a feature-gated build is searched in that build as well
                xcfg = []
                if any("@unstable" in n for n in fp.get("changed", [])) and plan.spec is not None and pid != "C16":
                    xcfg.append("unstable")
                wide = run_plan(plan, wide_tier, seed + 7919, os.path.join(wd, "wide"), extra_cfgs=xcfg,
                                budget=((WIDE_BUDGET if tier == "quick" else 20 * WIDE_BUDGET) if steer else None), affected=affected)
                for r in wide:
                    if r.get("ofail"):
                        found = (r, r["ofail"][0])
                        break
                    if r.get("cfail") and not fp_ok:
                        corr_ok = False
                        results.append(r)
        except Exception as ex:      # the search is best effort
            print("search failed: %s" % ex)
        finally:
            os.environ.pop("VERIF_EXTRA_CAPS", None)
            os.environ.pop("VERIF_EXTRA_ELEM_WORDS", None)
        if found:
            r, (c, k, why) = found
            path = write_replay(pid, "oracle", {
                "property": pid, "cfg": r["cfg"], "kind": "property violated by the implementation (found by the widened search)",
                "reason": why, "op_index": k, "case": c.text(r["dbg"]), "extra_caps": steer,
                "source_fingerprint_changed": fp.get("changed")})
            violations.append((path, False))
        else:
            what = {}
            if not proofs_ok:
                what["proof"] = pinfo["problems"]
            if not fp_ok:
                what["source_fingerprint"] = {
                    "meaning": "the text of these functions is no longer the text the Gallina model was written against, so the "
                               "theorems are no longer known to be about this code; the widened differential search "
                               "(steered to the capacities listed) found no failing input",
                    "changed": fp.get("changed"), "new_items": fp.get("new_items"), "removed": fp.get("removed"),
                    "new_literals": fp.get("new_literals"), "new_features": fp.get("new_features"),
                    "steered_capacities": steer, "message": fp.get("message"), "error": fp.get("error"),
                    "regenerated_model": {"not_equal_to_hand_model": cg.get("failed"), "problems": cg.get("problems")}}
            for r in results:
                if r.get("cfail"):
                    c, k, why = r["cfail"][0]
                    what.setdefault("correspondence", []).append({
                        "cfg": r["cfg"], "projection": list(plan.corr), "first_difference": why,
                        "op_index": k, "case": c.text(r["dbg"]), "differences_total": len(r["cfail"])})
            path = write_replay(pid, "unproved", {"property": pid, "kind": "no longer shown to hold", "what": what})
            violations.append((path, True))

    ev = {
        "property_id": pid, "tier": tier, "seed": seed, "level": getattr(plan, "level", "proof"),
        "coverage": {
            "obligations": len(pinfo["theorems"]) + len(results) + len(extras) + 2 + len(cg.get("translated", [])),
            "discharged": (len(pinfo["theorems"]) if proofs_ok else 0) + sum(1 for e in extras if e[1]) + (1 if fp_ok else 0) +
                          (1 if xr.get("ok") else 0) + len(proved) +
                          sum(1 for r in results if "build_failed" not in r and not r["ofail"] and not r["cfail"]),
            "explanation": EXPLAIN.get(pid, "machine-checked theorems about the Gallina model (coq/Properties/%s.v) plus the checked "
                                            "correspondence between the extracted model and /repo's working tree" % pid),
            "extra_obligations": [{"what": e[0], "ok": e[1]} for e in extras],
            "translated_arithmetic": getattr(plan, "arith", None), "miri": getattr(plan, "miri", None), "api_surface": getattr(plan, "api", None),
            "extraction_crosscheck": {k: xr.get(k) for k in ("ok", "cases", "mismatch_count", "constructors_covered",
                                                              "constructors_total", "numbers_compared", "wall_s")},
            "regenerated_core_model": {"ok": cg.get("ok"), "functions_translated_and_proved_equal": sorted(proved),
                                       "skipped": cg.get("skipped"), "failed": cg.get("failed"),
                                       "statement_preconditions": cg.get("preconditions"), "relative_to_hand_callees": cg.get("hand_callees"),
                                       "covered_by_parent": cg.get("covered_items"),
                                       "std_table_entries": len(cg.get("std_table") or [])},
            "source_fingerprint": {"ok": fp_ok, "harmless_rewrite_of": fp.get("harmless_rewrite_of"), "functions_in_scope": fp.get("functions_in_scope"),
                                   "functions_total": fp.get("functions_total"), "changed": fp.get("changed"),
                                   "new_items": fp.get("new_items")},
            "checker_cmd": "make -C /verif/coq (coqc 8.16.1, full .vo build) && coqc Properties/%s.v with Print Assumptions; then ./check %s %s" % (pid, pid, tier),
            "trusted_base": ["Coq 8.16.1 kernel (no native_compute)", "extraction ExtrOcamlBasic + OCaml 4.13.1 driver",
                             "Rust harness + hooks (--cfg circular_buffer_verif)", "case generators tools/cases.py, tools/props.py",
                             "translator tools/rs2coq_core (syn parser, its std table of %d renderings) for the %d functions regenerated "
                             "from src/*.rs and proved equal to the hand model" % (len(cg.get("std_table") or []), len(proved)),
                             "hand-written model coq/theories/*.v for everything else (tied to /repo by the correspondence check and "
                             "the source fingerprint tools/srcfp.py)"],
            "theorems": pinfo["theorems"], "assumptions": sorted(set(pinfo["assumptions"])),
            "theorem_file_sha256": pinfo.get("file_sha256"), "coqchk": pinfo.get("coqchk"),
            "proof_problems": pinfo["problems"],
            "evaluations": total_evals, "distinct_nontrivial": total_nt,
            "rule": "one evaluation = one API call run on the implementation and on the extracted model from the same state; "
                    "non-trivial = starts from a wrapped layout, changes the contents, returns an element/view or panics; distinct by (layout, junk, fault, call)",
            "samples": sample_cases(results[0]["cases"]) if results and "cases" in results[0] else [],
            "configurations": [r["cfg"] for r in results],
            "ops_distribution": results[0]["stats"]["ops"] if results and "stats" in results[0] else {},
            "correspondence_projection": list(plan.corr), "oracle": list(plan.spec),
            "exhaustive": False,
        },
        "assumptions": ["see DESIGN.md section 7 (trusted base) and section 3.4 (modelled rather than verified)"],
        "wall_s": round(time.time() - t0, 1),
        "violations": len(violations),
    }
    json.dump(ev, open(os.path.join(E.VERIF, "evidence", pid + ".json"), "w"), indent=1)

    for line in known_findings().get("known", []):
        if ("property=" + pid + " ") in line:
            print("KNOWN-FINDING: " + line)
    if violations:
        for path, nf in violations:
            print("VIOLATION property=%s replay=%s%s" % (pid, path, " no-failing-input-found" if nf else ""))
        return 1
    print("OK property=%s tier=%s theorems=%d evaluations=%d wall=%.0fs" % (
        pid, tier, len(pinfo["theorems"]), total_evals, time.time() - t0))
    return 0


if __name__ == "__main__":
    sys.exit(main())
