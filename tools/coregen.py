"""Tie the hand-written model (coq/theories/Buf.v, Iter.v, Drain.v, Traits.v, Io.v) to the
source by translation.

run(wd) regenerates, from E.REPO/src/{lib,iter,drain,io,embedded_io}.rs, a Gallina definition
gen_f for every function f that tools/rs2coq_core understands (add_mod, sub_mod, the inherent
methods of CircularBuffer up to make_contiguous, drop_range, the fill family, Index/IndexMut,
Drop; translate_range_bounds, slice_take*, Iter / IterMut / IntoIter; Drain, CircularSlicePtr
and Drain's destructor with its back-fill loop; the Write / Read / BufRead impls of the three io
families), and proves, for each of them separately,

    forall args s w, gen_f args s w = f args s w          (coq/gen/CoreGenProofs.v)

(`= ret (f args) s w` where the model's f is a pure function), i.e. the regenerated model of f
IS the hand-written model of f. The result names, per function, whether that holds now. A
source edit of f after which gen_f still translates and is still proved equal cannot change
anything any theorem about the model says about f.

Nothing is written inside the tracked tree: all files go to `wd`
(default E.CACHE/coregen).

    run(wd=None) -> {
      "ok":         every translated function is proved equal, every proof is
                    closed under the global context, and the translator did not
                    refuse a function it must understand,
      "translated": [f, ...]            in dependency order,
      "skipped":    {f: reason}         not translated, or translated but not equal to the model
                                        (a recorded discrepancy of the model): not covered,
      "proved":     [f, ...],
      "failed":     {f: first error line},
      "items":      {f: name}           the name tools/srcmap (tools/srcfp.py) gives the source item
                                        of every function this tool knows, e.g.
                                        "Iter_advance_back_by": "Iter::advance_back_by",
                                        "Drain_drop": "<Drain as Drop>::drop", "push_back":
                                        "CircularBuffer::push_back", "slice_take": "slice_take@stable",
                                        "io_write": "<CircularBuffer as Write>::write",
      "conditional": {f: "lemma : statement"}   what is proved instead for the functions of DISCREPANCY,
      "covered_items": {item: f}        source items without a function of their own here (the destructors of structs
                                        declared inside a function), by the translated function they are part of,
      "std_table":  [[source form, rendering], ...]   every function / adaptor of std the translation gives a meaning
                                        (tools/rs2coq_core/src/stdtab.rs): part of the trusted base; a std call that is
                                        not in it is refused where it occurs (file:line:column, under "skipped"),
      "preconditions": {f: hypothesis of gen_f_eq},
      "generated_sha256": sha256 of CoreGen.v,
      "wall_s":     seconds,
      + "calls" {f: [callees]}, "hand_callees" {f: [untranslated callees whose
        hand-written model the generated caller refers to]}, "hand" {f: the model's name},
        "root_failures" [failed functions none of whose callees failed], "problems" [...],
        "timings" {...}, "cached" bool }
"""

import concurrent.futures
import hashlib
import json
import os
import re
import sys
import time

sys.path.insert(0, os.path.dirname(os.path.abspath(__file__)))
import engine as E  # noqa: E402

TOOL_DIR = os.path.join(E.VERIF, "tools", "rs2coq_core")
TEMPLATE = os.path.join(E.COQ, "gen", "CoreGenProofs.v")
ARITH = ["add_mod", "sub_mod"]
JOBS = 8
THEORIES = ["Machine", "Buf", "Iter", "Drain", "Traits", "Io", "System", "Unstable"]

# statements that are not of the general form (see expected_statement)
SPECIAL = {
    # the model's csp has no base pointer: the struct exists only on the first slot of the array
    "CircularSlicePtr_new": "forall (n : Z) (s : cbuf) (w : world), "
                            "gen_CircularSlicePtr_new {| soff := 0; slen := n |} s w = ret (csp_new n) s w",
}
# functions without a definition of their own in the model: the statement is written with the model's functions
SPECIAL.update({
    "Iter_size_hint": "forall (x1 : iter) (s : cbuf) (w : world), "
                      "gen_Iter_size_hint x1 s w = (n <- iter_len x1;; ret (n, Some n)) s w",
    "IterMut_size_hint": "forall (x1 : iter) (s : cbuf) (w : world), "
                         "gen_IterMut_size_hint x1 s w = (n <- iter_mut_len x1;; ret (n, Some n)) s w",
    "IntoIter_size_hint": "forall (s : cbuf) (w : world), "
                          "gen_IntoIter_size_hint s w = (n <- into_iter_len;; ret (n, Some n)) s w",
    "Drain_size_hint": "forall (x1 : drain) (s : cbuf) (w : world), "
                       "gen_Drain_size_hint x1 s w = ret (drain_len x1, Some (drain_len x1)) s w",
    "CircularSlicePtr_clone": "forall (x1 : csp) (s : cbuf) (w : world), gen_CircularSlicePtr_clone x1 s w = ret x1 s w",
    "slice_assume_init_ref": "forall (x1 : slice) (s : cbuf) (w : world), gen_slice_assume_init_ref x1 s w = ret x1 s w",
    "slice_assume_init_mut": "forall (x1 : slice) (s : cbuf) (w : world), gen_slice_assume_init_mut x1 s w = ret x1 s w",
    # a constructor initialises the memory that receives its result (a state of the capacity of the type, otherwise arbitrary)
    "new": "forall (s : cbuf) (w : world), gen_new s w = (Ok tt, new_buf (cap s) (items s), w)",
    "default": "forall (s : cbuf) (w : world), gen_default s w = (Ok tt, default_buf (cap s) (items s), w)",
})
# a value of a type I: IntoIterator is rendered as the function that runs a closure on every item: the model's extend /
# extend_ref / from_iter are about particular iterators (a user iterator that owns the items; borrowed Copy elements)
SPECIAL.update({
    "extend": "forall (x1 : list elem) (s : cbuf) (w : world), gen_extend (gen_user_for_each x1) s w = extend x1 s w",
    "extend_ref": "forall (x1 : list elem) (s : cbuf) (w : world), "
                  "gen_extend_ref (gen_refs_for_each x1) s w = extend_ref x1 s w",
    # a constructor runs on the memory that receives its result, whatever it holds (sz, st, junk)
    # the memory that receives the clone is a parameter of gen_clone
    "clone": "forall (sz st : Z) (junk : store) (s : cbuf) (w : world), "
             "gen_clone {| cap := cap s; size := sz; start := st; items := junk |} s w = clone_buf junk s w",
    "from_iter": "forall (n sz st : Z) (junk : store) (x1 : list elem) (s : cbuf) (w : world), "
                 "(x <- with_buf {| cap := n; size := sz; start := st; items := junk |} (gen_from_iter (gen_user_for_each x1));; "
                 "(let (_, b) := x in ret b)) s w = from_iter n junk x1 s w",
})
for _p in ("io", "eio", "aio"):
    # the model hands back (count, bytes); the translation (bytes, count): `&mut` parameters come first
    SPECIAL[_p + "_read"] = ("forall (x1 : list elem) (s : cbuf) (w : world), "
                             "gen_%s_read x1 s w = (r <- %s_read x1;; ret (snd r, fst r)) s w" % (_p, _p))
# lemmas that hold for states whose capacity is not negative (every state the crate can be in: N is a usize;
# the model's cap is a Z). `&other[other.len() - N..]` is in bounds for that reason only.
PRECOND = {f: "0 <= cap s" for f in ("extend_from_slice", "io_write", "eio_write", "aio_write")}
# functions whose faithful translation is NOT equal to the hand-written model (a finding about the model):
# reported as skipped, with what is proved instead {f: (lemma, statement)}. None at present: the stable
# slice_take_first_mut / slice_take_last_mut (which leave `&mut []` behind on None, core::mem::take) and
# IterMut::next / next_back used to be modelled by the non-mut functions; the model now says what the source says.
WHY_DISCREPANCY = "the hand-written model differs from the source; proved instead: %s"
DISCREPANCY = {}
# the loops of the translated functions: generated Fixpoint -> statement of its equality with the model's loop
LOOPS = {
    "gen_Drain_drop_loop1": "forall (fuel : nat) (y1 : Z) (y2 y3 : csp) (s : cbuf) (w : world), "
                            "gen_Drain_drop_loop1 fuel y1 y2 y3 s w = drain_fill_loop fuel y2 y3 y1 s w",
    "gen_fill_spare_loop1": "forall (fuel : nat) (y1 : elem) (s : cbuf) (w : world), "
                            "gen_fill_spare_loop1 fuel y1 s w = fill_spare_loop fuel y1 s w",
    "gen_fill_spare_with_loop1": "forall (fuel : nat) (s : cbuf) (w : world), "
                                 "gen_fill_spare_with_loop1 fuel s w = fill_spare_with_loop fuel s w",
}

def binder_names(section, f):
    """the names the lemma gen_f_eq of the template binds, in order"""
    m = re.search(r"Lemma gen_%s_eq\s*:\s*forall ([^,]*)," % re.escape(f), section)
    return m.group(1).split() if m else None


def expected_statement(t, section):
    """the statement of gen_f_eq as coqc's Check prints it (whitespace-normalised):
         forall args s w, gen_f args s w = hand args s w            (the model of f is a computation)
         forall args s w, gen_f args s w = ret (hand args) s w      (the model of f is a pure function)
       with the argument types the translator gave gen_f; t: the translator's summary of f"""
    f = t["name"]
    if f in SPECIAL:
        return SPECIAL[f]
    names = binder_names(section, f)
    types = list(t["params"]) + ["cbuf", "world"]
    if names is None or len(names) != len(types) or len(set(names)) != len(names) or names[-2:] != ["s", "w"]:
        return "<the lemma must bind one name per argument of gen_%s, then s and w>" % f
    groups = []
    for n, ty in zip(names, types):
        if groups and groups[-1][1] == ty:
            groups[-1][0].append(n)
        else:
            groups.append(([n], ty))
    b = " ".join("(%s : %s)" % (" ".join(ns), ty) for ns, ty in groups)
    a = "".join(n + " " for n in names[:-2])
    if f in PRECOND:
        return "forall %s, %s -> gen_%s %ss w = %s %ss w" % (b, PRECOND[f], f, a, t["hand"], a)
    if t.get("pure_hand"):
        h = (t["hand"] + " " + a).strip()
        h = "(%s)" % h if " " in h else h
        return "forall %s, gen_%s %ss w = ret %s s w" % (b, f, a, h)
    return "forall %s, gen_%s %ss w = %s %ss w" % (b, f, a, t["hand"], a)


def qflags(wd):
    return "-Q %s/theories CB -Q %s CBG" % (E.COQ, wd)


def coqc(wd, name, timeout=300):
    for ext in (".vo", ".vok", ".vos", ".glob"):
        p = os.path.join(wd, name[:-2] + ext)
        if os.path.exists(p):
            os.remove(p)
    return E.sh("timeout %d coqc %s %s 2>&1" % (timeout, qflags(wd), name), cwd=wd, timeout=timeout + 20)


def sha(*texts):
    h = hashlib.sha256()
    for t in texts:
        h.update(t.encode() if isinstance(t, str) else t)
        h.update(b"\0")
    return h.hexdigest()


def read(p):
    with open(p) as f:
        return f.read()


# ---------------------------------------------------------------- translator

def build_translator():
    tdir = os.path.join(E.CACHE, "target-rs2coq-core")
    env = {"CARGO_TARGET_DIR": tdir, "CARGO_NET_OFFLINE": "true"}
    rc, out = E.sh("cargo build --offline --locked 2>&1", cwd=TOOL_DIR, env=env, timeout=900)
    exe = os.path.join(tdir, "debug", "rs2coq_core")
    if rc != 0 or not os.path.exists(exe):
        return False, out
    return True, exe


def translate(exe, wd):
    gen = os.path.join(wd, "CoreGen.v")
    for p in (gen, gen + ".json"):
        if os.path.exists(p):
            os.remove(p)
    rc, out = E.sh("%s %s %s 2>&1" % (exe, E.REPO, gen), timeout=60)
    return rc, out.strip(), gen


def theories_ready():
    """the .vo of the model exist and are not older than their sources"""
    for m in THEORIES:
        v = os.path.join(E.COQ, "theories", m + ".v")
        vo = os.path.join(E.COQ, "theories", m + ".vo")
        if not os.path.exists(vo) or os.path.getmtime(vo) < os.path.getmtime(v):
            return False
    return True


# ---------------------------------------------------------------- proofs

def split_template(text):
    """{'header', 'common', 'prelude', 'fn <f>': text}"""
    parts = {}
    cur = "header"
    for line in text.split("\n"):
        m = re.match(r"\(\*@ ([\w ]+?) \*\)\s*$", line)
        if m:
            cur = m.group(1)
            continue
        parts.setdefault(cur, []).append(line)
    return {k: "\n".join(v) + "\n" for k, v in parts.items()}


def parse_report(out):
    """coqc output of Check / Print Assumptions pairs -> {theorem: (statement, [axioms])}"""
    res = {}
    chunks = re.split(r"^(\w+)\n(?=\s+: )", out, flags=re.M)
    for i in range(1, len(chunks) - 1, 2):
        name, body = chunks[i], chunks[i + 1]
        m = re.match(r"\s+: (.*?)\n(?=\S)", body, flags=re.S)
        stmt = " ".join(m.group(1).split()) if m else ""
        rest = body[m.end():] if m else body
        if rest.startswith("Closed under the global context"):
            ax = []
        elif rest.startswith("Axioms:"):
            ax = [" ".join(a.split()) for a in
                  re.findall(r"^(\S[^\n]*(?:\n\s+[^\n]*)*)", rest[len("Axioms:"):], flags=re.M)]
            ax = [a for a in ax if a]
        else:
            ax = ["<no Print Assumptions output>"]
        res[name] = (stmt, ax)
    return res


def first_error(out):
    """(line or None, one-line message)"""
    m = re.search(r"(File \"[^\"]*\", line \d+[^\n]*\n)?Error:?(.*)", out, flags=re.S)
    if not m:
        if "[timeout]" in out or not out.strip():
            return None, "coqc timed out"
        return None, " ".join(out.split())[-300:]
    loc = re.search(r"line (\d+)", m.group(1) or "")
    return (int(loc.group(1)) if loc else None), " ".join(m.group(2).split())[:400]


def transitive(calls, f):
    seen, todo = [], list(calls.get(f, []))
    while todo:
        g = todo.pop(0)
        if g not in seen:
            seen.append(g)
            todo += calls.get(g, [])
    return seen


# lemmas a proof imports beyond those of the functions f calls: the functions that stay folded in it (see traits_eq)
IMPORTS = {f: ["as_slices"] for f in ("buf_fmt", "buf_hash", "buf_partial_cmp", "buf_cmp", "buf_eq", "buf_eq_slice", "Iter_fmt")}
IMPORTS["from_iter"] = ["extend"]      # gen_user_for_each_push
IMPORTS["clone"] = ["new", "buf_drop", "push_back"]


def needed(t, calls, loops):
    """the functions whose compiled lemmas the proof of f imports: the ones f calls, and among the
    ones those call, the ones that are never opened (the arithmetic functions, the owners of loops)"""
    f = t["name"]
    direct = list(calls.get(f, []))
    rest = [g for g in transitive(calls, f) if g not in direct and g != f and (g in ARITH or loops.get(g))]
    extra = [g for g in IMPORTS.get(f, []) if g not in direct and g not in rest and g in calls]
    return direct + rest + extra


def prove_one(wd, t, parts, calls, loops, waits):
    """-> (f, proved?, reason)"""
    f = t["name"]
    sec = parts.get("fn " + f)
    if sec is None:
        return f, False, "coq/gen/CoreGenProofs.v has no section `fn %s`" % f
    deps = [g for g in needed(t, calls, loops) if g not in DISCREPANCY]
    bad = [g for g in deps if not waits[g].result()[1]]
    if bad:
        return f, False, "not attempted: the lemmas of %s, which its proof imports, are not available" % ", ".join(bad)
    text = "(* section `fn %s` of coq/gen/CoreGenProofs.v *)\nFrom CBG Require Import CGCommon.\n" % f
    text += "".join("From CBG Require Import CG_%s.\n" % g for g in deps)
    text += parts["prelude"]
    text += sec
    name = "CG_%s.v" % f
    with open(os.path.join(wd, name), "w") as fh:
        fh.write(text)
    rc, out = coqc(wd, name, timeout=400)
    if rc != 0:
        line, msg = first_error(out)
        return f, False, msg
    rep = parse_report(out)
    first = DISCREPANCY[f] if f in DISCREPANCY else ("gen_%s_eq" % f, expected_statement(t, sec))
    want = [first] + [(L + "_eq", LOOPS.get(L, "<no statement recorded for this loop>"))
                                                              for L in t.get("loops", [])]
    for thm, stmt_want in want:
        if thm not in rep:
            return f, False, "theorem %s not reported by coqc" % thm
        stmt, ax = rep[thm]
        if stmt != stmt_want:
            return f, False, "%s has statement `%s`, expected `%s`" % (thm, stmt, stmt_want)
        if ax:
            return f, False, "%s depends on assumptions: %s" % (thm, "; ".join(ax))
    return f, True, ""


def prove_all(wd, summary, res):
    parts = split_template(read(TEMPLATE))
    for k in ("common", "prelude"):
        if k not in parts:
            res["problems"].append("coq/gen/CoreGenProofs.v has no part `%s`" % k)
            return
    names = [t["name"] for t in summary["translated"]]
    calls = {t["name"]: t["calls"] for t in summary["translated"]}      # insertion order = dependency order

    # the common part: compiled once, reused while its text and the theories are unchanged
    t = time.time()
    common = parts["common"]
    key = sha(common, *[read(os.path.join(E.COQ, "theories", m + ".v")) for m in THEORIES])
    keyfile = os.path.join(wd, "CGCommon.key")
    vo = os.path.join(wd, "CGCommon.vo")
    if not (os.path.exists(vo) and os.path.exists(keyfile) and read(keyfile) == key):
        with open(os.path.join(wd, "CGCommon.v"), "w") as fh:
            fh.write(common)
        rc, out = coqc(wd, "CGCommon.v", timeout=300)
        if rc != 0:
            res["problems"].append("the common part of CoreGenProofs.v does not compile: line %s: %s" % first_error(out))
            return
        rep = parse_report(out)
        bad = ["%s: %s" % (n, "; ".join(ax)) for n, (_, ax) in rep.items() if ax]
        if bad or len(rep) < 5:
            res["problems"].append("frame lemmas not closed under the global context: %s" % (bad or "missing report"))
            return
        with open(keyfile, "w") as fh:
            fh.write(key)
    res["timings"]["common"] = round(time.time() - t, 2)

    t = time.time()
    loops = {x["name"]: x.get("loops", []) for x in summary["translated"]}
    # in dependency order, so that a proof only ever waits for proofs that were started before it
    waits = {}
    with concurrent.futures.ThreadPoolExecutor(max_workers=JOBS) as ex:
        for x in summary["translated"]:
            waits[x["name"]] = ex.submit(prove_one, wd, x, parts, calls, loops, waits)
        results = [waits[x["name"]].result() for x in summary["translated"]]
    res["timings"]["proofs"] = round(time.time() - t, 2)
    for f, ok, why in results:
        if ok and f in DISCREPANCY:
            res["conditional"][f] = "%s : %s" % DISCREPANCY[f]
            res["skipped"][f] = WHY_DISCREPANCY % DISCREPANCY[f][0]
            res["translated"].remove(f)
        elif ok:
            res["proved"].append(f)
        else:
            res["failed"][f] = why
    # a failed function none of whose callees failed is where to look first
    for f in names:
        if f in res["failed"]:
            bad = [g for g in transitive(calls, f) if g in res["failed"]]
            if bad:
                res["failed"][f] = "[calls %s, not proved equal either] %s" % (", ".join(bad), res["failed"][f])
            else:
                res["root_failures"].append(f)


# ---------------------------------------------------------------- entry point

def run(wd=None):
    t0 = time.time()
    wd = wd or os.path.join(E.CACHE, "coregen")
    os.makedirs(wd, exist_ok=True)
    res = {"ok": False, "translated": [], "skipped": {}, "proved": [], "failed": {}, "items": {}, "conditional": {}, "generated_sha256": None,
           "wall_s": None, "calls": {}, "hand_callees": {}, "root_failures": [], "problems": [], "timings": {},
           "cached": False}

    def done():
        res["wall_s"] = round(time.time() - t0, 2)
        return res

    ok, exe = build_translator()
    res["timings"]["build_translator"] = round(time.time() - t0, 2)
    if not ok:
        res["problems"].append("translator does not build: " + exe[-600:])
        return done()

    t = time.time()
    rc, out, gen = translate(exe, wd)
    res["timings"]["translate"] = round(time.time() - t, 2)
    res["translator_output"] = out
    if not (os.path.exists(gen) and os.path.exists(gen + ".json")):
        res["problems"].append("translator refused the source: " + out[-600:])
        return done()
    summary = json.loads(read(gen + ".json"))
    res["translated"] = [x["name"] for x in summary["translated"]]
    res["skipped"] = summary["skipped"]
    res["calls"] = {x["name"]: x["calls"] for x in summary["translated"]}
    res["hand_callees"] = {x["name"]: x["hand_callees"] for x in summary["translated"] if x["hand_callees"]}
    # the name tools/srcmap gives the source item of every function this tool knows (translated or not)
    res["items"] = dict(summary.get("items", {}))
    # source items without a function of their own here (the destructors of structs declared inside a function), by
    # the translated function whose text they are part of
    res["covered_items"] = dict(summary.get("covered_items", {}))
    # the renderings of std the translation relies on: part of the trusted base
    res["std_table"] = summary.get("std_table", [])
    res["hand"] = {x["name"]: x["hand"] for x in summary["translated"]}
    res["preconditions"] = {f: c for f, c in PRECOND.items() if f in res["translated"]}
    gtext = read(gen)
    res["generated_sha256"] = sha(gtext)
    if rc != 0:
        res["problems"].append("translator: a function it must understand was not translated: "
                               + "; ".join(l for l in out.split("\n") if "NOT TRANSLATED" in l)[:600])

    if not theories_ready():
        ok, out = E.build_coq()
        if not ok:
            res["problems"].append("the Coq development does not build: " + out[-600:])
            return done()

    # same generated text, same template, same model: same answer
    key = sha(gtext, read(TEMPLATE), json.dumps(summary, sort_keys=True), json.dumps([SPECIAL, LOOPS, DISCREPANCY, PRECOND], sort_keys=True),
              *[read(os.path.join(E.COQ, "theories", m + ".v")) for m in THEORIES])
    cache = os.path.join(wd, "result_cache.json")
    if os.path.exists(cache):
        try:
            c = json.loads(read(cache))
        except ValueError:
            c = {}
        if c.get("key") == key:
            for k in ("proved", "failed", "root_failures", "conditional"):
                res[k] = c[k]
            for f in res["conditional"]:
                res["skipped"][f] = WHY_DISCREPANCY % DISCREPANCY[f][0]
                res["translated"].remove(f)
            res["cached"] = True

    if not res["cached"]:
        t = time.time()
        rc2, out = coqc(wd, "CoreGen.v")
        res["timings"]["coregen_v"] = round(time.time() - t, 2)
        if rc2 != 0:
            res["problems"].append("generated CoreGen.v does not compile: line %s: %s" % first_error(out))
            return done()
        prove_all(wd, summary, res)
        if not any(p.startswith("the common part") or p.startswith("frame lemmas") or "has no part" in p
                   for p in res["problems"]):
            with open(cache, "w") as fh:
                json.dump({"key": key, "proved": res["proved"], "failed": res["failed"],
                           "root_failures": res["root_failures"], "conditional": res["conditional"]}, fh)

    res["ok"] = (not res["problems"] and bool(res["translated"]) and not res["failed"]
                 and sorted(res["proved"]) == sorted(res["translated"]))
    return done()


if __name__ == "__main__":
    r = run(sys.argv[1] if len(sys.argv) > 1 and not sys.argv[1].startswith("-") else None)
    r.pop("translator_output", None)
    print(json.dumps(r, indent=1))
    sys.exit(0 if r["ok"] else 1)
