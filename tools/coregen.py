"""Tie the hand-written model of the core functions (coq/theories/Buf.v) to the
source by translation.

run(wd) regenerates, from E.REPO/src/lib.rs, a Gallina definition gen_f for
every core function f that tools/rs2coq_core understands (add_mod, sub_mod and
the inherent methods of CircularBuffer up to make_contiguous), and proves, for
each of them separately,

    forall args s w, gen_f args s w = f args s w          (coq/gen/CoreGenProofs.v)

i.e. the regenerated model of f IS the hand-written model of f. The result
names, per function, whether that holds now. A source edit of f after which
gen_f still translates and is still proved equal cannot change anything any
theorem about the model says about f.

Nothing is written inside the tracked tree: all files go to `wd`
(default E.CACHE/coregen).

    run(wd=None) -> {
      "ok":         every translated function is proved equal, every proof is
                    closed under the global context, and the translator did not
                    refuse a function it must understand,
      "translated": [f, ...]            in dependency order,
      "skipped":    {f: reason}         not translated (not covered),
      "proved":     [f, ...],
      "failed":     {f: first error line},
      "generated_sha256": sha256 of CoreGen.v,
      "wall_s":     seconds,
      + "calls" {f: [callees]}, "hand_callees" {f: [untranslated callees whose
        hand-written model the generated caller refers to]}, "root_failures"
        [failed functions none of whose callees failed], "problems" [...],
        "timings" {...}, "cached" bool }
"""

import concurrent.futures
import hashlib
import json
import os
import re
import sys
import time

sys.path.insert(0, os.path.dirname(os.path.abspath(__file__)))
import engine as E  # noqa: E402

TOOL_DIR = os.path.join(E.VERIF, "tools", "rs2coq_core")
TEMPLATE = os.path.join(E.COQ, "gen", "CoreGenProofs.v")
ARITH = ["add_mod", "sub_mod"]
JOBS = 8

# arguments of the hand-written model functions (name, Coq type), in order
ARGS = {
    "add_mod": [("x", "Z"), ("y", "Z"), ("m", "Z")],
    "sub_mod": [("x", "Z"), ("y", "Z"), ("m", "Z")],
    "get_maybe_uninit": [("index", "Z")], "get_maybe_uninit_mut": [("index", "Z")],
    "get": [("index", "Z")], "get_mut": [("index", "Z")],
    "nth_front": [("index", "Z")], "nth_front_mut": [("index", "Z")],
    "nth_back": [("index", "Z")], "nth_back_mut": [("index", "Z")],
    "push_back": [("item", "elem")], "try_push_back": [("item", "elem")],
    "push_front": [("item", "elem")], "try_push_front": [("item", "elem")],
    "swap": [("i", "Z"), ("j", "Z")],
    "swap_remove_back": [("index", "Z")], "swap_remove_front": [("index", "Z")],
    "truncate_back": [("n", "Z")], "truncate_front": [("n", "Z")],
    "remove": [("index", "Z")],
}


def hand_name(f):
    return "get_" if f == "get" else f


def expected_statement(f):
    """the statement of gen_f_eq as coqc's Check prints it (whitespace-normalised)"""
    binders = list(ARGS.get(f, [])) + [("s", "cbuf"), ("w", "world")]
    groups = []
    for n, t in binders:
        if groups and groups[-1][1] == t:
            groups[-1][0].append(n)
        else:
            groups.append(([n], t))
    b = " ".join("(%s : %s)" % (" ".join(ns), t) for ns, t in groups)
    a = "".join(n + " " for n, _ in ARGS.get(f, []))
    return "forall %s, gen_%s %ss w = %s %ss w" % (b, f, a, hand_name(f), a)


def qflags(wd):
    return "-Q %s/theories CB -Q %s CBG" % (E.COQ, wd)


def coqc(wd, name, timeout=300):
    for ext in (".vo", ".vok", ".vos", ".glob"):
        p = os.path.join(wd, name[:-2] + ext)
        if os.path.exists(p):
            os.remove(p)
    return E.sh("timeout %d coqc %s %s 2>&1" % (timeout, qflags(wd), name), cwd=wd, timeout=timeout + 20)


def sha(*texts):
    h = hashlib.sha256()
    for t in texts:
        h.update(t.encode() if isinstance(t, str) else t)
        h.update(b"\0")
    return h.hexdigest()


def read(p):
    with open(p) as f:
        return f.read()


# ---------------------------------------------------------------- translator

def build_translator():
    tdir = os.path.join(E.CACHE, "target-rs2coq-core")
    env = {"CARGO_TARGET_DIR": tdir, "CARGO_NET_OFFLINE": "true"}
    rc, out = E.sh("cargo build --offline --locked 2>&1", cwd=TOOL_DIR, env=env, timeout=900)
    exe = os.path.join(tdir, "debug", "rs2coq_core")
    if rc != 0 or not os.path.exists(exe):
        return False, out
    return True, exe


def translate(exe, wd):
    gen = os.path.join(wd, "CoreGen.v")
    for p in (gen, gen + ".json"):
        if os.path.exists(p):
            os.remove(p)
    rc, out = E.sh("%s %s %s 2>&1" % (exe, E.REPO, gen), timeout=60)
    return rc, out.strip(), gen


def theories_ready():
    """Machine.vo and Buf.vo exist and are not older than their sources"""
    for m in ("Machine", "Buf"):
        v = os.path.join(E.COQ, "theories", m + ".v")
        vo = os.path.join(E.COQ, "theories", m + ".vo")
        if not os.path.exists(vo) or os.path.getmtime(vo) < os.path.getmtime(v):
            return False
    return True


# ---------------------------------------------------------------- proofs

def split_template(text):
    """{'header', 'common', 'prelude', 'fn <f>': text}"""
    parts = {}
    cur = "header"
    for line in text.split("\n"):
        m = re.match(r"\(\*@ ([\w ]+?) \*\)\s*$", line)
        if m:
            cur = m.group(1)
            continue
        parts.setdefault(cur, []).append(line)
    return {k: "\n".join(v) + "\n" for k, v in parts.items()}


def parse_report(out):
    """coqc output of Check / Print Assumptions pairs -> {theorem: (statement, [axioms])}"""
    res = {}
    chunks = re.split(r"^(\w+)\n(?=\s+: )", out, flags=re.M)
    for i in range(1, len(chunks) - 1, 2):
        name, body = chunks[i], chunks[i + 1]
        m = re.match(r"\s+: (.*?)\n(?=\S)", body, flags=re.S)
        stmt = " ".join(m.group(1).split()) if m else ""
        rest = body[m.end():] if m else body
        if rest.startswith("Closed under the global context"):
            ax = []
        elif rest.startswith("Axioms:"):
            ax = [" ".join(a.split()) for a in
                  re.findall(r"^(\S[^\n]*(?:\n\s+[^\n]*)*)", rest[len("Axioms:"):], flags=re.M)]
            ax = [a for a in ax if a]
        else:
            ax = ["<no Print Assumptions output>"]
        res[name] = (stmt, ax)
    return res


def first_error(out):
    """(line or None, one-line message)"""
    m = re.search(r"(File \"[^\"]*\", line \d+[^\n]*\n)?Error:?(.*)", out, flags=re.S)
    if not m:
        if "[timeout]" in out or not out.strip():
            return None, "coqc timed out"
        return None, " ".join(out.split())[-300:]
    loc = re.search(r"line (\d+)", m.group(1) or "")
    return (int(loc.group(1)) if loc else None), " ".join(m.group(2).split())[:400]


def transitive(calls, f):
    seen, todo = [], list(calls.get(f, []))
    while todo:
        g = todo.pop(0)
        if g not in seen:
            seen.append(g)
            todo += calls.get(g, [])
    return seen


def prove_one(wd, f, parts, calls):
    """-> (f, proved?, reason)"""
    sec = parts.get("fn " + f)
    if sec is None:
        return f, False, "coq/gen/CoreGenProofs.v has no section `fn %s`" % f
    deps = [g for g in ARITH if g != f and g in transitive(calls, f)]
    text = "(* section `fn %s` of coq/gen/CoreGenProofs.v *)\nFrom CBG Require Import CGCommon.\n" % f
    text += parts["prelude"]
    marks = []          # (first line, last line, function)
    for g in deps + [f]:
        a = text.count("\n") + 1
        text += parts["fn " + g]
        marks.append((a, text.count("\n"), g))
    name = "CG_%s.v" % f
    with open(os.path.join(wd, name), "w") as fh:
        fh.write(text)
    rc, out = coqc(wd, name, timeout=400)
    if rc != 0:
        line, msg = first_error(out)
        where = next((g for a, b, g in marks if line is not None and a <= line <= b), None)
        if where is not None and where != f:
            return f, False, "callee %s is not proved equal to its model: %s" % (where, msg)
        return f, False, msg
    rep = parse_report(out)
    thm = "gen_%s_eq" % f
    if thm not in rep:
        return f, False, "theorem %s not reported by coqc" % thm
    stmt, ax = rep[thm]
    if stmt != expected_statement(f):
        return f, False, "%s has statement `%s`, expected `%s`" % (thm, stmt, expected_statement(f))
    if ax:
        return f, False, "%s depends on assumptions: %s" % (thm, "; ".join(ax))
    return f, True, ""


def prove_all(wd, summary, res):
    parts = split_template(read(TEMPLATE))
    for k in ("common", "prelude"):
        if k not in parts:
            res["problems"].append("coq/gen/CoreGenProofs.v has no part `%s`" % k)
            return
    names = [t["name"] for t in summary["translated"]]
    calls = {t["name"]: t["calls"] for t in summary["translated"]}

    # the common part: compiled once, reused while its text and the theories are unchanged
    t = time.time()
    common = parts["common"]
    key = sha(common, read(os.path.join(E.COQ, "theories", "Machine.v")), read(os.path.join(E.COQ, "theories", "Buf.v")))
    keyfile = os.path.join(wd, "CGCommon.key")
    vo = os.path.join(wd, "CGCommon.vo")
    if not (os.path.exists(vo) and os.path.exists(keyfile) and read(keyfile) == key):
        with open(os.path.join(wd, "CGCommon.v"), "w") as fh:
            fh.write(common)
        rc, out = coqc(wd, "CGCommon.v", timeout=300)
        if rc != 0:
            res["problems"].append("the common part of CoreGenProofs.v does not compile: line %s: %s" % first_error(out))
            return
        rep = parse_report(out)
        bad = ["%s: %s" % (n, "; ".join(ax)) for n, (_, ax) in rep.items() if ax]
        if bad or len(rep) < 5:
            res["problems"].append("frame lemmas not closed under the global context: %s" % (bad or "missing report"))
            return
        with open(keyfile, "w") as fh:
            fh.write(key)
    res["timings"]["common"] = round(time.time() - t, 2)

    t = time.time()
    with concurrent.futures.ThreadPoolExecutor(max_workers=JOBS) as ex:
        results = list(ex.map(lambda f: prove_one(wd, f, parts, calls), names))
    res["timings"]["proofs"] = round(time.time() - t, 2)
    for f, ok, why in results:
        if ok:
            res["proved"].append(f)
        else:
            res["failed"][f] = why
    # a failed function none of whose callees failed is where to look first
    for f in names:
        if f in res["failed"]:
            bad = [g for g in transitive(calls, f) if g in res["failed"]]
            if bad:
                res["failed"][f] = "[calls %s, not proved equal either] %s" % (", ".join(bad), res["failed"][f])
            else:
                res["root_failures"].append(f)


# ---------------------------------------------------------------- entry point

def run(wd=None):
    t0 = time.time()
    wd = wd or os.path.join(E.CACHE, "coregen")
    os.makedirs(wd, exist_ok=True)
    res = {"ok": False, "translated": [], "skipped": {}, "proved": [], "failed": {}, "generated_sha256": None,
           "wall_s": None, "calls": {}, "hand_callees": {}, "root_failures": [], "problems": [], "timings": {},
           "cached": False}

    def done():
        res["wall_s"] = round(time.time() - t0, 2)
        return res

    ok, exe = build_translator()
    res["timings"]["build_translator"] = round(time.time() - t0, 2)
    if not ok:
        res["problems"].append("translator does not build: " + exe[-600:])
        return done()

    t = time.time()
    rc, out, gen = translate(exe, wd)
    res["timings"]["translate"] = round(time.time() - t, 2)
    res["translator_output"] = out
    if not (os.path.exists(gen) and os.path.exists(gen + ".json")):
        res["problems"].append("translator refused the source: " + out[-600:])
        return done()
    summary = json.loads(read(gen + ".json"))
    res["translated"] = [x["name"] for x in summary["translated"]]
    res["skipped"] = summary["skipped"]
    res["calls"] = {x["name"]: x["calls"] for x in summary["translated"]}
    res["hand_callees"] = {x["name"]: x["hand_callees"] for x in summary["translated"] if x["hand_callees"]}
    gtext = read(gen)
    res["generated_sha256"] = sha(gtext)
    if rc != 0:
        res["problems"].append("translator: a function it must understand was not translated: "
                               + "; ".join(l for l in out.split("\n") if "NOT TRANSLATED" in l)[:600])

    if not theories_ready():
        ok, out = E.build_coq()
        if not ok:
            res["problems"].append("the Coq development does not build: " + out[-600:])
            return done()

    # same generated text, same template, same model: same answer
    key = sha(gtext, read(TEMPLATE), read(os.path.join(E.COQ, "theories", "Machine.v")),
              read(os.path.join(E.COQ, "theories", "Buf.v")), json.dumps(ARGS, sort_keys=True))
    cache = os.path.join(wd, "result_cache.json")
    if os.path.exists(cache):
        try:
            c = json.loads(read(cache))
        except ValueError:
            c = {}
        if c.get("key") == key:
            for k in ("proved", "failed", "root_failures"):
                res[k] = c[k]
            res["cached"] = True

    if not res["cached"]:
        t = time.time()
        rc2, out = coqc(wd, "CoreGen.v")
        res["timings"]["coregen_v"] = round(time.time() - t, 2)
        if rc2 != 0:
            res["problems"].append("generated CoreGen.v does not compile: line %s: %s" % first_error(out))
            return done()
        prove_all(wd, summary, res)
        if not any(p.startswith("the common part") or p.startswith("frame lemmas") or "has no part" in p
                   for p in res["problems"]):
            with open(cache, "w") as fh:
                json.dump({"key": key, "proved": res["proved"], "failed": res["failed"],
                           "root_failures": res["root_failures"]}, fh)

    res["ok"] = (not res["problems"] and bool(res["translated"]) and not res["failed"]
                 and sorted(res["proved"]) == sorted(res["translated"]))
    return done()


if __name__ == "__main__":
    r = run(sys.argv[1] if len(sys.argv) > 1 and not sys.argv[1].startswith("-") else None)
    r.pop("translator_output", None)
    print(json.dumps(r, indent=1))
    sys.exit(0 if r["ok"] else 1)
