"""Builders, runners and parsers shared by all checks."""

import concurrent.futures
import hashlib
import json
import os
import re
import subprocess
import sys
import time

# the registered checks always run in /verif against /repo; the overrides exist
# only so that seeded changes can be evaluated on scratch copies in parallel
VERIF = os.environ.get("VERIF_ROOT", "/verif")
REPO = os.environ.get("VERIF_REPO", "/repo")
CACHE = os.path.join(VERIF, ".cache")
COQ = os.path.join(VERIF, "coq")
DRIVER_DIR = os.path.join(VERIF, "driver")
HARNESS_DIR = os.path.join(VERIF, "harness")
JOBS = 16

# harness build configurations: name -> (toolchain, profile, features, dbg)
CONFIGS = {
    "dev": ("", "dev", "", True),
    "rel": ("", "release", "", False),
    "eio": ("", "dev", "embedded-io,embedded-io-async", True),
    "eio1": ("", "dev", "embedded-io", True),
    "eio2": ("", "dev", "embedded-io-async", True),
    "unstable": ("+nightly", "dev", "unstable", True),
    "unstable-rel": ("+nightly", "release", "unstable", False),
}


def sh(cmd, timeout=1200, cwd=None, env=None):
    e = dict(os.environ)
    if env:
        e.update(env)
    try:
        p = subprocess.run(cmd, shell=True, cwd=cwd, env=e, timeout=timeout,
                           stdout=subprocess.PIPE, stderr=subprocess.STDOUT, text=True)
        return p.returncode, p.stdout
    except subprocess.TimeoutExpired as ex:
        out = ex.stdout or ""
        if isinstance(out, bytes):
            out = out.decode("utf-8", "replace")
        return 124, out + "\n[timeout]"


# ---------------------------------------------------------------- builds

def build_coq():
    """full .vo build of the development (no-op when up to date)"""
    if not os.path.exists(os.path.join(COQ, "Makefile")):
        rc, out = sh("coq_makefile -f _CoqProject -o Makefile", cwd=COQ)
        if rc != 0:
            return False, out
    rc, out = sh("timeout 3000 make -j%d 2>&1" % JOBS, cwd=COQ, timeout=3100)
    return rc == 0, out


def newest(paths):
    t = 0
    for p in paths:
        if os.path.isdir(p):
            for r, _, fs in os.walk(p):
                for f in fs:
                    t = max(t, os.path.getmtime(os.path.join(r, f)))
        elif os.path.exists(p):
            t = max(t, os.path.getmtime(p))
    return t


def build_driver():
    exe = os.path.join(CACHE, "driver", "driver")
    srcs = [os.path.join(COQ, "theories"), os.path.join(DRIVER_DIR, "main.ml"),
            os.path.join(DRIVER_DIR, "Extract.v")]
    if os.path.exists(exe) and os.path.getmtime(exe) >= newest(srcs):
        return True, exe
    d = os.path.join(CACHE, "driver")
    os.makedirs(d, exist_ok=True)
    cmd = ("cp %s/Extract.v %s/main.ml . && coqc -Q %s/theories CB Extract.v && "
           "ocamlfind ocamlopt -O3 -w -a model.mli model.ml main.ml -o driver"
           % (DRIVER_DIR, DRIVER_DIR, COQ))
    rc, out = sh(cmd, cwd=d, timeout=600)
    return rc == 0, (exe if rc == 0 else out)


def build_harness(cfg):
    tool, profile, feats, _ = CONFIGS[cfg]
    tdir = os.path.join(CACHE, "target-" + cfg)
    hdir = HARNESS_DIR
    if REPO != "/repo":
        hdir = os.path.join(CACHE, "harness-alt")
        os.makedirs(hdir, exist_ok=True)
        # keep mtimes (rsync -a) so that cargo only rebuilds what changed
        sh("rsync -a --exclude target --exclude Cargo.toml --exclude Cargo.lock %s/ %s/" % (HARNESS_DIR, hdir))
        t = open(os.path.join(HARNESS_DIR, "Cargo.toml")).read().replace('path = "/repo"', 'path = "%s"' % REPO)
        dst = os.path.join(hdir, "Cargo.toml")
        if not os.path.exists(dst) or open(dst).read() != t:
            open(dst, "w").write(t)
    lock_src = os.path.join(REPO, "Cargo.lock")
    lock_dst = os.path.join(hdir, "Cargo.lock")
    if not os.path.exists(lock_dst):
        sh("cp %s %s" % (lock_src, lock_dst))
    cmd = "cargo %s build --offline %s %s" % (
        tool, "--release" if profile == "release" else "",
        ("--features " + feats) if feats else "")
    env = {"RUSTFLAGS": "--cfg circular_buffer_verif", "CARGO_TARGET_DIR": tdir,
           "CARGO_NET_OFFLINE": "true"}
    rc, out = sh(cmd, cwd=hdir, env=env, timeout=1500)
    exe = os.path.join(tdir, "release" if profile == "release" else "debug", "cbharness")
    if rc != 0 or not os.path.exists(exe):
        return False, out
    return True, exe


# ---------------------------------------------------------------- running

def shard(cases, n):
    k = max(1, min(n, (len(cases) + 199) // 200))
    out = [[] for _ in range(k)]
    for i, c in enumerate(cases):
        out[i % k].append(c)
    return out


def run_driver_shard(exe, text, wd, i):
    inp = os.path.join(wd, "m%d.cases" % i)
    outp = os.path.join(wd, "m%d.out" % i)
    with open(inp, "w") as f:
        f.write(text)
    rc, out = sh("%s %s %s" % (exe, inp, outp), timeout=3000)
    if rc != 0:
        raise RuntimeError("model driver failed: " + out[-2000:])
    return open(outp).read()


def run_harness_shard(exe, text, wd, i, ncases, per_case_timeout=20):
    inp = os.path.join(wd, "i%d.cases" % i)
    outp = os.path.join(wd, "i%d.out" % i)
    with open(inp, "w") as f:
        f.write(text)
    if os.path.exists(outp):
        os.remove(outp)
    skip = 0
    guard = 0
    while True:
        guard += 1
        rc, out = sh("%s %s %s %d" % (exe, inp, outp, skip),
                     timeout=60 + per_case_timeout + ncases // 20)
        if rc == 0:
            break
        if rc == 3 or guard > ncases + 2:
            raise RuntimeError("harness failed: " + out[-2000:])
        # a crash (abort, signal) or a hang: attribute it to the last case marker
        done = open(outp).read() if os.path.exists(outp) else ""
        started = len(re.findall(r"^case ", done, flags=re.M))
        with open(outp, "a") as f:
            if not done.endswith("\n") and done:
                f.write("\n")
            f.write("crash rc=%d\nend\n" % rc)
        skip = started
        if started >= ncases:
            break
    return open(outp).read()


def run_both(cases, dbg, driver_exe, harness_exe, wd, unst=False):
    """returns {cid: parsed case} with model ('m', 's') and implementation ('i') lines"""
    os.makedirs(wd, exist_ok=True)
    shards = shard(cases, JOBS * 2)
    texts = ["".join(c.text(dbg, unst) for c in sh_) for sh_ in shards]
    res = {}
    with concurrent.futures.ThreadPoolExecutor(max_workers=JOBS) as ex:
        mf = [ex.submit(run_driver_shard, driver_exe, t, wd, i) for i, t in enumerate(texts)]
        hf = [ex.submit(run_harness_shard, harness_exe, t, wd, i, len(shards[i]))
              for i, t in enumerate(texts)]
        for f in mf:
            parse_into(res, f.result(), "model")
        for f in hf:
            parse_into(res, f.result(), "impl")
    return res


def run_miri(cases, dbg, wd, nshards=16, timeout=1500):
    """Runs the cases (built with genuinely uninitialised unoccupied slots, junk=5)
    through the harness under Miri (cargo +nightly miri run). Returns
    (ran, failures): failures = [(case-or-None, message)] for every shard in
    which Miri reported undefined behaviour or the interpreter died."""
    os.makedirs(wd, exist_ok=True)
    tdir = os.path.join(CACHE, "target-miri")
    env = {"RUSTFLAGS": "--cfg circular_buffer_verif", "MIRIFLAGS": "-Zmiri-disable-isolation",
           "CARGO_TARGET_DIR": tdir, "CARGO_NET_OFFLINE": "true"}
    hdir = HARNESS_DIR
    if REPO != "/repo":
        build_harness("dev")          # refreshes harness-alt
        hdir = os.path.join(CACHE, "harness-alt")
    shards = [cases[i::nshards] for i in range(nshards)]
    shards = [sh_ for sh_ in shards if sh_]
    by_id = {c.cid: c for c in cases}

    def one(i, sh_):
        inp, outp = os.path.join(wd, "miri%d.cases" % i), os.path.join(wd, "miri%d.out" % i)
        open(inp, "w").write("".join(c.text(dbg) for c in sh_))
        if os.path.exists(outp):
            os.remove(outp)
        rc, out = sh("cargo +nightly miri run --offline -- %s %s 2>&1" % (inp, outp), cwd=hdir, env=env, timeout=timeout)
        done = open(outp).read() if os.path.exists(outp) else ""
        return rc, out, done

    # the first shard alone (it builds the interpreter's sysroot and the harness), the rest in parallel
    results = [one(0, shards[0])]
    with concurrent.futures.ThreadPoolExecutor(max_workers=JOBS) as ex:
        futs = [ex.submit(one, i, sh_) for i, sh_ in enumerate(shards) if i > 0]
        results += [f.result() for f in futs]
    ran, failures = 0, []
    for rc, out, done in results:
        ran += len(re.findall(r"^end$", done, flags=re.M))
        bad = re.findall(r"^fin .*bad=(?!-)(\S+)", done, flags=re.M)
        if rc != 0 or "Undefined Behavior" in out or bad:
            ids = re.findall(r"^case (\d+) ", done, flags=re.M)
            last = by_id.get(int(ids[-1])) if ids else None
            m = re.search(r"error: Undefined Behavior:[^\n]*(?:\n[^\n]*){0,12}", out)
            failures.append((last, (m.group(0) if m else ("ledger: %s" % bad if bad else out[-1200:]))))
    return ran, failures


def kv(line):
    d = {}
    for t in line.split(" "):
        i = t.find("=")
        if i > 0:
            d[t[:i]] = t[i + 1:]
    return d


def parse_into(res, text, side):
    cur = None
    for line in text.split("\n"):
        if line.startswith("case "):
            cid = int(line.split(" ")[1])
            cur = res.setdefault(cid, {"hdr": line, "ops": {}, "fin": None, "crash": None,
                                       "init": {}, "notes": []})
        elif cur is None or not line:
            continue
        elif line.startswith("init "):
            cur["init"][side] = kv(line)
        elif line[:2] in ("s ", "m ", "i "):
            d = kv(line)
            k = int(d.get("k", -1))
            slot = cur["ops"].setdefault(k, {})
            if "observer-mismatch" in line:
                cur["notes"].append("observer-mismatch k=%d" % k)
            else:
                slot[line[0]] = d
        elif line.startswith("fin "):
            cur["fin"] = kv(line)
        elif line.startswith("crash "):
            cur["crash"] = line
        elif line.startswith("unsupported-case"):
            cur["notes"].append("unsupported-case")
        elif line == "end":
            cur = None


# ---------------------------------------------------------------- normalisation

PHYS = re.compile(r"-?\d+@")
IDVAL = re.compile(r"\d+:(\d+)")


def erase_phys(r):
    r = PHYS.sub("@", r)
    if r.startswith("sl["):
        a, b = r[3:-1].split("|")
        parts = [x for x in (a, b) if x != "-"]
        r = "sl[" + (",".join(parts) if parts else "-") + "|-]"
    return r


def norm_elem(s, elem):
    if s is None:
        return s
    if elem == "u8":
        return IDVAL.sub(lambda m: "0:" + m.group(1), s)
    if elem == "Z":
        return PHYS.sub("@", IDVAL.sub("0:0", s))
    return s


def events(e, elem):
    """event list without allocations; dropped entirely for u8 (no hooks there)"""
    if e is None or e == "-":
        return []
    evs = [x for x in e.split(",") if x != "A"]
    if elem == "u8":
        return []
    if elem == "Z":
        evs = [IDVAL.sub("0:0", x) for x in evs]
    if elem.startswith("N"):
        # the tracked types without a destructor: the model's drop events have no counterpart
        evs = [x for x in evs if not x.startswith("D")]
    return evs


def nallocs(e):
    if e is None or e == "-":
        return 0
    return sum(1 for x in e.split(",") if x == "A")


def case_sig(c, op):
    h = hashlib.sha1()
    h.update(("%s|%d|%d|%s|%d|%s|%s" % (c.elem, c.N, c.start, c.vals, c.junk, c.fault, op)).encode())
    return h.hexdigest()[:16]
