#!/usr/bin/env python3
"""Writes /verif/MANIFEST.json from the table below (kept in one place so the
manifest stays valid and consistent with the checks)."""
import json
import os
import subprocess

V = "/verif"
NOTE = ("Trusted: Coq 8.16.1 kernel (no native_compute, no axioms: every pinned theorem prints 'Closed under the global context'); "
        "the hand-written Gallina model coq/theories/*.v, tied to /repo's working tree on every run in two ways: (1) 150 of the crate's "
        "159 functions (all but boxed, to_vec, From<[T;M]>, by-value into_iter/IntoIter::new, write_uninit_slice_cloned) are regenerated "
        "from src/*.rs by the translator tools/rs2coq_core (its table of 50 std renderings is trusted) and proved equal to the "
        "hand-written definitions (coq/gen/CoreGenProofs.v); (2) the "
        "correspondence check (extracted model, ExtrOcamlBasic only, validated against vm_compute on every run, vs the real crate built "
        "with --cfg circular_buffer_verif, same cases, projections diffed). The translators, the Rust harness, case generators and differ "
        "are trusted; std/rustc semantics listed in DESIGN.md 3.4 are modelled, not verified. "
        "Case space: every layout of the small capacities exhaustively, edge/random layouts of capacities 9..257, 1000, 4096 "
        "with boundary-biased arguments, tracked element types of 16 and 256 bytes with and without a destructor and one of steerable "
        "size, u8 and a zero-sized type (capacities up to 2^64-1). Every check also compares a SHA-256 fingerprint of the token stream of "
        "each function the property depends on with the text the model was written against (tools/srcfp.py); a changed function whose "
        "regenerated model is still proved equal is accepted as a harmless rewrite; otherwise the search is widened to capacities, "
        "lengths and element sizes derived from the new integer literals, and the result is reported with the failing input or as "
        "no-failing-input-found.")

T = {
 "C01": ("refinement proof (exec refines spec_step on abs) + exhaustive small-N differential correspondence",
         "Theorem: for every capacity < 2^64, every well-formed layout and every usize argument, each mutator of the model returns what the list-level bounded deque returns and leaves exactly its contents (Properties/C01.v, lifted to all finite histories by induction). The model is tied to the code by running every (layout x operation x boundary argument) for N<=4 (thorough N<=6) plus seeded random histories through the extracted model and the real crate and diffing results, length and contents.", "6/C01"),
 "C02": ("proof of the four insertion corollaries with element identities + differential correspondence",
         "Theorems state, with element identities, what push_back/push_front hand back in the three cases (room / full / zero capacity) and that try_push_* returns Err(the same element) iff full, leaving the buffer unchanged; all capacities and layouts. Correspondence: every layout for N<=6 (thorough N<=16), single and paired insertions.", "6/C02"),
 "C03": ("event-exact refinement proof (drops/clones equal the spec's) + ownership ledger oracle on the implementation's traces",
         "The refinement theorems fix the exact list of destructor/clone events of every operation (fault-free worlds); the ledger theorem derives exactly-once destruction over whole histories. The implementation's own event traces are checked by the harness ledger (no dead id touched, nothing destroyed twice, nothing alive after the final drop) and diffed against the model's events.", "6/C03"),
 "C04": ("non-interference theorem over unoccupied slots + implementation runs under five junk fillings and all rotations",
         "Theorem: two states that agree on capacity, start, size and on the occupied slots give equal outcomes, events and again-related states for every operation, hence for every history. Correspondence: each case is run on the real code under five fillings of the unoccupied slots and from every rotation; traces must be identical and equal to the model's.", "6/C04"),
 "C05": ("fault-injection refinement: theorem over every k-th destructor panic + exhaustive small-N fault enumeration against the model",
         "Theorems: with the k-th destructor call panicking, each destroying operation ends Ok or Panic PUser (never abort), leaves a well-formed buffer and emits no second drop of any identity. Correspondence enumerates every layout x destroying operation x k for N<=3 (thorough N<=4) and diffs outcome, layout, contents, events and remaining fault with the model; the harness ledger rejects any double drop on the real code.", "6/C05"),
 "C06": ("fault-injection refinement for Clone/closure/iterator/eq/cmp/hash/fmt panics + exhaustive small-N enumeration",
         "As C05 for panics in T::clone, fill closures, the caller's iterator, eq, cmp, hash, fmt; additionally nothing created may remain alive after the final drop (no leak).", "6/C06"),
 "C07": ("proof that every accessor refines nth_error/hd/last of abs and mutable accessors address injective physical slots + correspondence incl. physical positions",
         "Theorems for get/nth_front/nth_back/front/back/index/as_slices/to_vec/Debug/iter/range and their mutable counterparts (write changes exactly that position), make_contiguous; all capacities, indices up to usize::MAX. Correspondence compares returned ids and physical slot indices for every layout N<=5 (thorough N<=7).", "6/C07"),
 "C08": ("refinement of Iter/IterMut/IntoIter scripts to a two-ended window on abs + exhaustive scripts for small N",
         "Theorems: any script over next/next_back/len/clone(/write) on iter, range, iter_mut, range_mut, into_iter gives the results of the list window consumed from both ends. Correspondence: all nine bound forms, all scripts up to length+2 for N<=3 (thorough N<=4).", "6/C08"),
 "C09": ("loop-invariant proof of Drain::drop back-fill for all layouts + exhaustive (start,size,a,b,script) enumeration",
         "Theorem drain_drop_op: for every capacity, layout, valid range and script, drain yields the window, len is exact, afterwards abs = firstn a ++ skipn b and exactly the un-yielded drained elements were destroyed once, in order. Correspondence: all layouts x ranges x scripts N<=4, shaped scripts N<=6 (thorough N<=8).", "6/C09"),
 "C10": ("proof for forgotten drains (size 0, well formed, nothing dropped) + follow-up histories on the implementation",
         "Theorem drain_forget_op: after mem::forget at any script prefix the state is well formed with contents drawn from the original ones minus yielded (model: empty), no drop event. Correspondence + oracle: every layout/range/script-prefix for N<=3 followed by further operations; ledger after final drop.", "6/C10"),
 "C11": ("totality/panic-exactness from the refinement theorems (Ok unless spec says documented panic; never overflow/div0/bounds/fuel) + both build profiles",
         "refines_op gives: result is Ok exactly when the specification does not demand a panic, the panic kind is assert/expect and the state is unchanged; PFuel excluded = termination. Correspondence: every operation x boundary argument incl. usize::MAX, N<=3 (thorough N<=4), dev and release.", "6/C11"),
 "C12": ("refinement proofs for constructors/conversions with identities and drop events + correspondence",
         "Theorems for new/from_array/from_iter/clone/clone_from/to_vec/into_iter: contents = last N elements (same ids), discarded ones dropped once, clones fresh and source unchanged.", "6/C12"),
 "C13": ("proof that eq/cmp/hash/fmt are functions of abs only (three-way segment alignment never out of bounds) + exhaustive pairs of layouts",
         "Theorems: buf_eq = list equality of abs a / abs b for all pairs of capacities and split points, slice forms agree, cmp is lexicographic, hash stream and Debug entries are those of abs. Correspondence: all pairs (N,M)<=3x3 (thorough 4x4) of layouts over a two-letter alphabet, all nine PartialEq impls.", "6/C13"),
 "C14": ("refinement proofs for Write/Read/BufRead on abs + exhaustive lengths and random I/O histories",
         "Theorems: write = Ok |src| and lastn N (l ++ src); read copies min bytes from the front and removes them; fill_buf non-empty prefix; consume removes min(k,len); never Err/panic for every capacity incl. 0.", "6/C14"),
 "C16": ("definitional equality theorems between the three trait families + cross-family differential runs with all feature sets",
         "eio_* and aio_* model definitions are proved equal to io_* as functions; the harness built with embedded-io, embedded-io-async and both runs each call through every family from the same state and requires equal outcomes, Ready on first poll.", "6/C16"),
 "C18": ("model equivalence of the unstable bodies + trace identity between stable and nightly --features unstable builds",
         "The harness is built with and without the unstable feature; full traces (results, layout, contents, events, remaining fault) over C01-C13's small-N case spaces incl. injected panics must be identical and equal to the model's.", "6/C18"),
 "C19": ("arithmetic theorems for all 64-bit inputs (add_mod/sub_mod never overflow; every theorem quantifies over cap < 2^64) + ZST runs at nine huge capacities",
         "add_mod_ok/sub_mod_ok hold for every m in (0,2^64), x,y<=m in both build modes; all refinement theorems are stated for every cap < 2^64. Correspondence: zero-sized element type at capacities up to usize::MAX, front positions within 3 of 0 and N, dev and release profiles.", "6/C19"),
 "C20": ("proof on physical positions (moved-set bounds) + implementation slot addresses compared with the model",
         "Theorems bound the number of surviving identities whose physical slot changes; correspondence compares the physical index (through verif hooks) of every element before/after each call with the model for every layout N<=5 (thorough N<=8) and evaluates the bound on the implementation.", "6/C20"),
}

OTHER_LEVEL = {"C17"}
T["C17"] = ("theorems on allocation events of the model + allocation-counter correspondence under a counting global allocator + no_std/alloc builds of the working tree",
            "Theorems: no returning call changes the capacity or emits an allocation event except to_vec (exactly one, when non-empty). What decides the property on the code: under a counting global allocator every returning call of the case space performs exactly the number of allocations the model predicts; the crate is built with --no-default-features and with only the alloc feature. cfg-conditional compilation and the allocator are observed, not modelled; boxed() is not part of the modelled operation language.", "6/C17")

SPECIAL = {
 "C15": ("proof", "translator (syn) regenerating type definitions/signatures into Coq + computational theorems on variance/auto traits + rustc witness programs",
         "Type definitions, impl headers and public signatures are regenerated from src/*.rs into TypesGen.v on every run; theorems computed on those closed terms give variance, Send/Sync conditions, borrow modes, constness; one witness program per contract is compiled against the working tree and rustc's verdict must equal the model's prediction.", "6/C15"),
}

NOT_YET = {
}


def main():
    commits = subprocess.run("git -C /repo log --format=%h --grep='verif hooks'", shell=True, stdout=subprocess.PIPE, text=True).stdout.split()
    checks = []
    import sys
    sys.path.insert(0, os.path.join(V, "tools"))
    import special
    na = []
    for pid in sorted(T):
        tech, text, ref = T[pid]
        if not os.path.exists(os.path.join(V, "coq", "Properties", pid + ".v")):
            na.append({"property_id": pid, "reason": "theorem file coq/Properties/%s.v not yet written in this revision (the differential check exists and runs: ./check %s quick); not claimed until the theorems are proved" % (pid, pid)})
            continue
        checks.append({
            "property_id": pid,
            "quick_cmd": "./check %s quick" % pid,
            "thorough_cmd": "./check %s thorough" % pid,
            "evidence_file": "/verif/evidence/%s.json" % pid,
            "replay_cmd_template": "./check %s --replay {path}" % pid,
            "engine": "coq-proof+correspondence",
            "level_claimed": {"category": "other" if pid in OTHER_LEVEL else "proof", "text": text, "design_ref": "DESIGN.md section " + ref},
            "level_note": NOTE,
            "technique": "Coq 8.16 machine-checked " + tech,
        })
    for pid in sorted(SPECIAL):
        cat, tech, text, ref = SPECIAL[pid]
        if pid in special.SPECIAL:
            checks.append({
                "property_id": pid,
                "quick_cmd": "./check %s quick" % pid,
                "thorough_cmd": "./check %s thorough" % pid,
                "evidence_file": "/verif/evidence/%s.json" % pid,
                "replay_cmd_template": "./check %s --replay {path}" % pid,
                "engine": "coq-proof+correspondence",
                "level_claimed": {"category": cat, "text": text, "design_ref": "DESIGN.md section " + ref},
                "level_note": NOTE,
                "technique": tech,
            })
        else:
            na.append({"property_id": pid, "reason": "check not built yet in this revision (planned: %s); not claimed until it runs" % tech})
    checks.sort(key=lambda c: c["property_id"])
    m = {
        "version": 1,
        "setup_cmd": "python3 tools/setup.py",
        "hooks": {
            "guard": "circular_buffer_verif",
            "enable": "RUSTFLAGS='--cfg circular_buffer_verif' (set by tools/engine.py when it builds /verif/harness against /repo)",
            "baseline_off_cmd": "cd /repo && cargo test --workspace --no-fail-fast --offline",
            "source_commits": commits,
            "add_only": True,
        },
        "engines": [{
            "name": "coq-proof+correspondence", "path": "/verif/tools/check.py",
            "serves_properties": [c["property_id"] for c in checks],
            "kind_free_text": "Coq 8.16.1 development (coq/theories model + spec, coq/proofs lemmas, coq/Properties pinned theorems with Print Assumptions) "
                              "plus a differential correspondence check: the model is extracted to OCaml (driver/) and run on the same cases as the "
                              "real crate (harness/, built from /repo's working tree with hooks on); see DESIGN.md sections 2-5"}],
        "checks": checks,
        "not_applicable": na,
        "notes": "All properties are decided by machine-checked proof about the Gallina model plus the checked model-to-code correspondence. "
                 "known_findings.json lists six genuine defects, all repaired in /repo by 'fix:' commits (no KNOWN-FINDING suppressions).",
    }
    json.dump(m, open(os.path.join(V, "MANIFEST.json"), "w"), indent=1)
    print("wrote MANIFEST.json with %d checks, %d not_applicable" % (len(checks), len(na)))


if __name__ == "__main__":
    main()
