#!/usr/bin/env python3
"""Writes coq/Properties/Cxx.v from the table below: per property the pinned
theorem statements, each closed by `exact <lemma>` and followed by
Print Assumptions. The statements are spelled out here (not copied from the
lemma) so that a weakened lemma no longer fits its pin."""
import os

D = "/verif/coq/Properties"
IMPORTS = ("From CB Require Import Spec Unstable.\nFrom Coq Require Import Permutation.\n"
           "From CBP Require Import Step RefDefs C02Lemmas Arith AbsLemmas AllOps FaultDefs FaultPrims FaultDropA FaultDropB FaultUser\n"
           "     Iters DrainP ExtendIo CmpHash Ctors PhysMoves MoreOps UnstableEq Access Views RefTruncate FillExtend FaultFrame SpecCorollaries ValueCorollaries FaultGeneric FaultHistory FaultConserve FaultDebugOps ContigAfter%s.\n")

P = {}

def ops(prefix, items):
    """(name, op expression with binders) -> refines_op theorems proved by exec_refines"""
    out = []
    for name, binders, op in items:
        stmt = ("forall %s, " % binders if binders else "") + "refines_op (%s)" % op if " " in op or binders else "refines_op %s" % op
        out.append(("%s_%s" % (prefix, name), stmt, "fun %s => exec_refines (%s)" % (binders, op) if binders else "exec_refines (%s)" % op))
    return out

P["C01"] = ("""C01 — every mutator implements bounded-deque sequence semantics.
   [refines_op o] (proofs/RefDefs.v): on every well-formed state of every
   capacity < 2^64, in every fault-free world, for every machine-value argument,
   [exec o] returns what [spec_step] (theories/Spec.v: the documented deque over
   plain lists) returns on the abstract contents [abs s], leaves exactly the
   specified contents, emits exactly the specified events, keeps the state well
   formed, and panics (state unchanged) exactly when the specification demands.
   [C01_history] lifts this to every finite history by induction.""", "", [
    ("C01_step", "forall o, refines_op o", "exec_refines"),
    ("C01_history", """forall ops s w,
  WF s -> fault w = None -> ops_ok s ops ->
  let '(rs, s', w') := run_history ops s w in
  let '(srs, l', evs, nid') := spec_history (cap s) (abs s) ops (next_id w) in
  results_ok ops srs rs /\\ abs s' = l' /\\ WF s' /\\ cap s' = cap s /\\ w' = wev w evs nid'""", "history_refines"),
] + ops("C01", [
    ("push_back", "x", "OPushBack x"), ("push_front", "x", "OPushFront x"),
    ("try_push_back", "x", "OTryPushBack x"), ("try_push_front", "x", "OTryPushFront x"),
    ("pop_back", "", "OPopBack"), ("pop_front", "", "OPopFront"), ("remove", "i", "ORemove i"),
    ("swap", "i j", "OSwap i j"), ("swap_remove_back", "i", "OSwapRemoveBack i"),
    ("swap_remove_front", "i", "OSwapRemoveFront i"), ("truncate_back", "k", "OTruncateBack k"),
    ("truncate_front", "k", "OTruncateFront k"), ("clear", "", "OClear"), ("extend", "xs", "OExtend xs"),
    ("extend_ref", "xs", "OExtendRef xs"), ("extend_from_slice", "xs", "OExtendFromSlice xs"),
    ("fill", "v", "OFill v"), ("fill_with", "", "OFillWith"), ("fill_spare", "v", "OFillSpare v"),
    ("fill_spare_with", "", "OFillSpareWith"), ("drain", "sb eb script forget", "ODrain sb eb script forget"),
    ("make_contiguous", "ws", "OMakeContiguous ws"), ("as_mut_slices_write", "ws", "OAsMutSlicesSet ws"),
    ("iter_mut_write", "script", "OIterMut script"), ("range_mut_write", "sb eb script", "ORangeMut sb eb script"),
    ("get_mut_write", "i v", "OGetMutSet i v"), ("index_mut_write", "i v", "OIndexMutSet i v"),
]))

P["C03"] = ("""C03 — every element is dropped exactly once and never while reachable.
   (1) [C03_events_exact]: in a fault-free world the list of destructor, clone
   and closure events of every operation is exactly the specification's
   (part of [refines_op]). (2) The ledger theorems (proofs/LedgerSpec.v):
   per step, (contents before ++ taken from the caller ++ created) is a
   permutation of (contents after ++ handed to the caller ++ destroyed), and
   along every panic-free history the identities in buffer ++ caller ++
   destroyed stay pairwise distinct.""", " LedgerSpec", [
    ("C03_events_exact", "forall o, refines_op o", "exec_refines"),
    ("C03_spec_conservation", """forall N l o nid r,
  0 <= N -> zlen l <= N -> ledger_op o = true ->
  spec_step N l o nid = SRet r ->
  Permutation (l ++ taken o l (sr_out r) ++ created_of (sr_evs r))
              (sr_list r ++ handed o (sr_out r) ++ forgotten o l ++ dropped_of (sr_evs r))""", "spec_conservation"),
    ("C03_step_conservation", """forall o s w v s' w',
  WF s -> fault w = None -> op_ok s o -> ledger_op o = true ->
  exec o s w = (Ok v, s', w') ->
  exists evs,
    log w' = log w ++ evs /\\
    Permutation (abs s ++ taken o (abs s) (erase_out v) ++ created_of evs)
                (abs s' ++ handed o (erase_out v) ++ forgotten o (abs s) ++ dropped_of evs) /\\
    next_id w <= next_id w' /\\
    NoDup (ids (created_of evs)) /\\
    (forall e, In e (created_of evs) -> next_id w <= eid e < next_id w') /\\
    WF s' /\\ cap s' = cap s /\\ fault w' = fault w""",
     "fun o s w v s' w' HW Hf Hok Hl He => model_conservation o s w v s' w' (exec_refines o s w HW Hf Hok) HW Hl He"),
    ("C03_history", """forall (s0 : cbuf) (w0 : world),
  WF s0 -> fault w0 = None -> NoDup (ids (abs s0)) ->
  (forall e, In e (abs s0) -> eid e < next_id w0) ->
  forall ops s w L,
  ledger_run s0 w0 ops s w L ->
  NoDup (ids (abs s ++ lg_caller L ++ lg_destroyed L)) /\\
  Permutation (abs s ++ lg_caller L ++ lg_destroyed L) (lg_entered L) /\\
  NoDup (ids (lg_entered L))""", "ledger_history exec_refines"),
])

P["C04"] = ("""C04 — unoccupied storage is never observed; only the logical contents
   matter. Two well-formed buffers of one capacity with equal [abs] — any front
   positions, any bytes in unoccupied slots, any history behind them — answer
   every history of operations with results meeting the same specification
   results (physical positions and the as_slices / fill_buf split point are not
   part of a logical result), emit the same events and end with equal contents.""", "", [
    ("C04_layout_independent", """forall ops s1 s2 w,
  WF s1 -> WF s2 -> cap s1 = cap s2 -> abs s1 = abs s2 ->
  fault w = None -> ops_ok s1 ops ->
  let '(rs1, s1', w1') := run_history ops s1 w in
  let '(rs2, s2', w2') := run_history ops s2 w in
  exists srs, results_ok ops srs rs1 /\\ results_ok ops srs rs2 /\\
              abs s1' = abs s2' /\\ w1' = w2' /\\ WF s1' /\\ WF s2'""", "layout_independent"),
    ("C04_garbage_independent", """forall ops s1 s2 w,
  WF s1 -> WF s2 -> cap s1 = cap s2 -> start s1 = start s2 -> size s1 = size s2 ->
  (forall i, 0 <= i < size s1 -> items s1 (phys s1 i) = items s2 (phys s2 i)) ->
  fault w = None -> ops_ok s1 ops ->
  let '(rs1, s1', w1') := run_history ops s1 w in
  let '(rs2, s2', w2') := run_history ops s2 w in
  exists srs, results_ok ops srs rs1 /\\ results_ok ops srs rs2 /\\
              abs s1' = abs s2' /\\ w1' = w2' /\\ WF s1' /\\ WF s2'""", "garbage_independent"),
])

def faults(prefix, fk, items):
    out = []
    for name, binders, op, lemma in items:
        stmt = ("forall %s, " % binders if binders else "") + "fault_safe (%s) %s" % (op, fk)
        out.append(("%s_%s" % (prefix, name), stmt, lemma))
    return out

P["C05"] = ("""C05 — a panicking element destructor never causes a second drop or a
   corrupt buffer. [fault_safe o FDrop] (proofs/FaultDefs.v): with the k-th
   destructor call panicking (every k), from every well-formed state of distinct
   elements, [exec o] returns or unwinds with that panic (never an abort, never
   another panic), the buffer is well formed afterwards, the identities of
   (contents ++ handed back ++ destroyed) are pairwise distinct (nothing
   destroyed twice, nothing destroyed that is still reachable) and drawn from
   what existed. Afterwards the plan is spent, so all fault-free theorems apply
   to the state left behind ("behaves normally").""", "", faults("C05", "FDrop", [
    ("truncate_back", "k", "OTruncateBack k", "truncate_back_fault"),
    ("truncate_front", "k", "OTruncateFront k", "truncate_front_fault"),
    ("clear", "", "OClear", "clear_fault"), ("drop_buffer", "", "ONew", "new_fault"),
    ("boxed", "", "OBoxed", "boxed_fault"), ("default", "", "ODefault", "default_fault"),
    ("into_iter", "script", "OIntoIter script", "into_iter_fault"),
    ("fill", "v", "OFill v", "fill_fault"), ("fill_with", "", "OFillWith", "fill_with_fault"),
    ("fill_spare", "v", "OFillSpare v", "fill_spare_fault"),
    ("extend", "xs", "OExtend xs", "extend_fault"), ("from_iter", "xs", "OFromIter xs", "from_iter_fault"),
    ("from_array", "xs", "OFromArray xs", "from_array_fault"),
    ("clone_from", "other", "OCloneFrom other", "clone_from_fault"),
    ("clone_keep", "", "OCloneKeepClone", "clone_keep_fault"), ("clone_drop", "", "OCloneDropClone", "clone_drop_fault"),
    ("extend_from_slice", "xs", "OExtendFromSlice xs", "extend_from_slice_fault"),
    ("drain_all", "script", "ODrain BUnb BUnb script false", "drain_all_fault"),
]) + [
    ("C05_frame", """forall o fk s w k,
  may_call o fk = false -> fault w = Some (fk, k) ->
  exec o s w =
    let '(r, s', w') := exec o s (w_fault w None) in (r, s', w_fault w' (Some (fk, k)))""", "fault_frame"),
    ("C05_frame_refines", """forall o fk s w k,
  may_call o fk = false -> WF s -> op_ok s o -> fault w = Some (fk, k) ->
  refines_at_armed o s w fk k""", "fault_frame_refines"),
    ("C05_history", """forall (s0 : cbuf) (w0 : world),
  WF s0 -> plan_nonneg (fault w0) -> NoDup (FaultDefs.ids (abs s0)) ->
  (forall e : elem, In e (abs s0) -> eid e < next_id w0) ->
  forall (ops : list op) (rs : list (outcome out)) (s : cbuf) (w : world) (L : fledger),
  fault_run s0 w0 ops rs s w L ->
  Forall outcome_ok rs /\\
  (user_panics rs <= 1)%nat /\\
  (user_panics rs = 1%nat -> fault w = None) /\\
  (fault w0 = None -> user_panics rs = 0%nat) /\\
  WF s /\\ cap s = cap s0 /\\
  NoDup (FaultDefs.ids (abs s ++ fl_caller L ++ fl_destroyed L)) /\\
  incl (abs s ++ fl_caller L ++ fl_destroyed L) (fl_entered L) /\\
  NoDup (FaultDefs.ids (fl_entered L)) /\\
  (forall e : elem, In e (fl_entered L) -> eid e < next_id w) /\\
  FaultGeneric.plan_step (fault w0) (fault w)""", "fault_history"),
    ("C05_drain", "forall sb eb script, fault_safe_when (fun s => spec_bounds (size s) sb eb <> None) (ODrain sb eb script false) FDrop", "drain_fault"),
])

P["C06"] = ("""C06 — a panic in user code (Clone, closure, iterator, eq, cmp, hash, fmt)
   leaves a valid buffer. [fault_safe o fk] as in C05, and for these kinds
   additionally: when the call unwinds, every element that was given to it or
   successfully created is in the buffer or has been destroyed (no leak).""", "%s", faults("C06", "FCall", [
    ("fill_with", "", "OFillWith", "fill_with_call_fault"),
    ("fill_spare_with", "", "OFillSpareWith", "fill_spare_with_call_fault")]) + faults("C06", "FNext", [
    ("extend", "xs", "OExtend xs", "extend_next_fault"), ("from_iter", "xs", "OFromIter xs", "from_iter_next_fault")]) + faults("C06", "FEq", [
    ("eq", "other", "OEq other", "eq_fault"), ("eq_slice", "form xs", "OEqSlice form xs", "eq_slice_fault")]) + faults("C06", "FCmp", [
    ("partial_cmp", "other", "OPartialCmp other", "partial_cmp_fault"), ("cmp", "other", "OCmp other", "cmp_fault")]) + faults("C06", "FHash", [
    ("hash", "", "OHash", "hash_fault")]) + faults("C06", "FFmt", [("debug", "", "ODebug", "debug_fault")]) + [
    ("C06_history", """forall (s0 : cbuf) (w0 : world),
  WF s0 -> plan_nonneg (fault w0) -> NoDup (FaultDefs.ids (abs s0)) ->
  (forall e : elem, In e (abs s0) -> eid e < next_id w0) ->
  forall (ops : list op) (rs : list (outcome out)) (s : cbuf) (w : world) (L : fledger),
  fault_run s0 w0 ops rs s w L ->
  Forall outcome_ok rs /\\
  (user_panics rs <= 1)%nat /\\
  (user_panics rs = 1%nat -> fault w = None) /\\
  (fault w0 = None -> user_panics rs = 0%nat) /\\
  WF s /\\ cap s = cap s0 /\\
  NoDup (FaultDefs.ids (abs s ++ fl_caller L ++ fl_destroyed L)) /\\
  incl (abs s ++ fl_caller L ++ fl_destroyed L) (fl_entered L) /\\
  NoDup (FaultDefs.ids (fl_entered L)) /\\
  (forall e : elem, In e (fl_entered L) -> eid e < next_id w) /\\
  FaultGeneric.plan_step (fault w0) (fault w)""", "fault_history"),
    ("C06_history_no_leak", """forall (s0 : cbuf) (w0 : world),
  WF s0 -> plan_nonneg (fault w0) -> NoDup (FaultDefs.ids (abs s0)) ->
  (forall e : elem, In e (abs s0) -> eid e < next_id w0) ->
  forall (ops : list op) (rs : list (outcome out)) (s : cbuf) (w : world) (L : fledger) (fk : fkind) (k : Z),
  fault_run s0 w0 ops rs s w L -> fault w0 = Some (fk, k) -> fk <> FDrop ->
  exists lost : list elem,
    Permutation (abs s ++ fl_caller L ++ fl_destroyed L ++ lost) (fl_entered L) /\\
    incl lost (fl_at_risk L) /\\ (user_panics rs = 0%nat -> lost = [] /\\ fl_at_risk L = [])""", "fault_history_no_leak"),
    ("C06_history_lookers_conserve", """forall (s0 : cbuf) (w0 : world),
  WF s0 -> plan_nonneg (fault w0) -> NoDup (FaultDefs.ids (abs s0)) ->
  (forall e : elem, In e (abs s0) -> eid e < next_id w0) ->
  forall (ops : list op) (rs : list (outcome out)) (s : cbuf) (w : world) (L : fledger) (fk : fkind) (k : Z),
  fault_run s0 w0 ops rs s w L -> fault w0 = Some (fk, k) -> looks_only fk = true ->
  Permutation (abs s ++ fl_caller L ++ fl_destroyed L) (fl_entered L)""", "fault_history_no_leak_looks"),
    ("C06_history_nothing_lost", """forall (s0 : cbuf) (w0 : world),
  WF s0 -> plan_nonneg (fault w0) -> NoDup (FaultDefs.ids (abs s0)) ->
  (forall e : elem, In e (abs s0) -> eid e < next_id w0) ->
  forall (ops : list op) (rs : list (outcome out)) (s : cbuf) (w : world) (L : fledger) (fk : fkind) (k : Z),
  fault_run s0 w0 ops rs s w L -> fault w0 = Some (fk, k) -> fk <> FDrop ->
  Permutation (abs s ++ fl_caller L ++ fl_destroyed L) (fl_entered L)""", "fault_history_conserving"),
    ("C06_all_pairs", """forall (o : op) (fk : fkind),
  ledger_op o = true -> may_call o fk = true -> covered' o fk = true ->
  fault_safe_when (fun s : cbuf => nopanic_spec o s /\\ plain_pre o) o fk""", "fault_collect_all"),
    ("C06_frame", """forall o fk s w k,
  may_call o fk = false -> fault w = Some (fk, k) ->
  exec o s w =
    let '(r, s', w') := exec o s (w_fault w None) in (r, s', w_fault w' (Some (fk, k)))""", "fault_frame"),
    ("C06_frame_refines", """forall o fk s w k,
  may_call o fk = false -> WF s -> op_ok s o -> fault w = Some (fk, k) ->
  refines_at_armed o s w fk k""", "fault_frame_refines"),
])

C06_CLONE = faults("C06", "FClone", [
    ("fill_spare_clone", "v", "OFillSpare v", "fill_spare_clone_fault"), ("fill_clone", "v", "OFill v", "fill_clone_fault"),
    ("to_vec_clone", "", "OToVec", "to_vec_clone_fault"), ("clone_keep_clone", "", "OCloneKeepClone", "clone_keep_clone_fault"),
    ("clone_drop_clone", "", "OCloneDropClone", "clone_drop_clone_fault"),
    ("clone_from_clone", "other", "OCloneFrom other", "clone_from_clone_fault"),
    ("extend_from_slice_clone", "xs", "OExtendFromSlice xs", "extend_from_slice_clone_fault")])

P["C07"] = ("""C07 — all views of the contents agree; mutable views alias exactly those
   elements. Every accessor refines its list-level specification on [abs s]
   (nth_error / rev / hd / last; None or the documented panic outside [0, len),
   also for usize::MAX); iter, range, to_vec, Debug and as_slices (first slice
   followed by second) present [abs s]; the *_set forms write through the
   mutable reference and change exactly that position; make_contiguous returns
   everything in one slice. [C07_distinct_slots]: the slots of distinct
   positions are distinct, so no two mutable references alias.""", "", ops("C07", [
    ("get", "i", "OGet i"), ("nth_front", "i", "ONthFront i"), ("nth_back", "i", "ONthBack i"),
    ("front", "", "OFront"), ("back", "", "OBack"), ("index", "i", "OIndex i"),
    ("iter", "script", "OIter script"), ("range", "sb eb script", "ORange sb eb script"),
    ("as_slices", "", "OAsSlices"), ("to_vec", "", "OToVec"), ("debug", "", "ODebug"),
    ("get_mut", "i v", "OGetMutSet i v"), ("nth_front_mut", "i v", "ONthFrontMutSet i v"),
    ("nth_back_mut", "i v", "ONthBackMutSet i v"), ("front_mut", "v", "OFrontMutSet v"),
    ("back_mut", "v", "OBackMutSet v"), ("index_mut", "i v", "OIndexMutSet i v"),
    ("iter_mut", "script", "OIterMut script"), ("range_mut", "sb eb script", "ORangeMut sb eb script"),
    ("as_mut_slices", "ws", "OAsMutSlicesSet ws"), ("make_contiguous", "ws", "OMakeContiguous ws"),
]) + [
    ("C07_sequence_views", """forall s w,
  WF s -> fault w = None ->
  let l := abs s in
  (exists a b s', exec OAsSlices s w = (Ok (OutSlices a b), s', w) /\\
                  map snd (a ++ b) = l /\\ abs s' = l) /\\
  (exists cs s' w', exec OToVec s w = (Ok (OutList cs), s', w') /\\
                    map eval cs = map eval l /\\ abs s' = l) /\\
  (exists s' w', exec ODebug s w = (Ok OutUnit, s', w') /\\
                 log w' = log w ++ map EvFmt l /\\ abs s' = l) /\\
  (exists rs s', exec (OIter (repeat SNext (length l))) s w = (Ok (OutScript rs), s', w) /\\
                 map erase_sres rs = map (fun e => RItem (Some (epe e))) l /\\ abs s' = l)""", "exec_seq_views"),
    ("C07_element_views", """forall s w o e,
  WF s -> fault w = None -> ref_view (abs s) o e ->
  exists p s', exec o s w = (Ok (OutRef p), s', w) /\\ option_map snd p = e /\\
               abs s' = abs s /\\ WF s' /\\ cap s' = cap s""", "exec_ref_views"),
    ("C07_distinct_slots", """forall s i j,
  0 < cap s -> 0 <= start s < cap s -> 0 <= i < cap s -> 0 <= j < cap s ->
  phys s i = phys s j -> i = j""", "phys_inj"),
])

P["C07"] = (P["C07"][0], P["C07"][1], P["C07"][2] + [
    ("C07_single_slice_after_make_contiguous", """forall s w,
  WF s ->
  exists sl s1,
    make_contiguous s w = (Ok sl, s1, w) /\\ WF s1 /\\ abs s1 = abs s /\\
    exists a b, as_slices s1 w = (Ok (a, b), s1, w) /\\ slen b = 0 /\\
                sl_elems (items s1) a = abs s""", "make_contiguous_then_single_slice"),
    ("C07_as_mut_slices_distinct", """forall ws s w a b s' w',
  WF s -> exec (OAsMutSlicesSet ws) s w = (Ok (OutSlices a b), s', w') ->
  map fst (a ++ b) = map (phys s) (zseq 0 (Z.to_nat (size s))) /\\
  NoDup (map fst (a ++ b)) /\\ map snd (a ++ b) = abs s""", "as_mut_slices_slots_distinct"),
    ("C07_iter_mut_distinct", """forall script s w rs s' w',
  WF s -> exec (OIterMut script) s w = (Ok (OutScript rs), s', w') ->
  NoDup (slots_of rs) /\\ incl (slots_of rs) (map (phys s) (zseq 0 (Z.to_nat (size s))))""", "iter_mut_slots_distinct"),
])

P["C08"] = ("""C08 — borrowing and owning iterators obey the double-ended exact-size
   protocol: for every script over next / next_back / len / clone (and writes
   through IterMut), iter, range, iter_mut, range_mut and into_iter give the
   results of [spec_script]: the selected window of [abs s] consumed from both
   ends, each element exactly once, None forever after, len = what is left, a
   clone continuing independently. Ranges go through translate_range_bounds,
   advance_front_by, advance_back_by and slice_take without a bounds panic.
   (&buf).into_iter() is buf.iter(); Iter::default() and IterMut::default()
   are iterators over the empty window (None forever, len 0, nothing written).""", "", ops("C08", [
    ("iter", "script", "OIter script"), ("range", "sb eb script", "ORange sb eb script"),
    ("iter_mut", "script", "OIterMut script"), ("range_mut", "sb eb script", "ORangeMut sb eb script"),
    ("into_iter", "script", "OIntoIter script"),
    ("iter_default", "script", "OIterDefault script"),
    ("iter_mut_default", "script", "OIterMutDefault script"),
    ("ref_into_iter", "script", "ORefIntoIter script")]) + [
    ("C08_protocol", """forall l lo hi sc rs l' lo' hi',
  (lo <= hi <= length l)%nat -> plain_script sc = true ->
  spec_script l lo hi sc = (rs, l', (lo', hi')) ->
  l' = l /\\
  de_protocol (sublist lo hi l) sc rs /\\
  lo' = (lo + length (front_items sc rs))%nat /\\
  hi' = (hi - length (back_items sc rs))%nat /\\
  (lo' <= hi')%nat /\\
  sublist lo' hi' l = unyielded (sublist lo hi l) sc rs""", "script_protocol"),
    ("C08_iter_protocol", """forall s w sc v s' w',
  WF s -> fault w = None -> plain_script sc = true ->
  exec (OIter sc) s w = (Ok v, s', w') ->
  exists rs, v = OutScript rs /\\ de_protocol (abs s) sc (map erase_sres rs) /\\
             abs s' = abs s /\\ log w' = log w""", "exec_iter_protocol"),
])

P["C09"] = ("""C09 — drain removes exactly the requested range and keeps the rest in
   order: for every capacity (0 included), layout, range-bounds form and script,
   [exec (ODrain sb eb script false)] (create, run the script, drop) yields the
   window of [abs s] consumed from both ends with exact len, leaves
   firstn a ++ skipn b, and destroys exactly the un-yielded drained elements,
   once each, in order.""", "", [
    ("C09_drain_drop", "forall sb eb script, refines_op (ODrain sb eb script false)", "drain_drop_op"),
    ("C09_drain_debug", "forall sb eb pre, refines_op (ODrainDebug sb eb pre)", "drain_debug_op"),
    ("C09_drain_protocol", """forall s w sb eb sc v s' w',
  WF s -> fault w = None -> bound_ok sb -> bound_ok eb ->
  exec (ODrain sb eb sc false) s w = (Ok v, s', w') ->
  exists a b rs,
    spec_bounds (size s) sb eb = Some (a, b) /\\ v = OutScript rs /\\
    let win := sublist (nat_of a) (nat_of b) (abs s) in
    let sc' := map plain_step sc in
    let rs' := map erase_sres rs in
    de_protocol win sc' rs' /\\
    abs s' = firstn (nat_of a) (abs s) ++ skipn (nat_of b) (abs s) /\\
    log w' = log w ++ drops (unyielded win sc' rs')""", "exec_drain_protocol"),
])

P["C10"] = ("""C10 — leaking a drain is safe: after mem::forget at any point of any
   script the state is well formed, its contents (the model: none) are drawn
   from the original ones and disjoint from what was yielded, no destructor ran;
   every later operation is covered by the theorems for well-formed states.""", " LedgerSpec", [
    ("C10_drain_forget", "forall sb eb script, refines_op (ODrain sb eb script true)", "drain_forget_op"),
    # afterwards: the state is well formed and the world fault-free, so every history continues to refine the
    # specification, and the ledger (which books the un-restored elements as forgotten) stays duplicate-free
    ("C10_then_any_history", """forall ops s w,
  WF s -> fault w = None -> ops_ok s ops ->
  let '(rs, s', w') := run_history ops s w in
  let '(srs, l', evs, nid') := spec_history (cap s) (abs s) ops (next_id w) in
  results_ok ops srs rs /\\ abs s' = l' /\\ WF s' /\\ cap s' = cap s /\\ w' = wev w evs nid'""", "history_refines"),
    ("C10_never_destroyed_twice", """forall (s0 : cbuf) (w0 : world),
  WF s0 -> fault w0 = None -> NoDup (ids (abs s0)) ->
  (forall e, In e (abs s0) -> eid e < next_id w0) ->
  forall ops s w L,
  ledger_run s0 w0 ops s w L ->
  NoDup (ids (abs s ++ lg_caller L ++ lg_destroyed L)) /\\
  Permutation (abs s ++ lg_caller L ++ lg_destroyed L) (lg_entered L) /\\
  NoDup (ids (lg_entered L))""", "ledger_history exec_refines"),
])

P["C11"] = ("""C11 — operations panic exactly when documented and are otherwise total.
   [C11_total_or_documented]: on every well-formed state, for every operation
   and machine-value argument: the call returns normally iff the specification
   does not demand a panic; a panic is an assert!/expect of the crate and leaves
   the state untouched. Hence never an overflow, division by zero, slice bounds
   panic, failed debug assertion, unimplemented!(), out-of-array access, abort
   or fuel exhaustion (= termination), for any capacity < 2^64 including 0.
   [C11_which_panic] says exactly which calls the specification makes panic.""", "", [
    ("C11_total_or_documented", """forall o s w,
  WF s -> fault w = None -> op_ok s o ->
  match spec_step (cap s) (abs s) o (next_id w) with
  | SRet _ => exists v s' w', exec o s w = (Ok v, s', w') /\\ WF s' /\\ cap s' = cap s
  | SPanic => exists k, exec o s w = (Panic k, s, w) /\\ (k = PAssert \\/ k = PExpect)
  end""", "total_or_documented"),
    ("C11_which_panic", """forall N l o nid,
  spec_step N l o nid = SPanic <->
  match o with
  | OSwap i j => (i <? zlen l) && (j <? zlen l) = false
  | OIndex i | OIndexMutSet i _ => (i <? zlen l) = false
  | ODrain sb eb _ _ | ORange sb eb _ | ORangeMut sb eb _
  | OIterDebug sb eb _ | OIterMutDebug sb eb _ | ODrainDebug sb eb _ =>
    spec_bounds (zlen l) sb eb = None
  | _ => False
  end""", "spec_panics_iff"),
])

P["C12"] = ("""C12 — constructors and conversions give the specified contents,
   independently owned: new, default and boxed are empty (the harness moves the
   result into place and destroys the old buffer; boxed allocates once, first);
   from an array / iterator keeps the last N
   elements (same identities) and destroys the rest once; clone, clone_from and
   to_vec make element-wise clones with fresh identities, source unchanged;
   into_iter yields the original elements in order.""", "", ops("C12", [
    ("new", "", "ONew"), ("default", "", "ODefault"), ("boxed", "", "OBoxed"),
    ("from_array", "xs", "OFromArray xs"), ("from_iter", "xs", "OFromIter xs"),
    ("clone_then_drop", "", "OCloneDropClone"), ("clone_then_keep", "", "OCloneKeepClone"),
    ("clone_from", "other", "OCloneFrom other"), ("to_vec", "", "OToVec"), ("into_iter", "script", "OIntoIter script")]))

P["C12"] = (P["C12"][0], P["C12"][1], P["C12"][2] + [
    ("C12_clone_shares_nothing", """forall s w v s' w',
  WF s -> fault w = None -> allocated w (abs s) ->
  exec OCloneKeepClone s w = (Ok v, s', w') ->
  vals (abs s') = vals (abs s) /\\ disjoint_ids (abs s') (abs s) /\\ NoDup (ids (abs s'))""", "clone_disjoint"),
    ("C12_to_vec_shares_nothing", """forall s w cs s' w',
  WF s -> fault w = None -> allocated w (abs s) ->
  exec OToVec s w = (Ok (OutList cs), s', w') ->
  vals cs = vals (abs s) /\\ disjoint_ids cs (abs s) /\\ NoDup (ids cs) /\\ abs s' = abs s""", "to_vec_disjoint"),
])

P["C13"] = ("""C13 — equality, ordering, hashing and Debug depend only on the logical
   contents: the results and the element-level comparisons performed are those
   of [spec_eq] / [spec_cmp] on [abs a], [abs b] (any capacities, any layouts:
   the three-way segment alignment never goes out of bounds), hashing feeds the
   length then the elements of [abs a], Debug formats the elements of [abs a].
   The element type has one NaN-like value [nan_val]: it equals nothing (itself
   included) and is unordered against everything under partial_cmp, while
   Ord::cmp stays the total order on values; so a buffer containing it is not
   equal to itself (C13_nan_not_equal_to_itself: an "identical object =>
   equal" shortcut is excluded) and partial_cmp is [lex_partial].
   Debug of an Iter / IterMut / Drain / IntoIter, after any script on it,
   formats exactly the elements it would still yield, front to back, and
   consumes nothing (the Drain / IntoIter then destroys them as usual).""", "", ops("C13", [
    ("eq", "other", "OEq other"), ("eq_slice", "form xs", "OEqSlice form xs"),
    ("partial_cmp", "other", "OPartialCmp other"), ("cmp", "other", "OCmp other"),
    ("hash", "", "OHash"), ("debug", "", "ODebug"),
    ("iter_debug", "sb eb pre", "OIterDebug sb eb pre"),
    ("iter_mut_debug", "sb eb pre", "OIterMutDebug sb eb pre"),
    ("drain_debug", "sb eb pre", "ODrainDebug sb eb pre"),
    ("into_iter_debug", "pre", "OIntoIterDebug pre")]))

P["C13"] = (P["C13"][0], P["C13"][1], P["C13"][2] + [
    ("C13_eq_iff_equal_sequences", """forall a b w r a' w',
  WF a -> WF b -> fault w = None ->
  exec (OEq b) a w = (Ok (OutBool r), a', w') ->
  (r = true <-> vals (abs a) = vals (abs b) /\\ ~ In nan_val (vals (abs a))) /\\ abs a' = abs a""", "exec_eq_iff"),
    ("C13_eq_iff_equal_sequences_total", """forall a b w r a' w',
  WF a -> WF b -> fault w = None -> ~ In nan_val (vals (abs a)) ->
  exec (OEq b) a w = (Ok (OutBool r), a', w') ->
  (r = true <-> vals (abs a) = vals (abs b)) /\\ abs a' = abs a""", "exec_eq_iff_total"),
    ("C13_eq_slice_iff", """forall form xs a w r a' w',
  WF a -> zlen xs < W -> fault w = None ->
  exec (OEqSlice form xs) a w = (Ok (OutBool r), a', w') ->
  (r = true <-> vals (abs a) = vals xs /\\ ~ In nan_val (vals (abs a))) /\\ abs a' = abs a""", "exec_eq_slice_iff"),
    ("C13_eq_slice_iff_total", """forall form xs a w r a' w',
  WF a -> zlen xs < W -> fault w = None -> ~ In nan_val (vals (abs a)) ->
  exec (OEqSlice form xs) a w = (Ok (OutBool r), a', w') ->
  (r = true <-> vals (abs a) = vals xs) /\\ abs a' = abs a""", "exec_eq_slice_iff_total"),
    ("C13_nan_not_equal_to_itself", """forall a w,
  WF a -> fault w = None -> In nan_val (vals (abs a)) ->
  exists w', exec (OEq a) a w = (Ok (OutBool false), a, w')""", "eq_self_nan"),
    ("C13_partial_ordering", """forall a b w r a' w',
  WF a -> WF b -> fault w = None ->
  exec (OPartialCmp b) a w = (Ok (OutOrd r), a', w') ->
  r = lex_partial (vals (abs a)) (vals (abs b)) /\\ abs a' = abs a""", "exec_cmp_partial"),
    ("C13_partial_ordering_undecided", """forall a b w r a' w',
  WF a -> WF b -> fault w = None ->
  exec (OPartialCmp b) a w = (Ok (OutOrd r), a', w') ->
  (r = None <->
   exists p x xs' y ys', vals (abs a) = p ++ x :: xs' /\\ vals (abs b) = p ++ y :: ys' /\\
     ~ In nan_val p /\\ (x = nan_val \\/ y = nan_val))""", "exec_cmp_none"),
    ("C13_ordering_lexicographic", """forall a b w r a' w',
  WF a -> WF b -> fault w = None ->
  ~ In nan_val (vals (abs a)) -> ~ In nan_val (vals (abs b)) ->
  exec (OPartialCmp b) a w = (Ok (OutOrd r), a', w') ->
  r = Some (lex_compare (vals (abs a)) (vals (abs b))) /\\ abs a' = abs a""", "exec_cmp_lex"),
    ("C13_total_ordering_lexicographic", """forall a b w r a' w',
  WF a -> WF b -> cap b = cap a -> fault w = None ->
  exec (OCmp b) a w = (Ok (OutOrd r), a', w') ->
  r = Some (lex_compare (vals (abs a)) (vals (abs b))) /\\ abs a' = abs a""", "exec_ord_cmp_lex"),
    ("C13_nan_value", "nan_val = 13", "eq_refl"),
    ("C13_lex_partial_def", """forall xs ys, lex_partial xs ys =
  match xs, ys with
  | [], [] => Some Eq
  | [], _ :: _ => Some Lt
  | _ :: _, [] => Some Gt
  | x :: xs', y :: ys' =>
    if (x =? nan_val) || (y =? nan_val) then None else
    match x ?= y with
    | Eq => lex_partial xs' ys'
    | c => Some c
    end
  end""", "fun xs ys => match xs, ys with [], [] | [], _ :: _ | _ :: _, [] | _ :: _, _ :: _ => eq_refl end"),
    ("C13_equal_contents_hash_equally", """forall a b w va a' wa vb b' wb,
  WF a -> WF b -> fault w = None -> abs a = abs b ->
  exec OHash a w = (Ok va, a', wa) -> exec OHash b w = (Ok vb, b', wb) ->
  log wa = log wb""", "exec_hash_same"),
    ("C13_observers_layout_free", """forall o a1 a2 w,
  observer o -> WF a1 -> WF a2 -> cap a1 = cap a2 -> abs a1 = abs a2 ->
  fault w = None -> op_ok a1 o ->
  fst (fst (exec o a1 w)) = fst (fst (exec o a2 w)) /\\
  snd (exec o a1 w) = snd (exec o a2 w) /\\
  exists v, fst (fst (exec o a1 w)) = Ok v""", "observers_layout_free"),
])

P["C14"] = ("""C14 — byte-stream I/O: write accepts everything and keeps the newest N
   bytes, read copies min(len) bytes from the front and removes them, fill_buf
   returns a non-empty prefix when non-empty, consume removes min(k, len); never
   an error or panic, any capacity including 0.""", "", ops("C14", [
    ("write", "src", "OWrite Std src"), ("flush", "", "OFlush Std"), ("read", "dst", "ORead Std dst"),
    ("fill_buf", "", "OFillBuf Std"), ("consume", "k", "OConsume Std k")]))

P["C14"] = (P["C14"][0], P["C14"][1], P["C14"][2] + [
    ("C14_write_keeps_newest", """forall fam src s w v s' w',
  WF s -> fault w = None -> zlen src < W ->
  exec (OWrite fam src) s w = (Ok v, s', w') ->
  v = OutZ (zlen src) /\\
  vals (abs s') = lastn (Z.to_nat (cap s)) (vals (abs s) ++ vals src) /\\
  zlen (abs s') = Z.min (cap s) (zlen (abs s) + zlen src)""", "exec_write_vals"),
    ("C14_read_from_front", """forall fam dst s w n dst' s' w',
  WF s -> fault w = None -> zlen dst < W ->
  exec (ORead fam dst) s w = (Ok (OutRead n dst'), s', w') ->
  let k := Nat.min (length dst) (length (abs s)) in
  n = Z.of_nat k /\\ dst' = firstn k (abs s) ++ skipn k dst /\\ abs s' = skipn k (abs s)""", "exec_read_vals"),
    ("C14_fill_buf_prefix", """forall fam s w p s' w',
  WF s -> fault w = None ->
  exec (OFillBuf fam) s w = (Ok (OutList p), s', w') ->
  (exists t, abs s = p ++ t) /\\ (abs s <> [] -> p <> []) /\\ abs s' = abs s /\\ w' = w""", "exec_fill_buf_prefix"),
    ("C14_consume_front", """forall fam k s w v s' w',
  WF s -> fault w = None -> 0 <= k < W ->
  exec (OConsume fam k) s w = (Ok v, s', w') ->
  abs s' = skipn (Z.to_nat (Z.min k (zlen (abs s)))) (abs s)""", "exec_consume_vals"),
    ("C14_never_fails", """forall o s w,
  io_op o -> WF s -> fault w = None ->
  exists v s' w', exec o s w = (Ok v, s', w') /\\ WF s' /\\ cap s' = cap s""", "io_never_fails"),
])

fam_eqs = []
for fam in ("eio", "aio"):
    for f in ("write", "flush", "read", "fill_buf", "consume"):
        fam_eqs.append(("C16_%s_%s_eq" % (fam, f), "%s_%s = io_%s" % (fam, f, f), "%s_%s_eq" % (fam, f)))
P["C16"] = ("""C16 — the embedded-io and embedded-io-async impls behave exactly like the
   std::io impls: the three trait families are separate model definitions
   (mirroring separate source text) and are equal as functions; all of them
   refine the C14 specification. Never-Pending is observed by the harness (each
   future is polled once), not modelled.""", "", fam_eqs + ops("C16", [
    ("write", "fam src", "OWrite fam src"), ("flush", "fam", "OFlush fam"), ("read", "fam dst", "ORead fam dst"),
    ("fill_buf", "fam", "OFillBuf fam"), ("consume", "fam k", "OConsume fam k")]))

P["C17"] = ("""C17 — no operation allocates, apart from to_vec and boxed: the capacity,
   hence the inline storage, never changes, and the only allocation events any
   returning call emits are the single one of to_vec on a non-empty buffer and
   the single one of boxed() (its Box). What decides the property on the
   real code is the allocation-counting correspondence and the no_std / alloc
   builds (see evidence); these theorems fix what the model predicts.""", "", [
    ("C17_no_alloc", """forall o s w v s' w',
  WF s -> fault w = None -> op_ok s o ->
  exec o s w = (Ok v, s', w') ->
  exists evs, log w' = log w ++ evs /\\
    (o <> OToVec -> o <> OBoxed -> ~ In EvAlloc evs) /\\ cap s' = cap s""", "exec_allocs"),
    ("C17_alloc_only", """forall N l o nid r,
  spec_step N l o nid = SRet r -> In EvAlloc (sr_evs r) -> o = OToVec \\/ o = OBoxed""", "spec_alloc_only_to_vec"),
    ("C17_boxed_allocs_once", """forall s w v s' w',
  WF s -> fault w = None ->
  exec OBoxed s w = (Ok v, s', w') ->
  exists evs, log w' = log w ++ evs /\\
    evs = EvAlloc :: drops (abs s) /\\ count_occ event_eq_dec evs EvAlloc = 1%nat""", "exec_boxed_allocs"),
    ("C17_to_vec_allocs_once", """forall s w v s' w',
  WF s -> fault w = None ->
  exec OToVec s w = (Ok v, s', w') ->
  exists evs, log w' = log w ++ evs /\\
    count_occ event_eq_dec evs EvAlloc = (if 0 <? size s then 1%nat else 0%nat)""", "exec_to_vec_allocs"),
])

P["C18"] = ("""C18 — enabling the `unstable` feature does not change behaviour:
   theories/Unstable.v models every cfg(feature = "unstable") body; the whole
   API run through those bodies equals the stable model on every well-formed
   state, for every fault plan and build profile, and so for whole histories.""", "", [
    ("C18_exec_unstable_eq", "forall o s w, WF s -> exec_unstable o s w = exec o s w", "exec_unstable_eq_WF"),
    ("C18_exec_unstable_eq_cap", "forall o s w, 0 <= cap s -> exec_unstable o s w = exec o s w", "exec_unstable_eq"),
    ("C18_history", "forall ops s w, caps_ok ops s w -> run_history_unstable ops s w = run_history ops s w", "run_history_unstable_eq"),
])

P["C19"] = ("""C19 — zero-sized elements and extreme capacities behave like any other.
   Position arithmetic is exact for every modulus up to usize::MAX, with no
   intermediate overflow, division by zero or failed debug assertion, in debug
   (dbg w = true) and release builds alike; and every theorem of this
   development quantifies over every capacity < 2^64 and never inspects the
   element type, so C01/C11 instantiate to usize::MAX and zero-sized elements.""", "", [
    ("C19_add_mod", """forall x y m s w,
  0 < m < W -> 0 <= x <= m -> 0 <= y <= m ->
  add_mod x y m s w = (Ok ((x + y) mod m), s, w)""", "add_mod_ok"),
    ("C19_sub_mod", """forall x y m s w,
  0 < m < W -> 0 <= x <= m -> 0 <= y <= m ->
  sub_mod x y m s w = (Ok ((x + (m - y)) mod m), s, w)""", "sub_mod_ok"),
    ("C19_all_capacities", "forall o, refines_op o", "exec_refines"),
    ("C19_no_arith_panic", """forall o s w,
  WF s -> fault w = None -> op_ok s o ->
  match spec_step (cap s) (abs s) o (next_id w) with
  | SRet _ => exists v s' w', exec o s w = (Ok v, s', w') /\\ WF s' /\\ cap s' = cap s
  | SPanic => exists k, exec o s w = (Panic k, s, w) /\\ (k = PAssert \\/ k = PExpect)
  end""", "total_or_documented"),
])

def moves(items):
    out = []
    for name, binders, op, bound in items:
        stmt = ("forall %s, " % binders if binders else "") + "moves_at_most (%s) (%s)" % (op, bound)
        out.append(("C20_%s" % name, stmt, "%s_moves" % name))
    return out

two = "fun _ => 2"
P["C20"] = ("""C20 — documented constant-time operations move O(1) elements.
   [relocated s s'] (proofs/PhysMoves.v): the logical positions of s whose
   element (by identity) is still in s' but in another physical slot.
   [moves_at_most o b]: for every returning call from a well-formed state of
   distinct elements, |relocated| <= b.""", "", moves([
    ("push_back", "x", "OPushBack x", two), ("push_front", "x", "OPushFront x", two),
    ("try_push_back", "x", "OTryPushBack x", two), ("try_push_front", "x", "OTryPushFront x", two),
    ("pop_back", "", "OPopBack", two), ("pop_front", "", "OPopFront", two), ("swap", "i j", "OSwap i j", two),
    ("swap_remove_back", "i", "OSwapRemoveBack i", two), ("swap_remove_front", "i", "OSwapRemoveFront i", two),
    ("get", "i", "OGet i", two), ("nth_front", "i", "ONthFront i", two), ("nth_back", "i", "ONthBack i", two),
    ("front", "", "OFront", two), ("back", "", "OBack", two), ("index", "i", "OIndex i", two),
    ("get_mut_set", "i v", "OGetMutSet i v", two), ("index_mut_set", "i v", "OIndexMutSet i v", two),
    ("front_mut_set", "v", "OFrontMutSet v", two), ("back_mut_set", "v", "OBackMutSet v", two),
    ("as_slices", "", "OAsSlices", two), ("truncate_back", "k", "OTruncateBack k", two),
    ("truncate_front", "k", "OTruncateFront k", two), ("clear", "", "OClear", two),
    ("remove", "i", "ORemove i", "fun s => Z.max 0 (size s - i)"),
]) + [
    ("C20_drain", """forall sb eb script s w v s' w' a b,
  WF s -> op_ok s (ODrain sb eb script false) -> fault w = None ->
  NoDup (map eid (abs s ++ given (ODrain sb eb script false))) ->
  spec_bounds (size s) sb eb = Some (a, b) ->
  exec (ODrain sb eb script false) s w = (Ok v, s', w') ->
  zlen (relocated s s') <= size s - b""", "drain_moves"),
    ("C20_make_contiguous", """forall s w v s' w',
  WF s -> op_ok s (OMakeContiguous []) -> fault w = None ->
  NoDup (map eid (abs s ++ given (OMakeContiguous []))) ->
  start s + size s <= cap s \\/ size s = 0 ->
  exec (OMakeContiguous []) s w = (Ok v, s', w') ->
  relocated s s' = []""", "make_contiguous_moves"),
])


def main():
    os.makedirs(D, exist_ok=True)
    extra_c06 = ""
    if os.path.exists("/verif/coq/proofs/FaultClone.v"):
        P["C06"] = (P["C06"][0], " FaultClone LedgerSpec", P["C06"][2] + C06_CLONE)
    else:
        P["C06"] = (P["C06"][0], "", P["C06"][2])
    if not os.path.exists("/verif/coq/proofs/LedgerSpec.v"):
        P["C03"] = (P["C03"][0], "", P["C03"][2])
    for pid, (doc, extra_import, thms) in sorted(P.items()):
        if pid == "C02":
            continue
        out = ["(* %s\n   This file only pins statements; proofs are in coq/proofs/. *)" % doc,
               IMPORTS % extra_import, ""]
        for name, stmt, proof in thms:
            out.append("Theorem %s :\n  %s.\nProof. exact (%s). Qed.\nPrint Assumptions %s.\n" % (name, stmt, proof, name))
        open(os.path.join(D, pid + ".v"), "w").write("\n".join(out))
        print(pid, len(thms), "theorems")


if __name__ == "__main__":
    main()
