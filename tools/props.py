"""Per-property plans: which cases, which harness configurations, which
observables are compared with the model (correspondence projection) and which
are checked against the property itself (oracle)."""

from cases import *  # noqa: F401,F403
import cases as C


class Plan:
    pid = ""
    # correspondence projection: subset of r (result with physical positions),
    # r- (result, positions erased), st, sz, c, e, f, a
    corr = ("r-", "sz", "c")
    # oracle against the specification line: subset of r-, c, e
    spec = ("r-", "c")
    ledger = True           # no dead element touched, nothing destroyed twice
    no_leak = True          # after the final drop nothing is left alive
    cfgs_quick = ("dev",)
    cfgs_thorough = ("dev", "rel")
    elem = "E"

    def gen(self, tier, seed):
        raise NotImplementedError

    def cfgs(self, tier):
        return self.cfgs_quick if tier == "quick" else self.cfgs_thorough


def Ns(tier, q, t):
    return q if tier == "quick" else t


def sc_for(tier, limit):
    def f(L):
        if L <= limit:
            return scripts_exhaustive(L)
        return scripts_shapes(L)
    return f


def random_histories(g, tier, count, Nset, length, weights=None, elem="E", fault=None, final_new=True):
    """seeded random histories, mostly valid arguments plus a boundary stream"""
    r = g.rng
    for _ in range(count):
        N = r.choice(Nset)
        st = r.below(N) if N > 0 else 0
        sz = r.below(N + 1)
        c = g.new(N, st, default_vals(sz), junk=r.choice(JUNKS), elem=elem,
                  fault=(fault(r) if fault else "none"), tag="history")
        cur = sz   # approximate length, only used to bias arguments
        for _ in range(r.below(length) + length // 2):
            k = r.below(100)
            small = lambda: r.below(cur + 2) if not r.chance(1, 20) else r.choice([MAX, MAX - 1, N, N + 1])
            if k < 14:
                c.ops.append("push_back " + c.e()); cur = min(N, cur + 1)
            elif k < 24:
                c.ops.append("push_front " + c.e()); cur = min(N, cur + 1)
            elif k < 28:
                c.ops.append("try_push_back " + c.e()); cur = min(N, cur + 1)
            elif k < 32:
                c.ops.append("try_push_front " + c.e()); cur = min(N, cur + 1)
            elif k < 40:
                c.ops.append("pop_back"); cur = max(0, cur - 1)
            elif k < 48:
                c.ops.append("pop_front"); cur = max(0, cur - 1)
            elif k < 54:
                c.ops.append("remove %d" % small()); cur = max(0, cur - 1)
            elif k < 58:
                i = r.below(cur) if cur else 0
                j = r.below(cur) if cur else 0
                if r.chance(1, 15):
                    j = cur
                c.ops.append("swap %d %d" % (i, j))
            elif k < 61:
                c.ops.append("swap_remove_back %d" % small()); cur = max(0, cur - 1)
            elif k < 64:
                c.ops.append("swap_remove_front %d" % small()); cur = max(0, cur - 1)
            elif k < 67:
                t = small(); c.ops.append("truncate_back %d" % t); cur = min(cur, t)
            elif k < 70:
                t = small(); c.ops.append("truncate_front %d" % t); cur = min(cur, t)
            elif k < 71:
                c.ops.append("clear"); cur = 0
            elif k < 75:
                m = r.below(min(2 * N + 2, 12)); c.ops.append("extend " + c.es(m)); cur = min(N, cur + m)
            elif k < 80:
                m = r.below(min(2 * N + 2, 12)); c.ops.append("extend_from_slice " + c.es(m)); cur = min(N, cur + m)
            elif k < 82 and N <= 64:
                c.ops.append(r.choice(["fill " + c.e(), "fill_with"])); cur = N
            elif k < 84 and N <= 64:
                c.ops.append(r.choice(["fill_spare " + c.e(), "fill_spare_with"])); cur = N
            elif k < 90:
                a = r.below(cur + 1); b = a + r.below(cur - a + 1)
                L = b - a
                s = ",".join(r.choice("nbl") for _ in range(r.below(L + 3))) or "-"
                sb, eb = r.choice(bound_forms(a, b))
                c.ops.append("drain %s %s %s drop" % (sb, eb, s)); cur -= L
            elif k < 92:
                c.ops.append("make_contiguous " + c.es(r.below(2)))
            elif k < 94:
                c.ops.append("get_mut %d %s" % (small(), c.e()))
            elif k < 96:
                c.ops.append("iter_mut " + ",".join(r.choice(["n", "b", "sn=" + c.e(), "sb=" + c.e()]) for _ in range(r.below(cur + 2) + 1)))
            elif k < 98:
                c.ops.append("as_slices")
            else:
                c.ops.append(r.choice(["front", "back", "get %d" % small(), "to_vec", "iter n,b,l,c", "clone_keep"]))
        if final_new:
            c.ops.append("new")


# ---------------------------------------------------------------- C01

class C01(Plan):
    pid = "C01"
    corr = ("r-", "sz", "c")
    spec = ("r-", "c")

    def gen(self, tier, seed):
        g = Gen(seed)
        ns = Ns(tier, [0, 1, 2, 3, 4], [0, 1, 2, 3, 4, 5, 6])
        j = [3] if tier == "quick" else [3, 1]
        for fam in (fam_push, fam_pop, fam_index1, fam_swap, fam_bulk, fam_mut_views):
            g.one_step(ns, j, fam)
        g.one_step(Ns(tier, [0, 1, 2, 3], [0, 1, 2, 3, 4, 5]), [3],
                   lambda c, N, sz: fam_drain(c, N, sz, sc_for(tier, 1)))
        g.one_step(Ns(tier, [0, 1, 2, 3], [0, 1, 2, 3, 4]), [3], fam_drain_forms)
        random_histories(g, tier, 60 if tier == "quick" else 2000,
                         [5, 6, 7, 8, 16, 64] + ([1000] if tier != "quick" else []),
                         40 if tier == "quick" else 200)
        return g.cases


class C02(Plan):
    pid = "C02"
    corr = ("r-", "sz", "c")
    spec = ("r-", "c")

    def gen(self, tier, seed):
        g = Gen(seed)
        ns = Ns(tier, [0, 1, 2, 3, 4, 5, 6], [0, 1, 2, 3, 4, 5, 6, 7, 8, 16])
        g.one_step(ns, [3, 4] if tier == "quick" else JUNKS, fam_push)
        # two pushes in a row and push after pop, to cross the full/non-full edge
        for N in ns:
            for (st, sz) in layouts(N):
                for a in ("push_back", "push_front", "try_push_back", "try_push_front"):
                    for b in ("push_back", "push_front", "try_push_back", "try_push_front", "pop_back", "pop_front"):
                        c = g.new(N, st, default_vals(sz))
                        c.ops = [b + (" " + c.e() if "push" in b else ""), a + " " + c.e(), "new"]
        return g.cases


class C03(Plan):
    pid = "C03"
    corr = ("r-", "sz", "c", "e")
    spec = ("r-", "c", "e")

    def gen(self, tier, seed):
        g = Gen(seed)
        ns = Ns(tier, [0, 1, 2, 3], [0, 1, 2, 3, 4, 5])
        for fam in (fam_push, fam_pop, fam_index1, fam_bulk, fam_constructors):
            g.one_step(ns, [4], fam)
        g.one_step(Ns(tier, [0, 1, 2, 3], [0, 1, 2, 3, 4]), [4],
                   lambda c, N, sz: fam_drain(c, N, sz, sc_for(tier, 2)))
        g.one_step(ns, [4], lambda c, N, sz: ["into_iter " + s for s in scripts_exhaustive(sz, 1)])
        g.one_step(ns, [4], lambda c, N, sz: ["clone_from " + other_buf(c, N, o_st, default_vals(o_sz, 7))
                                              for (o_st, o_sz) in layouts(N)])
        random_histories(g, tier, 60 if tier == "quick" else 2000, [4, 5, 6, 7, 8, 16, 64],
                         40 if tier == "quick" else 200)
        return g.cases


ALL = {p.pid: p for p in (C01(), C02(), C03())}
