"""Per-property plans: which cases, which harness configurations, which
observables are compared with the model (correspondence projection) and which
are checked against the property itself (oracle)."""

from cases import *  # noqa: F401,F403
import cases as C


class Plan:
    pid = ""
    # correspondence projection: subset of r (result with physical positions),
    # r- (result, positions erased), st, sz, c, e, f, a
    corr = ("r-", "sz", "c")
    # oracle against the specification line: subset of r-, c, e
    spec = ("r-", "c")
    ledger = True           # no dead element touched, nothing destroyed twice
    no_leak = True          # after the final drop nothing is left alive
    cfgs_quick = ("dev",)
    cfgs_thorough = ("dev", "rel")
    elem = "E"

    def gen(self, tier, seed):
        raise NotImplementedError

    def cfgs(self, tier):
        return self.cfgs_quick if tier == "quick" else self.cfgs_thorough


PAIR_ONLY = ("from_array", "clone_from", "eq", "cmp", "partial_cmp", "eq_slice")


def no_pair(fam):
    """the family without the operations that are only wired for the 16-byte tracked type"""
    def f(c, N, sz):
        return [o for o in fam(c, N, sz) if (o if isinstance(o, str) else o[0]).split(" ")[0] not in PAIR_ONLY]
    return f


def Ns(tier, q, t):
    return q if tier == "quick" else t


def sc_for(tier, limit):
    def f(L):
        if L <= limit:
            return scripts_exhaustive(L)
        return scripts_shapes(L)
    return f


def random_histories(g, tier, count, Nset, length, weights=None, elem="E", fault=None, final_new=True):
    """seeded random histories, mostly valid arguments plus a boundary stream"""
    r = g.rng
    for _ in range(count):
        N = r.choice(Nset)
        st = r.below(N) if N > 0 else 0
        sz = r.below(N + 1)
        c = g.new(N, st, default_vals(sz), junk=r.choice(JUNKS), elem=elem,
                  fault=(fault(r) if fault else "none"), tag="history")
        cur = sz   # approximate length, only used to bias arguments
        for _ in range(r.below(length) + length // 2):
            k = r.below(100)
            small = lambda: r.below(cur + 2) if not r.chance(1, 20) else r.choice([MAX, MAX - 1, N, N + 1])
            if k < 14:
                c.ops.append("push_back " + c.e()); cur = min(N, cur + 1)
            elif k < 24:
                c.ops.append("push_front " + c.e()); cur = min(N, cur + 1)
            elif k < 28:
                c.ops.append("try_push_back " + c.e()); cur = min(N, cur + 1)
            elif k < 32:
                c.ops.append("try_push_front " + c.e()); cur = min(N, cur + 1)
            elif k < 40:
                c.ops.append("pop_back"); cur = max(0, cur - 1)
            elif k < 48:
                c.ops.append("pop_front"); cur = max(0, cur - 1)
            elif k < 54:
                c.ops.append("remove %d" % small()); cur = max(0, cur - 1)
            elif k < 58:
                i = r.below(cur) if cur else 0
                j = r.below(cur) if cur else 0
                if r.chance(1, 15):
                    j = cur
                c.ops.append("swap %d %d" % (i, j))
            elif k < 61:
                c.ops.append("swap_remove_back %d" % small()); cur = max(0, cur - 1)
            elif k < 64:
                c.ops.append("swap_remove_front %d" % small()); cur = max(0, cur - 1)
            elif k < 67:
                t = small(); c.ops.append("truncate_back %d" % t); cur = min(cur, t)
            elif k < 70:
                t = small(); c.ops.append("truncate_front %d" % t); cur = min(cur, t)
            elif k < 71:
                c.ops.append("clear"); cur = 0
            elif k < 75:
                m = r.below(min(2 * N + 2, 12)); c.ops.append("extend " + c.es(m)); cur = min(N, cur + m)
            elif k < 80:
                m = r.below(min(2 * N + 2, 12)); c.ops.append("extend_from_slice " + c.es(m)); cur = min(N, cur + m)
            elif k < 82 and N <= 64:
                c.ops.append(r.choice(["fill " + c.e(), "fill_with"])); cur = N
            elif k < 84 and N <= 64:
                c.ops.append(r.choice(["fill_spare " + c.e(), "fill_spare_with"])); cur = N
            elif k < 90:
                a = r.below(cur + 1); b = a + r.below(cur - a + 1)
                L = b - a
                s = ",".join(r.choice("nbl") for _ in range(r.below(L + 3))) or "-"
                sb, eb = r.choice(bound_forms(a, b))
                c.ops.append("drain %s %s %s drop" % (sb, eb, s)); cur -= L
            elif k < 92:
                c.ops.append("make_contiguous " + c.es(r.below(2)))
            elif k < 94:
                c.ops.append("get_mut %d %s" % (small(), c.e()))
            elif k < 96:
                c.ops.append("iter_mut " + ",".join(r.choice(["n", "b", "sn=" + c.e(), "sb=" + c.e()]) for _ in range(r.below(cur + 2) + 1)))
            elif k < 98:
                c.ops.append("as_slices")
            else:
                c.ops.append(r.choice(["front", "back", "get %d" % small(), "to_vec", "iter n,b,l,c", "clone_keep"]))
        if final_new:
            c.ops.append("new")


# ---------------------------------------------------------------- C01

class C01(Plan):
    pid = "C01"
    corr = ("r-", "sz", "c")
    spec = ("r-", "c")

    def gen(self, tier, seed):
        g = Gen(seed)
        ns = Ns(tier, [0, 1, 2, 3, 4], [0, 1, 2, 3, 4, 5, 6])
        j = [3] if tier == "quick" else [3, 1]
        for fam in (fam_push, fam_pop, fam_index1, fam_swap, fam_bulk, fam_mut_views):
            g.one_step(ns, j, fam)
        g.one_step(Ns(tier, [0, 1, 2, 3], [0, 1, 2, 3, 4, 5]), [3],
                   lambda c, N, sz: fam_drain(c, N, sz, sc_for(tier, 1)))
        g.one_step(Ns(tier, [0, 1, 2, 3], [0, 1, 2, 3, 4]), [3], fam_drain_forms)
        g.one_step(ns, [3], fam_extend_ref, elem="u8")
        random_histories(g, tier, 60 if tier == "quick" else 2000,
                         [5, 6, 7, 8, 16, 64] + ([1000] if tier != "quick" else []),
                         40 if tier == "quick" else 200)
        wide_cases(g, WIDE_E, "mut", every=(8 if tier == "quick" else 1))
        wide_cases(g, WIDE_U8, "io", elem="u8", suffix=(), every=(4 if tier == "quick" else 1))
        # the same families with a 256-byte element type (code paths gated on size_of::<T>())
        for fam in (fam_push, fam_pop, fam_index1, fam_swap, fam_bulk, fam_mut_views):
            g.one_step(Ns(tier, [0, 1, 2, 3, 4, 5, 6, 7], [0, 1, 2, 3, 4, 5, 6, 7, 8]), [3], fam, elem="B")
        wide_cases(g, [9, 13, 17, 33, 100], "mut", elem="B", every=(3 if tier == "quick" else 1))
        # element types without a destructor (paths gated on mem::needs_drop) and of a third size
        for el in ("NE", "NB", "S"):
            for fam in (fam_push, fam_pop, fam_index1, fam_bulk, fam_mut_views):
                g.one_step(Ns(tier, [0, 1, 2, 3, 4], [0, 1, 2, 3, 4, 5, 6]), [3], no_pair(fam), elem=el)
        wide_cases(g, [9, 13, 17, 33, 100], "mut", elem="NE", every=(6 if tier == "quick" else 1))
        return g.cases


def api_audit(self, tier, wd):
    """every public function / trait impl of src/*.rs has an image in the model (tools/apisurface.py)"""
    import engine as E
    import apisurface
    unknown, seen = apisurface.audit(E.REPO)
    self.api = {"items": len(seen), "unmodelled": unknown}
    if unknown:
        return [("API surface: every public item of src/*.rs is covered by the model", False,
                 {"unmodelled_items": unknown,
                  "meaning": "these public items have no Gallina image, no theorem and no correspondence case; the property "
                             "quantifies over every operation of the API, so it is no longer shown to hold"}, True)]
    return [("API surface: all %d public functions and trait impls of src/*.rs are covered by the model" % len(seen), True, "")]


C01.extra_obligations = api_audit


HUGE_ZST = [65537, 2**31 + 1, 3000000000, 2**32 - 5, 2**32 - 2]


class C02(Plan):
    pid = "C02"
    cfgs_quick = ("dev", "rel")
    corr = ("r-", "sz", "c")
    spec = ("r-", "c")

    def gen(self, tier, seed):
        g = Gen(seed)
        ns = Ns(tier, [0, 1, 2, 3, 4, 5, 6], [0, 1, 2, 3, 4, 5, 6, 7, 8, 16])
        g.one_step(ns, [3, 4] if tier == "quick" else JUNKS, fam_push)
        # two pushes in a row and push after pop, to cross the full/non-full edge
        for N in ns:
            for (st, sz) in layouts(N):
                for a in ("push_back", "push_front", "try_push_back", "try_push_front"):
                    for b in ("push_back", "push_front", "try_push_back", "try_push_front", "pop_back", "pop_front"):
                        c = g.new(N, st, default_vals(sz))
                        c.ops = [b + (" " + c.e() if "push" in b else ""), a + " " + c.e(), "new"]
        # larger capacities (every layout class), other element types (size_of / needs_drop gated paths)
        wide_cases(g, WIDE_E, "push", every=1)
        for el in ("B", "NE", "NB", "S"):
            g.one_step(Ns(tier, [0, 1, 2, 3, 4], [0, 1, 2, 3, 4, 5, 6, 7, 8]), [3], fam_push, elem=el)
            wide_cases(g, [9, 13, 17, 33, 100], "push", elem=el, every=1)
        # zero-sized elements at capacities beyond 2^31 with the front anywhere in the array: index arithmetic on
        # values that do not fit 32 bits (in a debug build an overflow there is a panic)
        for N in HUGE_ZST:
            for st in sorted({0, 1, N // 2, N - 2**31 + 1 if N > 2**31 else 0, N - 2, N - 1, 2**32 - N if N < 2**32 else 0,
                              2**32 - N + 1 if N < 2**32 else 1}):
                if not 0 <= st < N:
                    continue
                for sz in (0, 1, 3):
                    for op in ("push_back", "push_front", "try_push_back", "try_push_front"):
                        c = g.new(N, st, [0] * sz, elem="Z", junk=0)
                        c.ops = [op + " " + c.e(), "pop_back", "pop_front", "new"]
        return g.cases


class C03(Plan):
    pid = "C03"
    corr = ("r-", "sz", "c", "e")
    spec = ("r-", "c", "e")

    def gen(self, tier, seed):
        g = Gen(seed)
        ns = Ns(tier, [0, 1, 2, 3], [0, 1, 2, 3, 4, 5])
        for fam in (fam_push, fam_pop, fam_index1, fam_bulk, fam_constructors, fam_swap, fam_mut_views):
            g.one_step(ns, [4], fam)
        g.one_step(Ns(tier, [0, 1, 2, 3], [0, 1, 2, 3, 4]), [4],
                   lambda c, N, sz: fam_drain(c, N, sz, sc_for(tier, 2)))
        g.one_step(ns, [4], lambda c, N, sz: ["into_iter " + s for s in scripts_exhaustive(sz, 1)])
        g.one_step(ns, [4], lambda c, N, sz: ["clone_from " + other_buf(c, N, o_st, default_vals(o_sz, 7))
                                              for (o_st, o_sz) in layouts(N)])
        random_histories(g, tier, 60 if tier == "quick" else 2000, [4, 5, 6, 7, 8, 16, 64],
                         40 if tier == "quick" else 200)
        wide_cases(g, WIDE_E, "mut", junk=4, every=(16 if tier == "quick" else 2))
        for fam in (fam_push, fam_pop, fam_index1, fam_bulk):
            g.one_step(Ns(tier, [0, 1, 2, 3, 4], [0, 1, 2, 3, 4, 5, 6]), [4], fam, elem="B")
        wide_cases(g, [9, 13, 17, 33, 100], "mut", elem="B", junk=4, every=(16 if tier == "quick" else 2))
        return g.cases



# ---------------------------------------------------------------- C04

class C04(Plan):
    pid = "C04"
    corr = ("r-", "sz", "c", "e")
    spec = ("r-", "c", "e")
    cfgs_quick = ("dev", "eio")
    cfgs_thorough = ("dev", "rel", "eio")

    def gen_cfg(self, tier, seed, cfg):
        """byte buffers through the I/O traits (all three families in the embedded-io build), over every junk pattern"""
        if cfg != "eio":
            return self.gen(tier, seed)
        g = Gen(seed)
        fams = ["std", "eio", "aio"]
        g.one_step(Ns(tier, [0, 1, 2, 3, 4], [0, 1, 2, 3, 4, 5, 6]), JUNKS, fam_io(fams), elem="u8", suffix=())
        io_histories(g, tier, 30 if tier == "quick" else 600, fams, [2, 3, 4, 5, 8, 16], 30)
        for j in JUNKS:
            wide_cases(g, WIDE_U8[::2], "io", elem="u8", junk=j, suffix=(), fams=tuple(fams), every=(6 if tier == "quick" else 1))
        return g.cases

    def gen(self, tier, seed):
        g = Gen(seed)
        ns = Ns(tier, [0, 1, 2, 3], [0, 1, 2, 3, 4])
        fams = [fam_push, fam_pop, fam_index1, fam_bulk, fam_accessors, fam_constructors,
                lambda c, N, sz: fam_drain(c, N, sz, scripts_shapes),
                lambda c, N, sz: ["hash", "debug", "clone_keep", "eq_slice slice " + c.es(sz, default_vals(sz)),
                                  "iter_mut " + ",".join("n" * (sz + 1)), "make_contiguous -",
                                  "as_mut_slices -", "into_iter n,b"],
                fam_debug_views, fam_more_iters]
        for fam in fams:
            g.one_step(ns, JUNKS, fam)
        # histories from a genuinely fresh buffer and from rotated copies
        random_histories(g, tier, 40 if tier == "quick" else 600, [3, 4, 5, 6, 8], 30)
        n0 = len(g.cases)
        for c in list(g.cases[n0 - (40 if tier == "quick" else 600):]):
            for j in JUNKS:
                if j != c.junk:
                    d = g.new(c.N, c.start, c.vals, junk=j, tag="history")
                    d.ops = list(c.ops)
        for j in JUNKS:
            wide_cases(g, WIDE_E[::3], "all", junk=j, every=(40 if tier == "quick" else 6))
        for el in ("NE", "B"):
            g.one_step([0, 1, 2, 3], [3, 4], lambda c, N, sz: fam_drain(c, N, sz, scripts_shapes), elem=el)
            g.one_step([0, 1, 2, 3], [3, 4], no_pair(fam_bulk), elem=el)
        return g.cases

    def oracle_groups(self, cases, parsed):
        """same layout, same calls, different junk => identical implementation traces;
           same contents, same calls, different rotation => identical observable results"""
        out = []
        by_junk, by_rot = {}, {}
        for c in cases:
            p = parsed.get(c.cid)
            if p is None or p["crash"]:
                continue
            tr = tuple((r.get("i", {}).get("r"), r.get("i", {}).get("st"), r.get("i", {}).get("c"),
                        r.get("i", {}).get("e")) for _, r in sorted(p["ops"].items()))
            tr2 = tuple((E_erase(r.get("i", {}).get("r")), r.get("i", {}).get("c"),
                         r.get("i", {}).get("e")) for _, r in sorted(p["ops"].items()))
            k1 = (c.elem, c.N, c.start, tuple(c.vals), tuple(c.ops))
            k2 = (c.elem, c.N, tuple(c.vals), tuple(c.ops), c.junk)
            if k1 in by_junk and by_junk[k1][1] != tr:
                out.append((c, -1, "trace depends on the bytes in unoccupied slots (junk %d vs %d)" % (by_junk[k1][0].junk, c.junk)))
            by_junk.setdefault(k1, (c, tr))
            if any(o.startswith("fill_buf") for o in c.ops):
                continue        # fill_buf returns the first contiguous run: "apart from where as_slices splits"
            if k2 in by_rot and by_rot[k2][1] != tr2:
                out.append((c, -1, "observable results depend on the internal layout (start %d vs %d)" % (by_rot[k2][0].start, c.start)))
            by_rot.setdefault(k2, (c, tr2))
        return out


def c04_miri(self, tier, wd):
    """thorough tier: a seeded sample of the case space with GENUINELY uninitialised unoccupied slots,
    interpreted by Miri: any read of an unoccupied slot by the crate is reported as undefined behaviour"""
    import os
    import engine as E
    if tier == "quick":
        return []
    g = Gen(int(os.environ.get("VERIF_SEED", "1")) + 17)
    ns = [0, 1, 2, 3]
    for fam in (fam_push, fam_pop, fam_index1, fam_bulk, fam_accessors, fam_constructors, fam_mut_views,
                fam_more_iters, fam_debug_views,
                lambda c, N, sz: fam_drain(c, N, sz, scripts_shapes),
                lambda c, N, sz: ["hash", "debug", "clone_keep", "to_vec", "eq_slice slice " + c.es(sz, default_vals(sz)),
                                  "make_contiguous -", "as_mut_slices -", "into_iter n,b", "swap 0 %d" % max(sz - 1, 0)]):
        g.one_step(ns, [5], fam)
    for k in (0, 1, 2):
        g.one_step([2, 3], [5], fam_destroying, fault="drop:%d" % k, suffix=("push_back 9001:5", "new"))
        g.one_step([2, 3], [5], fam_usercode("clone"), fault="clone:%d" % k, suffix=("push_back 9001:5", "new"))
    random_histories(g, tier, 40, [3, 4, 5, 8], 30)
    for c in g.cases:
        c.junk = 5
    r = g.rng
    sample = [c for c in g.cases if r.chance(640, max(len(g.cases), 640))]
    ran, failures = E.run_miri(sample, True, os.path.join(wd, "miri"))
    self.miri = {"cases_sampled": len(sample), "cases_interpreted": ran, "failures": len(failures)}
    if failures:
        c, msg = failures[0]
        return [("Miri: no read of a genuinely uninitialised slot on %d sampled cases" % len(sample), False,
                 {"message": msg, "case": c.text(True) if c else None}, c is None)]
    if ran < len(sample):
        return [("Miri interpreted only %d of %d sampled cases" % (ran, len(sample)), False, {"ran": ran}, True)]
    return [("Miri: no undefined behaviour (in particular no read of an uninitialised slot) on %d sampled cases" % ran, True, "")]


C04.extra_obligations = c04_miri


def E_erase(r):
    import engine
    return engine.erase_phys(r) if r else r


# ---------------------------------------------------------------- C05 / C06

def fam_destroying(c, N, sz):
    out = ["clear", "new", "default", "boxed", "drain_debug u u n", "into_iter_debug n",
           "fill " + c.e(), "fill_with", "clone_keep", "into_iter n", "into_iter -",
           "drain u u - drop", "drain u u n drop", "drain i1 u b drop", "drain u e1 - drop"]
    for k in sorted({0, 1, max(sz - 1, 0)}):
        out += ["truncate_back %d" % k, "truncate_front %d" % k]
    for m in sorted({1, N, N + 1, 2 * N + 1}):
        out += ["extend_from_slice " + c.es(m), "extend " + c.es(m), "from_array " + c.es(m),
                "from_iter " + c.es(m)]
    for (o_st, o_sz) in layouts(N)[:: max(1, len(layouts(N)) // 3)]:
        out.append("clone_from " + other_buf(c, N, o_st, default_vals(o_sz, 7)))
    return out


class C05(Plan):
    pid = "C05"
    corr = ("r-", "sz", "c", "e", "f")
    spec = ("r-", "c", "e")
    no_leak = False

    def gen(self, tier, seed):
        g = Gen(seed)
        ns = Ns(tier, [0, 1, 2, 3], [0, 1, 2, 3, 4])
        for k in range(0, (2 * max(ns) + 3)):
            g.one_step([n for n in ns if k <= 2 * n + 2], [4, 3] if tier != "quick" else [4],
                       fam_destroying, fault="drop:%d" % k,
                       suffix=("push_back 9001:5", "pop_front", "as_slices", "new"))
        for k in (0, 1, 4, 9):
            wide_cases(g, WIDE_E[::2], "mut", junk=4, fault="drop:%d" % k, suffix=("push_back 9001:5", "pop_front", "new"),
                       layouts_per_n=3, every=(24 if tier == "quick" else 4))
        for k in (0, 1, 2, 3):
            g.one_step([2, 3, 4], [4], no_pair(fam_destroying), fault="drop:%d" % k, elem="B",
                       suffix=("push_back 9001:5", "pop_front", "new"))
        return g.cases

    def oracle_op(self, c, k, optext, rec, p):
        r = rec["i"].get("r", "")
        if r.startswith("panic:") and r != "panic:user" and k == 0 and rec.get("s", {}).get("r") != "panic":
            return "a destructor panic turned into %s" % r
        return None


def fam_usercode(kind):
    def f(c, N, sz):
        if kind == "clone":
            out = ["fill " + c.e(), "fill_spare " + c.e(), "clone_keep", "clone_drop", "to_vec"]
            for m in range(0, 2 * N + 2):
                out.append("extend_from_slice " + c.es(m))
            for (o_st, o_sz) in layouts(N):
                out.append("clone_from " + other_buf(c, N, o_st, default_vals(o_sz, 7)))
            return out
        if kind == "call":
            return ["fill_with", "fill_spare_with"]
        if kind == "next":
            out = []
            for m in range(0, 2 * N + 2):
                out += ["extend " + c.es(m), "from_iter " + c.es(m)]
            return out
        if kind == "eq":
            vals = default_vals(sz)
            out = ["eq_slice slice " + c.es(sz, vals), "eq_slice slice_ref " + c.es(sz, vals),
                   "eq_slice array " + c.es(sz, vals)]
            for M in (N, N + 1):
                for (o_st, o_sz) in layouts(M):
                    if o_sz == sz:
                        out.append("eq " + other_buf(c, M, o_st, vals))
            return out
        if kind == "cmp":
            vals = default_vals(sz)
            out = []
            for (o_st, o_sz) in layouts(N):
                out.append("cmp " + other_buf(c, N, o_st, default_vals(o_sz)))
                out.append("partial_cmp " + other_buf(c, N, o_st, default_vals(o_sz)))
            return out
        if kind == "hash":
            return ["hash"]
        return ["debug"] + [o for o in fam_debug_views(c, N, sz) if o.split(" ")[-1] in ("-", "n,b")]
    return f


class C06(Plan):
    pid = "C06"
    corr = ("r-", "sz", "c", "e", "f")
    spec = ("r-", "c", "e")
    no_leak_faults = True

    def gen(self, tier, seed):
        g = Gen(seed)
        ns = Ns(tier, [0, 1, 2, 3], [0, 1, 2, 3, 4])
        for kind in ("clone", "call", "next", "eq", "cmp", "hash", "fmt"):
            for k in range(0, 2 * max(ns) + 3):
                g.one_step([n for n in ns if k <= 2 * n + 2], [4], fam_usercode(kind),
                           fault="%s:%d" % (kind, k),
                           suffix=("push_back 9001:5", "pop_front", "as_slices", "new"))
        for kind in ("clone", "call", "next"):
            for k in (0, 1, 4, 9):
                wide_cases(g, WIDE_E[::2], "mut", junk=4, fault="%s:%d" % (kind, k), suffix=("push_back 9001:5", "pop_front", "new"),
                           layouts_per_n=3, every=(60 if tier == "quick" else 8))
        for kind in ("clone", "call", "next"):
            for k in (0, 1, 2, 3):
                g.one_step([2, 3, 4], [4], no_pair(fam_usercode(kind)), fault="%s:%d" % (kind, k), elem="B",
                           suffix=("push_back 9001:5", "pop_front", "new"))
        for el in ("NE", "NB"):
            for kind in ("clone", "call", "next"):
                for k in (0, 1, 2, 3):
                    g.one_step([2, 3, 4], [4], no_pair(fam_usercode(kind)), fault="%s:%d" % (kind, k), elem=el,
                               suffix=("push_back 9001:5", "pop_front", "new"))
        return g.cases

    def oracle_op(self, c, k, optext, rec, p):
        r = rec["i"].get("r", "")
        if r.startswith("panic:") and r != "panic:user" and k == 0 and rec.get("s", {}).get("r") != "panic":
            return "a panic in user code turned into %s" % r
        return None


# ---------------------------------------------------------------- C07 .. C14

class C07(Plan):
    pid = "C07"
    corr = ("r", "st", "sz", "c")
    spec = ("r-", "c")

    cfgs_quick = ("dev", "rel")     # release-only slips (code inside debug_assert!, wrapping arithmetic) show here
    def gen(self, tier, seed):
        g = Gen(seed)
        ns = Ns(tier, [0, 1, 2, 3, 4, 5], [0, 1, 2, 3, 4, 5, 6, 7])
        g.one_step(ns, [3], fam_accessors)
        g.one_step(ns, [3], fam_mut_views)
        g.one_step(ns, [3], lambda c, N, sz: [["make_contiguous -", "as_slices"],
                                              ["make_contiguous " + c.es(sz), "as_slices", "iter " + ",".join("n" * (sz + 1))],
                                              ["as_mut_slices " + c.es(sz), "as_slices", "to_vec"]])
        g.one_step(Ns(tier, [0, 1, 2, 3, 4], [0, 1, 2, 3, 4, 5]), [3],
                   lambda c, N, sz: ["range %s %s %s" % (sb, eb, ",".join("n" * (sz + 1))) for (sb, eb, a, b) in all_ranges(sz)])
        wide_cases(g, WIDE_E, "view", every=(4 if tier == "quick" else 1))
        g.one_step(Ns(tier, [0, 1, 2, 3, 4], [0, 1, 2, 3, 4, 5, 6]), [3], fam_accessors, elem="B")
        g.one_step(Ns(tier, [0, 1, 2, 3, 4], [0, 1, 2, 3, 4, 5, 6]), [3], fam_mut_views, elem="B")
        g.one_step(Ns(tier, [0, 1, 2, 3, 4], [0, 1, 2, 3, 4, 5, 6]), [3], lambda c, N, sz: [["make_contiguous -", "as_slices", "iter " + ",".join("n" * (sz + 1))]], elem="B")
        wide_cases(g, [9, 13, 17, 33, 100], "view", elem="B", every=(6 if tier == "quick" else 1))
        for el in ("NE", "NB"):
            g.one_step(Ns(tier, [0, 1, 2, 3, 4], [0, 1, 2, 3, 4, 5, 6]), [3], fam_accessors, elem=el)
            g.one_step(Ns(tier, [0, 1, 2, 3, 4], [0, 1, 2, 3, 4, 5, 6]), [3], fam_mut_views, elem=el)
        return g.cases

    def oracle_op(self, c, k, optext, rec, p):
        if optext == "as_slices" and k > 0 and c.ops[k - 1].startswith("make_contiguous"):
            r = rec["i"].get("r", "")
            if not r.endswith("|-]"):
                return "as_slices reports two slices after make_contiguous: %s" % r
        return None


class C08(Plan):
    pid = "C08"
    corr = ("r", "sz", "c")
    spec = ("r-", "c")

    cfgs_quick = ("dev", "rel")     # release-only slips (code inside debug_assert!, wrapping arithmetic) show here
    def gen(self, tier, seed):
        g = Gen(seed)
        g.one_step(Ns(tier, [0, 1, 2, 3], [0, 1, 2, 3, 4]), [3],
                   lambda c, N, sz: fam_iters(c, N, sz, sc_for(tier, 3 if tier == "quick" else 4)))
        g.one_step(Ns(tier, [0, 1, 2, 3, 4], [0, 1, 2, 3, 4, 5]), [3], fam_iter_forms)
        g.one_step(Ns(tier, [0, 1, 2, 3, 4], [0, 1, 2, 3, 4, 5]), [3],
                   lambda c, N, sz: ["iter " + s for s in scripts_exhaustive(sz, 2, "nbl")[:400]] +
                                    ["iter_mut " + s for s in scripts_exhaustive(sz, 2)] +
                                    ["into_iter " + s for s in scripts_exhaustive(sz, 2)] +
                                    ["iter n,c,n,b", "iter c", "iter b,c,l", "iter " + ",".join("n" * sz + "c")])
        g.one_step(Ns(tier, [0, 1, 2, 3, 4], [0, 1, 2, 3, 4, 5]), [3], fam_more_iters)
        wide_cases(g, WIDE_E, "view", every=(6 if tier == "quick" else 1))
        return g.cases


class C09(Plan):
    pid = "C09"
    corr = ("r-", "sz", "c", "e")
    spec = ("r-", "c", "e")

    cfgs_quick = ("dev", "rel")     # release-only slips (code inside debug_assert!, wrapping arithmetic) show here
    def gen(self, tier, seed):
        g = Gen(seed)
        g.one_step(Ns(tier, [0, 1, 2, 3, 4], [0, 1, 2, 3, 4, 5]), [3, 4],
                   lambda c, N, sz: fam_drain(c, N, sz, sc_for(tier, 3 if tier == "quick" else 4),
                                              ranges=all_ranges(sz, with_invalid=False)))
        g.one_step(Ns(tier, [0, 1, 2, 3, 4], [0, 1, 2, 3, 4, 5]), [3], fam_drain_forms)
        g.one_step(Ns(tier, [5, 6], [5, 6, 7, 8]), [3],
                   lambda c, N, sz: fam_drain(c, N, sz, lambda L: ["-", ",".join("n" * L) or "-", ",".join("b" * L) or "-",
                                                                    ",".join(("nb" * L)[:L]) or "-"],
                                              ranges=all_ranges(sz, with_invalid=False)))
        wide_cases(g, WIDE_E, "drain", junk=4, every=(3 if tier == "quick" else 1))
        g.one_step(Ns(tier, [1, 2, 3, 4], [1, 2, 3, 4, 5, 6]), [4],
                   lambda c, N, sz: fam_drain(c, N, sz, scripts_shapes, ranges=all_ranges(sz, with_invalid=False)), elem="B")
        wide_cases(g, [9, 13, 17, 33, 100], "drain", elem="B", junk=4, every=(4 if tier == "quick" else 1))
        for el in ("NE", "B"):
            g.one_step(Ns(tier, [1, 2, 3, 4, 5, 7], [1, 2, 3, 4, 5, 6, 7]), [4],
                       lambda c, N, sz: fam_drain(c, N, sz, scripts_shapes, ranges=all_ranges(sz, with_invalid=False)), elem=el)
        return g.cases


class C10(Plan):
    pid = "C10"
    corr = ("r-", "sz", "c", "e")
    spec = ("r-", "c", "e")
    no_leak = False

    def gen(self, tier, seed):
        g = Gen(seed)
        followups = ["push_back 9001:5", "push_front 9002:5", "pop_back", "extend_from_slice 9003:1,9004:2,9005:3",
                     "fill_with", "clear", "as_slices", "drain u u n drop", "truncate_front 0"]

        def mk(c, N, sz):
            out = []
            for (sb, eb, a, b) in all_ranges(sz, with_invalid=False):
                L = b - a
                for s in (scripts_exhaustive(L, 1) if L <= 2 else scripts_shapes(L, 1)):
                    for f in followups[:: (1 if tier != "quick" else 3)]:
                        out.append(["drain %s %s %s forget" % (sb, eb, s), f, "push_back 9100:1", "new"])
            return out
        g.one_step(Ns(tier, [0, 1, 2, 3], [0, 1, 2, 3, 4]), [4, 3], mk, suffix=())
        g.one_step([1, 2, 3], [4], mk, suffix=(), elem="NE")
        # wider capacities and the other element types (a leak-amplification shortcut gated on size or needs_drop)
        for el in ("E", "NE", "NB", "B"):
            wide_cases(g, [9, 17, 33, 100], "forget", elem=el, junk=4, suffix=("push_back 9100:1", "as_slices", "clear", "new"),
                       every=(3 if tier == "quick" else 1))
        random_histories(g, tier, 30 if tier == "quick" else 500, [3, 4, 5, 8], 30)
        # sprinkle forgotten drains into the histories
        for c in g.cases:
            if c.tag == "history":
                for i in range(0, len(c.ops), 7):
                    if c.ops[i].startswith("drain") and c.ops[i].endswith(" drop"):
                        c.ops[i] = c.ops[i][:-5] + " forget"
        return g.cases

    def oracle_op(self, c, k, optext, rec, p):
        if optext.startswith("drain") and optext.endswith("forget") and not rec["i"].get("r", "").startswith("panic"):
            prev = p["ops"].get(k - 1, {}).get("i") if k > 0 else p["init"].get("impl")
            before = set((prev or {}).get("c", "-").split(",")) - {"-"}
            yielded = set(re.findall(r"@(\d+:\d+)", rec["i"].get("r", "")))
            after = [x for x in rec["i"].get("c", "-").split(",") if x != "-"]
            if len(set(after)) != len(after):
                return "duplicated element after a forgotten drain"
            if not set(after) <= before - yielded:
                return "after a forgotten drain the buffer holds %s, not drawn from %s minus yielded %s" % (after, sorted(before), sorted(yielded))
        return None


import re  # noqa: E402


def fam_everything(c, N, sz):
    out = []
    for fam in (fam_push, fam_pop, fam_index1, fam_swap, fam_bulk, fam_accessors, fam_mut_views, fam_constructors):
        out += fam(c, N, sz)
    out += fam_drain_forms(c, N, sz) + fam_iter_forms(c, N, sz)
    out += ["hash", "debug", "to_vec", "clone_keep"]
    out += fam_more_iters(c, N, sz) + fam_debug_views(c, N, sz, with_invalid=True)
    return out


class C11(Plan):
    pid = "C11"
    corr = ("r-", "sz", "c")
    spec = ("r-", "c")
    cfgs_quick = ("dev", "rel")

    def gen(self, tier, seed):
        g = Gen(seed)
        g.one_step(Ns(tier, [0, 1, 2, 3], [0, 1, 2, 3, 4]), [3], fam_everything)
        g.one_step(Ns(tier, [0, 1, 2, 3], [0, 1, 2, 3, 4]), [3],
                   lambda c, N, sz: ["write std " + c.es(m) for m in (0, 1, N, 2 * N + 1)] +
                                    ["read std " + c.es(m) for m in (0, 1, N + 2)] +
                                    ["fill_buf std", "flush std"] + ["consume std %d" % k for k in (0, 1, N, N + 2, MAX)],
                   elem="u8")
        wide_cases(g, WIDE_E, "all", every=(16 if tier == "quick" else 2))
        return g.cases


C11.extra_obligations = api_audit


class C12(Plan):
    pid = "C12"
    corr = ("r-", "sz", "c", "e", "f")
    spec = ("r-", "c", "e")

    def gen(self, tier, seed):
        g = Gen(seed)
        ns = Ns(tier, [0, 1, 2, 3, 4], [0, 1, 2, 3, 4, 5])
        g.one_step(ns, [3, 4], fam_constructors)
        g.one_step(ns, [4], lambda c, N, sz: ["clone_from " + other_buf(c, N, o_st, default_vals(o_sz, 7))
                                              for (o_st, o_sz) in layouts(N)])
        g.one_step(ns, [4], lambda c, N, sz: [["into_iter " + ",".join("n" * (sz + 1))], ["clone_keep", "to_vec"],
                                              ["clone_drop", "as_slices"]])
        # "destroys the rest exactly once" also when one of those destructors panics
        small = Ns(tier, [0, 1, 2, 3], [0, 1, 2, 3, 4])
        for k in range(0, 2 * max(small) + 2):
            g.one_step([n for n in small if k <= 2 * n + 1], [4],
                       lambda c, N, sz: ["from_array " + c.es(m) for m in sorted({N + 1, 2 * N + 1})] +
                                        ["from_iter " + c.es(N + 1), "clone_keep", "clone_drop", "into_iter n"],
                       fault="drop:%d" % k, suffix=("push_back 9001:5", "new"))
        for el in ("NE", "NB"):
            g.one_step(Ns(tier, [0, 1, 2, 3], [0, 1, 2, 3, 4]), [4], no_pair(fam_constructors), elem=el)
        return g.cases


def states_over_alphabet(N, alphabet=(1, 2)):
    out = []
    for (st, sz) in layouts(N):
        for vals in itertools.product(alphabet, repeat=sz):
            out.append((st, list(vals)))
    return out


class C13(Plan):
    pid = "C13"
    corr = ("r", "e")
    spec = ("r-", "e")

    cfgs_quick = ("dev", "rel")     # release-only slips (code inside debug_assert!, wrapping arithmetic) show here
    def gen(self, tier, seed):
        g = Gen(seed)
        top = 3 if tier == "quick" else 4
        for N in range(0, top + 1):
            sa = states_over_alphabet(N)
            for M in range(0, top + 1):
                sb = states_over_alphabet(M)
                if tier == "quick" and N + M > 5:
                    sb = sb[::3]
                for (st, vals) in sa:
                    c = g.new(N, st, vals, junk=3)
                    for (ost, ovals) in sb:
                        ob = other_buf(c, M, ost, ovals)
                        c.ops.append("eq " + ob)
                        c.ops.append("partial_cmp " + ob)
                        if M == N:
                            c.ops.append("cmp " + ob)
            for (st, vals) in sa:
                c = g.new(N, st, vals, junk=3)
                c.ops += ["hash", "debug"]
                for k in range(0, N + 2):
                    for xs in itertools.product((1, 2), repeat=k):
                        for form in ("slice", "array", "slice_ref", "slice_mut", "array_ref", "array_mut"):
                            if form == "slice" or list(xs) == vals or k == len(vals):
                                c.ops.append("eq_slice %s %s" % (form, c.es(k, list(xs))))
        # the NaN-like value 13: equal to nothing (itself included), unordered under partial_cmp, ordered under cmp
        for N in range(0, 4):
            sa = states_over_alphabet(N, (1, 13))
            for M in range(0, 4):
                sb = states_over_alphabet(M, (1, 13))
                for (st, vals) in sa:
                    c = g.new(N, st, vals, junk=3)
                    c.ops.append("eq_self")
                    for (ost, ovals) in sb[:: (2 if tier == "quick" else 1)]:
                        ob = other_buf(c, M, ost, ovals)
                        c.ops += ["eq " + ob, "partial_cmp " + ob] + (["cmp " + ob] if M == N else [])
                    c.ops.append("eq_slice slice " + c.es(len(vals), vals))
        # Debug of the iterators and of a Drain: the elements still to come
        g.one_step(range(0, top + 1), [3, 4], fam_debug_views, suffix=("new",))
        wide_cases(g, WIDE_E, "view", every=(12 if tier == "quick" else 2))
        wide_eq(g, WIDE_E, every=(3 if tier == "quick" else 1))
        return g.cases

    def oracle_groups(self, cases, parsed):
        """equal contents (same capacity) => equal hash stream and Debug entries, whatever the layout"""
        out, seen = [], {}
        for c in cases:
            p = parsed.get(c.cid)
            if p is None or "hash" not in c.ops:
                continue
            k = c.ops.index("hash")
            i = p["ops"].get(k, {}).get("i", {})
            h = tuple(x.split(":")[-1] if x.startswith("H") and not x.startswith("HL") else x for x in (i.get("e") or "-").split(","))
            key = (c.N, tuple(c.vals))
            if key in seen and seen[key][1] != h:
                out.append((c, k, "equal buffers hash differently: %s vs %s" % (seen[key][1], h)))
            seen.setdefault(key, (c, h))
        return out


def fam_io(fams):
    def f(c, N, sz):
        out = []
        for fam in fams:
            out += ["write %s %s" % (fam, c.es(m)) for m in range(0, 2 * N + 2)]
            out += ["read %s %s" % (fam, c.es(m)) for m in range(0, N + 3)]
            out += ["fill_buf " + fam, "flush " + fam]
            out += ["consume %s %d" % (fam, k) for k in list(range(0, N + 3)) + [MAX]]
        return out
    return f


def io_histories(g, tier, count, fams, Nset, length):
    r = g.rng
    for _ in range(count):
        N = r.choice(Nset)
        st = r.below(N) if N else 0
        sz = r.below(N + 1)
        c = g.new(N, st, [r.below(256) for _ in range(sz)], elem="u8", junk=r.choice(JUNKS), tag="history")
        for _ in range(length):
            fam = r.choice(fams)
            k = r.below(10)
            if k < 4:
                c.ops.append("write %s %s" % (fam, c.es(r.below(2 * min(N, 8) + 2))))
            elif k < 7:
                c.ops.append("read %s %s" % (fam, c.es(r.below(min(N, 8) + 3))))
            elif k < 8:
                c.ops.append("fill_buf " + fam)
            elif k < 9:
                c.ops.append("consume %s %d" % (fam, r.choice([0, 1, 2, r.below(N + 2), MAX])))
            else:
                c.ops.append("flush " + fam)


class C14(Plan):
    pid = "C14"
    corr = ("r-", "sz", "c")
    spec = ("r-", "c")
    elem = "u8"

    cfgs_quick = ("dev", "rel")     # release-only slips (code inside debug_assert!, wrapping arithmetic) show here
    def gen(self, tier, seed):
        g = Gen(seed)
        g.one_step(Ns(tier, [0, 1, 2, 3, 4], [0, 1, 2, 3, 4, 5, 6]), [1, 2], fam_io(["std"]), elem="u8", suffix=())
        io_histories(g, tier, 100 if tier == "quick" else 3000, ["std"], [0, 1, 2, 3, 4, 5, 8, 16, 64], 30)
        wide_cases(g, WIDE_U8, "io", elem="u8", suffix=(), every=(2 if tier == "quick" else 1))
        return g.cases

    def oracle_op(self, c, k, optext, rec, p):
        r = rec["i"].get("r", "")
        if r in ("ioerr", "pending") or r.startswith("panic"):
            return "I/O call failed: %s" % r
        return None


class C16(Plan):
    pid = "C16"
    corr = ("r-", "sz", "c")
    spec = ("r-", "c")
    elem = "u8"
    cfgs_quick = ("eio", "eio1", "eio2")
    cfgs_thorough = ("eio", "eio1", "eio2")

    def gen_cfg(self, tier, seed, cfg):
        fams = {"eio": ["std", "eio", "aio"], "eio1": ["std", "eio"], "eio2": ["std", "aio"]}[cfg]
        g = Gen(seed)
        g.one_step(Ns(tier, [0, 1, 2, 3], [0, 1, 2, 3, 4, 5]), [2], fam_io(fams), elem="u8", suffix=())
        io_histories(g, tier, 60 if tier == "quick" else 2000, fams, [0, 1, 2, 3, 4, 5, 8, 16], 30)
        wide_cases(g, WIDE_U8, "io", elem="u8", suffix=(), fams=tuple(fams), every=(4 if tier == "quick" else 1))
        return g.cases

    def gen(self, tier, seed):
        return self.gen_cfg(tier, seed, "eio")

    def oracle_op(self, c, k, optext, rec, p):
        r = rec["i"].get("r", "")
        if r in ("ioerr", "pending") or r.startswith("panic"):
            return "I/O call failed or did not complete immediately: %s" % r
        return None

    def oracle_groups(self, cases, parsed):
        """the same call through each trait family from the same state gives the same outcome"""
        out, seen = [], {}
        for c in cases:
            if c.tag == "history" or len(c.ops) != 1:
                continue
            p = parsed.get(c.cid)
            if p is None:
                continue
            t = c.ops[0].split(" ")
            if len(t) < 2 or t[1] not in ("std", "eio", "aio"):
                continue
            fam = t[1]
            call = " ".join([t[0]] + [re.sub(r"\d+:", "", x) for x in t[2:]])
            key = (c.N, c.start, tuple(c.vals), c.junk, call)
            i = p["ops"].get(0, {}).get("i", {})
            obs = (i.get("r"), i.get("sz"), i.get("c"))
            if key in seen and seen[key][1] != obs:
                out.append((c, 0, "%s via %s gives %s, via %s gives %s" % (call, fam, obs, seen[key][0], seen[key][1])))
            seen.setdefault(key, (fam, obs))
        return out


class C18(Plan):
    pid = "C18"
    corr = ("r", "st", "sz", "c", "e", "f")
    spec = ()
    no_leak = False
    cfgs_quick = ("dev", "unstable")
    cfgs_thorough = ("dev", "unstable", "rel", "unstable-rel")

    def gen(self, tier, seed):
        g = Gen(seed)
        ns = Ns(tier, [0, 1, 2, 3], [0, 1, 2, 3, 4])
        for fam in (fam_push, fam_pop, fam_index1, fam_swap, fam_bulk, fam_accessors, fam_mut_views, fam_constructors,
                    fam_drain_forms, fam_iter_forms, fam_more_iters, fam_debug_views):
            g.one_step(ns, [3], fam)
        g.one_step(ns, [3], lambda c, N, sz: fam_drain(c, N, sz, sc_for(tier, 2)))
        g.one_step(ns, [3], lambda c, N, sz: fam_iters(c, N, sz, sc_for(tier, 2)))
        for k in range(0, 2 * max(ns) + 3):
            g.one_step([n for n in ns if k <= 2 * n + 2], [4], fam_destroying, fault="drop:%d" % k,
                       suffix=("push_back 9001:5", "new"))
            for kind in ("clone", "next", "call", "eq", "cmp"):
                g.one_step([n for n in ns if k <= 2 * n + 2], [4], fam_usercode(kind), fault="%s:%d" % (kind, k),
                           suffix=("push_back 9001:5", "new"))
        random_histories(g, tier, 40 if tier == "quick" else 1000, [3, 4, 5, 8, 16], 40)
        wide_cases(g, WIDE_E, "all", every=(16 if tier == "quick" else 3))
        for fam in (fam_push, fam_pop, fam_index1, fam_bulk, fam_accessors, fam_mut_views):
            g.one_step([0, 1, 2, 3], [3], fam, elem="B")
        for el in ("NE", "NB"):
            for fam in (fam_push, fam_pop, fam_bulk, fam_accessors, fam_constructors):
                g.one_step([0, 1, 2, 3], [3], no_pair(fam), elem=el)
            for k in (0, 1, 2):
                g.one_step([2, 3], [4], no_pair(fam_usercode("clone")), fault="clone:%d" % k, elem=el, suffix=("push_back 9001:5", "new"))
        return g.cases

    def cross_cfg(self, results):
        """identical traces in the stable and the unstable build"""
        out = []
        good = [r for r in results if "parsed" in r]
        base = {}
        for r in good:
            dbg = r["dbg"]
            for c in r["cases"]:
                p = r["parsed"].get(c.cid)
                if p is None:
                    continue
                tr = (tuple((x.get("i", {}).get("r"), x.get("i", {}).get("st"), x.get("i", {}).get("c"),
                             x.get("i", {}).get("e"), x.get("i", {}).get("f")) for _, x in sorted(p["ops"].items())),
                      str(p["fin"]), str(p["crash"]))
                key = (dbg, c.cid)
                if key in base and base[key][1] != tr:
                    out.append((r, (c, -1, "the %s build and the %s build behave differently" % (base[key][0], r["cfg"]))))
                base.setdefault(key, (r["cfg"], tr))
        return out


HUGE = [65537, 2**31 + 1, 3000000000, 2**32 - 5, 2**32 - 2, 2**32 - 1, 2**32, 2**32 + 1, 2**63 - 1, 2**63, 2**63 + 1, 2**64 - 2, 2**64 - 1]


class C19(Plan):
    pid = "C19"
    corr = ("r-", "st", "sz", "c", "e")
    spec = ("r-", "c", "e")
    elem = "Z"
    cfgs_quick = ("dev", "rel")

    def gen(self, tier, seed):
        g = Gen(seed)

        def fam(c, N, sz):
            I = sorted(x for x in {0, 1, 2, sz - 1 if sz else 0, sz, sz + 1, N - 1, N, MAX - 1, MAX} if 0 <= x < 2**64)
            out = fam_push(c, N, sz) + fam_pop(c, N, sz)
            for i in I:
                out += ["remove %d" % i, "swap_remove_back %d" % i, "swap_remove_front %d" % i,
                        "truncate_back %d" % i, "truncate_front %d" % i, "get %d" % i, "nth_back %d" % i,
                        "index %d" % i, "get_mut %d %s" % (i, c.e())]
            out += ["swap %d %d" % (i, j) for i in (0, sz - 1 if sz else 0, sz, MAX) for j in (0, 1, sz, MAX)]
            out += ["clear", "front", "back", "as_slices", "len", "is_full", "is_empty", "to_vec", "clone_keep",
                    "extend " + c.es(3), "extend_from_slice " + c.es(3), "iter n,b,l,n,n,n", "iter_mut n,b,n,n",
                    "into_iter n,b,l", "new", "front_mut " + c.es(1), "back_mut " + c.es(1)]
            out += fam_drain_forms(c, N, sz)
            out += ["drain i%d e%d n,b,l drop" % (a, b) for a in range(sz + 1) for b in range(a, sz + 1)]
            out += ["range i%d e%d n,b,l" % (a, b) for a in range(sz + 1) for b in range(a, sz + 1)]
            return out
        for N in HUGE:
            starts = [0, 1, 2, 3, N - 3, N - 2, N - 1]
            for st in starts:
                for sz in range(0, 5 if tier != "quick" else 4):
                    probe = Case(0, N, st, [0] * sz, elem="Z")
                    n = len(fam(probe, N, sz))
                    for k in range(n):
                        c = g.new(N, st, [0] * sz, elem="Z", junk=0)
                        c.ops = [fam(c, N, sz)[k], "new"]
        # reach the edge by push_front / pop from an empty buffer
        r = g.rng
        for N in HUGE:
            for _ in range(6 if tier == "quick" else 60):
                c = g.new(N, 0, [], elem="Z", junk=0, tag="history")
                for _ in range(30):
                    c.ops.append(r.choice(["push_front " + c.e(), "push_front " + c.e(), "pop_back", "pop_front", "push_back " + c.e(),
                                           "try_push_front " + c.e(), "remove 0", "swap_remove_front 1", "truncate_front 1",
                                           "drain i0 e1 n drop", "as_slices", "get 0", "nth_back 0", "swap 0 1"]))
                c.ops.append("new")
        return g.cases


def c19_arith(self, tier, wd):
    """add_mod / sub_mod are re-translated from src/lib.rs and the exactness theorems re-proved on the generated text"""
    import os
    import c19arith
    r = c19arith.run_arith(os.path.join(wd, "arith"), always_search=(tier != "quick"))
    self.arith = {k: r.get(k) for k in ("ok", "path", "theorems", "assumptions", "problems", "generated", "counterexample", "search", "timings")}
    if r.get("ok"):
        return [("add_mod/sub_mod regenerated from src/lib.rs and proved exact for all 64-bit inputs (path: %s)" % r.get("path"), True, "")]
    cx = r.get("counterexample")
    detail = {"problems": r.get("problems"), "counterexample": cx, "generated": r.get("generated")}
    return [("add_mod/sub_mod regenerated from src/lib.rs: theorems no longer proved", False, detail, cx is None)]


C19.extra_obligations = c19_arith


class C20(Plan):
    pid = "C20"
    corr = ("r", "st", "sz", "c")
    spec = ("r-", "c")

    def gen(self, tier, seed):
        g = Gen(seed)
        ns = Ns(tier, [1, 2, 3, 4, 5], [1, 2, 3, 4, 5, 6, 7, 8])

        def fam(c, N, sz):
            out = fam_push(c, N, sz) + fam_pop(c, N, sz) + fam_swap(c, N, sz)
            for i in idxs(N, sz):
                out += ["remove %d" % i, "swap_remove_back %d" % i, "swap_remove_front %d" % i,
                        "truncate_back %d" % i, "truncate_front %d" % i, "get %d" % i, "get_mut %d %s" % (i, c.e())]
            out += ["clear", "as_slices", "as_mut_slices -", "front", "back", "make_contiguous -"]
            out += ["drain %s %s - drop" % (sb, eb) for (sb, eb, a, b) in all_ranges(sz, with_invalid=False)]
            out += ["drain %s %s n,b drop" % (sb, eb) for (sb, eb, a, b) in all_ranges(sz, with_invalid=False)]
            return out
        g.one_step(ns, [3], fam, suffix=())
        wide_cases(g, WIDE_E, "mut", suffix=(), every=(6 if tier == "quick" else 1))
        g.one_step(Ns(tier, [1, 2, 3, 4, 5], [1, 2, 3, 4, 5, 6, 7, 8]), [3], fam, suffix=(), elem="B")
        wide_cases(g, [9, 13, 17, 33, 100], "mut", elem="B", suffix=(), every=(6 if tier == "quick" else 1))
        return g.cases

    def oracle_op(self, c, k, optext, rec, p):
        i = rec["i"]
        if i.get("r", "").startswith("panic"):
            return None
        prev = p["ops"].get(k - 1, {}).get("i") if k > 0 else p["init"].get("impl")
        if not prev:
            return None

        def where(d):
            ids = [x.split(":")[0] for x in d.get("c", "-").split(",") if x != "-"]
            st = int(d.get("st", 0))
            return {e: (st + j) % c.N for j, e in enumerate(ids)}
        if "mv" in i and (prev.get("c", "").startswith("#") or i.get("c", "").startswith("#")):
            # long buffers: contents are digests; the harness counted the relocated survivors itself
            moved = int(i["mv"])
            n = int(prev.get("sz", 0))
        else:
            a, b = where(prev), where(i)
            moved = sum(1 for e in a if e in b and a[e] != b[e])
            n = len(a)
            if "mv" in i and c.elem in ("E", "B") and int(i["mv"]) != moved:
                return "relocation count: harness %s, from the contents %d" % (i["mv"], moved)
        t = optext.split(" ")
        name = t[0]
        if name == "remove":
            bound = max(0, n - int(t[1]))
        elif name == "drain":
            # relocation bound len - j for drain(i..j)
            sb, eb = t[1], t[2]
            j = n if eb == "u" else (int(eb[1:]) + (1 if eb[0] == "i" else 0))
            bound = max(0, n - j)
        elif name == "make_contiguous":
            st = int(prev.get("st", 0))
            contiguous = n == 0 or st + n <= c.N
            bound = 0 if contiguous else c.N
        else:
            bound = 2
        if moved > bound:
            return "%s relocated %d surviving elements (allowed %d)" % (optext, moved, bound)
        return None


class C17(Plan):
    """no operation allocates (apart from to_vec; boxed is not part of the op language) + no_std / alloc-only builds"""
    pid = "C17"
    corr = ("r-", "sz", "c", "a")
    spec = ("r-", "c")
    level = "other"
    cfgs_quick = ("dev",)
    cfgs_thorough = ("dev", "rel")

    def gen(self, tier, seed):
        g = Gen(seed)
        ns = Ns(tier, [0, 1, 2, 3, 4], [0, 1, 2, 3, 4, 5, 6])
        for fam in (fam_push, fam_pop, fam_index1, fam_swap, fam_bulk, fam_mut_views, fam_accessors, fam_constructors,
                    fam_drain_forms, fam_iter_forms):
            g.one_step(ns, [3], fam)
            if fam is not fam_constructors:      # from_array / clone_from are only wired for the tracked element type
                g.one_step(Ns(tier, [0, 1, 2, 3], [0, 1, 2, 3, 4]), [3], fam, elem="u8")
        g.one_step(ns, [3], fam_extend_ref, elem="u8")
        g.one_step(Ns(tier, [0, 1, 2, 3], [0, 1, 2, 3, 4]), [3], lambda c, N, sz: fam_drain(c, N, sz, sc_for(tier, 1)), elem="u8")
        g.one_step(ns, [3], lambda c, N, sz: ["hash", "clone_keep", "clone_drop", "eq_slice slice " + c.es(sz, default_vals(sz)),
                                              "into_iter n,b", "iter n,b,l,c", "iter_mut n,b"], elem="u8")
        g.one_step(Ns(tier, [0, 1, 2, 3], [0, 1, 2, 3, 4]), [2], fam_io(["std"]), elem="u8", suffix=())
        random_histories(g, tier, 40 if tier == "quick" else 1000, [5, 8, 16, 64] + ([1000] if tier != "quick" else []),
                         40 if tier == "quick" else 150)
        wide_cases(g, WIDE_E, "all", every=(16 if tier == "quick" else 2))
        wide_cases(g, WIDE_U8, "io", elem="u8", suffix=(), every=(4 if tier == "quick" else 1))
        return g.cases

    def oracle_op(self, c, k, optext, rec, p):
        i = rec["i"]
        if i.get("r", "").startswith("panic"):
            return None      # unwinding allocates the panic payload; the property is about returning calls
        a = int(i.get("a", "0"))
        name = optext.split(" ")[0]
        if name == "boxed":
            return None if a == 1 else "boxed() performed %d heap allocations (exactly one expected)" % a
        if name == "to_vec":
            cprev = (p["ops"].get(k - 1, {}).get("i") if k > 0 else p["init"].get("impl") or {}).get("c", "-")
            n = int(cprev[1:].split(":")[0]) if cprev.startswith("#") else len([x for x in cprev.split(",") if x != "-"])
            if a > (1 if n > 0 else 0):
                return "to_vec allocated %d times for %d elements" % (a, n)
            return None
        if a != 0:
            return "%s performed %d heap allocation(s)" % (optext, a)
        return None

    def extra_obligations(self, tier, wd):
        """the crate builds without std and with only alloc (working tree, target dir outside /repo)"""
        import engine as E
        out = []
        for name, flags in (("no-default-features", "--no-default-features"),
                            ("alloc-only", "--no-default-features --features alloc"),
                            ("no-default-features, release", "--release --no-default-features"),
                            ("alloc-only, release", "--release --no-default-features --features alloc")):
            tdir = E.os.path.join(E.CACHE, "target-nostd")
            rc, log = E.sh("cargo build --offline --lib %s" % flags, cwd=E.REPO,
                           env={"CARGO_TARGET_DIR": tdir, "CARGO_NET_OFFLINE": "true"}, timeout=900)
            out.append(("cargo build " + flags, rc == 0, log[-1500:]))
        return out


ALL = {p.pid: p for p in (C01(), C02(), C03(), C04(), C05(), C06(), C07(), C08(), C09(), C10(),
                          C11(), C12(), C13(), C14(), C16(), C17(), C18(), C19(), C20())}
