//! rs2coq_arith — translate the bodies of `fn add_mod` and `fn sub_mod` of
//! `<repo>/src/lib.rs` into the monadic Gallina of `theories/Machine.v`.
//!
//! usage: rs2coq_arith <repo> <out.v> [<out.rs>]
//!
//! `<out.v>`  receives `gen_add_mod`, `gen_sub_mod : Z -> Z -> Z -> M Z`;
//! `<out.rs>` (optional) receives the verbatim source text of the two
//!            functions (written before translation starts, so that it exists
//!            even when the translation is refused).
//!
//! The translation is compositional: a small expression / statement translator
//! for straight-line `usize` arithmetic. Every checked operation (`+ - * %`)
//! becomes a monadic operation bound to a fresh name, in rustc's evaluation
//! order (left operand first). Anything that is not explicitly supported makes
//! the tool exit with status 1 and a message; nothing is ever skipped.

use proc_macro2::Span;
use std::collections::{HashMap, HashSet};
use std::fmt::Write as _;
use syn::spanned::Spanned;
use syn::{BinOp, Expr, Item, ItemFn, Lit, Pat, Stmt, UnOp};

type Res<T> = Result<T, String>;

const TARGETS: [&str; 2] = ["add_mod", "sub_mod"];

/// identifiers of the source that would capture a name the output uses
const RESERVED: &[&str] = &[
    "W", "usize_max", "ret", "bind", "panic", "dassert", "assert_", "uadd", "usub", "umul",
    "urem", "overflowing_add", "checked_add", "checked_sub", "b2z", "negb", "andb", "orb", "Z",
    "M", "tt", "true", "false", "Some", "None", "Ok", "Panic", "PExpect", "mod", "if", "then",
    "else", "let", "in", "fun", "match", "with", "end", "as", "return", "forall", "exists", "fix",
    "cofix", "Type", "Prop", "Set", "SProp", "at", "using", "where", "for", "IF", "_",
];

fn at(sp: Span) -> String {
    let s = sp.start();
    format!("src/lib.rs:{}:{}", s.line, s.column + 1)
}

fn unsupported<T>(what: &str, sp: Span) -> Res<T> {
    Err(format!("{}: unsupported construct: {}", at(sp), what))
}

// ---------------------------------------------------------------- terms

#[derive(Clone, Debug, PartialEq)]
enum Ty {
    Usize,
    Bool,
    Unit,
    OptUsize,
    Tuple(Vec<Ty>),
}

impl Ty {
    fn show(&self) -> String {
        match self {
            Ty::Usize => "usize".into(),
            Ty::Bool => "bool".into(),
            Ty::Unit => "()".into(),
            Ty::OptUsize => "Option<usize>".into(),
            Ty::Tuple(v) => format!("({})", v.iter().map(|t| t.show()).collect::<Vec<_>>().join(", ")),
        }
    }
}

/// a pure Gallina term (no machine effect)
#[derive(Clone, Debug)]
struct Val {
    tm: String,
    ty: Ty,
    atomic: bool,
}

impl Val {
    fn atom(tm: impl Into<String>, ty: Ty) -> Val {
        Val { tm: tm.into(), ty, atomic: true }
    }
    fn app(tm: String, ty: Ty) -> Val {
        Val { tm, ty, atomic: false }
    }
    fn paren(&self) -> String {
        if self.atomic { self.tm.clone() } else { format!("({})", self.tm) }
    }
}

/// a computation in the monad M
#[derive(Clone, Debug)]
enum Comp {
    Ret(Val),
    Op(String, Vec<Val>, Ty),
    If(Val, Box<Comp>, Box<Comp>, Ty),
    /// `x <- c;; k`, `'(a, b) <- c;; k` or `c;; k`
    Bind(Option<String>, Box<Comp>, Box<Comp>),
    /// `let x := v in k` or `let '(a, b) := v in k`
    Let(String, Val, Box<Comp>),
}

impl Comp {
    fn ty(&self) -> Ty {
        match self {
            Comp::Ret(v) => v.ty.clone(),
            Comp::Op(_, _, t) | Comp::If(_, _, _, t) => t.clone(),
            Comp::Bind(_, _, k) | Comp::Let(_, _, k) => k.ty(),
        }
    }
    fn simple(&self) -> bool {
        matches!(self, Comp::Ret(_) | Comp::Op(..))
    }
}

/// what has to run before the expression at hand, in evaluation order
enum Pre {
    Bind(Option<String>, Comp),
    Let(String, Val),
}

fn wrap(pre: Vec<Pre>, tail: Comp) -> Comp {
    let mut c = tail;
    for p in pre.into_iter().rev() {
        c = match p {
            Pre::Bind(n, m) => Comp::Bind(n, Box::new(m), Box::new(c)),
            Pre::Let(n, v) => Comp::Let(n, v, Box::new(c)),
        };
    }
    c
}

// ---------------------------------------------------------------- printing

fn pad(n: usize) -> String {
    " ".repeat(n)
}

fn inline(c: &Comp) -> String {
    match c {
        Comp::Ret(v) => format!("ret {}", v.paren()),
        Comp::Op(f, args, _) => {
            let mut s = f.clone();
            for a in args {
                s.push(' ');
                s.push_str(&a.paren());
            }
            s
        }
        _ => unreachable!(),
    }
}

/// a computation used as the first argument of a bind or as a branch
fn boxed(c: &Comp, ind: usize) -> String {
    if c.simple() {
        inline(c)
    } else {
        format!("(\n{}\n{})", render(c, ind + 2), pad(ind))
    }
}

fn render(c: &Comp, ind: usize) -> String {
    let p = pad(ind);
    match c {
        Comp::Ret(_) | Comp::Op(..) => format!("{}{}", p, inline(c)),
        Comp::If(cnd, a, b, _) => format!(
            "{}if {} then\n{}{}\n{}else\n{}{}",
            p, cnd.tm, pad(ind + 2), boxed(a, ind + 2), p, pad(ind + 2), boxed(b, ind + 2)
        ),
        Comp::Bind(Some(x), m, k) => format!("{}{} <- {};;\n{}", p, x, boxed(m, ind), render(k, ind)),
        Comp::Bind(None, m, k) => format!("{}{};;\n{}", p, boxed(m, ind), render(k, ind)),
        Comp::Let(x, v, k) => format!("{}let {} := {} in\n{}", p, x, v.tm, render(k, ind)),
    }
}

// ---------------------------------------------------------------- translation

type Env = HashMap<String, Ty>;

struct Tr {
    /// every identifier that occurs in the function: fresh names avoid them
    used: HashSet<String>,
    counter: usize,
    /// functions already generated: rust name -> arity
    known: HashMap<String, usize>,
    ret_ty: Ty,
    uses_unwrap: bool,
}

fn no_attrs(attrs: &[syn::Attribute], sp: Span) -> Res<()> {
    if attrs.is_empty() { Ok(()) } else { unsupported("attribute on an expression or statement", sp) }
}

fn path_segments(p: &syn::ExprPath) -> Res<Vec<String>> {
    if p.qself.is_some() || p.path.leading_colon.is_some() {
        return unsupported("qualified path", p.span());
    }
    let mut v = vec![];
    for s in &p.path.segments {
        if !s.arguments.is_none() {
            return unsupported("path with generic arguments", p.span());
        }
        v.push(s.ident.to_string());
    }
    Ok(v)
}

fn type_of(t: &syn::Type) -> Res<Ty> {
    match t {
        syn::Type::Paren(p) => type_of(&p.elem),
        syn::Type::Path(p) if p.qself.is_none() && p.path.is_ident("usize") => Ok(Ty::Usize),
        syn::Type::Path(p) if p.qself.is_none() && p.path.is_ident("bool") => Ok(Ty::Bool),
        syn::Type::Tuple(tt) => {
            let v = tt.elems.iter().map(type_of).collect::<Res<Vec<_>>>()?;
            Ok(if v.is_empty() { Ty::Unit } else { Ty::Tuple(v) })
        }
        _ => unsupported("type other than usize / bool / tuples of them", t.span()),
    }
}

fn check_ident(id: &syn::Ident) -> Res<String> {
    let s = id.to_string();
    if !s.chars().all(|c| c.is_ascii_alphanumeric() || c == '_') {
        return unsupported(&format!("identifier `{}`", s), id.span());
    }
    if RESERVED.contains(&s.as_str()) || s.starts_with("gen_") {
        return Err(format!("{}: identifier `{}` clashes with a name of the Coq model", at(id.span()), s));
    }
    Ok(s)
}

impl Tr {
    fn fresh(&mut self) -> String {
        loop {
            self.counter += 1;
            let n = format!("t{}", self.counter);
            if !self.used.contains(&n) {
                self.used.insert(n.clone());
                return n;
            }
        }
    }

    /// does this expression denote a machine computation (vs. a pure value)?
    fn is_comp_form(e: &Expr) -> bool {
        match e {
            Expr::Paren(p) => Tr::is_comp_form(&p.expr),
            Expr::Group(g) => Tr::is_comp_form(&g.expr),
            Expr::Binary(b) => matches!(
                b.op,
                BinOp::Add(_) | BinOp::Sub(_) | BinOp::Mul(_) | BinOp::Rem(_) | BinOp::Div(_)
            ),
            Expr::Call(_) | Expr::If(_) | Expr::Block(_) => true,
            Expr::MethodCall(m) => {
                let n = m.method.to_string();
                n == "unwrap" || n == "expect"
            }
            _ => false,
        }
    }

    /// evaluate to a pure value; what must run first goes to `pre`
    fn val(&mut self, e: &Expr, env: &Env, pre: &mut Vec<Pre>) -> Res<Val> {
        if Tr::is_comp_form(e) {
            let c = self.comp(e, env, pre, false)?;
            let ty = c.ty();
            if ty == Ty::Unit {
                return unsupported("unit-valued expression used as a value", e.span());
            }
            let n = self.fresh();
            pre.push(Pre::Bind(Some(n.clone()), c));
            return Ok(Val::atom(n, ty));
        }
        match e {
            Expr::Paren(p) => {
                no_attrs(&p.attrs, p.span())?;
                self.val(&p.expr, env, pre)
            }
            Expr::Group(g) => {
                no_attrs(&g.attrs, g.span())?;
                self.val(&g.expr, env, pre)
            }
            Expr::Lit(l) => {
                no_attrs(&l.attrs, l.span())?;
                match &l.lit {
                    Lit::Int(i) => {
                        if !(i.suffix().is_empty() || i.suffix() == "usize") {
                            return unsupported(&format!("integer literal with suffix `{}`", i.suffix()), l.span());
                        }
                        let v: u128 = i
                            .base10_parse()
                            .map_err(|_| format!("{}: integer literal out of range", at(l.span())))?;
                        if v > u64::MAX as u128 {
                            return Err(format!("{}: integer literal does not fit in a 64-bit usize", at(l.span())));
                        }
                        Ok(Val::atom(v.to_string(), Ty::Usize))
                    }
                    Lit::Bool(b) => Ok(Val::atom(if b.value { "true" } else { "false" }, Ty::Bool)),
                    _ => unsupported("literal that is neither an integer nor a boolean", l.span()),
                }
            }
            Expr::Path(p) => {
                no_attrs(&p.attrs, p.span())?;
                let segs = path_segments(p)?;
                let segs: Vec<&str> = segs.iter().map(|s| s.as_str()).collect();
                match segs.as_slice() {
                    [x] => match env.get(*x) {
                        Some(t) => Ok(Val::atom(*x, t.clone())),
                        None => Err(format!("{}: unknown variable or constant `{}`", at(p.span()), x)),
                    },
                    ["usize", "MAX"] => Ok(Val::atom("usize_max", Ty::Usize)),
                    ["usize", "MIN"] => Ok(Val::atom("0", Ty::Usize)),
                    _ => unsupported(&format!("path `{}`", segs.join("::")), p.span()),
                }
            }
            Expr::Cast(c) => {
                no_attrs(&c.attrs, c.span())?;
                let v = self.val(&c.expr, env, pre)?;
                let target = type_of(&c.ty)?;
                match (&v.ty, &target) {
                    (Ty::Bool, Ty::Usize) => Ok(Val::app(format!("b2z {}", v.paren()), Ty::Usize)),
                    (Ty::Usize, Ty::Usize) => Ok(v),
                    (Ty::Bool, Ty::Bool) => Ok(v),
                    _ => unsupported(&format!("cast from {} to {}", v.ty.show(), target.show()), c.span()),
                }
            }
            Expr::Unary(u) => {
                no_attrs(&u.attrs, u.span())?;
                let v = self.val(&u.expr, env, pre)?;
                match (&u.op, &v.ty) {
                    (UnOp::Not(_), Ty::Bool) => Ok(Val::app(format!("negb {}", v.paren()), Ty::Bool)),
                    _ => unsupported(&format!("unary operator on {}", v.ty.show()), u.span()),
                }
            }
            Expr::Binary(b) => {
                no_attrs(&b.attrs, b.span())?;
                match b.op {
                    BinOp::And(_) | BinOp::Or(_) => {
                        let l = self.val(&b.left, env, pre)?;
                        let mut rpre = vec![];
                        let r = self.val(&b.right, env, &mut rpre)?;
                        if !rpre.is_empty() {
                            return unsupported(
                                "short-circuit operator whose right operand performs checked arithmetic",
                                b.span(),
                            );
                        }
                        if l.ty != Ty::Bool || r.ty != Ty::Bool {
                            return unsupported("`&&` / `||` on non-booleans", b.span());
                        }
                        let op = if matches!(b.op, BinOp::And(_)) { "&&" } else { "||" };
                        Ok(Val::app(format!("{} {} {}", l.paren(), op, r.paren()), Ty::Bool))
                    }
                    BinOp::Lt(_) | BinOp::Le(_) | BinOp::Gt(_) | BinOp::Ge(_) | BinOp::Eq(_) | BinOp::Ne(_) => {
                        // both operands are evaluated, left first; the comparison itself is pure
                        let l = self.val(&b.left, env, pre)?;
                        let r = self.val(&b.right, env, pre)?;
                        if l.ty != r.ty {
                            return unsupported("comparison of values of different types", b.span());
                        }
                        let (lp, rp) = (l.paren(), r.paren());
                        let tm = match (&b.op, &l.ty) {
                            (BinOp::Lt(_), Ty::Usize) => format!("{} <? {}", lp, rp),
                            (BinOp::Le(_), Ty::Usize) => format!("{} <=? {}", lp, rp),
                            // a > b is b < a, a >= b is b <= a (same truth value on Z)
                            (BinOp::Gt(_), Ty::Usize) => format!("{} <? {}", rp, lp),
                            (BinOp::Ge(_), Ty::Usize) => format!("{} <=? {}", rp, lp),
                            (BinOp::Eq(_), Ty::Usize) => format!("{} =? {}", lp, rp),
                            (BinOp::Ne(_), Ty::Usize) => format!("negb ({} =? {})", lp, rp),
                            (BinOp::Eq(_), Ty::Bool) => format!("Bool.eqb {} {}", lp, rp),
                            (BinOp::Ne(_), Ty::Bool) => format!("xorb {} {}", lp, rp),
                            _ => return unsupported(&format!("comparison on {}", l.ty.show()), b.span()),
                        };
                        Ok(Val::app(tm, Ty::Bool))
                    }
                    _ => unsupported("binary operator (only + - * % < <= > >= == != && || are known)", b.span()),
                }
            }
            Expr::MethodCall(m) => {
                no_attrs(&m.attrs, m.span())?;
                if m.turbofish.is_some() {
                    return unsupported("method call with turbofish", m.span());
                }
                let name = m.method.to_string();
                let recv = self.val(&m.receiver, env, pre)?;
                let mut args = vec![];
                for a in &m.args {
                    args.push(self.val(a, env, pre)?);
                }
                let all_usize = recv.ty == Ty::Usize && args.iter().all(|a| a.ty == Ty::Usize);
                let bin = |f: &str, ty: Ty| -> Val {
                    Val::app(format!("{} {} {}", f, recv.paren(), args[0].paren()), ty)
                };
                match (name.as_str(), args.len()) {
                    ("overflowing_add", 1) if all_usize => {
                        Ok(bin("overflowing_add", Ty::Tuple(vec![Ty::Usize, Ty::Bool])))
                    }
                    ("checked_add", 1) if all_usize => Ok(bin("checked_add", Ty::OptUsize)),
                    ("checked_sub", 1) if all_usize => Ok(bin("checked_sub", Ty::OptUsize)),
                    ("wrapping_add", 1) if all_usize => Ok(Val::app(
                        format!("({} + {}) mod W", recv.paren(), args[0].paren()),
                        Ty::Usize,
                    )),
                    ("wrapping_sub", 1) if all_usize => Ok(Val::app(
                        format!("({} - {}) mod W", recv.paren(), args[0].paren()),
                        Ty::Usize,
                    )),
                    ("wrapping_mul", 1) if all_usize => Ok(Val::app(
                        format!("({} * {}) mod W", recv.paren(), args[0].paren()),
                        Ty::Usize,
                    )),
                    ("min", 1) if all_usize => Ok(bin("Z.min", Ty::Usize)),
                    ("max", 1) if all_usize => Ok(bin("Z.max", Ty::Usize)),
                    _ => unsupported(
                        &format!("method `{}` on {} with {} argument(s)", name, recv.ty.show(), args.len()),
                        m.span(),
                    ),
                }
            }
            Expr::Tuple(t) => {
                no_attrs(&t.attrs, t.span())?;
                if t.elems.len() < 2 {
                    return unsupported("unit or 1-tuple expression", t.span());
                }
                let mut vs = vec![];
                for x in &t.elems {
                    vs.push(self.val(x, env, pre)?);
                }
                Ok(Val::atom(
                    format!("({})", vs.iter().map(|v| v.tm.clone()).collect::<Vec<_>>().join(", ")),
                    Ty::Tuple(vs.iter().map(|v| v.ty.clone()).collect()),
                ))
            }
            Expr::Return(r) => Err(format!(
                "{}: `return` inside an expression is not supported (only as a statement)",
                at(r.span())
            )),
            other => unsupported(&describe(other), other.span()),
        }
    }

    /// the machine computation an expression stands for; operands go to `pre`.
    /// `tail`: the value of this expression is the value of the function, so
    /// branches may `return`.
    fn comp(&mut self, e: &Expr, env: &Env, pre: &mut Vec<Pre>, tail: bool) -> Res<Comp> {
        if !Tr::is_comp_form(e) {
            return Ok(Comp::Ret(self.val(e, env, pre)?));
        }
        match e {
            Expr::Paren(p) => {
                no_attrs(&p.attrs, p.span())?;
                self.comp(&p.expr, env, pre, tail)
            }
            Expr::Group(g) => {
                no_attrs(&g.attrs, g.span())?;
                self.comp(&g.expr, env, pre, tail)
            }
            Expr::Binary(b) => {
                no_attrs(&b.attrs, b.span())?;
                let op = match b.op {
                    BinOp::Add(_) => "uadd",
                    BinOp::Sub(_) => "usub",
                    BinOp::Mul(_) => "umul",
                    BinOp::Rem(_) => "urem",
                    _ => return unsupported("binary operator `/` (no model operation)", b.span()),
                };
                let l = self.val(&b.left, env, pre)?;
                let r = self.val(&b.right, env, pre)?;
                if l.ty != Ty::Usize || r.ty != Ty::Usize {
                    return unsupported("arithmetic on a non-usize value", b.span());
                }
                Ok(Comp::Op(op.into(), vec![l, r], Ty::Usize))
            }
            Expr::Call(c) => {
                no_attrs(&c.attrs, c.span())?;
                let f = match &*c.func {
                    Expr::Path(p) => path_segments(p)?,
                    other => return unsupported("call of something that is not a plain function name", other.span()),
                };
                let name = match f.as_slice() {
                    [n] => n.clone(),
                    [k, n] if k == "crate" || k == "self" => n.clone(),
                    _ => return unsupported(&format!("call of `{}`", f.join("::")), c.span()),
                };
                let arity = match self.known.get(&name) {
                    Some(a) => *a,
                    None => {
                        return unsupported(
                            &format!("call of `{}` (only calls of functions translated earlier are known)", name),
                            c.span(),
                        )
                    }
                };
                if c.args.len() != arity {
                    return unsupported("call with a wrong number of arguments", c.span());
                }
                let mut args = vec![];
                for a in &c.args {
                    let v = self.val(a, env, pre)?;
                    if v.ty != Ty::Usize {
                        return unsupported("non-usize argument", a.span());
                    }
                    args.push(v);
                }
                Ok(Comp::Op(format!("gen_{}", name), args, Ty::Usize))
            }
            Expr::MethodCall(m) => {
                // unwrap / expect on an Option<usize>
                no_attrs(&m.attrs, m.span())?;
                let name = m.method.to_string();
                let recv = self.val(&m.receiver, env, pre)?;
                if recv.ty != Ty::OptUsize {
                    return unsupported(&format!("`{}` on {}", name, recv.ty.show()), m.span());
                }
                match (name.as_str(), m.args.len()) {
                    ("unwrap", 0) => {}
                    ("expect", 1) => match &m.args[0] {
                        Expr::Lit(l) if matches!(l.lit, Lit::Str(_)) => {}
                        other => return unsupported("expect with a non-literal message", other.span()),
                    },
                    _ => return unsupported(&format!("method `{}`", name), m.span()),
                }
                self.uses_unwrap = true;
                Ok(Comp::Op("gen_unwrap".into(), vec![recv], Ty::Usize))
            }
            Expr::If(i) => {
                no_attrs(&i.attrs, i.span())?;
                if matches!(&*i.cond, Expr::Let(_)) {
                    return unsupported("if let", i.span());
                }
                let c = self.val(&i.cond, env, pre)?;
                if c.ty != Ty::Bool {
                    return unsupported("non-boolean condition", i.cond.span());
                }
                let els = match &i.else_branch {
                    Some((_, e)) => e,
                    None => return unsupported("`if` without `else` used as a value", i.span()),
                };
                let (a, adiv) = self.block(&i.then_branch.stmts, env.clone(), tail)?;
                let mut bpre = vec![];
                let b = self.comp(els, env, &mut bpre, tail)?;
                let b = wrap(bpre, b);
                // a branch that returns has the type of the function, which in
                // tail position is the type of the whole `if`
                let _ = adiv;
                let (ta, tb) = (a.ty(), b.ty());
                if ta != tb {
                    return unsupported(
                        &format!("`if` whose branches have types {} and {}", ta.show(), tb.show()),
                        i.span(),
                    );
                }
                Ok(Comp::If(c, Box::new(a), Box::new(b), ta))
            }
            Expr::Block(b) => {
                no_attrs(&b.attrs, b.span())?;
                if b.label.is_some() {
                    return unsupported("labelled block", b.span());
                }
                let (c, _) = self.block(&b.block.stmts, env.clone(), tail)?;
                Ok(c)
            }
            other => unsupported(&describe(other), other.span()),
        }
    }

    fn bind_pattern(&mut self, p: &Pat, ty: &Ty, env: &mut Env) -> Res<String> {
        match p {
            Pat::Ident(pi) => {
                no_attrs(&pi.attrs, pi.span())?;
                if pi.by_ref.is_some() || pi.mutability.is_some() || pi.subpat.is_some() {
                    return unsupported("`mut`, `ref` or `@` binding", pi.span());
                }
                let n = check_ident(&pi.ident)?;
                env.insert(n.clone(), ty.clone());
                Ok(n)
            }
            Pat::Wild(_) => Ok("_".into()),
            Pat::Paren(pp) => self.bind_pattern(&pp.pat, ty, env),
            Pat::Type(pt) => {
                no_attrs(&pt.attrs, pt.span())?;
                let t = type_of(&pt.ty)?;
                if &t != ty {
                    return Err(format!(
                        "{}: binding annotated {} receives a value of type {}",
                        at(pt.span()), t.show(), ty.show()
                    ));
                }
                self.bind_pattern(&pt.pat, ty, env)
            }
            Pat::Tuple(pt) => {
                no_attrs(&pt.attrs, pt.span())?;
                let tys = match ty {
                    Ty::Tuple(v) if v.len() == pt.elems.len() => v.clone(),
                    _ => return unsupported(&format!("tuple pattern against {}", ty.show()), pt.span()),
                };
                let mut names = vec![];
                for (q, t) in pt.elems.iter().zip(tys.iter()) {
                    match q {
                        Pat::Ident(_) | Pat::Wild(_) => names.push(self.bind_pattern(q, t, env)?),
                        _ => return unsupported("nested pattern", q.span()),
                    }
                }
                Ok(format!("'({})", names.join(", ")))
            }
            other => unsupported("pattern (only names, `_` and flat tuples are known)", other.span()),
        }
    }

    fn assertion(&mut self, mac: &syn::Macro, env: &Env, pre: &mut Vec<Pre>) -> Res<()> {
        let name = mac.path.segments.iter().map(|s| s.ident.to_string()).collect::<Vec<_>>().join("::");
        let args: Vec<Expr> = mac
            .parse_body_with(syn::punctuated::Punctuated::<Expr, syn::Token![,]>::parse_terminated)
            .map_err(|e| format!("{}: cannot parse the arguments of {}!: {}", at(mac.span()), name, e))?
            .into_iter()
            .collect();
        let (op, ncond) = match name.as_str() {
            "debug_assert" => ("dassert", 1),
            "assert" => ("assert_", 1),
            "debug_assert_eq" | "debug_assert_ne" => ("dassert", 2),
            "assert_eq" | "assert_ne" => ("assert_", 2),
            _ => return unsupported(&format!("macro `{}!`", name), mac.span()),
        };
        if args.len() < ncond {
            return unsupported("assertion without a condition", mac.span());
        }
        // a message is only evaluated when the assertion fails; a plain string is harmless
        match &args[ncond..] {
            [] => {}
            [Expr::Lit(l)] if matches!(l.lit, Lit::Str(_)) => {}
            _ => return unsupported("assertion message with format arguments", mac.span()),
        }
        // a debug assertion is not evaluated at all in a release build: its
        // operands must not contain operations that could panic by themselves
        let mut own: Vec<Pre> = vec![];
        let debug_only = op == "dassert";
        let cond = if ncond == 1 {
            self.val(&args[0], env, &mut own)?
        } else {
            let a = self.val(&args[0], env, &mut own)?;
            let b = self.val(&args[1], env, &mut own)?;
            if a.ty != Ty::Usize || b.ty != Ty::Usize {
                return unsupported("assert_eq / assert_ne on non-usize values", mac.span());
            }
            let eq = format!("{} =? {}", a.paren(), b.paren());
            if name.ends_with("_ne") {
                Val::app(format!("negb ({})", eq), Ty::Bool)
            } else {
                Val::app(eq, Ty::Bool)
            }
        };
        if cond.ty != Ty::Bool {
            return unsupported("assertion on a non-boolean", mac.span());
        }
        if debug_only && !own.is_empty() {
            return unsupported(
                "debug assertion whose condition performs checked arithmetic (not evaluated in release builds)",
                mac.span(),
            );
        }
        pre.append(&mut own);
        pre.push(Pre::Bind(None, Comp::Op(op.into(), vec![cond], Ty::Unit)));
        Ok(())
    }

    /// a statement list. `tail`: falling off the end of this list (or
    /// returning from inside it) ends the function. The flag in the result says
    /// whether every path through the list ends in `return`.
    fn block(&mut self, stmts: &[Stmt], mut env: Env, tail: bool) -> Res<(Comp, bool)> {
        let mut pre: Vec<Pre> = vec![];
        for (i, st) in stmts.iter().enumerate() {
            let last = i + 1 == stmts.len();
            match st {
                Stmt::Local(l) => {
                    no_attrs(&l.attrs, l.span())?;
                    let init = match &l.init {
                        Some(init) => init,
                        None => return unsupported("`let` without initialiser", l.span()),
                    };
                    if init.diverge.is_some() {
                        return unsupported("let-else", l.span());
                    }
                    let c = self.comp(&init.expr, &env, &mut pre, false)?;
                    let ty = c.ty();
                    let name = self.bind_pattern(&l.pat, &ty, &mut env)?;
                    match c {
                        Comp::Ret(v) => pre.push(Pre::Let(name, v)),
                        c => pre.push(Pre::Bind(Some(name), c)),
                    }
                }
                Stmt::Macro(m) => {
                    no_attrs(&m.attrs, m.span())?;
                    self.assertion(&m.mac, &env, &mut pre)?;
                }
                Stmt::Item(it) => return unsupported("item inside a function body", it.span()),
                Stmt::Expr(Expr::Return(r), _) => {
                    no_attrs(&r.attrs, r.span())?;
                    if !tail {
                        return Err(format!(
                            "{}: `return` from inside a nested expression is not supported",
                            at(r.span())
                        ));
                    }
                    if !last {
                        return Err(format!("{}: code after `return`", at(stmts[i + 1].span())));
                    }
                    let c = match &r.expr {
                        Some(e) => self.comp(e, &env, &mut pre, false)?,
                        None => Comp::Ret(Val::atom("tt", Ty::Unit)),
                    };
                    if c.ty() != self.ret_ty {
                        return Err(format!(
                            "{}: `return` of a {} in a function returning {}",
                            at(r.span()), c.ty().show(), self.ret_ty.show()
                        ));
                    }
                    return Ok((wrap(pre, c), true));
                }
                // `if c { ...; return e; }` followed by the rest of the block
                Stmt::Expr(Expr::If(f), _) if !last => {
                    no_attrs(&f.attrs, f.span())?;
                    if f.else_branch.is_some() {
                        return unsupported("`if`/`else` statement that is not the last of its block", f.span());
                    }
                    if !tail {
                        return unsupported("`if` statement inside a nested expression", f.span());
                    }
                    if matches!(&*f.cond, Expr::Let(_)) {
                        return unsupported("if let", f.span());
                    }
                    let c = self.val(&f.cond, &env, &mut pre)?;
                    if c.ty != Ty::Bool {
                        return unsupported("non-boolean condition", f.cond.span());
                    }
                    let (a, adiv) = self.block(&f.then_branch.stmts, env.clone(), true)?;
                    if !adiv {
                        return unsupported("`if` statement whose body does not end in `return`", f.span());
                    }
                    let (b, bdiv) = self.block(&stmts[i + 1..], env.clone(), true)?;
                    if a.ty() != b.ty() {
                        return Err(format!(
                            "{}: early return of a {} but the rest of the block yields {}",
                            at(f.span()), a.ty().show(), b.ty().show()
                        ));
                    }
                    let ty = a.ty();
                    return Ok((wrap(pre, Comp::If(c, Box::new(a), Box::new(b), ty)), bdiv));
                }
                Stmt::Expr(e, semi) => {
                    if last && semi.is_none() {
                        let c = self.comp(e, &env, &mut pre, tail)?;
                        return Ok((wrap(pre, c), false));
                    }
                    // an expression statement: evaluated for its checks, value dropped
                    let c = self.comp(e, &env, &mut pre, false)?;
                    if c.ty() != Ty::Unit && semi.is_none() {
                        return unsupported("value-producing expression statement without `;`", e.span());
                    }
                    pre.push(Pre::Bind(None, c));
                }
            }
        }
        Ok((wrap(pre, Comp::Ret(Val::atom("tt", Ty::Unit))), false))
    }
}

fn describe(e: &Expr) -> String {
    let dbg = format!("{:?}", e);
    let kind = dbg.split(|c: char| !c.is_alphanumeric() && c != ':').next().unwrap_or("expression");
    format!("expression of kind {}", kind)
}

// ---------------------------------------------------------------- functions

fn collect_idents(ts: proc_macro2::TokenStream, out: &mut HashSet<String>) {
    for t in ts {
        match t {
            proc_macro2::TokenTree::Ident(i) => {
                out.insert(i.to_string());
            }
            proc_macro2::TokenTree::Group(g) => collect_idents(g.stream(), out),
            _ => {}
        }
    }
}

struct Generated {
    text: String,
    uses_unwrap: bool,
}

fn translate_fn(f: &ItemFn, known: &HashMap<String, usize>) -> Res<Generated> {
    let name = f.sig.ident.to_string();
    for a in &f.attrs {
        let p = a.path();
        if !(p.is_ident("inline") || p.is_ident("doc") || p.is_ident("must_use")) {
            return unsupported(
                &format!("attribute `{}` on fn {}", quote::ToTokens::to_token_stream(a), name),
                a.span(),
            );
        }
    }
    let s = &f.sig;
    if s.unsafety.is_some() || s.asyncness.is_some() || s.abi.is_some() || s.variadic.is_some() {
        return unsupported("unsafe / async / extern function", s.span());
    }
    if !s.generics.params.is_empty() || s.generics.where_clause.is_some() {
        return unsupported("generic function", s.generics.span());
    }
    let mut env: Env = HashMap::new();
    let mut params = vec![];
    for a in &s.inputs {
        match a {
            syn::FnArg::Typed(pt) => {
                no_attrs(&pt.attrs, pt.span())?;
                let n = match &*pt.pat {
                    Pat::Ident(pi) if pi.by_ref.is_none() && pi.mutability.is_none() && pi.subpat.is_none() => {
                        check_ident(&pi.ident)?
                    }
                    other => return unsupported("parameter pattern", other.span()),
                };
                if type_of(&pt.ty)? != Ty::Usize {
                    return unsupported("parameter that is not a usize", pt.ty.span());
                }
                if env.insert(n.clone(), Ty::Usize).is_some() {
                    return unsupported("duplicate parameter", pt.span());
                }
                params.push(n);
            }
            syn::FnArg::Receiver(r) => return unsupported("self parameter", r.span()),
        }
    }
    if params.len() != 3 {
        return Err(format!("{}: fn {} takes {} parameters, expected 3", at(s.span()), name, params.len()));
    }
    let ret_ty = match &s.output {
        syn::ReturnType::Type(_, t) => type_of(t)?,
        syn::ReturnType::Default => Ty::Unit,
    };
    if ret_ty != Ty::Usize {
        return Err(format!("{}: fn {} returns {}, expected usize", at(s.span()), name, ret_ty.show()));
    }
    let mut used = HashSet::new();
    collect_idents(quote::ToTokens::to_token_stream(f), &mut used);
    let mut tr = Tr { used, counter: 0, known: known.clone(), ret_ty: ret_ty.clone(), uses_unwrap: false };
    let (body, _) = tr.block(&f.block.stmts, env, true)?;
    if body.ty() != ret_ty {
        return Err(format!(
            "{}: the body of fn {} yields {}, expected {}",
            at(f.block.span()), name, body.ty().show(), ret_ty.show()
        ));
    }
    let (a, b) = (f.span().start().line, f.span().end().line);
    let mut text = String::new();
    writeln!(text, "(* fn {}: src/lib.rs:{}-{} *)", name, a, b).unwrap();
    writeln!(text, "Definition gen_{} ({} : Z) : M Z :=", name, params.join(" ")).unwrap();
    writeln!(text, "{}.", render(&body, 2)).unwrap();
    Ok(Generated { text, uses_unwrap: tr.uses_unwrap })
}

/// all `fn` items (free, in inline modules, in impl blocks) with one of the names
fn find_fns<'a>(items: &'a [Item], names: &[&str], out: &mut Vec<(&'a syn::Ident, Option<&'a ItemFn>, bool)>) {
    let is_test = |attrs: &[syn::Attribute]| attrs.iter().any(|a| a.path().is_ident("test"));
    for it in items {
        match it {
            Item::Fn(f) if names.contains(&f.sig.ident.to_string().as_str()) => {
                out.push((&f.sig.ident, Some(f), is_test(&f.attrs)));
            }
            Item::Mod(m) => {
                if let Some((_, sub)) = &m.content {
                    find_fns(sub, names, out);
                }
            }
            Item::Impl(im) => {
                for ii in &im.items {
                    if let syn::ImplItem::Fn(f) = ii {
                        if names.contains(&f.sig.ident.to_string().as_str()) {
                            out.push((&f.sig.ident, None, is_test(&f.attrs)));
                        }
                    }
                }
            }
            Item::Trait(t) => {
                for ti in &t.items {
                    if let syn::TraitItem::Fn(f) = ti {
                        if names.contains(&f.sig.ident.to_string().as_str()) {
                            out.push((&f.sig.ident, None, false));
                        }
                    }
                }
            }
            _ => {}
        }
    }
}

fn slice_source(src: &str, sp: Span) -> String {
    // line is 1-based, column 0-based in characters
    let lines: Vec<&str> = src.split_inclusive('\n').collect();
    let off = |lc: proc_macro2::LineColumn| -> usize {
        let mut o: usize = lines[..lc.line - 1].iter().map(|l| l.len()).sum();
        o += lines[lc.line - 1].chars().take(lc.column).map(|c| c.len_utf8()).sum::<usize>();
        o
    };
    src[off(sp.start())..off(sp.end())].to_string()
}

fn run() -> Res<()> {
    let args: Vec<String> = std::env::args().collect();
    if args.len() < 3 || args.len() > 4 {
        return Err("usage: rs2coq_arith <repo> <out.v> [<out.rs>]".into());
    }
    let repo = std::path::Path::new(&args[1]);
    let lib = repo.join("src").join("lib.rs");
    let src = std::fs::read_to_string(&lib).map_err(|e| format!("cannot read {}: {}", lib.display(), e))?;
    let file = syn::parse_file(&src).map_err(|e| {
        format!("cannot parse {}: {} (line {})", lib.display(), e, e.span().start().line)
    })?;

    // exactly one definition of each function in lib.rs, at the crate root
    let mut found = vec![];
    find_fns(&file.items, &TARGETS, &mut found);
    let mut fns: Vec<&ItemFn> = vec![];
    for t in TARGETS {
        let here: Vec<_> = found.iter().filter(|(id, _, _)| *id == t).collect();
        if here.len() != 1 {
            return Err(format!("src/lib.rs: expected exactly one `fn {}`, found {}", t, here.len()));
        }
        let at_root = file.items.iter().any(|it| matches!(it, Item::Fn(f) if f.sig.ident == t));
        match here[0].1 {
            Some(f) if at_root => fns.push(f),
            _ => return Err(format!("src/lib.rs: `fn {}` is not a free function at the crate root", t)),
        }
    }
    // no other module may define (and thereby shadow) a function of that name
    let srcdir = repo.join("src");
    let mut stack = vec![srcdir.clone()];
    while let Some(d) = stack.pop() {
        let rd = std::fs::read_dir(&d).map_err(|e| format!("cannot list {}: {}", d.display(), e))?;
        for ent in rd {
            let p = ent.map_err(|e| e.to_string())?.path();
            if p.is_dir() {
                stack.push(p);
            } else if p.extension().map(|x| x == "rs").unwrap_or(false) && p != lib {
                let s = std::fs::read_to_string(&p).map_err(|e| format!("cannot read {}: {}", p.display(), e))?;
                let f = syn::parse_file(&s).map_err(|e| format!("cannot parse {}: {}", p.display(), e))?;
                let mut other = vec![];
                find_fns(&f.items, &TARGETS, &mut other);
                for (id, _, is_test) in other {
                    if !is_test {
                        return Err(format!(
                            "{}:{}: another definition of `fn {}` (it would shadow the translated one)",
                            p.display(), id.span().start().line, id
                        ));
                    }
                }
            }
        }
    }
    fns.sort_by_key(|f| f.span().start().line);

    // the verbatim source first: it must exist even if the translation is refused
    if args.len() == 4 {
        let mut rs = String::new();
        for f in &fns {
            rs.push_str(&slice_source(&src, f.span()));
            rs.push_str("\n\n");
        }
        std::fs::write(&args[3], rs).map_err(|e| format!("cannot write {}: {}", args[3], e))?;
    }

    let mut known: HashMap<String, usize> = HashMap::new();
    let mut defs = String::new();
    let mut uses_unwrap = false;
    for f in &fns {
        let g = translate_fn(f, &known).map_err(|e| format!("fn {}: {}", f.sig.ident, e))?;
        uses_unwrap |= g.uses_unwrap;
        defs.push_str(&g.text);
        defs.push('\n');
        known.insert(f.sig.ident.to_string(), 3);
        println!(
            "translated fn {} src/lib.rs:{}-{}",
            f.sig.ident, f.span().start().line, f.span().end().line
        );
    }
    let mut out = String::new();
    out.push_str("(* ArithGen.v — GENERATED by tools/rs2coq_arith from src/lib.rs. Do not edit. *)\n\n");
    out.push_str("From CB Require Import Machine.\nOpen Scope Z_scope.\n\n");
    if uses_unwrap {
        out.push_str(
            "Definition gen_unwrap (o : option Z) : M Z :=\n  match o with Some v => ret v | None => panic PExpect end.\n\n",
        );
    }
    out.push_str(&defs);
    std::fs::write(&args[2], out).map_err(|e| format!("cannot write {}: {}", args[2], e))?;
    Ok(())
}

fn main() {
    if let Err(e) = run() {
        eprintln!("rs2coq_arith: {}", e);
        std::process::exit(1);
    }
}
