//! the iterator / comparison / formatting / hashing adaptors of std the trait impls use, each
//! rendered as the combinator of `theories/Traits.v` the hand-written model is built from (see the
//! entries marked [adaptor] of `stdtab.rs`)

use crate::expr::*;
use crate::ir::*;
use crate::tr::*;
use proc_macro2::Span;
use syn::spanned::Spanned;
use syn::Expr;

impl<'a> Tr<'a> {
    /// the fuel the hand-written model gives the next loop of this function. `{N}`, `{size}`: read
    /// from the state; `{iter}`: the iterator the adaptor consumes; `{x}`: a usize variable
    pub fn fuel_term(&mut self, iter: Option<&Val>, env: &Env, pre: &mut Vec<Pre>, sp: Span) -> Res<String> {
        let k = self.fuel_ix;
        self.fuel_ix += 1;
        let tpl = match self.fuel.get(k) {
            Some(f) => *f,
            None => return unsupported("loop for which no bound on the number of iterations (fuel) is recorded", sp),
        };
        let mut fuel = tpl.to_string();
        while let Some(a) = fuel.find('{') {
            let b = fuel[a..].find('}').map(|k| a + k).ok_or("internal: bad fuel template")?;
            let what = fuel[a + 1..b].to_string();
            let v: Val = match what.as_str() {
                "N" => {
                    let n = self.fresh();
                    self.emit(pre, env, Some(n.clone()), Comp::Op("get_cap".into(), vec![], Ty::Usize))?;
                    Val::atom(n, Ty::Usize)
                }
                "size" => {
                    let n = self.fresh();
                    self.emit(pre, env, Some(n.clone()), Comp::Op("get_size".into(), vec![], Ty::Usize))?;
                    Val::atom(n, Ty::Usize)
                }
                "iter" => match iter {
                    Some(v) => v.clone(),
                    None => return Err(format!("{}: the fuel of this loop is stated in terms of an iterator, and there is none here", at(sp))),
                },
                x => match env.get(x) {
                    Some(v) if v.ty == Ty::Usize => v.clone(),
                    _ => return Err(format!("{}: the fuel of this loop is stated in terms of `{}`, which is not a usize variable here", at(sp), x)),
                },
            };
            fuel.replace_range(a..=b, &v.paren());
        }
        Ok(fuel)
    }

    /// the element operation the bounds of the impl give this function (eqf / cmpf)
    pub fn fparam(&self, name: &str, why: &str, sp: Span) -> Res<Val> {
        if self.me.fparams.iter().any(|(n, _)| n == name) {
            Ok(Val::atom(name, Ty::Any))
        } else {
            unsupported(&format!("{} in a function whose impl does not bound T accordingly", why), sp)
        }
    }

    /// `|x| body` -> (the Coq name of x, the body): the closure an adaptor runs on every item. It
    /// cannot leave the function, cannot assign to the variables of the function, and the locals
    /// with a destructor of the function are out of the picture (the adaptor as a whole runs under them)
    pub fn closure_body(&mut self, e: &Expr, item: Ty, env: &Env) -> Res<(String, Comp)> {
        let cl = match strip(e) {
            Expr::Closure(cl) => cl,
            other => return unsupported("adaptor argument that is not a closure", other.span()),
        };
        if !cl.attrs.is_empty()
            || cl.lifetimes.is_some()
            || cl.constness.is_some()
            || cl.movability.is_some()
            || cl.asyncness.is_some()
            || cl.capture.is_some()
            || cl.inputs.len() != 1
            || !matches!(cl.output, syn::ReturnType::Default)
        {
            return unsupported("closure other than `|x| body`", cl.span());
        }
        if self.in_loop {
            return unsupported("adaptor inside a loop or inside the closure of another adaptor", cl.span());
        }
        let mut env_c = env.clone();
        let x = self.bind_pattern(&cl.inputs[0], &Val::atom("_", item.clone()), &mut env_c)?;
        let owned = item == Ty::Elem;
        let pname = match &cl.inputs[0] {
            syn::Pat::Ident(pi) => Some(pi.ident.to_string()),
            _ => None,
        };
        let saved = (self.can_return, std::mem::take(&mut self.live), self.in_loop, self.self_out, std::mem::take(&mut self.outs));
        self.can_return = false;
        self.in_loop = true;
        self.self_out = false;
        if let (true, Some(n)) = (owned, &pname) {
            // an item received by value is the closure's to destroy
            self.live.push(n.clone());
        }
        let r = (|| -> Res<Comp> {
            let mut cpre = vec![];
            let c = self.comp(&cl.body, &mut env_c, &mut cpre, false)?;
            let c = match c.ty() {
                Ty::Unit => c,
                other => return unsupported(&format!("closure of an adaptor with a value (a {})", other.show()), cl.body.span()),
            };
            // what the closure still owns at its end is destroyed there
            let still: Vec<String> = self.live.clone();
            let mut c = wrap(std::mem::take(&mut cpre), c);
            for n in still.iter().rev() {
                let cl = self.cleanup_of(n, &env_c)?;
                c = then_leaf(c, cl);
            }
            Ok(c)
        })();
        self.can_return = saved.0;
        self.live = saved.1;
        self.in_loop = saved.2;
        self.self_out = saved.3;
        self.outs = saved.4;
        let body = simplify(r?);
        let mut outer = env.clone();
        if let Some(n) = &pname {
            outer.remove(n);
            env_c.remove(n);
        }
        if !self.changed(&outer, &env_c).is_empty() {
            return unsupported("closure that assigns to variables of the function", cl.span());
        }
        Ok((x, body))
    }

    pub fn lambda(&self, x: &str, body: &Comp) -> Val {
        Val::app(format!("fun {} =>\n{}", x, render(body, 6)), Ty::Any)
    }

    /// the buffer whose array an iterator / a view looks at, as a term: the state (read now), or the other buffer
    fn owner_term(&mut self, ty: &Ty, env: &Env, pre: &mut Vec<Pre>, sp: Span) -> Res<Val> {
        match ty {
            Ty::Rec(n) if n == "Iter" => {
                let s = self.fresh();
                self.emit(pre, env, Some(s.clone()), Comp::Op("get".into(), vec![], Ty::Any))?;
                Ok(Val::atom(s, Ty::Any))
            }
            Ty::OIter(o) => Ok(Val::atom(o.clone(), Ty::Any)),
            other => unsupported(&format!("adaptor on a {}", other.show()), sp),
        }
    }

    /// `it.for_each(|item| body)` on an Iter: Traits.iter_for_each, on the buffer the Iter looks at
    pub fn iter_for_each(&mut self, it: Val, body: (String, Comp), env: &Env, pre: &mut Vec<Pre>, sp: Span) -> Res<Comp> {
        let it = self.name_it(it, pre);
        let src = self.owner_term(&it.ty, env, pre, sp)?;
        let fuel = self.fuel_term(Some(&it), env, pre, sp)?;
        let f = self.lambda(&body.0, &body.1);
        self.harmless = false;
        self.user = true;
        Ok(Comp::Op("iter_for_each".into(), vec![Val::app(fuel, Ty::Any), src, it, f], Ty::Unit))
    }

    /// `it.cloned()` as something to be iterated: Traits.cloned_for_each on the buffer the Iter looks at
    pub fn cloned_driver(&mut self, it: Val, env: &Env, pre: &mut Vec<Pre>, sp: Span) -> Res<Val> {
        let it = self.name_it(it, pre);
        let src = self.owner_term(&it.ty, env, pre, sp)?;
        let fuel = self.fuel_term(Some(&it), env, pre, sp)?;
        self.harmless = false;
        self.user = true;
        let n = self.fresh();
        pre.push(Pre::Let(n.clone(), Val::app(format!("cloned_for_each ({}) {} {}", fuel, src.paren(), it.paren()), Ty::Any)));
        Ok(Val::atom(n, Ty::IterDriver(Box::new(Ty::Elem))))
    }

    /// `a.partial_cmp(b)` / `a.cmp(b)` on two Iters: Traits.iter_cmp_loop
    pub fn iter_cmp(&mut self, a: Val, b: Val, env: &Env, pre: &mut Vec<Pre>, sp: Span) -> Res<Comp> {
        let cmpf = self.fparam("cmpf", "comparison of iterators", sp)?;
        let sa = self.owner_term(&a.ty, env, pre, sp)?;
        let sb = self.owner_term(&b.ty, env, pre, sp)?;
        let fuel = self.fuel_term(Some(&a), env, pre, sp)?;
        self.harmless = false;
        self.user = true;
        Ok(Comp::Op(
            "iter_cmp_loop".into(),
            vec![cmpf, Val::app(fuel, Ty::Any), sa, sb, a, b],
            Ty::Opt(Box::new(Ty::Ordering)),
        ))
    }

    /// the elements a view / a slice outside the array consists of, as a list
    fn elems_of(&mut self, v: &Val, env: &Env, pre: &mut Vec<Pre>, sp: Span) -> Res<Val> {
        match &v.ty {
            Ty::List => Ok(v.clone()),
            Ty::Slice => {
                let f = self.fresh();
                self.emit(pre, env, Some(f.clone()), Comp::Op("get_items".into(), vec![], Ty::Any))?;
                Ok(Val::app(format!("sl_elems {} {}", f, v.paren()), Ty::List))
            }
            Ty::OSlice(o) => Ok(Val::app(format!("sl_elems (items {}) {}", o, v.paren()), Ty::List)),
            other => unsupported(&format!("comparison of a {}", other.show()), sp),
        }
    }

    /// `x == y` on slices of elements: Traits.slice_eq (PartialEq of the elements is user code)
    pub fn slices_eq(&mut self, l: &Val, r: &Val, env: &Env, pre: &mut Vec<Pre>, sp: Span) -> Res<Comp> {
        let eqf = self.fparam("eqf", "`==` on slices of elements", sp)?;
        let a = self.elems_of(l, env, pre, sp)?;
        let b = self.elems_of(r, env, pre, sp)?;
        self.harmless = false;
        self.user = true;
        Ok(Comp::Op("slice_eq".into(), vec![eqf, a, b], Ty::Bool))
    }

    /// `other.f(args)` for a `&self` method f of the buffer on another buffer: with_buf
    pub fn with_other(&mut self, key: &str, other: &Val, args: &syn::punctuated::Punctuated<Expr, syn::Token![,]>, env: &mut Env, pre: &mut Vec<Pre>, sp: Span) -> Res<Comp> {
        let info = self.fns.get(key).expect("caller checked").clone();
        if info.self_ty != Some(Ty::Buf) || info.self_mut || !info.fparams.is_empty() {
            return unsupported(&format!("call of `{}` on another buffer (only `&self` methods)", info.name), sp);
        }
        if !self.done.contains_key(key) {
            self.need = Some(key.to_string());
            return Err(format!("{}: call of `{}`, which has to be translated first", at(sp), key));
        }
        let d = self.done[key].clone();
        if d.external.is_some() || !d.outs.is_empty() || args.len() != info.params.len() {
            return unsupported(&format!("call of `{}` on another buffer", info.name), sp);
        }
        let mut call = format!("gen_{}", key);
        for (a, p) in args.iter().zip(info.params.iter()) {
            let v = self.val(a, env, pre)?;
            if !v.ty.compat(&p.ty) || !matches!(v.ty, Ty::Usize | Ty::Bool) {
                return unsupported(&format!("argument of `{}` on another buffer", info.name), a.span());
            }
            call.push(' ');
            call.push_str(&v.paren());
        }
        let rty = info.ret.owned_by(&other.tm).map_err(|e| format!("{}: unsupported construct: {}", at(sp), e))?;
        self.calls.insert(key.to_string());
        let t = self.fresh();
        // the other buffer is only read (`&self`): what with_buf hands back as its state is the same buffer
        let h = d.harmless;
        let c = Comp::Op("with_buf".into(), vec![other.clone(), Val::app(call, Ty::Any)], Ty::Any);
        if !h {
            self.harmless = false;
        }
        if d.user {
            self.user = true;
        }
        pre.push(Pre::Bind(Some(format!("'({}, _)", t)), c, false));
        Ok(Comp::Ret(Val::atom(t, rty)))
    }
}
