//! calls: functions of the crate, and the functions of core the crate uses

use crate::expr::*;
use crate::ir::*;
use crate::tr::*;
use proc_macro2::Span;
use syn::spanned::Spanned;
use syn::Expr;

/// an argument of a call of a function of the crate
pub enum Arg<'e> {
    E(&'e Expr),
    /// already evaluated
    V(Val),
}

impl<'a> Tr<'a> {
    fn lookup(&self, owner: Option<&str>, name: &str) -> Option<String> {
        self.index.get(&(owner.map(|s| s.to_string()), name.to_string())).cloned()
    }

    /// call of a translated function. `recv`: the receiver (its place when it is one).
    pub fn call_known(
        &mut self,
        key: &str,
        recv: Option<(&Expr, Option<Place>, Val)>,
        args: Vec<Arg>,
        env: &mut Env,
        pre: &mut Vec<Pre>,
        sp: Span,
    ) -> Res<Comp> {
        let info = self.fns.get(key).expect("caller checked").clone();
        if args.len() != info.params.len() {
            return unsupported(&format!("call of `{}` with {} argument(s)", info.name, args.len()), sp);
        }
        if !self.done.contains_key(key) {
            self.need = Some(key.to_string());
            return Err(format!("{}: call of `{}`, which has to be translated first", at(sp), key));
        }
        let d = self.done[key].clone();
        let mut flat: Vec<Val> = vec![];
        // places that receive a new value after the call
        let mut back: Vec<(Place, Ty)> = vec![];
        match (&info.self_ty, recv) {
            (None, None) => {}
            (Some(st), Some((re, place, rv))) => {
                if !rv.ty.compat(st) && !(matches!((&rv.ty, st), (Ty::Rec(a), Ty::Rec(b)) if rec_coq(a) == rec_coq(b))) {
                    return Err(format!("{}: receiver of `{}` is a {}, expected {}", at(sp), info.name, rv.ty.show(), st.show()));
                }
                if *st != Ty::Buf {
                    flat.push(rv.clone());
                    if d.self_out {
                        match place {
                            Some(p) => back.push((p, st.clone())),
                            None => {
                                return unsupported(
                                    &format!("call of `{}`, which changes its receiver, on something that is not a variable or a field", info.name),
                                    re.span(),
                                )
                            }
                        }
                    }
                }
            }
            _ => return unsupported(&format!("call of `{}` with / without a receiver", info.name), sp),
        }
        // the element operations are handed on
        let mut fargs: Vec<Val> = vec![];
        for (n, _) in &info.fparams {
            fargs.push(self.fparam(n, &format!("call of `{}`", info.name), sp)?);
        }
        for (k, (a, p)) in args.into_iter().zip(info.params.iter()).enumerate() {
            let out = d.outs.contains(&k);
            let v = match a {
                Arg::V(v) => v,
                Arg::E(e) => {
                    if p.by_mut_ref {
                        // `&mut place`
                        let inner = match strip(e) {
                            Expr::Reference(r) if r.mutability.is_some() && r.attrs.is_empty() => &*r.expr,
                            // a `&mut` parameter of the caller handed on
                            other => other,
                        };
                        let place = self.place_of(inner, env, pre)?;
                        match place {
                            Some(pl) => {
                                let v = self.read_place(&pl, env, pre, e.span())?;
                                if out {
                                    back.push((pl, p.ty.clone()));
                                }
                                v
                            }
                            None => return unsupported("`&mut` argument that is not a variable or a field of a local record", e.span()),
                        }
                    } else if p.ty == Ty::Bounds {
                        self.bounds_of(e, env, pre)?
                    } else {
                        self.val(e, env, pre)?
                    }
                }
            };
            if !v.ty.compat(&p.ty) {
                return Err(format!(
                    "{}: argument `{}` of `{}` receives a {}, expected {}",
                    at(sp), p.name, info.name, v.ty.show(), p.ty.show()
                ));
            }
            match (&v.ty, &v.parts) {
                (Ty::Range, Some(p)) | (Ty::Bounds, Some(p)) => flat.extend(p.iter().cloned()),
                (Ty::Range, None) | (Ty::Bounds, None) => return unsupported("range argument whose bounds are not known", sp),
                (Ty::Buf, _) | (Ty::Closure, _) | (Ty::Formatter, _) | (Ty::Hasher, _) => {}
                _ => flat.push(v),
            }
        }
        if !fargs.is_empty() {
            fargs.append(&mut flat);
            flat = fargs;
        }
        let op = match &d.external {
            Some(h) => {
                self.ext_calls.insert(key.to_string());
                self.user = true;
                self.harmless = false;
                h.clone()
            }
            None => {
                self.calls.insert(key.to_string());
                format!("gen_{}", key)
            }
        };
        if info.ret == Ty::NewBuf && self.me.ret == Ty::RetBuf {
            // a constructor called by a method that returns the buffer: it runs on the memory that receives the result
            if self.mem_used || self.in_loop || !back.is_empty() || d.external.is_some() {
                return unsupported(&format!("call of the constructor `{}` here (the function has one place for a buffer by value: its result)", info.name), sp);
            }
            self.mem_used = true;
            let mut call = op.clone();
            for a in &flat {
                call.push(' ');
                call.push_str(&a.paren());
            }
            let t = self.fresh();
            self.harmless = false;
            self.user = true;
            self.emit(
                pre,
                env,
                Some(format!("'(_, {})", t)),
                Comp::Op("with_buf".into(), vec![Val::atom("mem'", Ty::Any), Val::app(call, Ty::Any)], Ty::Any),
            )?;
            return Ok(Comp::Ret(Val::atom(t, Ty::RetBuf)));
        }
        if back.is_empty() {
            return Ok(Comp::Op(op, flat, info.ret.clone()));
        }
        // the callee hands back the new values, then its result
        let mut tys: Vec<Ty> = back.iter().map(|(_, t)| t.clone()).collect();
        let has_ret = info.ret != Ty::Unit;
        if has_ret {
            tys.push(info.ret.clone());
        }
        let full = if tys.len() == 1 { tys[0].clone() } else { Ty::Tuple(tys.clone()) };
        let names: Vec<String> = tys.iter().map(|_| self.fresh()).collect();
        let pat = if names.len() == 1 { names[0].clone() } else { format!("'({})", names.join(", ")) };
        self.emit(pre, env, Some(pat), Comp::Op(op, flat, full))?;
        for ((pl, t), n) in back.iter().zip(names.iter()) {
            self.write_place(pl, Val::atom(n.clone(), t.clone()), env, pre, sp)?;
        }
        if has_ret {
            Ok(Comp::Ret(Val::atom(names.last().unwrap().clone(), info.ret.clone())))
        } else {
            Ok(Comp::unit())
        }
    }

    pub fn call(&mut self, c: &syn::ExprCall, env: &mut Env, pre: &mut Vec<Pre>) -> Res<Comp> {
        no_attrs(&c.attrs, c.span())?;
        let f = match &*c.func {
            Expr::Path(p) => path_segments(p)?,
            other => return unsupported("call of something that is not a plain function name", other.span()),
        };
        let f: Vec<&str> = f.iter().map(|s| s.as_str()).collect();
        let nargs = c.args.len();
        match (f.as_slice(), nargs) {
            // a struct declared in this function, built by its tuple constructor
            ([name], _) if self.nested.contains_key(*name) => {
                let nested = self.nested[*name].clone();
                if nested.fields.len() != nargs {
                    return unsupported(&format!("`{}(..)` with {} argument(s)", name, nargs), c.span());
                }
                let mut parts = vec![];
                for (a, (_, t)) in c.args.iter().zip(nested.fields.iter()) {
                    parts.push(self.typed(a, env, pre, t, "field of a local struct")?);
                }
                Ok(Comp::Ret(Val {
                    tm: format!("<{}>", name),
                    ty: Ty::Guard(name.to_string()),
                    atomic: true,
                    parts: Some(parts),
                    ptr_base: false,
                }))
            }
            ([name], 0) if env.get(*name).map(|v| v.ty == Ty::Closure).unwrap_or(false) => {
                Ok(Comp::Op("call_closure".into(), vec![], Ty::Elem))
            }
            (["Some"], 1) => {
                let v = self.val(&c.args[0], env, pre)?;
                if v.ty.coq().is_err() || v.ty == Ty::Unit || v.ty == Ty::NewBuf {
                    return unsupported(&format!("Some of a {}", v.ty.show()), c.span());
                }
                let ty = Ty::Opt(Box::new(v.ty.clone()));
                Ok(Comp::Ret(Val::app(format!("Some {}", v.paren()), ty)))
            }
            (["Err"], 1) => {
                let v = self.typed(&c.args[0], env, pre, &Ty::Elem, "payload of Err")?;
                Ok(Comp::Ret(Val::app(format!("Some {}", v.paren()), Ty::ResUnitElem)))
            }
            (["Ok"], 1) => {
                if let Ty::IoRes(_) = &self.me.ret {
                    // an io result: the payload
                    let v = match strip(&c.args[0]) {
                        Expr::Tuple(t) if t.elems.is_empty() => Val::unit(),
                        other => self.val(other, env, pre)?,
                    };
                    let t = Ty::IoRes(Box::new(v.ty.clone()));
                    return Ok(Comp::Ret(Val { ty: t, ..v }));
                }
                match &c.args[0] {
                    Expr::Tuple(t) if t.elems.is_empty() => Ok(Comp::Ret(Val::atom("None", Ty::ResUnitElem))),
                    other => unsupported("Ok(..) of something other than ()", other.span()),
                }
            }
            (["slice_assume_init_ref"], 1) | (["slice_assume_init_mut"], 1) => {
                // a cast of the element type (checked in main.rs): the same view
                let v = self.typed(&c.args[0], env, pre, &Ty::Slice, "argument of slice_assume_init_*")?;
                Ok(Comp::Ret(v))
            }
            (["mem", "replace"], 2) | (["core", "mem", "replace"], 2) => {
                let d = self.typed(&c.args[0], env, pre, &Ty::Ref, "destination of mem::replace")?;
                let v = self.typed(&c.args[1], env, pre, &Ty::Elem, "new value of mem::replace")?;
                Ok(Comp::Op("gen_mem_replace".into(), vec![d, v], Ty::Elem))
            }
            (["mem", "take"], 1) | (["core", "mem", "take"], 1) => {
                // of a `&mut &mut [T]`: the slice; an empty one stays behind
                let place = match self.place_of(&c.args[0], env, pre)? {
                    Some(p) => p,
                    None => return unsupported("mem::take of something that is not a variable or a field", c.args[0].span()),
                };
                let cur = self.read_place(&place, env, pre, c.span())?;
                if cur.ty != Ty::Slice {
                    return unsupported(&format!("mem::take of a {}", cur.ty.show()), c.span());
                }
                self.write_place(&place, Val::atom("empty_slice", Ty::Slice), env, pre, c.span())?;
                Ok(Comp::Ret(cur))
            }
            (["mem", "forget"], 1) | (["core", "mem", "forget"], 1) => {
                match path_ident(&c.args[0]) {
                    Some(x) if self.live.contains(&x) => {
                        self.live.retain(|n| n != &x);
                        env.remove(&x);
                        Ok(Comp::unit())
                    }
                    _ => unsupported("mem::forget of something other than a live local with a destructor", c.span()),
                }
            }
            (["drop"], 1) => match path_ident(&c.args[0]) {
                Some(x) if self.live.contains(&x) => {
                    // it is destroyed now; the others are still alive
                    let cl = self.cleanup_of(&x, env)?;
                    self.live.retain(|n| n != &x);
                    env.remove(&x);
                    self.harmless = false;
                    Ok(cl)
                }
                _ => unsupported("drop of something other than a live local with a destructor", c.span()),
            },
            (["ptr", "drop_in_place"], 1) | (["core", "ptr", "drop_in_place"], 1) => {
                let v = self.typed(&c.args[0], env, pre, &Ty::Slice, "argument of ptr::drop_in_place")?;
                Ok(Comp::Op("drop_slice".into(), vec![v], Ty::Unit))
            }
            (["ptr", "read"], 1) | (["core", "ptr", "read"], 1) => {
                let v = self.typed(&c.args[0], env, pre, &Ty::Ref, "argument of ptr::read")?;
                Ok(Comp::Op("read_slot".into(), vec![v], Ty::Elem))
            }
            (["NonNull", "from"], 1) => {
                let v = self.typed(&c.args[0], env, pre, &Ty::Buf, "argument of NonNull::from")?;
                Ok(Comp::Ret(v))
            }
            (["ptr", "copy"], 3) | (["core", "ptr", "copy"], 3) => {
                let s = self.typed(&c.args[0], env, pre, &Ty::Ptr, "source of ptr::copy")?;
                let d = self.typed(&c.args[1], env, pre, &Ty::Ptr, "destination of ptr::copy")?;
                let n = self.typed(&c.args[2], env, pre, &Ty::Usize, "count of ptr::copy")?;
                Ok(Comp::Op("raw_copy".into(), vec![s, d, n], Ty::Unit))
            }
            (["ptr", "swap_nonoverlapping"], 3) | (["core", "ptr", "swap_nonoverlapping"], 3) => {
                let a = self.typed(&c.args[0], env, pre, &Ty::Ref, "operand of ptr::swap_nonoverlapping")?;
                let b = self.typed(&c.args[1], env, pre, &Ty::Ref, "operand of ptr::swap_nonoverlapping")?;
                let n = self.typed(&c.args[2], env, pre, &Ty::Usize, "count of ptr::swap_nonoverlapping")?;
                if n.tm != "1" {
                    return unsupported("ptr::swap_nonoverlapping with a count other than the literal 1", c.span());
                }
                Ok(Comp::Op("gen_swap_nonoverlapping".into(), vec![a, b], Ty::Unit))
            }
            (["cmp", "min"], 2) | (["core", "cmp", "min"], 2) | (["std", "cmp", "min"], 2) => {
                let a = self.typed(&c.args[0], env, pre, &Ty::Usize, "operand of cmp::min")?;
                let b = self.typed(&c.args[1], env, pre, &Ty::Usize, "operand of cmp::min")?;
                Ok(Comp::Ret(Val::app(format!("Z.min {} {}", a.paren(), b.paren()), Ty::Usize)))
            }
            // an associated function of a struct of the crate
            ([ty, name], _) if self.assoc_key(ty, name).is_some() => {
                let key = self.assoc_key(ty, name).unwrap();
                let args: Vec<Arg> = c.args.iter().map(Arg::E).collect();
                self.call_known(&key, None, args, env, pre, c.span())
            }
            ([name], _) | (["crate", name], _) | (["self", name], _) if self.lookup(None, name).is_some() => {
                let key = self.lookup(None, name).unwrap();
                let args: Vec<Arg> = c.args.iter().map(Arg::E).collect();
                self.call_known(&key, None, args, env, pre, c.span())
            }
            _ => unsupported(&format!("call of `{}` with {} argument(s)", f.join("::"), nargs), c.span()),
        }
    }

    fn assoc_key(&self, ty: &str, name: &str) -> Option<String> {
        let t = if ty == "Self" { self.me.owner.clone()? } else { ty.to_string() };
        let key = self.lookup(Some(&t), name)?;
        if self.fns[&key].self_ty.is_some() {
            return None;
        }
        Some(key)
    }

    pub fn method_call(&mut self, m: &syn::ExprMethodCall, env: &mut Env, pre: &mut Vec<Pre>) -> Res<Comp> {
        no_attrs(&m.attrs, m.span())?;
        if m.turbofish.is_some() {
            return unsupported("method call with turbofish", m.span());
        }
        let name = m.method.to_string();
        let nargs = m.args.len();
        if let Some(v) = crate::stdtab::whole_expr(&norm_tokens(m)) {
            return Ok(Comp::Ret(v));
        }
        // `value.clone()` borrows: it is not a use by value
        let place = self.place_of(&m.receiver, env, pre)?;
        let recv = match &place {
            Some(p) => self.read_place(p, env, pre, m.receiver.span())?,
            None => self.val(&m.receiver, env, pre)?,
        };
        // ---- the adaptors of the trait impls (stdtab.rs, [adaptor])
        match (&recv.ty, name.as_str(), nargs) {
            // a `&self` method of the buffer on another buffer
            (Ty::OBuf, _, _) => {
                return match self.lookup(Some("CircularBuffer"), &name) {
                    Some(key) => self.with_other(&key, &recv, &m.args, env, pre, m.span()),
                    None => unsupported(&format!("call of the method `{}` on another buffer (not one of the translated functions)", name), m.span()),
                };
            }
            (Ty::Formatter, "debug_list", 0) => return Ok(Comp::Ret(Val::atom("<debug_list>", Ty::DebugList))),
            (Ty::DebugList, "finish", 0) => return Ok(Comp::unit()),
            (Ty::DebugList, "entries", 1) => {
                // entries(x): x.into_iter(), then every item is formatted (user code)
                let x = self.val(&m.args[0], env, pre)?;
                let it = match &x.ty {
                    Ty::Buf => {
                        // <&CircularBuffer as IntoIterator>::into_iter
                        let key = match self.lookup(Some("&CircularBuffer"), "into_iter") {
                            Some(k) => k,
                            None => return unsupported("iteration over `&CircularBuffer` (its IntoIterator impl is not among the functions)", m.span()),
                        };
                        let c = self.call_known(&key, Some((&m.args[0], None, x.clone())), vec![], env, pre, m.span())?;
                        self.bind_val(c, env, pre, m.span())?
                    }
                    // an Iterator is its own IntoIterator
                    Ty::Rec(n) if n == "Iter" => x,
                    Ty::OIter(_) => x,
                    other => return unsupported(&format!("DebugList::entries of a {}", other.show()), m.span()),
                };
                let e = self.fresh();
                let body = Comp::Bind(
                    None,
                    Box::new(Comp::Op("emit".into(), vec![Val::app(format!("EvFmt {}", e), Ty::Any)], Ty::Unit)),
                    Box::new(Comp::Op("user_call".into(), vec![Val::atom("FFmt", Ty::Any)], Ty::Unit)),
                );
                let c = self.iter_for_each(it, (e, body), env, pre, m.span())?;
                self.emit(pre, env, None, c)?;
                return Ok(Comp::Ret(Val::atom("<debug_list>", Ty::DebugList)));
            }
            (Ty::Usize, "hash", 1) => {
                self.typed(&m.args[0], env, pre, &Ty::Hasher, "argument of hash")?;
                self.user = true;
                return Ok(Comp::Op("emit".into(), vec![Val::app(format!("EvHashLen {}", recv.paren()), Ty::Any)], Ty::Unit));
            }
            (Ty::ElemRef, "hash", 1) | (Ty::Elem, "hash", 1) => {
                self.typed(&m.args[0], env, pre, &Ty::Hasher, "argument of hash")?;
                self.emit(pre, env, None, Comp::Op("emit".into(), vec![Val::app(format!("EvHash {}", recv.paren()), Ty::Any)], Ty::Unit))?;
                return Ok(Comp::Op("user_call".into(), vec![Val::atom("FHash", Ty::Any)], Ty::Unit));
            }
            (Ty::Usize, "cmp", 1) => {
                let b = self.typed(&m.args[0], env, pre, &Ty::Usize, "argument of usize::cmp")?;
                return Ok(Comp::Ret(Val::app(format!("{} ?= {}", recv.paren(), b.paren()), Ty::Ordering)));
            }
            (Ty::Rec(n), "for_each", 1) if n == "Iter" => {
                let body = self.closure_body(&m.args[0], Ty::ElemRef, env)?;
                return self.iter_for_each(recv, body, env, pre, m.span());
            }
            (Ty::OIter(_), "for_each", 1) => {
                let body = self.closure_body(&m.args[0], Ty::ElemRef, env)?;
                return self.iter_for_each(recv, body, env, pre, m.span());
            }
            (Ty::Rec(n), "partial_cmp", 1) | (Ty::Rec(n), "cmp", 1) if n == "Iter" => {
                let b = self.val(&m.args[0], env, pre)?;
                return self.iter_cmp(recv, b, env, pre, m.span());
            }
            // an `I: IntoIterator`: into_iter() of the model's rendering is the rendering itself
            (Ty::IterDriver(_), "into_iter", 0) => return Ok(Comp::Ret(recv)),
            (Ty::IterDriver(item), "for_each", 1) => {
                let body = self.closure_body(&m.args[0], (**item).clone(), env)?;
                let f = self.lambda(&body.0, &body.1);
                self.harmless = false;
                self.user = true;
                if !recv.atomic {
                    return unsupported("for_each on an iterator that is not a variable", m.span());
                }
                return Ok(Comp::Op(recv.tm.clone(), vec![f], Ty::Unit));
            }
            // Iter::cloned(): Traits.cloned_for_each on the buffer the Iter looks at
            (Ty::Rec(n), "cloned", 0) if n == "Iter" => {
                let d = self.cloned_driver(recv, env, pre, m.span())?;
                return Ok(Comp::Ret(d));
            }
            (Ty::OIter(_), "cloned", 0) => {
                let d = self.cloned_driver(recv, env, pre, m.span())?;
                return Ok(Comp::Ret(d));
            }
            // Extend<T> / Extend<&T> of the buffer: by the type of the items
            (Ty::Buf, "extend", 1) if recv.tm == "<buffer>" => {
                let x = self.val(&m.args[0], env, pre)?;
                let which = match &x.ty {
                    Ty::IterDriver(t) if **t == Ty::Elem => "extend<T>",
                    Ty::IterDriver(t) if **t == Ty::ElemRef => "extend<&'aT>",
                    other => return unsupported(&format!("extend with a {}", other.show()), m.span()),
                };
                let key = match self.index.get(&(Some("CircularBuffer".to_string()), which.to_string())) {
                    Some(k) => k.clone(),
                    None => return unsupported("call of `extend` (the Extend impl is not among the functions)", m.span()),
                };
                return self.call_known(&key, Some((&m.receiver, place, recv)), vec![Arg::V(x)], env, pre, m.span());
            }
            (Ty::OIter(_), "partial_cmp", 1) | (Ty::OIter(_), "cmp", 1) => {
                let b = self.val(&m.args[0], env, pre)?;
                return self.iter_cmp(recv, b, env, pre, m.span());
            }
            (Ty::OIter(_), "len", 0) | (Ty::OIter(_), "clone", 0) => {
                return unsupported(&format!("method `{}` of an Iter over another buffer", name), m.span());
            }
            (Ty::OSlice(_), "len", 0) => return Ok(Comp::Ret(Val::app(format!("slen {}", recv.paren()), Ty::Usize))),
            (Ty::OSlice(_), "is_empty", 0) => return Ok(Comp::Ret(Val::app(format!("slen {} =? 0", recv.paren()), Ty::Bool))),
            (Ty::List, "split_at", 1) => {
                let k = self.typed(&m.args[0], env, pre, &Ty::Usize, "argument of split_at")?;
                let chk = Val::app(format!("{} <=? zlen {}", k.paren(), recv.paren()), Ty::Bool);
                self.emit(pre, env, None, Comp::Op("gen_bounds_check".into(), vec![chk], Ty::Unit))?;
                let a = Val::app(format!("firstn (Z.to_nat {}) {}", k.paren(), recv.paren()), Ty::List);
                let b = Val::app(format!("skipn (Z.to_nat {}) {}", k.paren(), recv.paren()), Ty::List);
                return Ok(Comp::Ret(tuple_val(vec![a, b])));
            }
            _ => {}
        }
        // a method of a struct of the crate
        let owner: Option<String> = match &recv.ty {
            Ty::Buf if recv.tm == "<into_iter>" => Some("IntoIter".into()),
            Ty::Buf => Some("CircularBuffer".into()),
            Ty::Rec(n) => Some(n.clone()),
            _ => None,
        };
        if let Some(o) = &owner {
            // the buffer behind a NonNull
            if recv.ty == Ty::Buf && (name == "as_ref" || name == "as_mut") && nargs == 0 {
                return Ok(Comp::Ret(recv));
            }
            return match self.lookup(Some(o), &name) {
                Some(key) if self.fns[&key].self_ty.is_some() => {
                    let args: Vec<Arg> = m.args.iter().map(Arg::E).collect();
                    self.call_known(&key, Some((&m.receiver, place, recv)), args, env, pre, m.span())
                }
                _ => unsupported(&format!("call of the method `{}` of {} (not one of the translated functions)", name, o), m.span()),
            };
        }
        // a method of the items array
        if recv.ty == Ty::Items {
            return match (name.as_str(), nargs) {
                ("split_at", 1) | ("split_at_mut", 1) => {
                    let it = self.fresh();
                    self.emit(pre, env, Some(it.clone()), Comp::Op("items_slice".into(), vec![], Ty::Slice))?;
                    let k = self.typed(&m.args[0], env, pre, &Ty::Usize, "argument of split_at")?;
                    Ok(Comp::Op(
                        "sl_split_at".into(),
                        vec![Val::atom(it, Ty::Slice), k],
                        Ty::Tuple(vec![Ty::Slice, Ty::Slice]),
                    ))
                }
                ("rotate_left", 1) => {
                    let k = self.typed(&m.args[0], env, pre, &Ty::Usize, "argument of rotate_left")?;
                    Ok(Comp::Op("gen_rotate_left".into(), vec![k], Ty::Unit))
                }
                ("as_mut_ptr", 0) | ("as_ptr", 0) => Ok(Comp::Ret(Val {
                    tm: "0".into(),
                    ty: Ty::Ptr,
                    atomic: true,
                    parts: None,
                    ptr_base: true,
                })),
                ("len", 0) => Ok(Comp::Op("get_cap".into(), vec![], Ty::Usize)),
                _ => unsupported(&format!("method `{}` of the items array with {} argument(s)", name, nargs), m.span()),
            };
        }
        // Range<usize> as an iterator (a field of a record)
        if recv.ty == Ty::Range && recv.parts.is_some() && nargs == 0 {
            let p = recv.parts.clone().unwrap();
            match name.as_str() {
                "is_empty" => return Ok(Comp::Ret(Val::app(format!("{} <=? {}", p[1].paren(), p[0].paren()), Ty::Bool))),
                "len" => return Ok(Comp::Ret(Val::app(format!("gen_range_len {} {}", p[0].paren(), p[1].paren()), Ty::Usize))),
                "size_hint" => {
                    let n = format!("gen_range_len {} {}", p[0].paren(), p[1].paren());
                    return Ok(Comp::Ret(Val::app(
                        format!("({}, Some ({}))", n, n),
                        Ty::Tuple(vec![Ty::Usize, Ty::Opt(Box::new(Ty::Usize))]),
                    )));
                }
                "next" | "next_back" => {
                    let place = match place {
                        Some(pl) => pl,
                        None => return unsupported("Range::next on something that is not a variable or a field", m.span()),
                    };
                    let (a, b, o) = (self.fresh(), self.fresh(), self.fresh());
                    pre.push(Pre::Let(
                        format!("'({}, {}, {})", a, b, o),
                        Val::app(format!("gen_range_{} {} {}", name, p[0].paren(), p[1].paren()), Ty::Any),
                    ));
                    let nv = range_val(Val::atom(a, Ty::Usize), Val::atom(b, Ty::Usize));
                    self.write_place(&place, nv, env, pre, m.span())?;
                    return Ok(Comp::Ret(Val::atom(o, Ty::Opt(Box::new(Ty::Usize)))));
                }
                _ => {}
            }
        }
        // Option
        if let Ty::Opt(inner) = &recv.ty {
            match (name.as_str(), nargs) {
                ("expect", 1) if **inner != Ty::Any => {
                    if !matches!(strip(&m.args[0]), Expr::Lit(l) if matches!(l.lit, syn::Lit::Str(_))) {
                        return unsupported("expect with a message that is not a string literal", m.span());
                    }
                    let x = self.fresh();
                    let some = Comp::Ret(Val::atom(x.clone(), (**inner).clone()));
                    return Ok(Comp::MatchOpt(recv.clone(), x, Box::new(panic_op("PExpect")), Box::new(some)));
                }
                ("map", 1) if **inner != Ty::Any => {
                    // the closure runs at once, on the payload
                    let cl = match strip(&m.args[0]) {
                        Expr::Closure(cl) => cl,
                        other => return unsupported("Option::map of something that is not a closure", other.span()),
                    };
                    if !cl.attrs.is_empty()
                        || cl.lifetimes.is_some()
                        || cl.constness.is_some()
                        || cl.movability.is_some()
                        || cl.asyncness.is_some()
                        || cl.capture.is_some()
                        || cl.inputs.len() != 1
                        || !matches!(cl.output, syn::ReturnType::Default)
                    {
                        return unsupported("closure other than `|x| body`", cl.span());
                    }
                    let mut env_c = env.clone();
                    let x = self.bind_pattern(&cl.inputs[0], &Val::atom("_", (**inner).clone()), &mut env_c)?;
                    let saved = self.can_return;
                    self.can_return = false;
                    let mut cpre = vec![];
                    let body = self.val(&cl.body, &mut env_c, &mut cpre);
                    self.can_return = saved;
                    let body = body?;
                    if !self.changed(env, &env_c).is_empty() {
                        return unsupported("closure that assigns to variables of the function", cl.span());
                    }
                    if body.ty.coq().is_err() || body.ty == Ty::Unit {
                        return unsupported(&format!("Option::map to a {}", body.ty.show()), cl.span());
                    }
                    let rt = Ty::Opt(Box::new(body.ty.clone()));
                    let some = wrap(cpre, Comp::Ret(Val::app(format!("Some {}", body.paren()), rt.clone())));
                    let none = Comp::Ret(Val::atom("None", rt));
                    self.harmless = false;
                    return Ok(Comp::MatchOpt(recv.clone(), x, Box::new(none), Box::new(some)));
                }
                _ => {}
            }
        }
        // nightly: <[T]>::split_off* on a `&mut &[T]` / `&mut &mut [T]` parameter
        if recv.ty == Ty::Slice {
            if let Some(Place::Var(x)) = &place {
                if self.me.params.iter().any(|p| p.by_mut_ref && &p.name == x) {
                    if let Some(r) = crate::stdtab::split_off(&name) {
                        let pl = place.clone().unwrap();
                        let (a, b) = (self.fresh(), self.fresh());
                        let res = if r.ranged {
                            if nargs != 1 {
                                return unsupported(&format!("`{}` with {} argument(s)", name, nargs), m.span());
                            }
                            let rg = self.typed(&m.args[0], env, pre, &Ty::Osr, "range of split_off")?;
                            let full = Ty::Tuple(vec![Ty::Slice, Ty::Opt(Box::new(Ty::Slice))]);
                            self.emit(pre, env, Some(format!("'({}, {})", a, b)), Comp::Op(r.model.into(), vec![recv.clone(), rg], full))?;
                            Ty::Opt(Box::new(Ty::Slice))
                        } else {
                            if nargs != 0 {
                                return unsupported(&format!("`{}` with {} argument(s)", name, nargs), m.span());
                            }
                            pre.push(Pre::Let(format!("'({}, {})", a, b), Val::app(format!("{} {}", r.model, recv.paren()), Ty::Any)));
                            Ty::Opt(Box::new(Ty::Ref))
                        };
                        self.write_place(&pl, Val::atom(a, Ty::Slice), env, pre, m.span())?;
                        return Ok(Comp::Ret(Val::atom(b, res)));
                    }
                }
            }
        }
        if recv.ty == Ty::Bounds && nargs == 0 {
            if let Some(p) = &recv.parts {
                match name.as_str() {
                    "start_bound" => return Ok(Comp::Ret(p[0].clone())),
                    "end_bound" => return Ok(Comp::Ret(p[1].clone())),
                    _ => {}
                }
            }
        }
        if recv.ty == Ty::Elem && name == "clone" && nargs == 0 {
            return Ok(Comp::Op("clone_elem".into(), vec![recv], Ty::Elem));
        }
        if recv.ty == Ty::List {
            return self.list_method(m, &name, recv, place, env, pre);
        }
        if recv.ty == Ty::Slice && name == "read" && nargs == 1 && matches!(self.me.ret, Ty::IoRes(_)) {
            // <&[u8] as Read>::read on a view of the array: on its contents
            let f = self.fresh();
            self.emit(pre, env, Some(f.clone()), Comp::Op("get_items".into(), vec![], Ty::Any))?;
            let contents = Val::app(format!("sl_elems {} {}", f, recv.paren()), Ty::List);
            // from here on the variable stands for the bytes that are left
            if let Some(Place::Var(x)) = &place {
                env.insert(x.clone(), contents.clone());
            }
            return self.list_method(m, &name, contents, place, env, pre);
        }
        let mut args = vec![];
        for a in &m.args {
            args.push(self.val(a, env, pre)?);
        }
        let all_usize = recv.ty == Ty::Usize && args.iter().all(|a| a.ty == Ty::Usize);
        let bin = |f: &str, ty: Ty| -> Res<Comp> {
            Ok(Comp::Ret(Val::app(format!("{} {} {}", f, recv.paren(), args[0].paren()), ty)))
        };
        match (&recv.ty, name.as_str(), nargs) {
            (Ty::Usize, "overflowing_add", 1) if all_usize => {
                bin("overflowing_add", Ty::Tuple(vec![Ty::Usize, Ty::Bool]))
            }
            (Ty::Usize, "checked_add", 1) if all_usize => bin("checked_add", Ty::Opt(Box::new(Ty::Usize))),
            (Ty::Usize, "checked_sub", 1) if all_usize => bin("checked_sub", Ty::Opt(Box::new(Ty::Usize))),
            (Ty::Usize, "wrapping_add", 1) if all_usize => Ok(Comp::Ret(Val::app(
                format!("({} + {}) mod W", recv.paren(), args[0].paren()),
                Ty::Usize,
            ))),
            (Ty::Usize, "wrapping_sub", 1) if all_usize => Ok(Comp::Ret(Val::app(
                format!("({} - {}) mod W", recv.paren(), args[0].paren()),
                Ty::Usize,
            ))),
            (Ty::Usize, "min", 1) if all_usize => bin("Z.min", Ty::Usize),
            (Ty::Usize, "max", 1) if all_usize => bin("Z.max", Ty::Usize),
            // a reference to a slot is the slot: MaybeUninit<T> -> T changes nothing
            (Ty::Ref, "assume_init_ref", 0) | (Ty::Ref, "assume_init_mut", 0) => Ok(Comp::Ret(recv)),
            (Ty::Ref, "assume_init_read", 0) => Ok(Comp::Op("read_slot".into(), vec![recv], Ty::Elem)),
            (Ty::Ref, "write", 1) if args[0].ty == Ty::Elem => {
                Ok(Comp::Op("write_slot".into(), vec![recv, args[0].clone()], Ty::Unit))
            }
            (Ty::Ptr, "add", 1) if args[0].ty == Ty::Usize => {
                let k = &args[0];
                if recv.ptr_base {
                    Ok(Comp::Ret(Val { tm: k.tm.clone(), ty: Ty::Ptr, atomic: k.atomic, parts: None, ptr_base: false }))
                } else {
                    Ok(Comp::Ret(Val::app(format!("{} + {}", recv.paren(), k.paren()), Ty::Ptr)))
                }
            }
            (Ty::Slice, "split_at", 1) | (Ty::Slice, "split_at_mut", 1) if args[0].ty == Ty::Usize => Ok(Comp::Op(
                "sl_split_at".into(),
                vec![recv, args[0].clone()],
                Ty::Tuple(vec![Ty::Slice, Ty::Slice]),
            )),
            (Ty::Slice, "split_first", 0) | (Ty::Slice, "split_first_mut", 0) => Ok(Comp::Ret(Val::app(
                format!("gen_split_first {}", recv.paren()),
                Ty::Opt(Box::new(Ty::Tuple(vec![Ty::Ref, Ty::Slice]))),
            ))),
            (Ty::Slice, "split_last", 0) | (Ty::Slice, "split_last_mut", 0) => Ok(Comp::Ret(Val::app(
                format!("gen_split_last {}", recv.paren()),
                Ty::Opt(Box::new(Ty::Tuple(vec![Ty::Ref, Ty::Slice]))),
            ))),
            (Ty::Slice, "len", 0) => Ok(Comp::Ret(Val::app(format!("slen {}", recv.paren()), Ty::Usize))),
            (Ty::Slice, "is_empty", 0) => Ok(Comp::Ret(Val::app(format!("slen {} =? 0", recv.paren()), Ty::Bool))),
            _ => unsupported(
                &format!("method `{}` on a {} with {} argument(s)", name, recv.ty.show(), nargs),
                m.span(),
            ),
        }
    }

    /// data outside the array: `len`, and `<&[u8] as Read>::read`
    fn list_method(
        &mut self,
        m: &syn::ExprMethodCall,
        name: &str,
        recv: Val,
        place: Option<Place>,
        env: &mut Env,
        pre: &mut Vec<Pre>,
    ) -> Res<Comp> {
        match (name, m.args.len()) {
            ("len", 0) => Ok(Comp::Ret(Val::app(format!("zlen {}", recv.paren()), Ty::Usize))),
            ("read", 1) => {
                // src.read(dst): copies min(len) bytes, advances src, and writes into dst
                let src_place = match place {
                    Some(p) => p,
                    None => return unsupported("read from something that is not a variable", m.span()),
                };
                let (dst_place, dst_off) = self.dst_place(&m.args[0], env, pre)?;
                let dst = self.read_place(&dst_place, env, pre, m.span())?;
                if dst.ty != Ty::List {
                    return unsupported("read into something other than a byte slice", m.span());
                }
                let (r, d, c) = (self.fresh(), self.fresh(), self.fresh());
                let dst_view = match &dst_off {
                    Some(k) => format!("(skipn (Z.to_nat {}) {})", k.paren(), dst.paren()),
                    None => dst.paren(),
                };
                pre.push(Pre::Let(
                    format!("'({}, {}, {})", r, d, c),
                    Val::app(format!("slice_read {} {}", recv.paren(), dst_view), Ty::Any),
                ));
                self.write_place(&src_place, Val::atom(r, Ty::List), env, pre, m.span())?;
                let nd = match &dst_off {
                    Some(k) => Val::app(format!("firstn (Z.to_nat {}) {} ++ {}", k.paren(), dst.paren(), d), Ty::List),
                    None => Val::atom(d, Ty::List),
                };
                self.write_place(&dst_place, nd, env, pre, m.span())?;
                Ok(Comp::Ret(Val::atom(c, Ty::IoRes(Box::new(Ty::Usize)))))
            }
            _ => unsupported(&format!("method `{}` on a slice outside the array", name), m.span()),
        }
    }

    /// `dst` or `&mut dst[k..]`
    fn dst_place(&mut self, e: &Expr, env: &mut Env, pre: &mut Vec<Pre>) -> Res<(Place, Option<Val>)> {
        if let Some(p) = self.place_of(e, env, pre)? {
            return Ok((p, None));
        }
        if let Expr::Reference(r) = strip(e) {
            if r.mutability.is_some() && r.attrs.is_empty() {
                if let Expr::Index(ix) = strip(&r.expr) {
                    if let (Some(p), Expr::Range(rg)) = (self.place_of(&ix.expr, env, pre)?, strip(&ix.index)) {
                        if let (Some(a), None) = (&rg.start, &rg.end) {
                            let k = self.typed(a, env, pre, &Ty::Usize, "range start")?;
                            let cur = self.read_place(&p, env, pre, e.span())?;
                            let chk = Val::app(format!("{} <=? zlen {}", k.paren(), cur.paren()), Ty::Bool);
                            self.emit(pre, env, None, Comp::Op("gen_bounds_check".into(), vec![chk], Ty::Unit))?;
                            return Ok((p, Some(k)));
                        }
                    }
                }
            }
        }
        unsupported("destination of a read other than `dst` or `&mut dst[k..]`", e.span())
    }
}
