//! expressions -> computations

use crate::ir::*;
use crate::tr::*;
use proc_macro2::Span;
use syn::spanned::Spanned;
use syn::{BinOp, Expr, Lit, UnOp};

/// something that can be assigned to
#[derive(Clone, Debug)]
pub enum Place {
    /// a local (or `*p` for a `&mut` parameter p)
    Var(String),
    /// a field of a local record
    Field(String, String),
    /// `size` / `start` of the buffer
    BufField(&'static str),
}

pub fn strip(e: &Expr) -> &Expr {
    match e {
        Expr::Paren(p) if p.attrs.is_empty() => strip(&p.expr),
        Expr::Group(g) if g.attrs.is_empty() => strip(&g.expr),
        _ => e,
    }
}

pub fn path_ident(e: &Expr) -> Option<String> {
    match strip(e) {
        Expr::Path(p) if p.qself.is_none() && p.attrs.is_empty() => p.path.get_ident().map(|i| i.to_string()),
        _ => None,
    }
}

/// does the value of this expression end the function when it is the last one of a tail block
pub fn is_control(e: &Expr) -> bool {
    matches!(strip(e), Expr::If(_) | Expr::Match(_) | Expr::Block(_) | Expr::Unsafe(_))
}

pub fn tuple_val(vs: Vec<Val>) -> Val {
    if vs.len() == 1 {
        return vs.into_iter().next().unwrap();
    }
    Val {
        tm: format!("({})", vs.iter().map(|v| v.tm.clone()).collect::<Vec<_>>().join(", ")),
        ty: Ty::Tuple(vs.iter().map(|v| v.ty.clone()).collect()),
        atomic: true,
        parts: Some(vs),
        ptr_base: false,
    }
}

pub fn range_val(a: Val, b: Val) -> Val {
    Val { tm: format!("({}, {})", a.tm, b.tm), ty: Ty::Range, atomic: true, parts: Some(vec![a, b]), ptr_base: false }
}

pub fn bounds_val(a: Val, b: Val) -> Val {
    Val { tm: format!("({}, {})", a.tm, b.tm), ty: Ty::Bounds, atomic: true, parts: Some(vec![a, b]), ptr_base: false }
}

pub fn panic_op(kind: &str) -> Comp {
    Comp::Op("panic".into(), vec![Val::atom(kind, Ty::Any)], Ty::Any)
}

/// append values to what a computation yields, on every path that yields something
pub fn extend_leaves(c: Comp, unit: bool, extras: &dyn Fn() -> Vec<Val>, fresh: &mut dyn FnMut() -> String) -> Comp {
    match c {
        Comp::Ret(v) => {
            let mut vs = if unit { vec![] } else { vec![v] };
            vs.extend(extras());
            Comp::Ret(tuple_val(vs))
        }
        Comp::Op(f, a, t) if f == "panic" => Comp::Op(f, a, t),
        Comp::Bind(n, m, k) => Comp::Bind(n, m, Box::new(extend_leaves(*k, unit, extras, fresh))),
        Comp::Let(n, v, k) => Comp::Let(n, v, Box::new(extend_leaves(*k, unit, extras, fresh))),
        Comp::If(c, a, b, _) => {
            let a = extend_leaves(*a, unit, extras, fresh);
            let b = extend_leaves(*b, unit, extras, fresh);
            let t = a.ty().join(&b.ty());
            Comp::If(c, Box::new(a), Box::new(b), t)
        }
        Comp::MatchOpt(v, x, n, s) => Comp::MatchOpt(
            v,
            x,
            Box::new(extend_leaves(*n, unit, extras, fresh)),
            Box::new(extend_leaves(*s, unit, extras, fresh)),
        ),
        Comp::Match(v, arms, _) => {
            let arms: Vec<(String, Comp)> =
                arms.into_iter().map(|(p, c)| (p, extend_leaves(c, unit, extras, fresh))).collect();
            let t = arms.iter().fold(Ty::Any, |t, (_, c)| t.join(&c.ty()));
            Comp::Match(v, arms, t)
        }
        other => {
            // an operation (or finally / on_unwind / fuel): bind its value
            if unit {
                Comp::Bind(None, Box::new(other), Box::new(Comp::Ret(tuple_val(extras()))))
            } else {
                let n = fresh();
                let t = other.ty();
                let mut vs = vec![Val::atom(n.clone(), t)];
                vs.extend(extras());
                Comp::Bind(Some(n), Box::new(other), Box::new(Comp::Ret(tuple_val(vs))))
            }
        }
    }
}

/// `c ;; k`, with what `c` binds in scope in `k`
pub fn then_leaf(c: Comp, k: Comp) -> Comp {
    match c {
        Comp::Ret(v) if v.tm == "tt" => k,
        Comp::Bind(n, m, rest) => Comp::Bind(n, m, Box::new(then_leaf(*rest, k))),
        Comp::Let(n, v, rest) => Comp::Let(n, v, Box::new(then_leaf(*rest, k))),
        other => Comp::Bind(None, Box::new(other), Box::new(k)),
    }
}

impl<'a> Tr<'a> {
    // ------------------------------------------------------------ sequencing

    /// `name <- c` goes to `pre`; user code that runs while locals with a destructor are
    /// alive is wrapped so that they are destroyed when it unwinds
    pub fn emit(&mut self, pre: &mut Vec<Pre>, env: &Env, name: Option<String>, c: Comp) -> Res<()> {
        let harmless = matches!(&c, Comp::Op(f, a, _) if self.op_harmless(f, a.len()));
        let c = self.guarded(c, env)?;
        if !harmless {
            self.harmless = false;
        }
        pre.push(Pre::Bind(name, c, harmless));
        Ok(())
    }

    /// While a local of a nested type with a destructor (a guard) is alive, whatever can
    /// unwind runs under it. While a `T` received by value is alive, only user code does:
    /// like the hand-written model, the translation does not render the destruction of an
    /// owned argument when a debug assertion, an overflow check or a bounds check of the
    /// crate itself fails.
    pub fn guarded(&mut self, c: Comp, env: &Env) -> Res<Comp> {
        let user = self.comp_user(&c);
        if user {
            self.user = true;
        }
        let quiet = matches!(&c, Comp::Ret(_)) || matches!(&c, Comp::Op(f, a, _) if self.op_harmless(f, a.len()));
        let wrapable = matches!(&c, Comp::Op(..) | Comp::Finally(..) | Comp::OnUnwind(..) | Comp::MatchOpt(..));
        if quiet || !wrapable || self.live.is_empty() {
            return Ok(c);
        }
        let names: Vec<String> = self
            .live
            .iter()
            .filter(|n| user || matches!(env.get(*n).map(|v| &v.ty), Some(Ty::Guard(_))))
            .cloned()
            .collect();
        if names.is_empty() {
            return Ok(c);
        }
        let cl = self.cleanup_all(&names, env)?;
        Ok(Comp::OnUnwind(Box::new(c), Box::new(cl)))
    }

    /// the destructors of these locals, youngest first, each one also when the previous unwinds
    pub fn cleanup_all(&mut self, names: &[String], env: &Env) -> Res<Comp> {
        let (last, rest) = names.split_last().expect("caller checked");
        let c = self.cleanup_of(last, env)?;
        if rest.is_empty() {
            Ok(c)
        } else {
            let r = self.cleanup_all(rest, env)?;
            Ok(Comp::Finally(Box::new(c), Box::new(r)))
        }
    }

    /// the destructor of one local
    pub fn cleanup_of(&mut self, name: &str, env: &Env) -> Res<Comp> {
        let v = env.get(name).cloned().ok_or_else(|| format!("internal: live local `{}` not in scope", name))?;
        match &v.ty {
            Ty::Elem => Ok(Comp::Op("drop_elem".into(), vec![v], Ty::Unit)),
            // the buffer a constructor is building: <CircularBuffer as Drop>::drop
            Ty::Buf => {
                let key = "buf_drop";
                if !self.fns.contains_key(key) {
                    return Err("internal: the destructor of the buffer is not among the functions".into());
                }
                if !self.done.contains_key(key) {
                    self.need = Some(key.to_string());
                    return Err(format!("the destructor of the buffer (`{}`) has to be translated first", key));
                }
                self.calls.insert(key.to_string());
                self.user = true;
                Ok(Comp::Op(format!("gen_{}", key), vec![], Ty::Unit))
            }
            Ty::Guard(n) => {
                let nested = self.nested.get(n).cloned().ok_or_else(|| format!("internal: no nested type {}", n))?;
                let body = match nested.drop_body {
                    Some(b) => b,
                    None => return Ok(Comp::unit()),
                };
                let mut env2 = Env::new();
                env2.insert("self".to_string(), v.clone());
                let saved = (self.can_return, std::mem::take(&mut self.live), self.self_out, std::mem::take(&mut self.outs));
                self.can_return = false;
                self.self_out = false;
                let r = self.block(&body.stmts, env2, false);
                self.can_return = saved.0;
                self.live = saved.1;
                self.self_out = saved.2;
                self.outs = saved.3;
                let (c, _, _) = r?;
                self.user = self.user || self.comp_user(&c);
                Ok(simplify(c))
            }
            other => Err(format!("internal: `{}` of type {} has no destructor", name, other.show())),
        }
    }

    /// the end of the function with this value: destroy what is still alive, hand back the
    /// `&mut` parameters
    pub fn finish(&mut self, c: Comp, env: &Env, mut pre: Vec<Pre>) -> Res<Comp> {
        // a view of the array handed out as bytes: its contents
        let wants_list = matches!(&self.me.ret, Ty::IoRes(t) if **t == Ty::List) || self.me.ret == Ty::List;
        let c = match c {
            Comp::Ret(v) if wants_list && (v.ty == Ty::Slice || matches!(&v.ty, Ty::IoRes(t) if **t == Ty::Slice)) => {
                let f = self.fresh();
                self.emit(&mut pre, env, Some(f.clone()), Comp::Op("get_items".into(), vec![], Ty::Any))?;
                Comp::Ret(Val::app(format!("sl_elems {} {}", f, v.paren()), self.me.ret.clone()))
            }
            c => c,
        };
        let nothing_out = !self.self_out && self.outs.is_empty();
        if nothing_out && self.live.is_empty() {
            let c = self.note(c);
            return Ok(wrap(pre, c));
        }
        if matches!(&c, Comp::Op(f, _, _) if f == "panic") {
            return Ok(wrap(pre, c));
        }
        let v = match c {
            Comp::Ret(v) => v,
            c => {
                let ty = c.ty();
                if ty == Ty::Unit {
                    self.emit(&mut pre, env, None, c)?;
                    Val::unit()
                } else {
                    let n = self.fresh();
                    self.emit(&mut pre, env, Some(n.clone()), c)?;
                    Val::atom(n, ty)
                }
            }
        };
        let live = self.live.clone();
        for k in (0..live.len()).rev() {
            let cl = self.cleanup_of(&live[k], env)?;
            self.live.truncate(k);
            let r = self.emit(&mut pre, env, None, cl);
            if r.is_err() {
                self.live = live.clone();
            }
            r?;
        }
        self.live = live;
        let mut parts = vec![];
        if self.self_out {
            let s = env.get("self").cloned().ok_or("internal: no self")?;
            if s.tm != "self'" {
                self.self_changed = true;
            }
            parts.push(s);
        }
        for i in self.outs.clone() {
            let n = self.me.params[i].name.clone();
            let cur = env.get(&n).cloned().ok_or_else(|| format!("internal: parameter `{}` not in scope at the end", n))?;
            if cur.tm != format!("{}'", n) {
                self.outs_changed.insert(i);
            }
            parts.push(cur);
        }
        if v.ty != Ty::Unit || parts.is_empty() {
            parts.push(v);
        }
        Ok(wrap(pre, Comp::Ret(tuple_val(parts))))
    }

    /// bookkeeping for a computation that is used as it is
    pub fn note(&mut self, c: Comp) -> Comp {
        if !matches!(&c, Comp::Ret(_)) && !matches!(&c, Comp::Op(f, a, _) if self.op_harmless(f, a.len())) {
            if !matches!(&c, Comp::If(..) | Comp::Match(..) | Comp::Bind(..) | Comp::Let(..)) {
                self.harmless = false;
            }
        }
        if self.comp_user(&c) {
            self.user = true;
        }
        c
    }

    // ------------------------------------------------------------ values

    /// evaluate to a pure value; what must run first goes to `pre`
    pub fn val(&mut self, e: &Expr, env: &mut Env, pre: &mut Vec<Pre>) -> Res<Val> {
        let c = self.comp(e, env, pre, false)?;
        self.bind_val(c, env, pre, e.span())
    }

    pub fn bind_val(&mut self, c: Comp, env: &Env, pre: &mut Vec<Pre>, sp: Span) -> Res<Val> {
        match c {
            Comp::Ret(v) => Ok(v),
            c => {
                let ty = c.ty();
                if ty == Ty::Unit {
                    return unsupported("unit-valued expression used as a value", sp);
                }
                if ty == Ty::NewBuf {
                    return unsupported("a buffer by value used as a value (only as what a constructor returns)", sp);
                }
                let n = self.fresh();
                self.emit(pre, env, Some(n.clone()), c)?;
                Ok(Val::atom(n, ty))
            }
        }
    }

    pub fn typed(&mut self, e: &Expr, env: &mut Env, pre: &mut Vec<Pre>, want: &Ty, what: &str) -> Res<Val> {
        let v = self.val(e, env, pre)?;
        if !v.ty.compat(want) {
            return Err(format!("{}: {} has type {}, expected {}", at(e.span()), what, v.ty.show(), want.show()));
        }
        Ok(v)
    }

    /// `a..b`, `..b`, `a..`, `..`: the two bounds, `None` where absent
    fn range_bounds(
        &mut self,
        r: &syn::ExprRange,
        env: &mut Env,
        pre: &mut Vec<Pre>,
    ) -> Res<(Option<Val>, Option<Val>)> {
        no_attrs(&r.attrs, r.span())?;
        if !matches!(r.limits, syn::RangeLimits::HalfOpen(_)) {
            return unsupported("inclusive range `..=`", r.span());
        }
        let a = match &r.start {
            Some(e) => Some(self.typed(e, env, pre, &Ty::Usize, "range start")?),
            None => None,
        };
        let b = match &r.end {
            Some(e) => Some(self.typed(e, env, pre, &Ty::Usize, "range end")?),
            None => None,
        };
        Ok((a, b))
    }

    /// a range expression where a `RangeBounds<usize>` is expected
    pub fn bounds_of(&mut self, e: &Expr, env: &mut Env, pre: &mut Vec<Pre>) -> Res<Val> {
        match strip(e) {
            Expr::Range(r) => {
                no_attrs(&r.attrs, r.span())?;
                let a = match &r.start {
                    Some(x) => {
                        let v = self.typed(x, env, pre, &Ty::Usize, "range start")?;
                        Val::app(format!("BIncl {}", v.paren()), Ty::Bound)
                    }
                    None => Val::atom("BUnb", Ty::Bound),
                };
                let b = match (&r.end, &r.limits) {
                    (Some(x), syn::RangeLimits::HalfOpen(_)) => {
                        let v = self.typed(x, env, pre, &Ty::Usize, "range end")?;
                        Val::app(format!("BExcl {}", v.paren()), Ty::Bound)
                    }
                    (Some(x), syn::RangeLimits::Closed(_)) => {
                        let v = self.typed(x, env, pre, &Ty::Usize, "range end")?;
                        Val::app(format!("BIncl {}", v.paren()), Ty::Bound)
                    }
                    (None, _) => Val::atom("BUnb", Ty::Bound),
                };
                Ok(bounds_val(a, b))
            }
            other => {
                let v = self.val(other, env, pre)?;
                match (&v.ty, &v.parts) {
                    (Ty::Bounds, Some(_)) => Ok(v),
                    (Ty::Range, Some(p)) => Ok(bounds_val(
                        Val::app(format!("BIncl {}", p[0].paren()), Ty::Bound),
                        Val::app(format!("BExcl {}", p[1].paren()), Ty::Bound),
                    )),
                    _ => Err(format!("{}: a {} where a range is expected", at(e.span()), v.ty.show())),
                }
            }
        }
    }

    /// `&base[index]` / `&mut base[index]` (also `base[index]` as an auto-referenced receiver)
    fn index_ref(&mut self, ix: &syn::ExprIndex, env: &mut Env, pre: &mut Vec<Pre>) -> Res<Comp> {
        no_attrs(&ix.attrs, ix.span())?;
        let range = match strip(&ix.index) {
            Expr::Range(r) => Some(r),
            _ => None,
        };
        if is_empty_array(&ix.expr) {
            // `[][..]`: the empty slice
            return match range {
                Some(r) if r.start.is_none() && r.end.is_none() => Ok(Comp::Ret(Val::atom("empty_slice", Ty::Slice))),
                _ => unsupported("indexing of an empty array literal other than `[][..]`", ix.span()),
            };
        }
        let b = self.val(&ix.expr, env, pre)?;
        let items = b.ty == Ty::Items;
        if items && range.is_none() {
            let i = self.typed(&ix.index, env, pre, &Ty::Usize, "array index")?;
            return Ok(Comp::Op("idx".into(), vec![i], Ty::Ref));
        }
        if b.ty == Ty::List {
            return self.list_index(b, ix, range, env, pre);
        }
        let base = if items {
            let n = self.fresh();
            self.emit(pre, env, Some(n.clone()), Comp::Op("items_slice".into(), vec![], Ty::Slice))?;
            Val::atom(n, Ty::Slice)
        } else if matches!(b.ty, Ty::Slice | Ty::OSlice(_)) {
            b
        } else {
            return Err(format!("{}: indexed expression has type {}, expected a slice", at(ix.expr.span()), b.ty.show()));
        };
        match range {
            None => {
                if base.ty != Ty::Slice {
                    return unsupported("element of a view of another buffer", ix.span());
                }
                let i = self.typed(&ix.index, env, pre, &Ty::Usize, "slice index")?;
                Ok(Comp::Op("sl_index".into(), vec![base, i], Ty::Ref))
            }
            Some(r) => {
                let (a, b) = self.range_bounds(r, env, pre)?;
                if a.is_none() && b.is_none() {
                    return Ok(Comp::Ret(base));
                }
                let a = a.unwrap_or_else(|| Val::atom("0", Ty::Usize));
                let b = b.unwrap_or_else(|| Val::app(format!("slen {}", base.paren()), Ty::Usize));
                let t = base.ty.clone();
                Ok(Comp::Op("sl_range".into(), vec![base, a, b], t))
            }
        }
    }

    /// `&list[a..]`, `&list[..b]`, `&list[a..b]` on data outside the array
    fn list_index(
        &mut self,
        base: Val,
        ix: &syn::ExprIndex,
        range: Option<&syn::ExprRange>,
        env: &mut Env,
        pre: &mut Vec<Pre>,
    ) -> Res<Comp> {
        let r = match range {
            Some(r) => r,
            None => return unsupported("element of a slice outside the array", ix.span()),
        };
        let (a, b) = self.range_bounds(r, env, pre)?;
        let len = format!("zlen {}", base.paren());
        match (a, b) {
            (None, None) => Ok(Comp::Ret(base)),
            (Some(a), None) => {
                self.emit(pre, env, None, Comp::Op("gen_bounds_check".into(), vec![Val::app(format!("{} <=? {}", a.paren(), len), Ty::Bool)], Ty::Unit))?;
                Ok(Comp::Ret(Val::app(format!("skipn (Z.to_nat {}) {}", a.paren(), base.paren()), Ty::List)))
            }
            (None, Some(b)) => {
                self.emit(pre, env, None, Comp::Op("gen_bounds_check".into(), vec![Val::app(format!("{} <=? {}", b.paren(), len), Ty::Bool)], Ty::Unit))?;
                Ok(Comp::Ret(Val::app(format!("firstn (Z.to_nat {}) {}", b.paren(), base.paren()), Ty::List)))
            }
            (Some(_), Some(_)) => unsupported("two-sided range of a slice outside the array", ix.span()),
        }
    }

    // ------------------------------------------------------------ places

    pub fn place_of(&mut self, e: &Expr, env: &mut Env, pre: &mut Vec<Pre>) -> Res<Option<Place>> {
        match strip(e) {
            Expr::Path(_) => match path_ident(e) {
                Some(x) if env.contains_key(&x) && !matches!(env[&x].ty, Ty::Buf | Ty::Items) => Ok(Some(Place::Var(x))),
                _ => Ok(None),
            },
            Expr::Unary(u) if matches!(u.op, UnOp::Deref(_)) && u.attrs.is_empty() => match path_ident(&u.expr) {
                Some(x) if self.me.params.iter().any(|p| p.by_mut_ref && p.name == x) && env.contains_key(&x) => {
                    Ok(Some(Place::Var(x)))
                }
                _ => Ok(None),
            },
            Expr::Field(f) if f.attrs.is_empty() => {
                let member = match &f.member {
                    syn::Member::Named(n) => n.to_string(),
                    syn::Member::Unnamed(i) => i.index.to_string(),
                };
                if let Some(x) = path_ident(&f.base) {
                    if let Some(v) = env.get(&x) {
                        match &v.ty {
                            Ty::Rec(_) | Ty::Guard(_) => return Ok(Some(Place::Field(x, member))),
                            Ty::Buf => {
                                return Ok(match member.as_str() {
                                    "size" => Some(Place::BufField("size")),
                                    "start" => Some(Place::BufField("start")),
                                    _ => None,
                                })
                            }
                            _ => return Ok(None),
                        }
                    }
                    return Ok(None);
                }
                // `<expression of the buffer>.size`
                let b = self.val(&f.base, env, pre)?;
                if b.ty == Ty::Buf {
                    return Ok(match member.as_str() {
                        "size" => Some(Place::BufField("size")),
                        "start" => Some(Place::BufField("start")),
                        _ => None,
                    });
                }
                Ok(None)
            }
            _ => Ok(None),
        }
    }

    pub fn read_place(&mut self, p: &Place, env: &Env, pre: &mut Vec<Pre>, sp: Span) -> Res<Val> {
        match p {
            Place::Var(x) => Ok(env[x].clone()),
            Place::Field(x, f) => {
                let r = env[x].clone();
                match &r.ty {
                    Ty::Guard(n) => self.guard_field(&r, n, f, sp),
                    _ => self.rec_field(&r, f, sp),
                }
            }
            Place::BufField(which) => {
                let n = self.fresh();
                let op = if *which == "size" { "get_size" } else { "get_start" };
                self.emit(pre, env, Some(n.clone()), Comp::Op(op.into(), vec![], Ty::Usize))?;
                Ok(Val::atom(n, Ty::Usize))
            }
        }
    }

    fn guard_field(&self, g: &Val, ty: &str, f: &str, sp: Span) -> Res<Val> {
        let nested = self.nested.get(ty).ok_or_else(|| format!("{}: unknown local type {}", at(sp), ty))?;
        let k = nested.fields.iter().position(|(n, _)| n == f);
        match (k, &g.parts) {
            (Some(k), Some(p)) => Ok(p[k].clone()),
            _ => unsupported(&format!("field `{}` of {}", f, ty), sp),
        }
    }

    /// bind a value to a fresh name unless it is one already
    pub fn name_it(&mut self, v: Val, pre: &mut Vec<Pre>) -> Val {
        if v.atomic || v.parts.is_some() || matches!(v.ty, Ty::Range | Ty::Bounds | Ty::Ptr | Ty::Guard(_)) {
            return v;
        }
        let n = self.fresh();
        pre.push(Pre::Let(n.clone(), v.clone()));
        Val::atom(n, v.ty)
    }

    pub fn write_place(&mut self, p: &Place, v: Val, env: &mut Env, pre: &mut Vec<Pre>, sp: Span) -> Res<()> {
        match p {
            Place::Var(x) => {
                let old = env[x].clone();
                if !old.ty.compat(&v.ty) {
                    return Err(format!("{}: `{}` (a {}) is assigned a {}", at(sp), x, old.ty.show(), v.ty.show()));
                }
                let v = self.name_it(v, pre);
                env.insert(x.clone(), v);
                Ok(())
            }
            Place::Field(x, f) => {
                let r = env[x].clone();
                if let Ty::Guard(n) = &r.ty {
                    let nested = self.nested.get(n).cloned().ok_or_else(|| format!("{}: unknown local type {}", at(sp), n))?;
                    let k = nested.fields.iter().position(|(m, _)| m == f);
                    let mut parts = r.parts.clone().unwrap_or_default();
                    match k {
                        Some(k) if k < parts.len() => parts[k] = self.name_it(v, pre),
                        _ => return unsupported(&format!("field `{}` of {}", f, n), sp),
                    }
                    let mut r2 = r.clone();
                    r2.parts = Some(parts);
                    env.insert(x.clone(), r2);
                    return Ok(());
                }
                let nv = self.rec_update(&r, f, &v, sp)?;
                let nv = self.name_it(nv, pre);
                env.insert(x.clone(), nv);
                Ok(())
            }
            Place::BufField(which) => {
                if v.ty != Ty::Usize {
                    return Err(format!("{}: assigned value has type {}, expected usize", at(sp), v.ty.show()));
                }
                let op = if *which == "size" { "set_size" } else { "set_start" };
                self.emit(pre, env, None, Comp::Op(op.into(), vec![v], Ty::Unit))
            }
        }
    }

    // ------------------------------------------------------------ expressions

    /// the machine computation an expression stands for; operands go to `pre`.
    /// `tail`: the value of this expression is the value of the function (only looked at by
    /// the control-flow expressions, whose branches then end the function themselves).
    pub fn comp(&mut self, e: &Expr, env: &mut Env, pre: &mut Vec<Pre>, tail: bool) -> Res<Comp> {
        match e {
            Expr::Paren(p) => {
                no_attrs(&p.attrs, p.span())?;
                self.comp(&p.expr, env, pre, tail)
            }
            Expr::Group(g) => {
                no_attrs(&g.attrs, g.span())?;
                self.comp(&g.expr, env, pre, tail)
            }
            Expr::Lit(l) => {
                no_attrs(&l.attrs, l.span())?;
                match &l.lit {
                    Lit::Int(i) => {
                        if !(i.suffix().is_empty() || i.suffix() == "usize") {
                            return unsupported(&format!("integer literal with suffix `{}`", i.suffix()), l.span());
                        }
                        let v: u128 = i
                            .base10_parse()
                            .map_err(|_| format!("{}: integer literal out of range", at(l.span())))?;
                        if v > u64::MAX as u128 {
                            return Err(format!("{}: integer literal does not fit in a 64-bit usize", at(l.span())));
                        }
                        Ok(Comp::Ret(Val::atom(v.to_string(), Ty::Usize)))
                    }
                    Lit::Bool(b) => Ok(Comp::Ret(Val::atom(if b.value { "true" } else { "false" }, Ty::Bool))),
                    _ => unsupported("literal that is neither an integer nor a boolean", l.span()),
                }
            }
            Expr::Path(p) => {
                no_attrs(&p.attrs, p.span())?;
                let segs = path_segments(p)?;
                let segs: Vec<&str> = segs.iter().map(|s| s.as_str()).collect();
                match segs.as_slice() {
                    [x] if env.contains_key(*x) => {
                        let v = env[*x].clone();
                        // a `T` used by value moves out of the variable
                        if v.ty == Ty::Elem {
                            self.live.retain(|n| n != x);
                        }
                        // the buffer a constructor has built, returned
                        if v.ty == Ty::Buf && self.live.iter().any(|n| n == x) {
                            if self.me.ret != Ty::NewBuf || !tail || self.in_loop {
                                return unsupported("a buffer by value used other than as what the constructor returns", p.span());
                            }
                            self.live.retain(|n| n != x);
                            return Ok(Comp::Ret(Val::atom("tt", Ty::NewBuf)));
                        }
                        Ok(Comp::Ret(v))
                    }
                    ["N"] if self.me.has_n => Ok(Comp::Op("get_cap".into(), vec![], Ty::Usize)),
                    ["None"] => Ok(Comp::Ret(Val::atom("None", Ty::Opt(Box::new(Ty::Any))))),
                    ["self"] => unsupported("`self` used as a value", p.span()),
                    [x] => Err(format!("{}: unknown variable or constant `{}`", at(p.span()), x)),
                    ["usize", "MAX"] => Ok(Comp::Ret(Val::atom("usize_max", Ty::Usize))),
                    ["usize", "MIN"] => Ok(Comp::Ret(Val::atom("0", Ty::Usize))),
                    _ => unsupported(&format!("path `{}`", segs.join("::")), p.span()),
                }
            }
            Expr::Field(f) => {
                no_attrs(&f.attrs, f.span())?;
                let member = match &f.member {
                    syn::Member::Named(n) => n.to_string(),
                    syn::Member::Unnamed(i) => i.index.to_string(),
                };
                let b = self.val(&f.base, env, pre)?;
                match (&b.ty, &b.parts, member.as_str()) {
                    (Ty::Buf, _, "inner") if b.tm == "<into_iter>" => Ok(Comp::Ret(Val::atom("<buffer>", Ty::Buf))),
                    (Ty::Buf, _, m) if b.tm == "<into_iter>" => unsupported(&format!("field `{}` of an IntoIter", m), f.span()),
                    (Ty::Buf, _, "size") => Ok(Comp::Op("get_size".into(), vec![], Ty::Usize)),
                    (Ty::Buf, _, "start") => Ok(Comp::Op("get_start".into(), vec![], Ty::Usize)),
                    (Ty::Buf, _, "items") => Ok(Comp::Ret(Val::atom("<items>", Ty::Items))),
                    (Ty::Buf, _, m) => unsupported(&format!("field `{}` of the buffer", m), f.span()),
                    (Ty::Range, Some(p), "start") => Ok(Comp::Ret(p[0].clone())),
                    (Ty::Range, Some(p), "end") => Ok(Comp::Ret(p[1].clone())),
                    (Ty::Rec(_), _, m) => Ok(Comp::Ret(self.rec_field(&b, m, f.span())?)),
                    (Ty::Guard(n), _, m) => Ok(Comp::Ret(self.guard_field(&b, n, m, f.span())?)),
                    _ => unsupported(&format!("field `{}` of a {}", member, b.ty.show()), f.span()),
                }
            }
            Expr::Cast(c) => {
                no_attrs(&c.attrs, c.span())?;
                // `slice as *mut [T] as *mut T`: the address of the first element
                let tt = norm_tokens(&c.ty);
                if tt == "* mut T" || tt == "* const T" {
                    if let Expr::Cast(inner) = strip(&c.expr) {
                        let it = norm_tokens(&inner.ty);
                        if it == "* mut [T]" || it == "* const [T]" {
                            let v = self.typed(&inner.expr, env, pre, &Ty::Slice, "slice cast to a pointer")?;
                            return Ok(Comp::Ret(Val::app(format!("soff {}", v.paren()), Ty::Ptr)));
                        }
                    }
                }
                let v = self.val(&c.expr, env, pre)?;
                let target = type_of(&c.ty, &TyCtx::default())?;
                match (&v.ty, &target) {
                    (Ty::Bool, Ty::Usize) => Ok(Comp::Ret(Val::app(format!("b2z {}", v.paren()), Ty::Usize))),
                    (Ty::Usize, Ty::Usize) | (Ty::Bool, Ty::Bool) => Ok(Comp::Ret(v)),
                    _ => unsupported(&format!("cast from {} to {}", v.ty.show(), target.show()), c.span()),
                }
            }
            Expr::Unary(u) => {
                no_attrs(&u.attrs, u.span())?;
                if matches!(u.op, UnOp::Deref(_)) {
                    // `*x` of a `&usize` or of a `&mut` parameter: the value; `*self` of a Copy record
                    if let Some(x) = path_ident(&u.expr) {
                        if let Some(v) = env.get(&x) {
                            if matches!(v.ty, Ty::Usize | Ty::Slice | Ty::Rec(_) | Ty::List) {
                                return Ok(Comp::Ret(v.clone()));
                            }
                            // `*item` of a `&T` handed out by an adaptor, T: Copy: the element
                            if v.ty == Ty::ElemRef {
                                return Ok(Comp::Ret(Val { ty: Ty::Elem, ..v.clone() }));
                            }
                        }
                    }
                    return unsupported("dereference of something other than a `&usize` or a `&mut` parameter", u.span());
                }
                let v = self.val(&u.expr, env, pre)?;
                match (&u.op, &v.ty) {
                    (UnOp::Not(_), Ty::Bool) => Ok(Comp::Ret(Val::app(format!("negb {}", v.paren()), Ty::Bool))),
                    _ => unsupported(&format!("unary operator on {}", v.ty.show()), u.span()),
                }
            }
            Expr::Binary(b) => self.binary(b, env, pre),
            Expr::Assign(a) => {
                no_attrs(&a.attrs, a.span())?;
                let place = match self.place_of(&a.left, env, pre)? {
                    Some(p) => p,
                    None => return unsupported("assignment to something other than a local, a field of a local record, or size / start of the buffer", a.left.span()),
                };
                let v = self.val(&a.right, env, pre)?;
                self.write_place(&place, v, env, pre, a.span())?;
                Ok(Comp::unit())
            }
            Expr::Reference(r) => {
                no_attrs(&r.attrs, r.span())?;
                match strip(&r.expr) {
                    Expr::Index(ix) => self.index_ref(ix, env, pre),
                    x if is_empty_array(x) => Ok(Comp::Ret(Val::atom("empty_slice", Ty::Slice))),
                    // `&*(x as *const [MaybeUninit<T>] as *const [T])`: the same view
                    Expr::Unary(u) if matches!(u.op, UnOp::Deref(_)) && u.attrs.is_empty() => {
                        if let Expr::Cast(c2) = strip(&u.expr) {
                            if let Expr::Cast(c1) = strip(&c2.expr) {
                                let (t1, t2) = (norm_tokens(&c1.ty), norm_tokens(&c2.ty));
                                let ok = (t1 == "* const [MaybeUninit < T >]" && t2 == "* const [T]")
                                    || (t1 == "* mut [MaybeUninit < T >]" && t2 == "* mut [T]");
                                if ok && c1.attrs.is_empty() && c2.attrs.is_empty() {
                                    let v = self.typed(&c1.expr, env, pre, &Ty::Slice, "slice whose element type is cast")?;
                                    return Ok(Comp::Ret(v));
                                }
                            }
                        }
                        unsupported("`&*` of something other than the MaybeUninit<T> -> T cast of a slice", u.span())
                    }
                    other => {
                        // `&mut buf.items`, `&mut x` for a slice x: the view itself
                        let v = self.val(other, env, pre)?;
                        match v.ty {
                            Ty::Items => {
                                let n = self.fresh();
                                self.emit(pre, env, Some(n.clone()), Comp::Op("items_slice".into(), vec![], Ty::Slice))?;
                                Ok(Comp::Ret(Val::atom(n, Ty::Slice)))
                            }
                            Ty::Slice | Ty::List | Ty::OSlice(_) => Ok(Comp::Ret(v)),
                            // a `&usize` is the number
                            Ty::Usize if r.mutability.is_none() => Ok(Comp::Ret(v)),
                            _ => unsupported(
                                "`&` / `&mut` of something other than an indexing expression, `[]`, the items array or a slice",
                                other.span(),
                            ),
                        }
                    }
                }
            }
            // a place used through auto-ref (method receiver): the slot
            Expr::Index(ix) => self.index_ref(ix, env, pre),
            Expr::Range(r) => {
                let (a, b) = self.range_bounds(r, env, pre)?;
                match (a, b) {
                    (Some(a), Some(b)) => Ok(Comp::Ret(range_val(a, b))),
                    _ => unsupported("range value without both bounds", r.span()),
                }
            }
            Expr::Tuple(t) => {
                no_attrs(&t.attrs, t.span())?;
                if t.elems.is_empty() {
                    return Ok(Comp::unit());
                }
                if t.elems.len() < 2 {
                    return unsupported("1-tuple expression", t.span());
                }
                let mut vs = vec![];
                for x in &t.elems {
                    let v = self.val(x, env, pre)?;
                    if v.ty.coq().is_err() || v.ty == Ty::NewBuf {
                        return unsupported(&format!("{} inside a tuple", v.ty.show()), x.span());
                    }
                    vs.push(v);
                }
                Ok(Comp::Ret(tuple_val(vs)))
            }
            Expr::Struct(s) => self.struct_lit(s, env, pre),
            Expr::Call(c) => self.call(c, env, pre),
            Expr::MethodCall(m) => self.method_call(m, env, pre),
            Expr::Try(t) => {
                no_attrs(&t.attrs, t.span())?;
                let v = self.val(&t.expr, env, pre)?;
                if let Ty::IoRes(inner) = &v.ty {
                    // the error type has no values (`Infallible`) or the callee is the model's
                    // slice_read, which always succeeds
                    let mut w = v.clone();
                    w.ty = (**inner).clone();
                    return Ok(Comp::Ret(w));
                }
                let inner = match &v.ty {
                    Ty::Opt(i) if **i != Ty::Any => (**i).clone(),
                    other => return unsupported(&format!("`?` on a {}", other.show()), t.span()),
                };
                if !self.can_return {
                    return unsupported("`?` inside a nested expression (it leaves the function)", t.span());
                }
                if !matches!(self.me.ret, Ty::Opt(_)) {
                    return unsupported("`?` on an Option in a function that does not return an Option", t.span());
                }
                let none = self.finish(Comp::Ret(Val::atom("None", Ty::Opt(Box::new(Ty::Any)))), env, vec![])?;
                let n = self.fresh();
                pre.push(Pre::Try(n.clone(), v, none));
                Ok(Comp::Ret(Val::atom(n, inner)))
            }
            Expr::If(i) => self.if_expr(i, env, pre, tail),
            Expr::Match(m) => self.match_expr(m, env, pre, tail),
            Expr::Block(b) => {
                no_attrs(&b.attrs, b.span())?;
                if b.label.is_some() {
                    return unsupported("labelled block", b.span());
                }
                let (c, _, e2) = self.block(&b.block.stmts, env.clone(), tail)?;
                self.copy_back(env, &e2);
                Ok(c)
            }
            Expr::Unsafe(u) => {
                no_attrs(&u.attrs, u.span())?;
                let (c, _, e2) = self.block(&u.block.stmts, env.clone(), tail)?;
                self.copy_back(env, &e2);
                Ok(c)
            }
            Expr::Await(a) => {
                // the only awaited futures are the reads from a slice, which are immediately ready
                no_attrs(&a.attrs, a.span())?;
                match strip(&a.base) {
                    Expr::MethodCall(m) if m.method == "read" => self.comp(&a.base, env, pre, false),
                    _ => unsupported("`.await` of something other than a read from a slice", a.span()),
                }
            }
            Expr::Return(r) => Err(format!(
                "{}: `return` inside an expression is not supported (only as a statement)",
                at(r.span())
            )),
            Expr::Macro(m) => {
                no_attrs(&m.attrs, m.span())?;
                let name = m.mac.path.segments.iter().map(|s| s.ident.to_string()).collect::<Vec<_>>().join("::");
                if name == "unimplemented" && m.mac.tokens.is_empty() {
                    return Ok(panic_op("PUnimplemented"));
                }
                unsupported(&format!("macro `{}!` in expression position", name), m.span())
            }
            Expr::ForLoop(f) => unsupported(
                "`for` loop (only `while` loops are rendered, as Fixpoints on the fuel the model gives them)",
                f.span(),
            ),
            other => unsupported(&describe(other), other.span()),
        }
    }

    /// after a nested block: the variables that were there before keep what the block left in them
    pub fn copy_back(&self, env: &mut Env, inner: &Env) {
        let keys: Vec<String> = env.keys().cloned().collect();
        for k in keys {
            if let Some(v) = inner.get(&k) {
                env.insert(k, v.clone());
            }
        }
    }

    fn struct_lit(&mut self, s: &syn::ExprStruct, env: &mut Env, pre: &mut Vec<Pre>) -> Res<Comp> {
        no_attrs(&s.attrs, s.span())?;
        if s.qself.is_some() || s.rest.is_some() || s.dot2_token.is_some() {
            return unsupported("struct expression with a base or a qualified path", s.span());
        }
        let name = match s.path.get_ident() {
            Some(i) => i.to_string(),
            None => return unsupported("struct expression with a path", s.span()),
        };
        let mut given: Vec<(String, &Expr)> = vec![];
        for f in &s.fields {
            no_attrs(&f.attrs, f.span())?;
            match &f.member {
                syn::Member::Named(n) => given.push((n.to_string(), &f.expr)),
                _ => return unsupported("tuple-struct field initialiser", f.span()),
            }
        }
        // a struct declared in this function
        if let Some(nested) = self.nested.get(&name).cloned() {
            let mut parts = vec![];
            // fields are evaluated in the order written
            let mut vals: Vec<(String, Val)> = vec![];
            for (n, e) in &given {
                let v = self.val(e, env, pre)?;
                vals.push((n.clone(), v));
            }
            for (fname, fty) in &nested.fields {
                match vals.iter().find(|(n, _)| n == fname) {
                    Some((_, v)) if v.ty.compat(fty) => parts.push(v.clone()),
                    Some((_, v)) => return Err(format!("{}: field `{}` receives a {}, expected {}", at(s.span()), fname, v.ty.show(), fty.show())),
                    None => return unsupported(&format!("struct expression without the field `{}`", fname), s.span()),
                }
            }
            return Ok(Comp::Ret(Val { tm: format!("<{}>", name), ty: Ty::Guard(name), atomic: true, parts: Some(parts), ptr_base: false }));
        }
        let tname = if name == "Self" {
            match &self.me.owner {
                Some(o) => o.clone(),
                None => return unsupported("`Self` outside an impl", s.span()),
            }
        } else {
            name.clone()
        };
        if tname == "IntoIter" {
            return unsupported("construction of an IntoIter (the wrapped buffer is the state itself)", s.span());
        }
        if tname == "CircularBuffer" {
            return self.buffer_lit(s, &given, env, pre);
        }
        let sc = match schema(&tname) {
            Some(sc) => sc,
            None => return unsupported(&format!("struct expression of type `{}`", tname), s.span()),
        };
        let mut vals: Vec<(String, Val)> = vec![];
        for (n, e) in &given {
            // a field that is not represented must be initialised by the expected path
            let kind = sc.fields.iter().find(|(f, _, _)| f == n).map(|(_, _, k)| k);
            match kind {
                Some(FieldKind::Ignore(want)) => {
                    if path_ident(e).as_deref() != Some(*want) {
                        return unsupported(&format!("field `{}` initialised by something other than `{}`", n, want), e.span());
                    }
                    continue;
                }
                None => return unsupported(&format!("field `{}` of {}", n, tname), e.span()),
                _ => {}
            }
            let v = self.val(e, env, pre)?;
            vals.push((n.clone(), v));
        }
        let mut args = vec![];
        for (f, _, k) in &sc.fields {
            let v = vals.iter().find(|(n, _)| n == f).map(|(_, v)| v.clone());
            match k {
                FieldKind::Ignore(_) => {
                    if !given.iter().any(|(n, _)| n == f) {
                        return unsupported(&format!("struct expression without the field `{}`", f), s.span());
                    }
                }
                FieldKind::Buf => match v {
                    Some(v) if v.ty == Ty::Buf => {}
                    _ => return unsupported(&format!("field `{}` must be the buffer", f), s.span()),
                },
                FieldKind::FixedPtrBase => match v {
                    // the model has no room for another base than the first slot of the array: the
                    // struct can only be built there (checked when it runs)
                    Some(v) if v.ty == Ty::Ptr => {
                        if !v.ptr_base {
                            let c = Val::app(format!("{} =? 0", v.paren()), Ty::Bool);
                            self.emit(pre, env, None, Comp::Op("gen_repr_guard".into(), vec![c], Ty::Unit))?;
                        }
                    }
                    _ => return unsupported(&format!("field `{}` must be a pointer into the array", f), s.span()),
                },
                FieldKind::Plain(_, t) => match v {
                    Some(v) if v.ty.compat(t) => args.push(v.paren()),
                    Some(v) => return Err(format!("{}: field `{}` receives a {}, expected {}", at(s.span()), f, v.ty.show(), t.show())),
                    None => return unsupported(&format!("struct expression without the field `{}`", f), s.span()),
                },
                FieldKind::Range(_, _) => match v {
                    Some(Val { ty: Ty::Range, parts: Some(p), .. }) => {
                        args.push(p[0].paren());
                        args.push(p[1].paren());
                    }
                    _ => return unsupported(&format!("field `{}` must be a range with known bounds", f), s.span()),
                },
            }
        }
        Ok(Comp::Ret(Val::app(format!("{} {}", sc.ctor, args.join(" ")), Ty::Rec(tname))))
    }

    /// `Self { size, start, items }` as the value of a constructor of CircularBuffer: the fields are
    /// written, in the order they are given, to the memory that receives the result (the state; see
    /// Ty::NewBuf); an items array that is uninitialised memory leaves the array as it is
    fn buffer_lit(&mut self, s: &syn::ExprStruct, given: &[(String, &Expr)], env: &mut Env, pre: &mut Vec<Pre>) -> Res<Comp> {
        if self.me.ret != Ty::NewBuf || self.in_loop {
            return unsupported(
                "construction of a CircularBuffer outside the tail of a constructor (in the model the buffer is the state of the computation, not a value)",
                s.span(),
            );
        }
        let mut seen: Vec<&str> = vec![];
        // evaluated in the order written; written to the result after all of them are evaluated
        let mut writes: Vec<(&'static str, Val)> = vec![];
        for (n, e) in given {
            match n.as_str() {
                "size" | "start" => {
                    let v = self.typed(e, env, pre, &Ty::Usize, "field of the buffer")?;
                    writes.push((if n == "size" { "set_size" } else { "set_start" }, v));
                }
                "items" => {
                    let v = self.val(e, env, pre)?;
                    if v.ty != Ty::UninitItems {
                        return unsupported(&format!("items array initialised by a {} (only uninitialised memory is known)", v.ty.show()), e.span());
                    }
                }
                other => return unsupported(&format!("field `{}` of CircularBuffer", other), e.span()),
            }
            if seen.contains(&n.as_str()) {
                return unsupported("field given twice", e.span());
            }
            seen.push(n.as_str());
        }
        if seen.len() != 3 {
            return unsupported("struct expression of CircularBuffer without all of size, start, items", s.span());
        }
        for (op, v) in writes {
            self.emit(pre, env, None, Comp::Op(op.into(), vec![v], Ty::Unit))?;
        }
        Ok(Comp::Ret(Val::atom("tt", Ty::NewBuf)))
    }

    fn binary(&mut self, b: &syn::ExprBinary, env: &mut Env, pre: &mut Vec<Pre>) -> Res<Comp> {
        no_attrs(&b.attrs, b.span())?;
        match b.op {
            BinOp::And(_) | BinOp::Or(_) => {
                let l = self.typed(&b.left, env, pre, &Ty::Bool, "operand of `&&` / `||`")?;
                let mut rpre = vec![];
                let mut renv = env.clone();
                let saved = self.can_return;
                self.can_return = false;
                let r = self.typed(&b.right, &mut renv, &mut rpre, &Ty::Bool, "operand of `&&` / `||`");
                self.can_return = saved;
                let r = r?;
                // the right operand is only evaluated sometimes: when it does more than read the state
                // it is a computation of its own, run on one side of a test of the left operand
                if !rpre.iter().all(|p| p.harmless()) {
                    // (the function's own `T` arguments with a destructor would have to be guarded in it)
                    if !self.live.is_empty() || self.in_loop {
                        return unsupported(
                            "short-circuit operator whose right operand performs checked arithmetic or a call, while locals with a destructor are alive",
                            b.span(),
                        );
                    }
                    if !self.changed(env, &renv).is_empty() {
                        return unsupported("short-circuit operator whose right operand assigns to variables", b.span());
                    }
                    let rc = wrap(rpre, Comp::Ret(r));
                    self.harmless = false;
                    return Ok(if matches!(b.op, BinOp::And(_)) {
                        Comp::If(l, Box::new(rc), Box::new(Comp::Ret(Val::atom("false", Ty::Bool))), Ty::Bool)
                    } else {
                        Comp::If(l, Box::new(Comp::Ret(Val::atom("true", Ty::Bool))), Box::new(rc), Ty::Bool)
                    });
                }
                *env = renv;
                pre.append(&mut rpre);
                let op = if matches!(b.op, BinOp::And(_)) { "&&" } else { "||" };
                Ok(Comp::Ret(Val::app(format!("{} {} {}", l.paren(), op, r.paren()), Ty::Bool)))
            }
            BinOp::Lt(_) | BinOp::Le(_) | BinOp::Gt(_) | BinOp::Ge(_) | BinOp::Eq(_) | BinOp::Ne(_) => {
                // both operands are evaluated, left first; the comparison itself is pure
                let l = self.val(&b.left, env, pre)?;
                let r = self.val(&b.right, env, pre)?;
                let is_elems = |t: &Ty| matches!(t, Ty::Slice | Ty::OSlice(_) | Ty::List);
                if matches!(b.op, BinOp::Eq(_)) && is_elems(&l.ty) && is_elems(&r.ty) {
                    return self.slices_eq(&l, &r, env, pre, b.span());
                }
                if matches!(b.op, BinOp::Eq(_)) && l.ty == Ty::Buf && l.tm == "<buffer>" && r.ty == Ty::List {
                    // `self == slice`: <CircularBuffer as PartialEq<[U]>>::eq
                    let key = match self.index.get(&(Some("CircularBuffer".to_string()), "eq<[U]>".to_string())) {
                        Some(k) => k.clone(),
                        None => return unsupported("`==` of the buffer and a slice (PartialEq<[U]> is not among the functions)", b.span()),
                    };
                    return self.call_known(&key, Some((&b.left, None, l)), vec![crate::call::Arg::V(r)], env, pre, b.span());
                }
                if l.ty != r.ty {
                    return unsupported("comparison of values of different types", b.span());
                }
                let (lp, rp) = (l.paren(), r.paren());
                let tm = match (&b.op, &l.ty) {
                    (BinOp::Lt(_), Ty::Usize) => format!("{} <? {}", lp, rp),
                    (BinOp::Le(_), Ty::Usize) => format!("{} <=? {}", lp, rp),
                    // a > b is b < a, a >= b is b <= a (same truth value on Z)
                    (BinOp::Gt(_), Ty::Usize) => format!("{} <? {}", rp, lp),
                    (BinOp::Ge(_), Ty::Usize) => format!("{} <=? {}", rp, lp),
                    (BinOp::Eq(_), Ty::Usize) => format!("{} =? {}", lp, rp),
                    (BinOp::Ne(_), Ty::Usize) => format!("negb ({} =? {})", lp, rp),
                    (BinOp::Eq(_), Ty::Bool) => format!("Bool.eqb {} {}", lp, rp),
                    (BinOp::Ne(_), Ty::Bool) => format!("xorb {} {}", lp, rp),
                    _ => return unsupported(&format!("comparison on {}", l.ty.show()), b.span()),
                };
                Ok(Comp::Ret(Val::app(tm, Ty::Bool)))
            }
            BinOp::Add(_) | BinOp::Sub(_) | BinOp::Mul(_) | BinOp::Rem(_) => {
                let op = match b.op {
                    BinOp::Add(_) => "uadd",
                    BinOp::Sub(_) => "usub",
                    BinOp::Mul(_) => "umul",
                    _ => "urem",
                };
                let l = self.typed(&b.left, env, pre, &Ty::Usize, "arithmetic operand")?;
                let r = self.typed(&b.right, env, pre, &Ty::Usize, "arithmetic operand")?;
                Ok(Comp::Op(op.into(), vec![l, r], Ty::Usize))
            }
            BinOp::AddAssign(_) | BinOp::SubAssign(_) => {
                // for a primitive type the right operand is evaluated first, then the place is read
                let place = match self.place_of(&b.left, env, pre)? {
                    Some(p) => p,
                    None => return unsupported("compound assignment to something other than a local, a field of a local record, or size / start of the buffer", b.left.span()),
                };
                let r = self.typed(&b.right, env, pre, &Ty::Usize, "arithmetic operand")?;
                let cur = self.read_place(&place, env, pre, b.span())?;
                if cur.ty != Ty::Usize {
                    return unsupported(&format!("compound assignment to a {}", cur.ty.show()), b.span());
                }
                let op = if matches!(b.op, BinOp::AddAssign(_)) { "uadd" } else { "usub" };
                let v = self.fresh();
                self.emit(pre, env, Some(v.clone()), Comp::Op(op.into(), vec![cur, r], Ty::Usize))?;
                self.write_place(&place, Val::atom(v, Ty::Usize), env, pre, b.span())?;
                Ok(Comp::unit())
            }
            _ => unsupported("binary operator (only + - * % < <= > >= == != && || += -= are known)", b.span()),
        }
    }

    // ------------------------------------------------------------ control flow

    fn if_expr(&mut self, i: &syn::ExprIf, env: &mut Env, pre: &mut Vec<Pre>, tail: bool) -> Res<Comp> {
        no_attrs(&i.attrs, i.span())?;
        // `if let Some(x) = e { a } else { b }`
        if let Expr::Let(l) = strip(&i.cond) {
            no_attrs(&l.attrs, l.span())?;
            let v = self.val(&l.expr, env, pre)?;
            let inner = match &v.ty {
                Ty::Opt(t) if **t != Ty::Any => (**t).clone(),
                other => return unsupported(&format!("`if let` on a {}", other.show()), l.span()),
            };
            let x = match &*l.pat {
                syn::Pat::TupleStruct(ts)
                    if ts.path.is_ident("Some") && ts.elems.len() == 1 && ts.attrs.is_empty() && ts.qself.is_none() =>
                {
                    &ts.elems[0]
                }
                other => return unsupported("`if let` pattern other than Some(x)", other.span()),
            };
            let mut env_a = env.clone();
            let name = self.bind_pattern(x, &Val::atom("_", inner), &mut env_a)?;
            let live0 = self.live.clone();
            let (a, _, env_a) = self.block(&i.then_branch.stmts, env_a, tail)?;
            let live_a = std::mem::replace(&mut self.live, live0.clone());
            let (b, env_b) = self.else_branch(&i.else_branch, env, tail, i.span())?;
            if tail {
                self.live = live0;
            } else if self.live != live_a {
                return unsupported("`if let` whose branches differ in which locals with a destructor they move", i.span());
            }
            if !tail && (self.changed(env, &env_a).len() + self.changed(env, &env_b).len() > 0) {
                return unsupported("`if let` whose branches assign to variables that live on", i.span());
            }
            let (ta, tb) = (a.ty(), b.ty());
            if !ta.compat(&tb) {
                return unsupported(&format!("`if let` whose branches have types {} and {}", ta.show(), tb.show()), i.span());
            }
            return Ok(Comp::MatchOpt(v, name, Box::new(b), Box::new(a)));
        }
        let c = self.typed(&i.cond, env, pre, &Ty::Bool, "condition")?;
        let live0 = self.live.clone();
        let (a, _, env_a) = self.block(&i.then_branch.stmts, env.clone(), tail)?;
        let live_a = std::mem::replace(&mut self.live, live0.clone());
        let (b, env_b) = self.else_branch(&i.else_branch, env, tail, i.span())?;
        if tail {
            self.live = live0;
        } else if self.live != live_a {
            return unsupported("`if` whose branches differ in which locals with a destructor they move", i.span());
        }
        let (ta, tb) = (a.ty(), b.ty());
        if !ta.compat(&tb) {
            return unsupported(&format!("`if` whose branches have types {} and {}", ta.show(), tb.show()), i.span());
        }
        let ty = ta.join(&tb);
        if tail {
            return Ok(Comp::If(c, Box::new(a), Box::new(b), ty));
        }
        // the variables the branches leave changed come out of the `if` together with its value
        let mut names = self.changed(env, &env_a);
        for n in self.changed(env, &env_b) {
            if !names.contains(&n) {
                names.push(n);
            }
        }
        names.sort();
        if names.is_empty() {
            return Ok(Comp::If(c, Box::new(a), Box::new(b), ty));
        }
        for n in &names {
            if env[n].ty.coq().is_err() {
                return unsupported(&format!("`if` whose branches assign to `{}`, a {}", n, env[n].ty.show()), i.span());
            }
        }
        let unit = ty == Ty::Unit;
        let mut counter = 0usize;
        let mut fresh = || {
            counter += 1;
            format!("j{}", counter)
        };
        let xa = {
            let (e, ns) = (env_a.clone(), names.clone());
            move || ns.iter().map(|n| e[n].clone()).collect::<Vec<_>>()
        };
        let xb = {
            let (e, ns) = (env_b.clone(), names.clone());
            move || ns.iter().map(|n| e[n].clone()).collect::<Vec<_>>()
        };
        let a = extend_leaves(a, unit, &xa, &mut fresh);
        let b = extend_leaves(b, unit, &xb, &mut fresh);
        let jt = a.ty().join(&b.ty());
        let mut pats = vec![];
        let mut result = Val::unit();
        if !unit {
            let n = self.fresh();
            pats.push(n.clone());
            result = Val::atom(n, ty.clone());
        }
        for n in &names {
            let f = self.fresh();
            pats.push(f.clone());
            let t = env[n].ty.clone();
            env.insert(n.clone(), Val::atom(f, t));
        }
        let pat = if pats.len() == 1 { pats[0].clone() } else { format!("'({})", pats.join(", ")) };
        let whole = Comp::If(c, Box::new(a), Box::new(b), jt);
        self.harmless = false;
        pre.push(Pre::Bind(Some(pat), whole, false));
        Ok(Comp::Ret(result))
    }

    fn else_branch(
        &mut self,
        eb: &Option<(syn::Token![else], Box<Expr>)>,
        env: &Env,
        tail: bool,
        sp: Span,
    ) -> Res<(Comp, Env)> {
        match eb {
            Some((_, e)) => {
                let saved = self.can_return;
                self.can_return = saved && tail;
                let mut bpre = vec![];
                let mut env_b = env.clone();
                let b = self.comp(e, &mut env_b, &mut bpre, tail);
                self.can_return = saved;
                let b = b?;
                if tail && !is_control(e) {
                    return unsupported("`else` followed by something other than a block or an `if`", sp);
                }
                Ok((wrap(bpre, b), env_b))
            }
            None => {
                if tail {
                    let c = self.finish(Comp::unit(), env, vec![])?;
                    Ok((c, env.clone()))
                } else {
                    Ok((Comp::unit(), env.clone()))
                }
            }
        }
    }

    /// the variables of `outer` that hold something else in `inner`
    pub fn changed(&self, outer: &Env, inner: &Env) -> Vec<String> {
        let mut v: Vec<String> = outer
            .iter()
            .filter(|(k, val)| match inner.get(*k) {
                Some(w) => w.tm != val.tm || w.parts.as_ref().map(|p| p.iter().map(|x| x.tm.clone()).collect::<Vec<_>>())
                    != val.parts.as_ref().map(|p| p.iter().map(|x| x.tm.clone()).collect::<Vec<_>>()),
                None => false,
            })
            .map(|(k, _)| k.clone())
            .collect();
        v.sort();
        v
    }

    fn match_expr(&mut self, m: &syn::ExprMatch, env: &mut Env, pre: &mut Vec<Pre>, tail: bool) -> Res<Comp> {
        no_attrs(&m.attrs, m.span())?;
        // the scrutinee: one Bound, or a tuple of them
        let scrut: Vec<Val> = match strip(&m.expr) {
            Expr::Tuple(t) if t.attrs.is_empty() && t.elems.len() >= 2 => {
                let mut v = vec![];
                for x in &t.elems {
                    v.push(self.typed(x, env, pre, &Ty::Bound, "matched value")?);
                }
                v
            }
            other => {
                let v = self.val(other, env, pre)?;
                if v.ty != Ty::Bound && v.ty != Ty::Ordering {
                    return Err(format!("{}: matched value has type {}, expected a Bound or an Ordering", at(other.span()), v.ty.show()));
                }
                vec![v]
            }
        };
        let on_ordering = scrut.len() == 1 && scrut[0].ty == Ty::Ordering;
        let mut arms: Vec<(String, Comp)> = vec![];
        let mut ty = Ty::Any;
        let live0 = self.live.clone();
        for arm in &m.arms {
            self.live = live0.clone();
            no_attrs(&arm.attrs, arm.span())?;
            if arm.guard.is_some() {
                return unsupported("match guard", arm.span());
            }
            let mut env_a = env.clone();
            let pats: Vec<&syn::Pat> = match &arm.pat {
                syn::Pat::Tuple(t) if t.attrs.is_empty() && scrut.len() > 1 => {
                    if t.elems.len() != scrut.len() {
                        return unsupported("tuple pattern of the wrong width", t.span());
                    }
                    t.elems.iter().collect()
                }
                syn::Pat::Wild(_) => vec![],
                p if scrut.len() == 1 => vec![p],
                other => return unsupported("match pattern", other.span()),
            };
            let text = if pats.is_empty() {
                vec!["_".to_string(); scrut.len()].join(", ")
            } else {
                let mut ps = vec![];
                for p in pats {
                    ps.push(if on_ordering { self.ordering_pattern(p)? } else { self.bound_pattern(p, &mut env_a)? });
                }
                ps.join(", ")
            };
            let saved = self.can_return;
            self.can_return = saved && tail;
            let mut apre = vec![];
            let r = self.comp(&arm.body, &mut env_a, &mut apre, tail);
            let r = match r {
                Ok(c) => {
                    if tail && !is_control(&arm.body) {
                        self.finish(c, &env_a, apre)
                    } else {
                        Ok(wrap(apre, c))
                    }
                }
                Err(e) => Err(e),
            };
            self.can_return = saved;
            let c = r?;
            if !tail && !self.changed(env, &env_a).is_empty() {
                return unsupported("match arm that assigns to variables that live on", arm.span());
            }
            let t = c.ty();
            if !t.compat(&ty) {
                return unsupported(&format!("match whose arms have types {} and {}", ty.show(), t.show()), arm.span());
            }
            ty = ty.join(&t);
            arms.push((text, c));
        }
        self.harmless = false;
        self.live = live0;
        Ok(Comp::Match(scrut, arms, ty))
    }

    /// `Ordering::Less` / `Ordering::Equal` / `Ordering::Greater` / `_`
    fn ordering_pattern(&mut self, p: &syn::Pat) -> Res<String> {
        match p {
            syn::Pat::Wild(_) => Ok("_".into()),
            syn::Pat::Path(pp) if pp.attrs.is_empty() && pp.qself.is_none() => {
                let s: Vec<String> = pp.path.segments.iter().map(|s| s.ident.to_string()).collect();
                let s: Vec<&str> = s.iter().map(|x| x.as_str()).collect();
                match s.as_slice() {
                    ["Ordering", "Less"] => Ok("Lt".into()),
                    ["Ordering", "Equal"] => Ok("Eq".into()),
                    ["Ordering", "Greater"] => Ok("Gt".into()),
                    _ => unsupported(&format!("pattern `{}`", s.join("::")), p.span()),
                }
            }
            other => unsupported("pattern (only Ordering::Less, Ordering::Equal, Ordering::Greater and `_` are known here)", other.span()),
        }
    }

    /// `Bound::Included(x)` / `Bound::Excluded(x)` / `Bound::Unbounded` / `_`
    fn bound_pattern(&mut self, p: &syn::Pat, env: &mut Env) -> Res<String> {
        match p {
            syn::Pat::Wild(_) => Ok("_".into()),
            syn::Pat::Path(pp) if pp.attrs.is_empty() && pp.qself.is_none() => {
                let s: Vec<String> = pp.path.segments.iter().map(|s| s.ident.to_string()).collect();
                if s == ["Bound", "Unbounded"] {
                    Ok("BUnb".into())
                } else {
                    unsupported(&format!("pattern `{}`", s.join("::")), p.span())
                }
            }
            syn::Pat::TupleStruct(ts) if ts.attrs.is_empty() && ts.qself.is_none() && ts.elems.len() == 1 => {
                let s: Vec<String> = ts.path.segments.iter().map(|s| s.ident.to_string()).collect();
                let ctor = if s == ["Bound", "Included"] {
                    "BIncl"
                } else if s == ["Bound", "Excluded"] {
                    "BExcl"
                } else {
                    return unsupported(&format!("pattern `{}(..)`", s.join("::")), p.span());
                };
                let x = self.bind_pattern(&ts.elems[0], &Val::atom("_", Ty::Usize), env)?;
                Ok(format!("{} {}", ctor, x))
            }
            other => unsupported("pattern (only Bound::Included(x), Bound::Excluded(x), Bound::Unbounded and `_` are known here)", other.span()),
        }
    }
}
