//! Intermediate representation: the monadic Gallina of `theories/Machine.v`
//! (types, pure values, computations) and its printer.

use proc_macro2::Span;

pub type Res<T> = Result<T, String>;

thread_local! {
    /// the source file the spans at hand belong to
    pub static CUR_FILE: std::cell::RefCell<String> = std::cell::RefCell::new("src/lib.rs".to_string());
}

pub fn set_file(f: &str) {
    CUR_FILE.with(|c| *c.borrow_mut() = f.to_string());
}

pub fn cur_file() -> String {
    CUR_FILE.with(|c| c.borrow().clone())
}

pub fn at(sp: Span) -> String {
    let s = sp.start();
    format!("{}:{}:{}", cur_file(), s.line, s.column + 1)
}

pub fn unsupported<T>(what: &str, sp: Span) -> Res<T> {
    Err(format!("{}: unsupported construct: {}", at(sp), what))
}

// ---------------------------------------------------------------- types

/// the Rust types the translator knows, by what they are in the model
#[derive(Clone, Debug, PartialEq)]
pub enum Ty {
    /// `usize`                                   -> Z
    Usize,
    /// `bool`                                    -> bool
    Bool,
    /// `()`                                      -> unit
    Unit,
    /// `T` by value                              -> elem
    Elem,
    /// `&T`, `&mut T`, `&(mut) MaybeUninit<T>`: a slot of the array -> Z (its physical index)
    Ref,
    /// `&(mut) [T]`, `&(mut) [MaybeUninit<T>]`: a view of the array -> slice
    Slice,
    /// `*mut MaybeUninit<T>` into the array      -> Z (offset from items[0])
    Ptr,
    /// `Range<usize>`: only as an alias of its two bounds, never a Coq value
    Range,
    /// `Option<_>`                               -> option _
    Opt(Box<Ty>),
    /// `Result<(), T>`                           -> option elem, None = Ok(())
    ResUnitElem,
    Tuple(Vec<Ty>),
    /// the payload of a bare `None`, or the value of an expression that diverges
    Any,
    /// a struct of the crate that the model renders as a record (`Iter`, `IterMut` -> iter,
    /// `Drain` -> drain, `CircularSlicePtr` -> csp); the name is the Rust type's
    Rec(String),
    /// `Bound<&usize>`                           -> bound
    Bound,
    /// a value of a type `R: RangeBounds<usize>`: only as its two bounds
    Bounds,
    /// `&CircularBuffer`, `&mut CircularBuffer`, `NonNull<CircularBuffer>`, the `inner` of an
    /// `IntoIter`: the machine state itself, never a Coq value
    Buf,
    /// the place `<buffer>.items`
    Items,
    /// a local of a nested struct type with a nested `impl Drop` (never a Coq value)
    Guard(String),
    /// `&[T]`, `&[u8]`, `&mut [u8]` outside the array -> list elem
    List,
    /// `io::Result<_>` / `Result<_, Infallible>`: always `Ok`, rendered as the payload
    IoRes(Box<Ty>),
    /// `F: FnMut() -> T`: the user closure of fill_with / fill_spare_with (never a Coq value)
    Closure,
    /// `Self` returned by a constructor of CircularBuffer (`new`, `default`): the function is run on the
    /// memory that receives the result (a state of the right capacity whose size, start and items
    /// are whatever that memory holds) and initialises it; as a Coq value it is `tt`
    NewBuf,
    /// a value of a type `R: core::ops::OneSidedRange<usize>` (nightly)  -> Unstable.osr
    Osr,
    /// `&mut fmt::Formatter`, `fmt::DebugList`, `&mut H` with `H: Hasher`: what is written to them is
    /// the event log of the world (never Coq values)
    Formatter,
    DebugList,
    Hasher,
    /// the `&T` an iterator adaptor hands to its closure: as a Coq value, the element it points to
    ElemRef,
    /// `&CircularBuffer<M, U>` / `&Self` next to a `self` receiver: another buffer -> cbuf
    OBuf,
    /// a view of the array of another buffer (the term of that buffer) -> slice
    OSlice(String),
    /// an `Iter` over another buffer (the term of that buffer) -> iter
    OIter(String),
    /// `core::cmp::Ordering` -> comparison
    Ordering,
    /// a value of a type `I: IntoIterator<Item = T>` (or `Item = &'a T`), or what `.cloned()` makes of an
    /// Iter: as a Coq value, the function that runs a closure on every item it yields
    /// -> (elem -> M unit) -> M unit; the type of the items (`Elem` by value, `ElemRef`)
    IterDriver(Box<Ty>),
    /// `Self` returned by a method of CircularBuffer (`clone`): the memory that receives the result is a
    /// parameter (`mem'`), the constructor the method calls runs on it (with_buf), and the buffer that
    /// comes out is the result -> cbuf
    RetBuf,
    /// `MaybeUninit::<[MaybeUninit<T>; N]>::uninit().assume_init()`: an items array that holds whatever
    /// the memory holds (never a Coq value)
    UninitItems,
}

/// the Coq record type of a struct of the crate
pub fn rec_coq(name: &str) -> Option<&'static str> {
    match name {
        "Iter" | "IterMut" => Some("iter"),
        "Drain" => Some("drain"),
        "CircularSlicePtr" => Some("csp"),
        _ => None,
    }
}

impl Ty {
    /// the type of a result of a `&self` method when it is called on another buffer
    pub fn owned_by(&self, o: &str) -> Res<Ty> {
        Ok(match self {
            Ty::Usize | Ty::Bool | Ty::Unit => self.clone(),
            Ty::Slice => Ty::OSlice(o.to_string()),
            Ty::Rec(n) if n == "Iter" => Ty::OIter(o.to_string()),
            Ty::Tuple(v) => Ty::Tuple(v.iter().map(|t| t.owned_by(o)).collect::<Res<Vec<_>>>()?),
            other => return Err(format!("a {} of another buffer", other.show())),
        })
    }

    pub fn show(&self) -> String {
        match self {
            Ty::Usize => "usize".into(),
            Ty::Bool => "bool".into(),
            Ty::Unit => "()".into(),
            Ty::Elem => "T".into(),
            Ty::Ref => "&slot".into(),
            Ty::Slice => "&[slots]".into(),
            Ty::Ptr => "*slot".into(),
            Ty::Range => "Range<usize>".into(),
            Ty::Opt(t) => format!("Option<{}>", t.show()),
            Ty::ResUnitElem => "Result<(), T>".into(),
            Ty::Tuple(v) => format!("({})", v.iter().map(|t| t.show()).collect::<Vec<_>>().join(", ")),
            Ty::Any => "_".into(),
            Ty::Rec(n) => n.clone(),
            Ty::Bound => "Bound<&usize>".into(),
            Ty::Bounds => "impl RangeBounds<usize>".into(),
            Ty::Buf => "&CircularBuffer".into(),
            Ty::Items => "[MaybeUninit<T>; N]".into(),
            Ty::Guard(n) => format!("{} (local type with a destructor)", n),
            Ty::List => "&[T] (outside the array)".into(),
            Ty::IoRes(t) => format!("Result<{}, _>", t.show()),
            Ty::Closure => "impl FnMut() -> T".into(),
            Ty::Osr => "impl OneSidedRange<usize>".into(),
            Ty::Formatter => "&mut fmt::Formatter".into(),
            Ty::DebugList => "fmt::DebugList".into(),
            Ty::Hasher => "&mut impl Hasher".into(),
            Ty::ElemRef => "&T (yielded by an adaptor)".into(),
            Ty::OBuf => "&CircularBuffer (another buffer)".into(),
            Ty::OSlice(o) => format!("&[slots of {}]", o),
            Ty::OIter(o) => format!("Iter over {}", o),
            Ty::Ordering => "Ordering".into(),
            Ty::IterDriver(t) => format!("impl IntoIterator<Item = {}>", t.show()),
            Ty::NewBuf => "CircularBuffer (the value being built)".into(),
            Ty::RetBuf => "CircularBuffer (built by a constructor the function calls)".into(),
            Ty::UninitItems => "[MaybeUninit<T>; N] (uninitialised)".into(),
        }
    }

    pub fn coq(&self) -> Res<String> {
        Ok(match self {
            Ty::Usize | Ty::Ref | Ty::Ptr => "Z".into(),
            Ty::Bool => "bool".into(),
            Ty::Unit | Ty::NewBuf => "unit".into(),
            Ty::Elem => "elem".into(),
            Ty::Slice => "slice".into(),
            Ty::Opt(t) => format!("option {}", paren_ty(&t.coq()?)),
            Ty::ResUnitElem => "option elem".into(),
            Ty::Tuple(v) => {
                let parts = v.iter().map(|t| t.coq().map(|s| paren_ty(&s))).collect::<Res<Vec<_>>>()?;
                parts.join(" * ")
            }
            Ty::Rec(n) => match rec_coq(n) {
                Some(c) => c.into(),
                None => return Err(format!("struct {} has no record in the model", n)),
            },
            Ty::Bound => "bound".into(),
            Ty::Osr => "osr".into(),
            Ty::ElemRef => "elem".into(),
            Ty::OBuf | Ty::RetBuf => "cbuf".into(),
            Ty::OSlice(_) => "slice".into(),
            Ty::OIter(_) => "iter".into(),
            Ty::Ordering => "comparison".into(),
            Ty::IterDriver(_) => "(elem -> M unit) -> M unit".into(),
            Ty::List => "list elem".into(),
            Ty::IoRes(t) => t.coq()?,
            Ty::Range | Ty::Any | Ty::Bounds | Ty::Buf | Ty::Items | Ty::Guard(_) | Ty::Closure | Ty::UninitItems | Ty::Formatter | Ty::DebugList
            | Ty::Hasher => {
                return Err(format!("type {} has no Coq counterpart", self.show()))
            }
        })
    }

    /// equal up to `Any`
    pub fn compat(&self, other: &Ty) -> bool {
        match (self, other) {
            (Ty::Any, _) | (_, Ty::Any) => true,
            (Ty::Opt(a), Ty::Opt(b)) => a.compat(b),
            (Ty::Tuple(a), Ty::Tuple(b)) => a.len() == b.len() && a.iter().zip(b).all(|(x, y)| x.compat(y)),
            (Ty::IoRes(a), Ty::IoRes(b)) => a.compat(b),
            (a, b) => a == b,
        }
    }

    /// the more informative of two compatible types
    pub fn join(&self, other: &Ty) -> Ty {
        match (self, other) {
            (Ty::Any, t) | (t, Ty::Any) => t.clone(),
            (Ty::Opt(a), Ty::Opt(b)) => Ty::Opt(Box::new(a.join(b))),
            (Ty::Tuple(a), Ty::Tuple(b)) => Ty::Tuple(a.iter().zip(b).map(|(x, y)| x.join(y)).collect()),
            (Ty::IoRes(a), Ty::IoRes(b)) => Ty::IoRes(Box::new(a.join(b))),
            (a, _) => a.clone(),
        }
    }
}

fn paren_ty(s: &str) -> String {
    if s.contains(' ') { format!("({})", s) } else { s.to_string() }
}

// ---------------------------------------------------------------- values and computations

/// a pure Gallina term (no machine effect)
#[derive(Clone, Debug)]
pub struct Val {
    pub tm: String,
    pub ty: Ty,
    pub atomic: bool,
    /// components of a tuple or range, when known
    pub parts: Option<Vec<Val>>,
    /// `items.as_mut_ptr()` itself (offset 0)
    pub ptr_base: bool,
}

impl Val {
    pub fn atom(tm: impl Into<String>, ty: Ty) -> Val {
        Val { tm: tm.into(), ty, atomic: true, parts: None, ptr_base: false }
    }
    pub fn app(tm: String, ty: Ty) -> Val {
        Val { tm, ty, atomic: false, parts: None, ptr_base: false }
    }
    pub fn paren(&self) -> String {
        if self.atomic { self.tm.clone() } else { format!("({})", self.tm) }
    }
    pub fn unit() -> Val {
        Val::atom("tt", Ty::Unit)
    }
}

/// a computation in the monad M
#[derive(Clone, Debug)]
pub enum Comp {
    Ret(Val),
    Op(String, Vec<Val>, Ty),
    If(Val, Box<Comp>, Box<Comp>, Ty),
    /// `x <- c;; k`, `'(a, b) <- c;; k` or `c;; k`
    Bind(Option<String>, Box<Comp>, Box<Comp>),
    /// `let x := v in k` or `let '(a, b) := v in k`
    Let(String, Val, Box<Comp>),
    /// `match v with None => none | Some x => some end`
    MatchOpt(Val, String, Box<Comp>, Box<Comp>),
    /// `match v1, v2 with | p => c ... end`
    Match(Vec<Val>, Vec<(String, Comp)>, Ty),
    /// `finally body cleanup` / `on_unwind body cleanup`
    Finally(Box<Comp>, Box<Comp>),
    OnUnwind(Box<Comp>, Box<Comp>),
    /// `match cg_fuel with O => panic PFuel | S cg_fuel' => c end`
    Fuel(Box<Comp>),
}

impl Comp {
    pub fn ty(&self) -> Ty {
        match self {
            Comp::Ret(v) => v.ty.clone(),
            Comp::Op(_, _, t) | Comp::If(_, _, _, t) => t.clone(),
            Comp::Bind(_, _, k) | Comp::Let(_, _, k) => k.ty(),
            Comp::MatchOpt(_, _, n, s) => s.ty().join(&n.ty()),
            Comp::Match(_, _, t) => t.clone(),
            Comp::Finally(b, _) | Comp::OnUnwind(b, _) => b.ty(),
            Comp::Fuel(c) => c.ty(),
        }
    }
    pub fn simple(&self) -> bool {
        matches!(self, Comp::Ret(_) | Comp::Op(..))
    }
    pub fn unit() -> Comp {
        Comp::Ret(Val::unit())
    }
}

/// what has to run before the expression at hand, in evaluation order
pub enum Pre {
    /// the flag: a read of the state that can neither fail nor change anything
    Bind(Option<String>, Comp, bool),
    Let(String, Val),
    /// `e?` on an `Option`: return `None` from the function (the computation given, which
    /// includes what the function hands back for its `&mut` parameters), or go on with the payload
    Try(String, Val, Comp),
}

impl Pre {
    pub fn harmless(&self) -> bool {
        match self {
            Pre::Bind(_, _, h) => *h,
            Pre::Let(..) => true,
            Pre::Try(..) => false,
        }
    }
}

pub fn wrap(pre: Vec<Pre>, tail: Comp) -> Comp {
    let mut c = tail;
    for p in pre.into_iter().rev() {
        c = match p {
            Pre::Bind(n, m, _) => Comp::Bind(n, Box::new(m), Box::new(c)),
            Pre::Let(n, v) => Comp::Let(n, v, Box::new(c)),
            Pre::Try(n, v, none) => Comp::MatchOpt(v, n, Box::new(none), Box::new(c)),
        };
    }
    c
}

// ---------------------------------------------------------------- printing

fn pad(n: usize) -> String {
    " ".repeat(n)
}

fn inline(c: &Comp) -> String {
    match c {
        Comp::Ret(v) => format!("ret {}", v.paren()),
        Comp::Op(f, args, _) => {
            let mut s = f.clone();
            for a in args {
                s.push(' ');
                s.push_str(&a.paren());
            }
            s
        }
        _ => unreachable!(),
    }
}

/// a computation as an argument of `finally` / `on_unwind`
fn arg(c: &Comp, ind: usize) -> String {
    match c {
        Comp::Ret(_) => format!("({})", inline(c)),
        Comp::Op(_, a, _) if !a.is_empty() => format!("({})", inline(c)),
        Comp::Op(..) => inline(c),
        _ => format!("(\n{}\n{})", render(c, ind + 2), pad(ind)),
    }
}

/// a computation used as the first argument of a bind or as a branch
fn boxed(c: &Comp, ind: usize) -> String {
    if c.simple() {
        inline(c)
    } else {
        format!("(\n{}\n{})", render(c, ind + 2), pad(ind))
    }
}

pub fn render(c: &Comp, ind: usize) -> String {
    let p = pad(ind);
    match c {
        Comp::Ret(_) | Comp::Op(..) => format!("{}{}", p, inline(c)),
        Comp::If(cnd, a, b, _) => format!(
            "{}if {} then\n{}{}\n{}else\n{}{}",
            p, cnd.tm, pad(ind + 2), boxed(a, ind + 2), p, pad(ind + 2), boxed(b, ind + 2)
        ),
        Comp::Bind(Some(x), m, k) => format!("{}{} <- {};;\n{}", p, x, boxed(m, ind), render(k, ind)),
        Comp::Bind(None, m, k) => format!("{}{};;\n{}", p, boxed(m, ind), render(k, ind)),
        Comp::Let(x, v, k) => format!("{}let {} := {} in\n{}", p, x, v.tm, render(k, ind)),
        Comp::MatchOpt(v, x, n, s) => format!(
            "{}match {} with\n{}| None => {}\n{}| Some {} =>\n{}\n{}end",
            p, v.tm, p, boxed(n, ind + 2), p, x, render(s, ind + 2), p
        ),
        Comp::Match(vs, arms, _) => {
            let mut o = format!("{}match {} with\n", p, vs.iter().map(|v| v.tm.clone()).collect::<Vec<_>>().join(", "));
            for (pat, c) in arms {
                o.push_str(&format!("{}| {} =>\n{}\n", p, pat, render(c, ind + 4)));
            }
            o.push_str(&format!("{}end", p));
            o
        }
        Comp::Finally(b, c) => format!("{}finally {}\n{}  {}", p, arg(b, ind + 2), p, arg(c, ind + 2)),
        Comp::OnUnwind(b, c) => format!("{}on_unwind {}\n{}  {}", p, arg(b, ind + 2), p, arg(c, ind + 2)),
        Comp::Fuel(c) => format!(
            "{}match cg_fuel with\n{}| O => panic PFuel\n{}| S cg_fuel' =>\n{}\n{}end",
            p, p, p, render(c, ind + 2), p
        ),
    }
}
