//! Intermediate representation: the monadic Gallina of `theories/Machine.v`
//! (types, pure values, computations) and its printer.

use proc_macro2::Span;

pub type Res<T> = Result<T, String>;

pub fn at(sp: Span) -> String {
    let s = sp.start();
    format!("src/lib.rs:{}:{}", s.line, s.column + 1)
}

pub fn unsupported<T>(what: &str, sp: Span) -> Res<T> {
    Err(format!("{}: unsupported construct: {}", at(sp), what))
}

// ---------------------------------------------------------------- types

/// the Rust types the translator knows, by what they are in the model
#[derive(Clone, Debug, PartialEq)]
pub enum Ty {
    /// `usize`                                   -> Z
    Usize,
    /// `bool`                                    -> bool
    Bool,
    /// `()`                                      -> unit
    Unit,
    /// `T` by value                              -> elem
    Elem,
    /// `&T`, `&mut T`, `&(mut) MaybeUninit<T>`: a slot of the array -> Z (its physical index)
    Ref,
    /// `&(mut) [T]`, `&(mut) [MaybeUninit<T>]`: a view of the array -> slice
    Slice,
    /// `*mut MaybeUninit<T>` into the array      -> Z (offset from items[0])
    Ptr,
    /// `Range<usize>`: only as an alias of its two bounds, never a Coq value
    Range,
    /// `Option<_>`                               -> option _
    Opt(Box<Ty>),
    /// `Result<(), T>`                           -> option elem, None = Ok(())
    ResUnitElem,
    Tuple(Vec<Ty>),
    /// the payload of a bare `None`
    Any,
}

impl Ty {
    pub fn show(&self) -> String {
        match self {
            Ty::Usize => "usize".into(),
            Ty::Bool => "bool".into(),
            Ty::Unit => "()".into(),
            Ty::Elem => "T".into(),
            Ty::Ref => "&slot".into(),
            Ty::Slice => "&[slots]".into(),
            Ty::Ptr => "*slot".into(),
            Ty::Range => "Range<usize>".into(),
            Ty::Opt(t) => format!("Option<{}>", t.show()),
            Ty::ResUnitElem => "Result<(), T>".into(),
            Ty::Tuple(v) => format!("({})", v.iter().map(|t| t.show()).collect::<Vec<_>>().join(", ")),
            Ty::Any => "_".into(),
        }
    }

    pub fn coq(&self) -> Res<String> {
        Ok(match self {
            Ty::Usize | Ty::Ref | Ty::Ptr => "Z".into(),
            Ty::Bool => "bool".into(),
            Ty::Unit => "unit".into(),
            Ty::Elem => "elem".into(),
            Ty::Slice => "slice".into(),
            Ty::Opt(t) => format!("option {}", paren_ty(&t.coq()?)),
            Ty::ResUnitElem => "option elem".into(),
            Ty::Tuple(v) => {
                let parts = v.iter().map(|t| t.coq().map(|s| paren_ty(&s))).collect::<Res<Vec<_>>>()?;
                parts.join(" * ")
            }
            Ty::Range | Ty::Any => return Err(format!("type {} has no Coq counterpart", self.show())),
        })
    }

    /// equal up to `Any`
    pub fn compat(&self, other: &Ty) -> bool {
        match (self, other) {
            (Ty::Any, _) | (_, Ty::Any) => true,
            (Ty::Opt(a), Ty::Opt(b)) => a.compat(b),
            (Ty::Tuple(a), Ty::Tuple(b)) => a.len() == b.len() && a.iter().zip(b).all(|(x, y)| x.compat(y)),
            (a, b) => a == b,
        }
    }

    /// the more informative of two compatible types
    pub fn join(&self, other: &Ty) -> Ty {
        match (self, other) {
            (Ty::Any, t) | (t, Ty::Any) => t.clone(),
            (Ty::Opt(a), Ty::Opt(b)) => Ty::Opt(Box::new(a.join(b))),
            (Ty::Tuple(a), Ty::Tuple(b)) => Ty::Tuple(a.iter().zip(b).map(|(x, y)| x.join(y)).collect()),
            (a, _) => a.clone(),
        }
    }
}

fn paren_ty(s: &str) -> String {
    if s.contains(' ') { format!("({})", s) } else { s.to_string() }
}

// ---------------------------------------------------------------- values and computations

/// a pure Gallina term (no machine effect)
#[derive(Clone, Debug)]
pub struct Val {
    pub tm: String,
    pub ty: Ty,
    pub atomic: bool,
    /// components of a tuple or range, when known
    pub parts: Option<Vec<Val>>,
    /// `items.as_mut_ptr()` itself (offset 0)
    pub ptr_base: bool,
}

impl Val {
    pub fn atom(tm: impl Into<String>, ty: Ty) -> Val {
        Val { tm: tm.into(), ty, atomic: true, parts: None, ptr_base: false }
    }
    pub fn app(tm: String, ty: Ty) -> Val {
        Val { tm, ty, atomic: false, parts: None, ptr_base: false }
    }
    pub fn paren(&self) -> String {
        if self.atomic { self.tm.clone() } else { format!("({})", self.tm) }
    }
    pub fn unit() -> Val {
        Val::atom("tt", Ty::Unit)
    }
}

/// a computation in the monad M
#[derive(Clone, Debug)]
pub enum Comp {
    Ret(Val),
    Op(String, Vec<Val>, Ty),
    If(Val, Box<Comp>, Box<Comp>, Ty),
    /// `x <- c;; k`, `'(a, b) <- c;; k` or `c;; k`
    Bind(Option<String>, Box<Comp>, Box<Comp>),
    /// `let x := v in k` or `let '(a, b) := v in k`
    Let(String, Val, Box<Comp>),
    /// `match v with None => none | Some x => some end`
    MatchOpt(Val, String, Box<Comp>, Box<Comp>),
}

impl Comp {
    pub fn ty(&self) -> Ty {
        match self {
            Comp::Ret(v) => v.ty.clone(),
            Comp::Op(_, _, t) | Comp::If(_, _, _, t) => t.clone(),
            Comp::Bind(_, _, k) | Comp::Let(_, _, k) => k.ty(),
            Comp::MatchOpt(_, _, n, s) => s.ty().join(&n.ty()),
        }
    }
    pub fn simple(&self) -> bool {
        matches!(self, Comp::Ret(_) | Comp::Op(..))
    }
    pub fn unit() -> Comp {
        Comp::Ret(Val::unit())
    }
}

/// what has to run before the expression at hand, in evaluation order
pub enum Pre {
    /// the flag: a read of the state that can neither fail nor change anything
    Bind(Option<String>, Comp, bool),
    Let(String, Val),
    /// `e?` on an `Option`: return `None` from the function, or go on with the payload
    Try(String, Val),
}

impl Pre {
    pub fn harmless(&self) -> bool {
        match self {
            Pre::Bind(_, _, h) => *h,
            Pre::Let(..) => true,
            Pre::Try(..) => false,
        }
    }
}

pub fn wrap(pre: Vec<Pre>, tail: Comp) -> Comp {
    let mut c = tail;
    for p in pre.into_iter().rev() {
        c = match p {
            Pre::Bind(n, m, _) => Comp::Bind(n, Box::new(m), Box::new(c)),
            Pre::Let(n, v) => Comp::Let(n, v, Box::new(c)),
            Pre::Try(n, v) => {
                let none = Comp::Ret(Val::atom("None", Ty::Opt(Box::new(Ty::Any))));
                Comp::MatchOpt(v, n, Box::new(none), Box::new(c))
            }
        };
    }
    c
}

// ---------------------------------------------------------------- printing

fn pad(n: usize) -> String {
    " ".repeat(n)
}

fn inline(c: &Comp) -> String {
    match c {
        Comp::Ret(v) => format!("ret {}", v.paren()),
        Comp::Op(f, args, _) => {
            let mut s = f.clone();
            for a in args {
                s.push(' ');
                s.push_str(&a.paren());
            }
            s
        }
        _ => unreachable!(),
    }
}

/// a computation used as the first argument of a bind or as a branch
fn boxed(c: &Comp, ind: usize) -> String {
    if c.simple() {
        inline(c)
    } else {
        format!("(\n{}\n{})", render(c, ind + 2), pad(ind))
    }
}

pub fn render(c: &Comp, ind: usize) -> String {
    let p = pad(ind);
    match c {
        Comp::Ret(_) | Comp::Op(..) => format!("{}{}", p, inline(c)),
        Comp::If(cnd, a, b, _) => format!(
            "{}if {} then\n{}{}\n{}else\n{}{}",
            p, cnd.tm, pad(ind + 2), boxed(a, ind + 2), p, pad(ind + 2), boxed(b, ind + 2)
        ),
        Comp::Bind(Some(x), m, k) => format!("{}{} <- {};;\n{}", p, x, boxed(m, ind), render(k, ind)),
        Comp::Bind(None, m, k) => format!("{}{};;\n{}", p, boxed(m, ind), render(k, ind)),
        Comp::Let(x, v, k) => format!("{}let {} := {} in\n{}", p, x, v.tm, render(k, ind)),
        Comp::MatchOpt(v, x, n, s) => format!(
            "{}match {} with\n{}| None => {}\n{}| Some {} =>\n{}\n{}end",
            p, v.tm, p, boxed(n, ind + 2), p, x, render(s, ind + 2), p
        ),
    }
}
