//! rs2coq_core — translate the functions of the crate (`<repo>/src/{lib,iter,drain,io,embedded_io}.rs`)
//! into the monadic Gallina of `theories/Machine.v`.
//!
//! usage: rs2coq_core <repo> <out.v> [--only f,g,...] [--strict]
//!
//! `<out.v>` receives one `Definition gen_<f>` per translated function (and one
//! `Fixpoint gen_<f>_loop<k>` per loop), in dependency order; `<out.v>.json` a
//! machine-readable summary. On stdout one line per function: `translated fn <f> ...`
//! or `skipped fn <f>: <reason>`.
//!
//! Exit status: 0 when every REQUIRED function (and, with --strict or --only,
//! every requested function) was translated; 1 otherwise (the reasons are on
//! stderr, each naming the function and the construct). A function that is not
//! understood completely is never emitted.

mod adapt;
mod call;
mod expr;
mod ir;
mod stdtab;
mod stmt;
mod tr;

use ir::*;
use proc_macro2::Span;
use std::collections::{BTreeMap, HashMap, HashSet};
use std::fmt::Write as _;
use syn::spanned::Spanned;
use syn::{Item, Pat};
use tr::*;

const FREE_ARITH: &[&str] = &["add_mod", "sub_mod"];

/// functions that callers may refer to by their hand-written model when they are not translated
const EXTERNALS: &[(&str, &str)] = &[
    ("extend_from_slice", "Buf.extend_from_slice"),
    ("write_uninit_slice_cloned", "Buf.write_uninit_slice_cloned"),
];

/// where a function is
#[derive(Clone, Copy)]
enum Loc {
    /// a free function of the file (the stable variant when there are two)
    Free(&'static str),
    /// the `#[cfg(feature = "unstable")]` variant of a free function
    FreeU(&'static str),
    /// a method: (type, trait, name); the trait as written in the impl, without generics
    Method(&'static str, Option<&'static str>, &'static str),
    /// a method of a generic trait implemented more than once: (type, trait, the generic arguments of the trait, name)
    MethodG(&'static str, &'static str, &'static str, &'static str),
    /// a function declared inside the body of another: (key of the parent, name)
    Nested(&'static str, &'static str),
}

struct Unit {
    /// gen_<key>, and the name in all reports
    key: &'static str,
    /// the name tools/srcmap gives the item
    item: &'static str,
    file: &'static str,
    loc: Loc,
    /// the hand-written model (theories/*.v)
    hand: &'static str,
    /// the hand-written model is a pure function, not a computation
    pure_hand: bool,
    required: bool,
    /// per loop, the fuel the hand-written model gives it
    fuel: &'static [&'static str],
    /// `&[T]` parameters that are data outside the array
    lists: &'static [&'static str],
}

const fn lib(key: &'static str, item: &'static str, required: bool) -> Unit {
    Unit {
        key,
        item,
        file: "src/lib.rs",
        loc: Loc::Method("CircularBuffer", None, key),
        hand: key,
        pure_hand: false,
        required,
        fuel: &[],
        lists: &[],
    }
}

const fn u(key: &'static str, item: &'static str, file: &'static str, loc: Loc, hand: &'static str, pure_hand: bool) -> Unit {
    Unit { key, item, file, loc, hand, pure_hand, required: false, fuel: &[], lists: &[] }
}

fn units() -> Vec<Unit> {
    let mut v = vec![
        Unit { loc: Loc::Free("add_mod"), ..lib("add_mod", "add_mod", true) },
        Unit { loc: Loc::Free("sub_mod"), ..lib("sub_mod", "sub_mod", true) },
    ];
    for k in [
        "len", "capacity", "is_empty", "is_full", "inc_start", "dec_start", "inc_size", "dec_size",
        "front_maybe_uninit", "front_maybe_uninit_mut", "back_maybe_uninit", "back_maybe_uninit_mut",
        "get_maybe_uninit", "get_maybe_uninit_mut",
    ] {
        v.push(lib(k, Box::leak(format!("CircularBuffer::{}", k).into_boxed_str()), true));
    }
    for k in [
        "back", "back_mut", "front", "front_mut", "get", "get_mut", "nth_front", "nth_front_mut", "nth_back",
        "nth_back_mut", "push_back", "try_push_back", "push_front", "try_push_front", "pop_back", "pop_front", "swap",
        "swap_remove_back", "swap_remove_front", "drop_range", "truncate_back", "truncate_front", "clear", "remove",
        "as_slices", "as_mut_slices", "slices_uninit_mut", "make_contiguous", "fill_spare", "fill", "fill_spare_with",
        "fill_with", "drain", "range", "range_mut", "iter", "iter_mut",
    ] {
        let mut x = lib(k, Box::leak(format!("CircularBuffer::{}", k).into_boxed_str()), false);
        match k {
            "get" => x.hand = "get_",
            "fill_spare" => x.fuel = &["Z.to_nat ({N} - {size})"],
            "fill_spare_with" => x.fuel = &["Z.to_nat ({N} - {size})"],
            "drain" => x.hand = "drain_over_range",
            "range" => x.hand = "iter_over_range",
            "range_mut" => x.hand = "iter_mut_over_range",
            "iter" => x.hand = "iter_new",
            "iter_mut" => x.hand = "iter_mut_new",
            _ => {}
        }
        v.push(x);
    }
    const IT: &str = "src/iter.rs";
    const DR: &str = "src/drain.rs";
    v.extend([
        u("translate_range_bounds", "translate_range_bounds", IT, Loc::Free("translate_range_bounds"), "translate_range_bounds", false),
        u("slice_take", "slice_take@stable", IT, Loc::Free("slice_take"), "slice_take", false),
        u("slice_take_mut", "slice_take_mut@stable", IT, Loc::Free("slice_take_mut"), "slice_take_mut", false),
        u("slice_take_first", "slice_take_first@stable", IT, Loc::Free("slice_take_first"), "slice_take_first", true),
        u("slice_take_first_mut", "slice_take_first_mut@stable", IT, Loc::Free("slice_take_first_mut"), "slice_take_first_mut", true),
        u("slice_take_last", "slice_take_last@stable", IT, Loc::Free("slice_take_last"), "slice_take_last", true),
        u("slice_take_last_mut", "slice_take_last_mut@stable", IT, Loc::Free("slice_take_last_mut"), "slice_take_last_mut", true),
        u("u_slice_take", "slice_take@unstable", IT, Loc::FreeU("slice_take"), "u_slice_take", false),
        u("u_slice_take_mut", "slice_take_mut@unstable", IT, Loc::FreeU("slice_take_mut"), "u_slice_take_mut", false),
        u("u_slice_take_first", "slice_take_first@unstable", IT, Loc::FreeU("slice_take_first"), "u_slice_take_first", true),
        u("u_slice_take_first_mut", "slice_take_first_mut@unstable", IT, Loc::FreeU("slice_take_first_mut"), "u_slice_take_first_mut", true),
        u("u_slice_take_last", "slice_take_last@unstable", IT, Loc::FreeU("slice_take_last"), "u_slice_take_last", true),
        u("u_slice_take_last_mut", "slice_take_last_mut@unstable", IT, Loc::FreeU("slice_take_last_mut"), "u_slice_take_last_mut", true),
        u("Iter_empty", "Iter::empty", IT, Loc::Method("Iter", None, "empty"), "iter_empty", true),
        u("Iter_new", "Iter::new", IT, Loc::Method("Iter", None, "new"), "iter_new", false),
        u("Iter_advance_front_by", "Iter::advance_front_by", IT, Loc::Method("Iter", None, "advance_front_by"), "advance_front_by", false),
        u("Iter_advance_back_by", "Iter::advance_back_by", IT, Loc::Method("Iter", None, "advance_back_by"), "advance_back_by", false),
        u("Iter_over_range", "Iter::over_range", IT, Loc::Method("Iter", None, "over_range"), "iter_over_range", false),
        u("Iter_next", "<Iter as Iterator>::next", IT, Loc::Method("Iter", Some("Iterator"), "next"), "iter_next", true),
        u("Iter_next_back", "<Iter as DoubleEndedIterator>::next_back", IT, Loc::Method("Iter", Some("DoubleEndedIterator"), "next_back"), "iter_next_back", true),
        u("Iter_len", "<Iter as ExactSizeIterator>::len", IT, Loc::Method("Iter", Some("ExactSizeIterator"), "len"), "iter_len", false),
        u("Iter_clone", "<Iter as Clone>::clone", IT, Loc::Method("Iter", Some("Clone"), "clone"), "iter_clone", true),
        u("Iter_default", "<Iter as Default>::default", IT, Loc::Method("Iter", Some("Default"), "default"), "iter_default", true),
        u("IterMut_empty", "IterMut::empty", IT, Loc::Method("IterMut", None, "empty"), "iter_mut_empty", true),
        u("IterMut_new", "IterMut::new", IT, Loc::Method("IterMut", None, "new"), "iter_mut_new", false),
        u("IterMut_advance_front_by", "IterMut::advance_front_by", IT, Loc::Method("IterMut", None, "advance_front_by"), "advance_front_by", false),
        u("IterMut_advance_back_by", "IterMut::advance_back_by", IT, Loc::Method("IterMut", None, "advance_back_by"), "advance_back_by", false),
        u("IterMut_over_range", "IterMut::over_range", IT, Loc::Method("IterMut", None, "over_range"), "iter_mut_over_range", false),
        u("IterMut_next", "<IterMut as Iterator>::next", IT, Loc::Method("IterMut", Some("Iterator"), "next"), "iter_mut_next", true),
        u("IterMut_next_back", "<IterMut as DoubleEndedIterator>::next_back", IT, Loc::Method("IterMut", Some("DoubleEndedIterator"), "next_back"), "iter_mut_next_back", true),
        u("IterMut_len", "<IterMut as ExactSizeIterator>::len", IT, Loc::Method("IterMut", Some("ExactSizeIterator"), "len"), "iter_mut_len", false),
        u("IterMut_default", "<IterMut as Default>::default", IT, Loc::Method("IterMut", Some("Default"), "default"), "iter_mut_default", true),
        u("IntoIter_new", "IntoIter::new", IT, Loc::Method("IntoIter", None, "new"), "", false),
        u("IntoIter_next", "<IntoIter as Iterator>::next", IT, Loc::Method("IntoIter", Some("Iterator"), "next"), "into_iter_next", false),
        u("IntoIter_next_back", "<IntoIter as DoubleEndedIterator>::next_back", IT, Loc::Method("IntoIter", Some("DoubleEndedIterator"), "next_back"), "into_iter_next_back", false),
        u("IntoIter_len", "<IntoIter as ExactSizeIterator>::len", IT, Loc::Method("IntoIter", Some("ExactSizeIterator"), "len"), "into_iter_len", false),
        u("CircularSlicePtr_new", "CircularSlicePtr::new", DR, Loc::Method("CircularSlicePtr", None, "new"), "csp_new", true),
        u("CircularSlicePtr_as_ptr", "CircularSlicePtr::as_ptr", DR, Loc::Method("CircularSlicePtr", None, "as_ptr"), "csp_as_ptr", false),
        u("CircularSlicePtr_as_mut_ptr", "CircularSlicePtr::as_mut_ptr", DR, Loc::Method("CircularSlicePtr", None, "as_mut_ptr"), "csp_as_ptr", false),
        u("CircularSlicePtr_available_len", "CircularSlicePtr::available_len", DR, Loc::Method("CircularSlicePtr", None, "available_len"), "csp_available_len", false),
        u("CircularSlicePtr_add", "CircularSlicePtr::add", DR, Loc::Method("CircularSlicePtr", None, "add"), "csp_add", false),
        u("Drain_over_range", "Drain::over_range", DR, Loc::Method("Drain", None, "over_range"), "drain_over_range", false),
        u("Drain_read", "Drain::read", DR, Loc::Method("Drain", None, "read"), "drain_read", false),
        u("Drain_as_slices", "Drain::as_slices", DR, Loc::Method("Drain", None, "as_slices"), "drain_as_slices", false),
        u("Drain_as_mut_slices", "Drain::as_mut_slices", DR, Loc::Method("Drain", None, "as_mut_slices"), "drain_as_mut_slices", false),
        u("Drain_next", "<Drain as Iterator>::next", DR, Loc::Method("Drain", Some("Iterator"), "next"), "drain_next", false),
        u("Drain_next_back", "<Drain as DoubleEndedIterator>::next_back", DR, Loc::Method("Drain", Some("DoubleEndedIterator"), "next_back"), "drain_next_back", false),
        u("Drain_len", "<Drain as ExactSizeIterator>::len", DR, Loc::Method("Drain", Some("ExactSizeIterator"), "len"), "drain_len", true),
        Unit { fuel: &["Z.to_nat {remaining}"], ..u("Drain_drop", "<Drain as Drop>::drop", DR, Loc::Method("Drain", Some("Drop"), "drop"), "drain_drop", false) },
        Unit { fuel: &["S (Z.to_nat (slen (it_right {iter}) + slen (it_left {iter})))"], ..u("Iter_fmt", "<Iter as Debug>::fmt", IT, Loc::Method("Iter", Some("fmt::Debug"), "fmt"), "iter_fmt", false) },
        u("IterMut_fmt", "<IterMut as Debug>::fmt", IT, Loc::Method("IterMut", Some("fmt::Debug"), "fmt"), "iter_mut_fmt", false),
        u("IntoIter_fmt", "<IntoIter as Debug>::fmt", IT, Loc::Method("IntoIter", Some("fmt::Debug"), "fmt"), "into_iter_fmt", false),
        u("Drain_fmt", "<Drain as Debug>::fmt", DR, Loc::Method("Drain", Some("fmt::Debug"), "fmt"), "drain_fmt", false),
        // no definition of their own in the model: the statement is written with the model's functions (tools/coregen.py, SPECIAL)
        u("Iter_size_hint", "<Iter as Iterator>::size_hint", IT, Loc::Method("Iter", Some("Iterator"), "size_hint"), "iter_len", false),
        u("IterMut_size_hint", "<IterMut as Iterator>::size_hint", IT, Loc::Method("IterMut", Some("Iterator"), "size_hint"), "iter_mut_len", false),
        u("IntoIter_size_hint", "<IntoIter as Iterator>::size_hint", IT, Loc::Method("IntoIter", Some("Iterator"), "size_hint"), "into_iter_len", false),
        u("Drain_size_hint", "<Drain as Iterator>::size_hint", DR, Loc::Method("Drain", Some("Iterator"), "size_hint"), "drain_len", true),
        u("CircularSlicePtr_clone", "<CircularSlicePtr as Clone>::clone", DR, Loc::Method("CircularSlicePtr", Some("Clone"), "clone"), "(identity)", true),
    ]);
    const LB: &str = "src/lib.rs";
    v.extend([
        Unit { fuel: &["S (Z.to_nat {size})"], ..u("buf_fmt", "<CircularBuffer as Debug>::fmt", LB, Loc::Method("CircularBuffer", Some("fmt::Debug"), "fmt"), "buf_fmt", false) },
        Unit { fuel: &["S (Z.to_nat {size})"], ..u("buf_hash", "<CircularBuffer as Hash>::hash", LB, Loc::Method("CircularBuffer", Some("Hash"), "hash"), "buf_hash", false) },
        Unit { fuel: &["S (Z.to_nat {size})"], ..u("buf_partial_cmp", "<CircularBuffer as PartialOrd<CircularBuffer<M, U>>>::partial_cmp", LB, Loc::Method("CircularBuffer", Some("PartialOrd"), "partial_cmp"), "buf_partial_cmp", false) },
        Unit { fuel: &["S (Z.to_nat {size})"], ..u("buf_cmp", "<CircularBuffer as Ord>::cmp", LB, Loc::Method("CircularBuffer", Some("Ord"), "cmp"), "buf_cmp", false) },
        u("buf_eq", "<CircularBuffer as PartialEq<CircularBuffer<M, U>>>::eq", LB, Loc::MethodG("CircularBuffer", "PartialEq", "< CircularBuffer < M , U > >", "eq"), "buf_eq", false),
        u("buf_eq_slice", "<CircularBuffer as PartialEq<[U]>>::eq", LB, Loc::MethodG("CircularBuffer", "PartialEq", "< [U] >", "eq"), "buf_eq_slice", false),
        u("buf_eq_array", "<CircularBuffer as PartialEq<[U; M]>>::eq", LB, Loc::MethodG("CircularBuffer", "PartialEq", "< [U ; M] >", "eq"), "buf_eq_array", false),
        u("buf_eq_slice_ref", "<CircularBuffer as PartialEq<&[U]>>::eq", LB, Loc::MethodG("CircularBuffer", "PartialEq", "< & 'a [U] >", "eq"), "buf_eq_slice_ref", false),
        u("buf_eq_slice_mut", "<CircularBuffer as PartialEq<&mut [U]>>::eq", LB, Loc::MethodG("CircularBuffer", "PartialEq", "< & 'a mut [U] >", "eq"), "buf_eq_slice_mut", false),
        u("buf_eq_array_ref", "<CircularBuffer as PartialEq<&[U; M]>>::eq", LB, Loc::MethodG("CircularBuffer", "PartialEq", "< & 'a [U ; M] >", "eq"), "buf_eq_array_ref", false),
        u("buf_eq_array_mut", "<CircularBuffer as PartialEq<&mut [U; M]>>::eq", LB, Loc::MethodG("CircularBuffer", "PartialEq", "< & 'a mut [U ; M] >", "eq"), "buf_eq_array_mut", false),
        u("extend", "<CircularBuffer as Extend<T>>::extend", LB, Loc::MethodG("CircularBuffer", "Extend", "< T >", "extend"), "extend", false),
        u("extend_ref", "<CircularBuffer as Extend<&T>>::extend", LB, Loc::MethodG("CircularBuffer", "Extend", "< & 'a T >", "extend"), "extend_ref", false),
        Unit { fuel: &["S (Z.to_nat (size other'))"], ..u("clone_from", "<CircularBuffer as Clone>::clone_from", LB, Loc::Method("CircularBuffer", Some("Clone"), "clone_from"), "clone_from", false) },
        Unit { fuel: &["S (Z.to_nat {size})"], ..u("clone", "<CircularBuffer as Clone>::clone", LB, Loc::Method("CircularBuffer", Some("Clone"), "clone"), "clone_buf", false) },
        u("from_array", "<CircularBuffer as From<[T; M]>>::from", LB, Loc::Method("CircularBuffer", Some("From"), "from"), "from_array", false),
        u("into_iter", "<CircularBuffer as IntoIterator>::into_iter", LB, Loc::Method("CircularBuffer", Some("IntoIterator"), "into_iter"), "", false),
        u("to_vec", "CircularBuffer::to_vec", LB, Loc::Method("CircularBuffer", None, "to_vec"), "to_vec", false),
        u("boxed", "CircularBuffer::boxed", LB, Loc::Method("CircularBuffer", None, "boxed"), "boxed", false),
        u("from_iter", "<CircularBuffer as FromIterator<T>>::from_iter", LB, Loc::Method("CircularBuffer", Some("FromIterator"), "from_iter"), "from_iter", false),
        u("slice_assume_init_ref", "slice_assume_init_ref", LB, Loc::Free("slice_assume_init_ref"), "(identity)", true),
        u("slice_assume_init_mut", "slice_assume_init_mut", LB, Loc::Free("slice_assume_init_mut"), "(identity)", true),
        u("new", "CircularBuffer::new", LB, Loc::Method("CircularBuffer", None, "new"), "new_buf", true),
        u("ref_into_iter", "<&CircularBuffer as IntoIterator>::into_iter", LB, Loc::Method("&CircularBuffer", Some("IntoIterator"), "into_iter"), "ref_into_iter", false),
        u("index", "<CircularBuffer as Index<usize>>::index", LB, Loc::Method("CircularBuffer", Some("Index"), "index"), "index", false),
        u("index_mut", "<CircularBuffer as IndexMut<usize>>::index_mut", LB, Loc::Method("CircularBuffer", Some("IndexMut"), "index_mut"), "index_mut", false),
        u("default", "<CircularBuffer as Default>::default", LB, Loc::Method("CircularBuffer", Some("Default"), "default"), "default_buf", false),
        u("buf_drop", "<CircularBuffer as Drop>::drop", LB, Loc::Method("CircularBuffer", Some("Drop"), "drop"), "drop_buf", false),
        Unit { lists: &["other"], ..lib("extend_from_slice", "CircularBuffer::extend_from_slice", false) },
        Unit {
            lists: &["src"],
            ..u(
                "write_uninit_slice_cloned",
                "CircularBuffer::extend_from_slice::write_uninit_slice_cloned",
                LB,
                Loc::Nested("extend_from_slice", "write_uninit_slice_cloned"),
                "write_uninit_slice_cloned",
                false,
            )
        },
    ]);
    const IO: &str = "src/io.rs";
    const EIO: &str = "src/embedded_io.rs";
    for (pfx, file, tw, tr_, tb, iw, ir_, ib) in [
        ("io", IO, "Write", "Read", "BufRead", "Write", "Read", "BufRead"),
        ("eio", EIO, "embedded_io::Write", "embedded_io::Read", "embedded_io::BufRead", "embedded_io::Write", "embedded_io::Read", "embedded_io::BufRead"),
        ("aio", EIO, "embedded_io_async::Write", "embedded_io_async::Read", "embedded_io_async::BufRead", "embedded_io_async::Write", "embedded_io_async::Read", "embedded_io_async::BufRead"),
    ] {
        for (name, tr, itr) in [("write", tw, iw), ("flush", tw, iw), ("read", tr_, ir_), ("fill_buf", tb, ib), ("consume", tb, ib)] {
            let key: &'static str = Box::leak(format!("{}_{}", pfx, name).into_boxed_str());
            let item: &'static str = Box::leak(format!("<CircularBuffer as {}>::{}", itr, name).into_boxed_str());
            let lists: &'static [&'static str] = match name {
                "write" => &["src"],
                "read" => &["dst"],
                _ => &[],
            };
            v.push(Unit { lists, ..u(key, item, file, Loc::Method("CircularBuffer", Some(tr), name), key, false) });
        }
    }
    v
}

struct Src {
    sig: syn::Signature,
    attrs: Vec<syn::Attribute>,
    block: syn::Block,
    span: Span,
    /// of the impl
    owner: Option<String>,
    /// the impl is for `&Owner`: `self` by value is a shared reference
    ref_impl: bool,
    impl_generics: Option<syn::Generics>,
    assoc: HashMap<String, syn::Type>,
}

fn collect_idents(ts: proc_macro2::TokenStream, out: &mut HashSet<String>) {
    for t in ts {
        match t {
            proc_macro2::TokenTree::Ident(i) => {
                out.insert(i.to_string());
            }
            proc_macro2::TokenTree::Group(g) => collect_idents(g.stream(), out),
            _ => {}
        }
    }
}

fn stable_variant(attrs: &[syn::Attribute]) -> Option<bool> {
    // Some(true): only without the feature; Some(false): only with it; None: both
    for a in attrs {
        let t = norm_tokens(a);
        if t == "# [cfg (not (feature = \"unstable\"))]" {
            return Some(true);
        }
        if t == "# [cfg (feature = \"unstable\")]" {
            return Some(false);
        }
    }
    None
}

fn trait_name(p: &syn::Path) -> String {
    p.segments.iter().map(|s| s.ident.to_string()).collect::<Vec<_>>().join("::")
}

/// the name of the type an impl is for; `&Type` for `impl Trait for &'a Type<..>`
fn impl_type_name(im: &syn::ItemImpl) -> Option<String> {
    match &*im.self_ty {
        syn::Type::Path(p) => p.path.segments.last().map(|s| s.ident.to_string()),
        syn::Type::Reference(r) if r.mutability.is_none() => match &*r.elem {
            syn::Type::Path(p) => p.path.segments.last().map(|s| format!("&{}", s.ident)),
            _ => None,
        },
        _ => None,
    }
}

fn find(file: &syn::File, loc: Loc, parents: &HashMap<String, Src>) -> Result<Src, String> {
    let mut hits: Vec<Src> = vec![];
    match loc {
        Loc::Free(name) | Loc::FreeU(name) => {
            let unstable = matches!(loc, Loc::FreeU(_));
            for it in &file.items {
                if let Item::Fn(f) = it {
                    if f.sig.ident == name && (if unstable { stable_variant(&f.attrs) == Some(false) } else { stable_variant(&f.attrs) != Some(false) }) {
                        hits.push(Src {
                            sig: f.sig.clone(),
                            attrs: f.attrs.clone(),
                            block: (*f.block).clone(),
                            span: f.span(),
                            owner: None,
                            ref_impl: false,
                            impl_generics: None,
                            assoc: HashMap::new(),
                        });
                    }
                }
            }
        }
        Loc::Method(..) | Loc::MethodG(..) => {
            let (ty, tr, targs, name) = match loc {
                Loc::Method(a, b, c) => (a, b, None, c),
                Loc::MethodG(a, b, g, c) => (a, Some(b), Some(g), c),
                _ => unreachable!(),
            };
            for it in &file.items {
                let im = match it {
                    Item::Impl(im) => im,
                    _ => continue,
                };
                let tn = impl_type_name(im);
                if tn.as_deref() != Some(ty) {
                    continue;
                }
                let itr = im.trait_.as_ref().map(|(_, p, _)| trait_name(p));
                if itr.as_deref() != tr {
                    continue;
                }
                if let Some(want) = targs {
                    let got = im.trait_.as_ref().and_then(|(_, p, _)| p.segments.last()).map(|s| norm_tokens(&s.arguments)).unwrap_or_default();
                    if got != want {
                        continue;
                    }
                }
                // `Self::Item` in an impl of DoubleEndedIterator is the Item of the Iterator impl
                let mut assoc = HashMap::new();
                for it2 in &file.items {
                    if let Item::Impl(im2) = it2 {
                        let tn2 = impl_type_name(im2);
                        if tn2.as_deref() != Some(ty) {
                            continue;
                        }
                        for ii in &im2.items {
                            if let syn::ImplItem::Type(t) = ii {
                                let k = t.ident.to_string();
                                let same = std::ptr::eq(im2, im);
                                if same || !assoc.contains_key(&k) {
                                    assoc.insert(k, t.ty.clone());
                                }
                            }
                        }
                    }
                }
                for ii in &im.items {
                    if let syn::ImplItem::Fn(f) = ii {
                        if f.sig.ident == name && stable_variant(&f.attrs) != Some(false) {
                            hits.push(Src {
                                sig: f.sig.clone(),
                                attrs: f.attrs.clone(),
                                block: f.block.clone(),
                                span: f.span(),
                                owner: Some(ty.trim_start_matches('&').to_string()),
                                ref_impl: ty.starts_with('&'),
                                impl_generics: Some(im.generics.clone()),
                                assoc: assoc.clone(),
                            });
                        }
                    }
                }
            }
        }
        Loc::Nested(parent, name) => {
            let p = parents.get(parent).ok_or_else(|| format!("the enclosing function `{}` was not found", parent))?;
            for st in &p.block.stmts {
                if let syn::Stmt::Item(Item::Fn(f)) = st {
                    if f.sig.ident == name && stable_variant(&f.attrs) != Some(false) {
                        hits.push(Src {
                            sig: f.sig.clone(),
                            attrs: f.attrs.clone(),
                            block: (*f.block).clone(),
                            span: f.span(),
                            owner: None,
                            ref_impl: false,
                            impl_generics: None,
                            assoc: HashMap::new(),
                        });
                    }
                }
            }
        }
    }
    match hits.len() {
        0 => Err("no such function".into()),
        1 => Ok(hits.pop().unwrap()),
        n => Err(format!("{} definitions", n)),
    }
}

/// the generic parameters of a function and of its impl
#[derive(Default)]
struct Gens {
    /// the type parameters bounded by `RangeBounds<usize>`
    bounds: Vec<String>,
    /// `N: usize` is there (the capacity)
    has_n: bool,
    /// the closure parameter of fill_with / fill_spare_with
    closures: Vec<String>,
    osrs: Vec<String>,
    hashers: Vec<String>,
    /// `T: PartialEq<U>`: the comparison of the elements is a parameter (eqf)
    eqf: bool,
    /// `T: PartialOrd<U>` / `T: Ord`: the order of the elements is a parameter (cmpf)
    cmpf: bool,
    /// `I: IntoIterator<Item = T>` / `<Item = &'a T>`
    drivers: Vec<(String, Ty)>,
    /// `T: Copy`
    copy: bool,
}

fn generics_of(gs: &[&syn::Generics]) -> Res<Gens> {
    let mut r = Gens::default();
    let check_bounds = |r: &mut Gens, name: &str, bs: Vec<String>, sp: Span| -> Res<()> {
        for b in bs {
            match b.as_str() {
                "RangeBounds < usize >" => r.bounds.push(name.to_string()),
                "core :: ops :: OneSidedRange < usize >" => r.osrs.push(name.to_string()),
                "FnMut () -> T" if name == "F" => r.closures.push(name.to_string()),
                "Clone" if name == "T" => {}
                "Copy" if name == "T" => r.copy = true,
                "IntoIterator < Item = T >" if name == "I" => r.drivers.push((name.to_string(), Ty::Elem)),
                "IntoIterator < Item = & 'a T >" if name == "I" => r.drivers.push((name.to_string(), Ty::ElemRef)),
                // the element operations of the trait impls: see Machine.v (events, fault plan)
                "PartialEq < U >" if name == "T" => r.eqf = true,
                "PartialOrd < U >" | "Ord" if name == "T" => r.cmpf = true,
                "Eq" | "Hash" | "fmt :: Debug" if name == "T" => {}
                "Hasher" if name != "T" && name != "U" => r.hashers.push(name.to_string()),
                other => return unsupported(&format!("bound `{}: {}`", name, other), sp),
            }
        }
        Ok(())
    };
    for g in gs {
        for p in &g.params {
            match p {
                syn::GenericParam::Lifetime(_) => {}
                syn::GenericParam::Const(c) if c.ident == "N" && norm_tokens(&c.ty) == "usize" => r.has_n = true,
                // the capacity / length of the other operand of a comparison
                syn::GenericParam::Const(c) if c.ident == "M" && norm_tokens(&c.ty) == "usize" => {}
                syn::GenericParam::Type(t) => {
                    let bs: Vec<String> = t.bounds.iter().map(|b| norm_tokens(b)).collect();
                    check_bounds(&mut r, &t.ident.to_string(), bs, t.span())?;
                }
                other => return unsupported("generic parameter", other.span()),
            }
        }
        if let Some(w) = &g.where_clause {
            for p in &w.predicates {
                match p {
                    syn::WherePredicate::Type(t) => {
                        let name = norm_tokens(&t.bounded_ty);
                        let bs: Vec<String> = t.bounds.iter().map(|b| norm_tokens(b)).collect();
                        check_bounds(&mut r, &name, bs, t.span())?;
                    }
                    other => return unsupported("where predicate", other.span()),
                }
            }
        }
    }
    Ok(r)
}

/// the signature of a function, in model types
fn signature(un: &Unit, s: &Src) -> Res<FnInfo> {
    for a in &s.attrs {
        let p = a.path();
        let t = norm_tokens(a);
        if !(p.is_ident("inline") || p.is_ident("doc") || p.is_ident("must_use") || p.is_ident("allow")
            || t == "# [cfg (not (feature = \"unstable\"))]"
            || t == "# [cfg (feature = \"alloc\")]"
            || (t == "# [cfg (feature = \"unstable\")]" && matches!(un.loc, Loc::FreeU(_))))
        {
            return unsupported(&format!("attribute `{}`", t), a.span());
        }
    }
    let g = &s.sig;
    if g.abi.is_some() || g.variadic.is_some() {
        return unsupported("extern / variadic function", g.span());
    }
    if g.asyncness.is_some() && !un.key.starts_with("aio_") {
        return unsupported("async function", g.span());
    }
    let mut gs: Vec<&syn::Generics> = vec![&g.generics];
    if let Some(ig) = &s.impl_generics {
        gs.push(ig);
    }
    let gens = generics_of(&gs)?;
    let (bounds_params, has_n, closures, osr_params) = (gens.bounds.clone(), gens.has_n, gens.closures.clone(), gens.osrs.clone());
    let mut fparams: Vec<(String, String)> = vec![];
    if gens.eqf {
        fparams.push(("eqf".into(), "elem -> elem -> bool".into()));
    }
    if gens.cmpf {
        fparams.push(("cmpf".into(), "elem -> elem -> option comparison".into()));
    }
    let unstable = matches!(un.loc, Loc::FreeU(_));
    if !osr_params.is_empty() && !unstable {
        return unsupported("OneSidedRange bound outside a `cfg(feature = \"unstable\")` function", g.generics.span());
    }
    let bytes = un.file == "src/io.rs" || un.file == "src/embedded_io.rs";
    let cx = TyCtx {
        owner: s.owner.clone(),
        bounds_params,
        osr_params,
        hasher_params: gens.hashers.clone(),
        driver_params: gens.drivers.clone(),
        assoc: s.assoc.clone(),
        list_params: un.lists.iter().map(|s| s.to_string()).collect(),
        bytes,
    };
    let mut params = vec![];
    let mut self_ty = None;
    let mut self_mut = false;
    for a in &g.inputs {
        match a {
            syn::FnArg::Receiver(r) => {
                if r.colon_token.is_some() {
                    return unsupported("typed receiver", r.span());
                }
                let owner = s.owner.clone().ok_or_else(|| format!("{}: receiver outside an impl", at(r.span())))?;
                let t = match owner.as_str() {
                    "CircularBuffer" | "IntoIter" => Ty::Buf,
                    o if rec_coq(o).is_some() => Ty::Rec(o.to_string()),
                    o => return unsupported(&format!("receiver of type {}", o), r.span()),
                };
                if r.reference.is_none() && (t == Ty::Buf || owner != "CircularSlicePtr") && !(s.ref_impl && r.mutability.is_none()) {
                    if t == Ty::Buf {
                        return unsupported(
                            "the buffer received by value (`self`): it is moved into what the function returns (an IntoIter that wraps it); in the model the wrapped buffer is the state itself, so the function has no counterpart to be equal to",
                            r.span(),
                        );
                    }
                    return unsupported("receiver by value of a type that is not Copy", r.span());
                }
                self_mut = r.reference.is_some() && r.mutability.is_some();
                self_ty = Some(t);
            }
            syn::FnArg::Typed(pt) => {
                if !pt.attrs.is_empty() {
                    return unsupported("attribute on a parameter", pt.span());
                }
                let n = match &*pt.pat {
                    Pat::Ident(pi) if pi.by_ref.is_none() && pi.subpat.is_none() => pi.ident.to_string(),
                    other => return unsupported("parameter pattern", other.span()),
                };
                if closures.iter().any(|c| norm_tokens(&pt.ty) == *c) {
                    params.push(Param { name: n, ty: Ty::Closure, by_mut_ref: false });
                    continue;
                }
                if bytes && norm_tokens(&pt.ty) == "& mut [u8]" {
                    // the bytes are written: the function hands back the new contents
                    params.push(Param { name: n, ty: Ty::List, by_mut_ref: true });
                    continue;
                }
                if mut_ref_to_slice(&pt.ty) {
                    params.push(Param { name: n, ty: Ty::Slice, by_mut_ref: true });
                    continue;
                }
                let mut t = type_of(&pt.ty, &cx)?;
                if cx.list_params.contains(&n) {
                    match (&t, norm_tokens(&pt.ty).as_str()) {
                        (Ty::Slice, "& [T]") | (Ty::List, _) => t = Ty::List,
                        _ => return unsupported(&format!("parameter `{}` expected to be a slice outside the array", n), pt.ty.span()),
                    }
                }
                if t == Ty::Buf && self_ty == Some(Ty::Buf) {
                    // a second buffer, next to the receiver
                    t = Ty::OBuf;
                }
                if matches!(t, Ty::Range | Ty::Bounds | Ty::Buf | Ty::Closure | Ty::Formatter | Ty::Hasher) {
                    params.push(Param { name: n, ty: t, by_mut_ref: false });
                    continue;
                }
                if matches!(t, Ty::Unit | Ty::Ptr) || t.coq().is_err() {
                    return unsupported(&format!("parameter `{}` of type {}", n, t.show()), pt.ty.span());
                }
                params.push(Param { name: n, ty: t, by_mut_ref: false });
            }
        }
    }
    let ret = match &g.output {
        // a constructor: see Ty::NewBuf
        syn::ReturnType::Type(_, t) if norm_tokens(t) == "Self" && s.owner.as_deref() == Some("CircularBuffer") && !s.ref_impl => {
            if params.iter().any(|p| matches!(p.ty, Ty::Buf | Ty::OBuf)) || (self_ty.is_some() && self_ty != Some(Ty::Buf)) || self_mut {
                return unsupported(
                    "a function that receives a buffer as an argument and returns another by value (in the model the buffer is the state of the computation; two buffers are not)",
                    t.span(),
                );
            }
            if self_ty.is_some() { Ty::RetBuf } else { Ty::NewBuf }
        }
        // the order of the elements is a parameter that yields `option comparison` (the model's
        // rendering of PartialOrd and of Ord alike): so does what Iterator::cmp makes of it
        syn::ReturnType::Type(_, t) if norm_tokens(t) == "Ordering" && matches!(un.loc, Loc::Method(_, Some("Ord"), "cmp")) => {
            Ty::Opt(Box::new(Ty::Ordering))
        }
        syn::ReturnType::Type(_, t) => type_of(t, &cx)?,
        syn::ReturnType::Default => Ty::Unit,
    };
    if ret.coq().is_err() {
        return unsupported(&format!("return type {}", ret.show()), g.output.span());
    }
    let name = g.ident.to_string();
    let mem_param = ret == Ty::RetBuf;
    Ok(FnInfo {
        key: un.key.to_string(),
        owner: s.owner.clone(),
        name,
        self_ty,
        self_mut,
        params,
        ret,
        has_n,
        file: un.file.to_string(),
        fparams,
        copy_elems: gens.copy,
        mem_param,
    })
}

struct Done {
    text: String,
    lines: (usize, usize),
    calls: Vec<String>,
    ext_calls: Vec<String>,
    params: Vec<String>,
    ret: String,
    loops: Vec<String>,
    info: DoneInfo,
}

enum Attempt {
    Ok(Done),
    Need(String, String),
    Fail(String),
}

/// the names of the model that occur in generated text, with the module they come from
fn qualify(text: &str) -> String {
    const TABLE: &[(&str, &str)] = &[
        ("iter", "Iter.iter"), ("mkI", "Iter.mkI"), ("it_right", "Iter.it_right"), ("it_left", "Iter.it_left"),
        ("bound", "Iter.bound"), ("BIncl", "Iter.BIncl"), ("BExcl", "Iter.BExcl"), ("BUnb", "Iter.BUnb"),
        ("drain", "Drain.drain"), ("mkD", "Drain.mkD"), ("d_buf_size", "Drain.d_buf_size"), ("d_rs", "Drain.d_rs"),
        ("d_re", "Drain.d_re"), ("d_is", "Drain.d_is"), ("d_ie", "Drain.d_ie"), ("csp", "Drain.csp"),
        ("mkC", "Drain.mkC"), ("c_len", "Drain.c_len"), ("c_off", "Drain.c_off"), ("slice_read", "Io.slice_read"),
        ("zlen", "Buf.zlen"),
        ("iter_for_each", "Traits.iter_for_each"), ("cloned_for_each", "Traits.cloned_for_each"), ("iter_cmp_loop", "Traits.iter_cmp_loop"), ("slice_eq", "Traits.slice_eq"),
        ("osr", "Unstable.osr"), ("sl_split_off", "Unstable.sl_split_off"), ("sl_split_off_mut", "Unstable.sl_split_off_mut"),
        ("sl_split_off_first", "Unstable.sl_split_off_first"), ("sl_split_off_first_mut", "Unstable.sl_split_off_first_mut"),
        ("sl_split_off_last", "Unstable.sl_split_off_last"), ("sl_split_off_last_mut", "Unstable.sl_split_off_last_mut"),
    ];
    let mut out = String::new();
    let mut tok = String::new();
    let flush = |tok: &mut String, out: &mut String| {
        if !tok.is_empty() {
            match TABLE.iter().find(|(a, _)| a == tok) {
                Some((_, b)) => out.push_str(b),
                None => out.push_str(tok),
            }
            tok.clear();
        }
    };
    for c in text.chars() {
        if c.is_ascii_alphanumeric() || c == '_' || c == '\'' || c == '.' && !tok.is_empty() {
            tok.push(c);
        } else {
            flush(&mut tok, &mut out);
            out.push(c);
        }
    }
    flush(&mut tok, &mut out);
    out
}

fn attempt(
    un: &Unit,
    s: &Src,
    fns: &HashMap<String, FnInfo>,
    index: &HashMap<(Option<String>, String), String>,
    done: &HashMap<String, DoneInfo>,
) -> Attempt {
    let me = match fns.get(un.key) {
        Some(s) => s.clone(),
        None => return Attempt::Fail("no usable signature".into()),
    };
    let mut used = HashSet::new();
    collect_idents(quote::ToTokens::to_token_stream(&s.sig), &mut used);
    collect_idents(quote::ToTokens::to_token_stream(&s.block), &mut used);
    // first with every `&mut` parameter handed back; then only those that can change
    let mut self_out = me.self_mut && matches!(me.self_ty, Some(Ty::Rec(_)));
    let mut outs: Vec<usize> = me.params.iter().enumerate().filter(|(_, p)| p.by_mut_ref).map(|(k, _)| k).collect();
    for round in 0..2 {
        set_file(un.file);
        let mut t = Tr {
            fns,
            index,
            done,
            me: me.clone(),
            used: used.clone(),
            counter: 0,
            can_return: true,
            calls: Default::default(),
            ext_calls: Default::default(),
            need: None,
            self_out,
            outs: outs.clone(),
            self_changed: false,
            outs_changed: Default::default(),
            live: vec![],
            nested: HashMap::new(),
            aux: vec![],
            loops: 0,
            fuel_ix: 0,
            mem_used: false,
            fuel: un.fuel,
            harmless: true,
            user: false,
            in_loop: false,
            depth: 0,
        };
        let mut env: Env = HashMap::new();
        let mut params = vec![];
        let mut ptypes: Vec<String> = vec![];
        match &me.self_ty {
            Some(Ty::Buf) => {
                let tm = if me.owner.as_deref() == Some("IntoIter") { "<into_iter>" } else { "<buffer>" };
                env.insert("self".into(), Val::atom(tm, Ty::Buf));
            }
            Some(t @ Ty::Rec(_)) => {
                env.insert("self".into(), Val::atom("self'", t.clone()));
                let c = t.coq().expect("record");
                params.push(format!("(self' : {})", c));
                ptypes.push(c);
            }
            _ => {}
        }
        for (n, c) in &me.fparams {
            params.push(format!("({} : {})", n, c));
            ptypes.push(c.clone());
        }
        if me.mem_param {
            params.push("(mem' : cbuf)".to_string());
            ptypes.push("cbuf".to_string());
        }
        for p in &me.params {
            let id = syn::Ident::new(&p.name, s.span);
            let cn = match t.coq_ident(&id) {
                Ok(n) => n,
                Err(e) => return Attempt::Fail(e),
            };
            let base = cn.trim_end_matches('\'').to_string();
            let v = match &p.ty {
                Ty::Range => {
                    let (a, b) = (format!("{}_start'", base), format!("{}_end'", base));
                    params.push(format!("({} : Z) ({} : Z)", a, b));
                    ptypes.extend(["Z".to_string(), "Z".to_string()]);
                    expr::range_val(Val::atom(a, Ty::Usize), Val::atom(b, Ty::Usize))
                }
                Ty::Bounds => {
                    let (a, b) = (format!("{}_sb'", base), format!("{}_eb'", base));
                    params.push(format!("({} : bound) ({} : bound)", a, b));
                    ptypes.extend(["bound".to_string(), "bound".to_string()]);
                    expr::bounds_val(Val::atom(a, Ty::Bound), Val::atom(b, Ty::Bound))
                }
                Ty::Buf => Val::atom("<buffer>", Ty::Buf),
                Ty::Closure => Val::atom("<closure>", Ty::Closure),
                Ty::Formatter => Val::atom("<formatter>", Ty::Formatter),
                Ty::Hasher => Val::atom("<hasher>", Ty::Hasher),
                ty => {
                    let c = ty.coq().expect("checked in signature");
                    params.push(format!("({} : {})", cn, c));
                    ptypes.push(c);
                    if *ty == Ty::Elem {
                        t.live.push(p.name.clone());
                    }
                    Val::atom(cn.clone(), ty.clone())
                }
            };
            if env.insert(p.name.clone(), v).is_some() {
                return Attempt::Fail(format!("{}: duplicate parameter", at(s.span)));
            }
        }
        let body = match t.block(&s.block.stmts, env, true) {
            Ok((b, _, _)) => b,
            Err(e) => {
                return match t.need.take() {
                    Some(g) => Attempt::Need(g, e),
                    None => Attempt::Fail(e),
                }
            }
        };
        let new_self_out = self_out && t.self_changed;
        let new_outs: Vec<usize> = outs.iter().filter(|k| t.outs_changed.contains(k)).cloned().collect();
        if round == 0 && (new_self_out != self_out || new_outs != outs) {
            self_out = new_self_out;
            outs = new_outs;
            continue;
        }
        // the type of what the function yields
        let mut tys = vec![];
        if self_out {
            tys.push(me.self_ty.clone().unwrap());
        }
        for k in &outs {
            tys.push(me.params[*k].ty.clone());
        }
        if me.ret != Ty::Unit || tys.is_empty() {
            tys.push(me.ret.clone());
        }
        let full = if tys.len() == 1 { tys[0].clone() } else { Ty::Tuple(tys) };
        if !body.ty().compat(&full) {
            return Attempt::Fail(format!(
                "{}: the body yields {}, expected {}",
                at(s.block.span()), body.ty().show(), full.show()
            ));
        }
        let body = simplify(body);
        let (a, b) = (s.span.start().line, s.span.end().line);
        let ret = match full.coq() {
            Ok(r) => r,
            Err(e) => return Attempt::Fail(e),
        };
        let mut text = String::new();
        for x in &t.aux {
            let (head, rest) = x.split_once('\n').unwrap_or((x.as_str(), ""));
            text.push_str(head);
            text.push('\n');
            text.push_str(&qualify(rest));
            text.push('\n');
        }
        writeln!(text, "(* fn {}: {}:{}-{} *)", un.key, un.file, a, b).unwrap();
        let ps = if params.is_empty() { String::new() } else { format!(" {}", params.join(" ")) };
        let rt = if ret.contains(' ') { format!("({})", ret) } else { ret.clone() };
        let def = format!("Definition gen_{}{} : M {} :=\n{}.\n", un.key, ps, rt, render(&body, 2));
        text.push_str(&qualify(&def));
        let loops: Vec<String> = (1..=t.loops).map(|k| format!("gen_{}_loop{}", un.key, k)).collect();
        return Attempt::Ok(Done {
            text,
            lines: (a, b),
            calls: t.calls.iter().cloned().collect(),
            ext_calls: t.ext_calls.iter().cloned().collect(),
            params: ptypes,
            ret,
            loops,
            info: DoneInfo { self_out, outs, harmless: t.harmless, user: t.user, external: None },
        });
    }
    Attempt::Fail("internal: the set of parameters handed back did not settle".into())
}

const PRELUDE: &str = "\
(* renderings of the std functions the source calls, in the vocabulary of Machine.v *)

(* core::mem::replace(dest, src) on a slot *)
Definition gen_mem_replace (p : Z) (e : elem) : M elem :=
  old <- read_slot p;;
  write_slot p e;;
  ret old.

(* core::ptr::swap_nonoverlapping(x, y, 1) on two slots *)
Definition gen_swap_nonoverlapping (p q : Z) : M unit :=
  f <- get_items;;
  set_items (s_swap f p q).

(* <[_]>::rotate_left(k) on the items array: panics when k > len *)
Definition gen_rotate_left (k : Z) : M unit :=
  n <- get_cap;;
  if k <=? n then f <- get_items;; set_items (s_rotate_left f n k) else panic PBounds.

(* <Range<usize> as Iterator>::next / DoubleEndedIterator::next_back / ExactSizeIterator::len:
   the new bounds and the item *)
Definition gen_range_next (a b : Z) : Z * Z * option Z :=
  if a <? b then (a + 1, b, Some a) else (a, b, None).
Definition gen_range_next_back (a b : Z) : Z * Z * option Z :=
  if a <? b then (a, b - 1, Some (b - 1)) else (a, b, None).
Definition gen_range_len (a b : Z) : Z := if a <? b then b - a else 0.

(* <[T]>::split_first / split_last on a view of the array: the slot and the rest *)
Definition gen_split_first (sl : slice) : option (Z * slice) :=
  if 0 <? slen sl then Some (soff sl, mkS (soff sl + 1) (slen sl - 1)) else None.
Definition gen_split_last (sl : slice) : option (Z * slice) :=
  if 0 <? slen sl then Some (soff sl + slen sl - 1, mkS (soff sl) (slen sl - 1)) else None.

(* a struct whose base pointer the model does not represent can only be built on the
   first slot of the array; anything else is outside the model and flagged *)
Definition gen_repr_guard (c : bool) : M unit := if c then ret tt else panic PMemFault.

(* &x[k..] / &x[..k] on data outside the array *)
Definition gen_bounds_check (c : bool) : M unit := if c then ret tt else panic PBounds.

(* a value of a type I: IntoIterator<Item = T> is rendered as the function that runs a closure on
   every item; this is the one of a user iterator that owns xs: every step is a user call, and when
   anything unwinds the iterator is destroyed and destroys the items it still owns *)
Fixpoint gen_user_for_each (xs : list elem) (body : elem -> M unit) : M unit :=
  on_unwind (emit EvNext;; user_call FNext) (drop_list xs);;
  match xs with
  | [] => ret tt
  | x :: rest => on_unwind (body x) (drop_list rest);; gen_user_for_each rest body
  end.

(* the one of an iterator over borrowed elements, T: Copy: no user code *)
Fixpoint gen_refs_for_each (xs : list elem) (body : elem -> M unit) : M unit :=
  match xs with
  | [] => ret tt
  | x :: rest => body x;; gen_refs_for_each rest body
  end.

";

fn json_str(s: &str) -> String {
    let mut o = String::from("\"");
    for c in s.chars() {
        match c {
            '"' => o.push_str("\\\""),
            '\\' => o.push_str("\\\\"),
            '\n' => o.push_str("\\n"),
            '\t' => o.push_str("\\t"),
            c if (c as u32) < 0x20 => write!(o, "\\u{:04x}", c as u32).unwrap(),
            c => o.push(c),
        }
    }
    o.push('"');
    o
}

fn json_list(v: &[String]) -> String {
    format!("[{}]", v.iter().map(|s| json_str(s)).collect::<Vec<_>>().join(", "))
}

/// the structs must be what the model's records say they are
fn check_structs(files: &HashMap<&'static str, syn::File>) -> Res<()> {
    let want: &[(&str, &str, &[&str], &str)] = &[
        ("src/lib.rs", "CircularBuffer", &["size: usize", "start: usize", "items: [MaybeUninit < T > ; N]"], "< const N : usize , T >"),
        ("src/iter.rs", "IntoIter", &["inner: CircularBuffer < N , T >"], "< const N : usize , T >"),
    ];
    for (file, name, fields, generics) in want {
        set_file(file);
        let f = files.get(file).ok_or_else(|| format!("{}: not read", file))?;
        let s = f
            .items
            .iter()
            .find_map(|it| match it {
                Item::Struct(s) if s.ident == name => Some(s),
                _ => None,
            })
            .ok_or_else(|| format!("{}: struct {} not found", file, name))?;
        let got = match &s.fields {
            syn::Fields::Named(n) => {
                n.named.iter().map(|f| format!("{}: {}", f.ident.as_ref().unwrap(), norm_tokens(&f.ty))).collect::<Vec<_>>()
            }
            _ => vec![],
        };
        if got != *fields {
            return Err(format!(
                "{}: struct {} has fields [{}], the model expects [{}]",
                at(s.span()), name, got.join(", "), fields.join(", ")
            ));
        }
        if norm_tokens(&s.generics) != *generics {
            return Err(format!("{}: struct {} has unexpected generics", at(s.span()), name));
        }
    }
    for (file, name) in [("src/iter.rs", "Iter"), ("src/iter.rs", "IterMut"), ("src/drain.rs", "Drain"), ("src/drain.rs", "CircularSlicePtr")] {
        set_file(file);
        let f = files.get(file).ok_or_else(|| format!("{}: not read", file))?;
        let s = f
            .items
            .iter()
            .find_map(|it| match it {
                Item::Struct(s) if s.ident == name => Some(s),
                _ => None,
            })
            .ok_or_else(|| format!("{}: struct {} not found", file, name))?;
        let got = match &s.fields {
            syn::Fields::Named(n) => {
                n.named.iter().map(|f| format!("{}: {}", f.ident.as_ref().unwrap(), norm_tokens(&f.ty))).collect::<Vec<_>>()
            }
            _ => vec![],
        };
        let sc = schema(name).expect("schema");
        let want: Vec<String> = sc.fields.iter().map(|(n, t, _)| format!("{}: {}", n, t)).collect();
        if got != want {
            return Err(format!(
                "{}: struct {} has fields [{}], the model's record expects [{}]",
                at(s.span()), name, got.join(", "), want.join(", ")
            ));
        }
    }
    Ok(())
}

/// `slice_assume_init_ref` / `_mut` are rendered as the identity: they must be
/// the element-type casts they are today
fn check_assume_init(file: &syn::File) -> Res<()> {
    let want: [(&str, &str, &str); 2] = [
        (
            "slice_assume_init_ref",
            "{ # [cfg (feature = \"unstable\")] { slice . assume_init_ref () } # [cfg (not (feature = \"unstable\"))] { & * (slice as * const [MaybeUninit < T >] as * const [T]) } }",
            "const unsafe fn slice_assume_init_ref < T > (slice : & [MaybeUninit < T >]) -> & [T]",
        ),
        (
            "slice_assume_init_mut",
            "{ # [cfg (feature = \"unstable\")] { slice . assume_init_mut () } # [cfg (not (feature = \"unstable\"))] { & mut * (slice as * mut [MaybeUninit < T >] as * mut [T]) } }",
            "unsafe fn slice_assume_init_mut < T > (slice : & mut [MaybeUninit < T >]) -> & mut [T]",
        ),
    ];
    set_file("src/lib.rs");
    for (name, body, sig) in want {
        let f = file
            .items
            .iter()
            .find_map(|it| match it {
                Item::Fn(f) if f.sig.ident == name => Some(f),
                _ => None,
            })
            .ok_or_else(|| format!("src/lib.rs: fn {} not found at the crate root", name))?;
        if norm_tokens(&f.block) != body || norm_tokens(&f.sig) != sig {
            return Err(format!(
                "{}: fn {} is no longer the plain cast the translator renders as the identity",
                at(f.span()), name
            ));
        }
    }
    Ok(())
}

/// the names to which the translator gives a fixed meaning must have it in this file:
/// the names of `core_of` are core's (when the file imports them at all), and nothing at the
/// root of the file redefines a prelude name or an assertion macro
fn check_names(path: &str, file: &syn::File, core_of: &[(&str, &[&str], bool)]) -> Res<()> {
    set_file(path);
    fn leaves(t: &syn::UseTree, prefix: &str, out: &mut Vec<(String, String, Span)>) -> Res<()> {
        match t {
            syn::UseTree::Path(p) => leaves(&p.tree, &format!("{}{}::", prefix, p.ident), out),
            syn::UseTree::Name(n) => {
                out.push((n.ident.to_string(), format!("{}{}", prefix, n.ident), n.span()));
                Ok(())
            }
            syn::UseTree::Rename(r) => {
                out.push((r.rename.to_string(), format!("{}{}", prefix, r.ident), r.span()));
                Ok(())
            }
            syn::UseTree::Glob(g) => Err(format!(
                "{}: glob import `{}*` at the root of the file (it could redefine any name the translator relies on)",
                at(g.span()), prefix
            )),
            syn::UseTree::Group(g) => {
                for x in &g.items {
                    leaves(x, prefix, out)?;
                }
                Ok(())
            }
        }
    }
    let mut decl: Vec<(String, String, Span)> = vec![];
    for it in &file.items {
        let (id, what) = match it {
            Item::Use(u) => {
                leaves(&u.tree, "", &mut decl)?;
                continue;
            }
            Item::Fn(f) => (Some(&f.sig.ident), "fn"),
            Item::Struct(x) => (Some(&x.ident), "struct"),
            Item::Enum(x) => (Some(&x.ident), "enum"),
            Item::Union(x) => (Some(&x.ident), "union"),
            Item::Const(x) => (Some(&x.ident), "const"),
            Item::Static(x) => (Some(&x.ident), "static"),
            Item::Type(x) => (Some(&x.ident), "type"),
            Item::Trait(x) => (Some(&x.ident), "trait"),
            Item::Mod(x) => (Some(&x.ident), "mod"),
            Item::Macro(m) => (m.ident.as_ref(), "macro"),
            Item::ExternCrate(x) => (Some(&x.ident), "extern crate"),
            _ => (None, ""),
        };
        if let Some(id) = id {
            decl.push((id.to_string(), format!("<{}>", what), id.span()));
        }
    }
    const FIXED: &[&str] = &[
        "Some", "None", "Ok", "Err", "Option", "usize", "bool", "T", "N", "assert", "debug_assert",
        "assert_eq", "assert_ne", "debug_assert_eq", "debug_assert_ne", "unimplemented", "drop",
    ];
    for (name, path, sp) in &decl {
        if FIXED.contains(&name.as_str()) || (name == "Result" && !path.ends_with("io::Result")) {
            return Err(format!("{}: the file declares `{}` ({}), a name the translator gives a fixed meaning", at(*sp), name, path));
        }
    }
    for (name, ok, must) in core_of {
        let here: Vec<_> = decl.iter().filter(|(n, _, _)| n == name).collect();
        // the same import under two cfgs counts once
        let paths: HashSet<&str> = here.iter().map(|h| h.1.as_str()).collect();
        if (paths.is_empty() && !*must) || (paths.len() == 1 && ok.contains(paths.iter().next().unwrap())) {
            continue;
        }
        return Err(format!(
            "{}: `{}` must be imported as {}; found [{}]",
            path, name, ok[0], here.iter().map(|(_, p, _)| p.clone()).collect::<Vec<_>>().join(", ")
        ));
    }
    Ok(())
}

fn run() -> Res<i32> {
    let argv: Vec<String> = std::env::args().collect();
    let mut pos = vec![];
    let mut only: Option<Vec<String>> = None;
    let mut strict = false;
    let mut i = 1;
    while i < argv.len() {
        match argv[i].as_str() {
            "--strict" => strict = true,
            "--only" => {
                i += 1;
                let v = argv.get(i).ok_or("--only needs a list of functions")?;
                only = Some(v.split(',').filter(|s| !s.is_empty()).map(|s| s.to_string()).collect());
            }
            a if a.starts_with("--") => return Err(format!("unknown option {}", a)),
            a => pos.push(a.to_string()),
        }
        i += 1;
    }
    if pos.len() != 2 {
        return Err("usage: rs2coq_core <repo> <out.v> [--only f,g,...] [--strict]".into());
    }
    let repo = std::path::Path::new(&pos[0]);
    let all = units();
    let mut files: HashMap<&'static str, syn::File> = HashMap::new();
    let mut file_errors: HashMap<&'static str, String> = HashMap::new();
    for f in ["src/lib.rs", "src/iter.rs", "src/drain.rs", "src/io.rs", "src/embedded_io.rs"] {
        let p = repo.join(f);
        let r = std::fs::read_to_string(&p)
            .map_err(|e| format!("cannot read {}: {}", p.display(), e))
            .and_then(|src| syn::parse_file(&src).map_err(|e| format!("cannot parse {}: {} (line {})", p.display(), e, e.span().start().line)));
        match r {
            Ok(x) => {
                files.insert(f, x);
            }
            Err(e) if f == "src/lib.rs" => return Err(e),
            Err(e) => {
                file_errors.insert(f, e);
            }
        }
    }
    if let Err(e) = check_structs(&files) {
        // the struct of the buffer itself is a precondition of everything
        if e.contains("CircularBuffer") && !e.contains("IntoIter") {
            return Err(e);
        }
        for f in ["src/iter.rs", "src/drain.rs"] {
            file_errors.entry(f).or_insert(e.clone());
        }
    }
    let lib_names: &[(&str, &[&str], bool)] = &[
        ("mem", &["core::mem", "std::mem"], true),
        ("ptr", &["core::ptr", "std::ptr"], true),
        ("MaybeUninit", &["core::mem::MaybeUninit", "std::mem::MaybeUninit"], true),
        ("Range", &["core::ops::Range", "std::ops::Range"], true),
        ("RangeBounds", &["core::ops::RangeBounds", "std::ops::RangeBounds"], false),
        ("fmt", &["core::fmt", "std::fmt"], false),
        ("Ordering", &["core::cmp::Ordering", "std::cmp::Ordering"], false),
        ("Hash", &["core::hash::Hash", "std::hash::Hash"], false),
        ("Hasher", &["core::hash::Hasher", "std::hash::Hasher"], false),
        ("Iter", &["crate::iter::Iter"], false),
        ("IterMut", &["crate::iter::IterMut"], false),
        ("Drain", &["crate::drain::Drain"], false),
    ];
    check_names("src/lib.rs", &files["src/lib.rs"], lib_names)?;
    let other_names: &[(&str, &[(&str, &[&str], bool)])] = &[
        (
            "src/iter.rs",
            &[
                ("Bound", &["core::ops::Bound", "std::ops::Bound"], true),
                ("fmt", &["core::fmt", "std::fmt"], false),
                ("RangeBounds", &["core::ops::RangeBounds", "std::ops::RangeBounds"], true),
                ("CircularBuffer", &["crate::CircularBuffer"], true),
            ],
        ),
        (
            "src/drain.rs",
            &[
                ("add_mod", &["crate::add_mod"], true),
                ("fmt", &["core::fmt", "std::fmt"], false),
                ("Iter", &["crate::iter::Iter"], false),
                ("translate_range_bounds", &["crate::iter::translate_range_bounds"], true),
                ("CircularBuffer", &["crate::CircularBuffer"], true),
                ("ptr", &["core::ptr", "std::ptr"], true),
                ("NonNull", &["core::ptr::NonNull", "std::ptr::NonNull"], true),
                ("Range", &["core::ops::Range", "std::ops::Range"], true),
                ("RangeBounds", &["core::ops::RangeBounds", "std::ops::RangeBounds"], true),
                ("PhantomData", &["core::marker::PhantomData", "std::marker::PhantomData"], true),
                ("MaybeUninit", &["core::mem::MaybeUninit", "std::mem::MaybeUninit"], false),
            ],
        ),
        (
            "src/io.rs",
            &[
                ("CircularBuffer", &["crate::CircularBuffer"], true),
                ("cmp", &["std::cmp", "core::cmp"], true),
                ("Result", &["std::io::Result"], true),
                ("Read", &["std::io::Read"], true),
                ("Write", &["std::io::Write"], true),
                ("BufRead", &["std::io::BufRead"], true),
            ],
        ),
        ("src/embedded_io.rs", &[("CircularBuffer", &["crate::CircularBuffer"], true)]),
    ];
    for (f, names) in other_names {
        if let Some(file) = files.get(f) {
            if let Err(e) = check_names(f, file, names) {
                file_errors.entry(f).or_insert(e);
            }
        }
    }

    let requested: Vec<String> = match &only {
        Some(v) => {
            for n in v {
                if !all.iter().any(|u| u.key == n) {
                    return Err(format!("--only: `{}` is not a function this tool knows", n));
                }
            }
            v.clone()
        }
        None => all.iter().map(|u| u.key.to_string()).collect(),
    };

    let mut skipped: BTreeMap<String, String> = BTreeMap::new();
    let mut srcs: HashMap<String, Src> = HashMap::new();
    let mut fns: HashMap<String, FnInfo> = HashMap::new();
    let mut index: HashMap<(Option<String>, String), String> = HashMap::new();
    for un in &all {
        set_file(un.file);
        if let Some(e) = file_errors.get(un.file) {
            skipped.insert(un.key.to_string(), e.clone());
            continue;
        }
        let file = &files[un.file];
        let s = match find(file, un.loc, &srcs) {
            Ok(s) => s,
            Err(e) => {
                skipped.insert(un.key.to_string(), format!("{}: {}", un.file, e));
                continue;
            }
        };
        match signature(un, &s) {
            Ok(info) => {
                // inherent methods and free functions are what calls resolve to; trait methods
                // too, unless an inherent method of the same type has the name
                let k = (if s.ref_impl { info.owner.as_ref().map(|o| format!("&{}", o)) } else { info.owner.clone() }, info.name.clone());
                // one of several impls of a generic trait: `name<args>`
                let k = match un.loc {
                    Loc::MethodG(_, _, targs, _) => (k.0, format!("{}{}", k.1, targs.replace(' ', ""))),
                    _ => k,
                };
                let inherent = !matches!(un.loc, Loc::Method(_, Some(_), _) | Loc::MethodG(..));
                if matches!(un.loc, Loc::FreeU(_)) {
                } else if inherent || !index.contains_key(&k) {
                    // (of the trait methods of the buffer only Debug::fmt is called by name: IntoIter's Debug)
                    if !(k.0.as_deref() == Some("CircularBuffer") && !inherent) || k.1 == "fmt" || k.1 == "eq<[U]>" || k.1.starts_with("extend<") || k.1 == "from_iter" {
                        index.insert(k, un.key.to_string());
                    }
                }
                fns.insert(un.key.to_string(), info);
                srcs.insert(un.key.to_string(), s);
            }
            Err(e) => {
                srcs.insert(un.key.to_string(), s);
                skipped.insert(un.key.to_string(), e);
            }
        }
    }
    // no hand-written counterpart: nothing to be equal to
    for un in &all {
        if un.hand.is_empty() && !skipped.contains_key(un.key) {
            skipped.insert(un.key.to_string(), "the model has no counterpart (the wrapped buffer is the state itself)".into());
        }
    }
    let uses_assume = |s: &Src| {
        let mut ids = HashSet::new();
        collect_idents(quote::ToTokens::to_token_stream(&s.block), &mut ids);
        ids.contains("slice_assume_init_ref") || ids.contains("slice_assume_init_mut")
    };
    let assume_ok = check_assume_init(&files["src/lib.rs"]);

    let mut done: HashMap<String, DoneInfo> = HashMap::new();
    let mut order: Vec<(String, Done)> = vec![];
    let mut active: Vec<String> = vec![];

    struct Ctx<'x> {
        all: &'x [Unit],
        srcs: &'x HashMap<String, Src>,
        fns: &'x HashMap<String, FnInfo>,
        index: &'x HashMap<(Option<String>, String), String>,
    }
    fn ensure(
        name: &str,
        cx: &Ctx,
        done: &mut HashMap<String, DoneInfo>,
        order: &mut Vec<(String, Done)>,
        skipped: &mut BTreeMap<String, String>,
        active: &mut Vec<String>,
        pre_check: &dyn Fn(&Src) -> Res<()>,
    ) -> bool {
        if done.contains_key(name) {
            return true;
        }
        if skipped.contains_key(name) {
            return false;
        }
        if active.iter().any(|a| a == name) {
            skipped.insert(name.to_string(), format!("recursion through {}", active.join(" -> ")));
            return false;
        }
        let (s, un) = match (cx.srcs.get(name), cx.all.iter().find(|u| u.key == name)) {
            (Some(s), Some(u)) => (s, u),
            _ => {
                skipped.insert(name.to_string(), "not found".into());
                return false;
            }
        };
        if let Err(e) = pre_check(s) {
            skipped.insert(name.to_string(), e);
            return false;
        }
        active.push(name.to_string());
        let ok = loop {
            match attempt(un, s, cx.fns, cx.index, done) {
                Attempt::Ok(d) => {
                    done.insert(name.to_string(), d.info.clone());
                    order.push((name.to_string(), d));
                    break true;
                }
                Attempt::Need(g, msg) => {
                    if !ensure(&g, cx, done, order, skipped, active, pre_check) {
                        // a callee with a hand-written stand-in may stay untranslated
                        if let Some((_, h)) = EXTERNALS.iter().find(|(k, _)| *k == g) {
                            done.insert(g.clone(), DoneInfo { user: true, external: Some(h.to_string()), ..Default::default() });
                            continue;
                        }
                        let why = skipped.get(&g).cloned().unwrap_or_default();
                        skipped.insert(
                            name.to_string(),
                            format!("{} -- and `{}` was not translated: {}", msg, g, why),
                        );
                        break false;
                    }
                }
                Attempt::Fail(e) => {
                    skipped.insert(name.to_string(), e);
                    break false;
                }
            }
        };
        active.pop();
        ok
    }

    let pre_check = |s: &Src| -> Res<()> {
        if s.attrs.iter().any(|a| norm_tokens(a) == "# [cfg (feature = \"unstable\")]") {
            let mut ids = HashSet::new();
            collect_idents(quote::ToTokens::to_token_stream(&s.block), &mut ids);
            if ids.contains("cfg") {
                return Err("conditional compilation inside the body of a `cfg(feature = \"unstable\")` function".into());
            }
        }
        if uses_assume(s) {
            assume_ok.clone()
        } else {
            Ok(())
        }
    };
    let cx = Ctx { all: &all, srcs: &srcs, fns: &fns, index: &index };
    for n in &requested {
        ensure(n, &cx, &mut done, &mut order, &mut skipped, &mut active, &pre_check);
    }
    // with --only, functions that were not requested (and not needed) are not reported
    if only.is_some() {
        skipped.retain(|k, _| requested.contains(k));
    }

    // ---- output
    let mut out = String::new();
    out.push_str("(* CoreGen.v — GENERATED by tools/rs2coq_core from src/*.rs. Do not edit. *)\n\n");
    out.push_str("From CB Require Import Machine.\n");
    out.push_str("(* only the record types of the model (iter, drain, csp, bound, osr), zlen, the model of\n   <&[u8] as Read>::read (slice_read), the combinators of Traits.v the std adaptors are rendered as\n   (iter_for_each, iter_cmp_loop, slice_eq) and the models of the nightly slice functions\n   (Unstable.sl_split_off and its variants) are referred to, by their qualified names *)\n");
    out.push_str("From CB Require Buf Iter Drain Traits Io Unstable.\n");
    out.push_str("Open Scope Z_scope.\n\n");
    out.push_str(PRELUDE);
    for (_, d) in &order {
        out.push_str(&d.text);
        out.push('\n');
    }
    // proof support, not part of any statement: how to open the generated definitions
    // (the two arithmetic functions and the loops stay folded: they are identified with the model's first)
    let mut names: Vec<String> = [
        "gen_mem_replace", "gen_swap_nonoverlapping", "gen_rotate_left", "gen_range_next", "gen_range_next_back",
        "gen_range_len", "gen_split_first", "gen_split_last", "gen_repr_guard", "gen_bounds_check",
    ]
    .iter()
    .map(|s| s.to_string())
    .collect();
    for (n, _) in &order {
        if !FREE_ARITH.contains(&n.as_str()) {
            names.push(format!("gen_{}", n));
        }
    }
    out.push_str("(* proof support: opens every generated definition except gen_add_mod / gen_sub_mod and the loops *)\n");
    write!(out, "Ltac coregen_unfold :=\n  cbv beta iota zeta delta\n    [{}].\n", names.join("\n     ")).unwrap();
    std::fs::write(&pos[1], &out).map_err(|e| format!("cannot write {}: {}", pos[1], e))?;

    let mut js = String::from("{\n \"translated\": [\n");
    for (k, (n, d)) in order.iter().enumerate() {
        let un = all.iter().find(|u| u.key == n).unwrap();
        write!(
            js,
            "  {{\"name\": {}, \"gen\": {}, \"hand\": {}, \"pure_hand\": {}, \"item\": {}, \"file\": {}, \"lines\": [{}, {}], \"params\": {}, \"ret\": {}, \"calls\": {}, \"loops\": {}, \"hand_callees\": {}}}{}\n",
            json_str(n), json_str(&format!("gen_{}", n)), json_str(un.hand), un.pure_hand, json_str(un.item), json_str(un.file),
            d.lines.0, d.lines.1, json_list(&d.params), json_str(&d.ret), json_list(&d.calls), json_list(&d.loops), json_list(&d.ext_calls),
            if k + 1 == order.len() { "" } else { "," }
        )
        .unwrap();
    }
    js.push_str(" ],\n \"skipped\": {\n");
    for (k, (n, why)) in skipped.iter().enumerate() {
        write!(js, "  {}: {}{}\n", json_str(n), json_str(why), if k + 1 == skipped.len() { "" } else { "," }).unwrap();
    }
    js.push_str(" },\n \"items\": {\n");
    for (k, un) in all.iter().enumerate() {
        write!(js, "  {}: {}{}\n", json_str(un.key), json_str(un.item), if k + 1 == all.len() { "" } else { "," }).unwrap();
    }
    js.push_str(" },\n \"covered_items\": {\n");
    // the destructors of the structs declared inside a translated function are rendered where a
    // value of the struct dies, as part of that function
    let mut cov: Vec<(String, String)> = vec![];
    for (n, _) in &order {
        let un = all.iter().find(|u| u.key == n).unwrap();
        if let Some(sr) = srcs.get(n.as_str()) {
            for st in &sr.block.stmts {
                if let syn::Stmt::Item(Item::Impl(im)) = st {
                    let is_drop = im.trait_.as_ref().map(|(_, p, _)| p.is_ident("Drop")).unwrap_or(false);
                    if let (true, Some(tn)) = (is_drop, impl_type_name(im)) {
                        cov.push((format!("{}::{}::drop", un.item, tn), n.clone()));
                    }
                }
            }
        }
    }
    for (k, (item, f)) in cov.iter().enumerate() {
        write!(js, "  {}: {}{}\n", json_str(item), json_str(f), if k + 1 == cov.len() { "" } else { "," }).unwrap();
    }
    write!(js, " }},\n \"std_table\": {}\n}}\n", stdtab::table_json()).unwrap();
    let jp = format!("{}.json", pos[1]);
    std::fs::write(&jp, js).map_err(|e| format!("cannot write {}: {}", jp, e))?;

    for (n, d) in &order {
        let un = all.iter().find(|u| u.key == n).unwrap();
        let mut extra = String::new();
        if !d.calls.is_empty() {
            write!(extra, " calls [{}]", d.calls.join(", ")).unwrap();
        }
        if !d.ext_calls.is_empty() {
            write!(extra, " relative to the hand-written model of [{}]", d.ext_calls.join(", ")).unwrap();
        }
        println!("translated fn {} {}:{}-{}{}", n, un.file, d.lines.0, d.lines.1, extra);
    }
    let mut rc = 0;
    for (n, why) in &skipped {
        println!("skipped fn {}: {}", n, why);
        let must = all.iter().any(|u| u.key == n && u.required) || strict || only.is_some();
        if must {
            eprintln!("rs2coq_core: fn {}: NOT TRANSLATED: {}", n, why);
            rc = 1;
        }
    }
    println!("summary: {} translated, {} skipped", order.len(), skipped.len());
    Ok(rc)
}

fn main() {
    match run() {
        Ok(rc) => std::process::exit(rc),
        Err(e) => {
            eprintln!("rs2coq_core: {}", e);
            std::process::exit(1);
        }
    }
}
